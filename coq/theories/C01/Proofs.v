(** C01 -- proofs about the header model (Model.v). *)
From Coq Require Import List NArith Bool String Ascii DecimalNat Permutation Lia Arith.
Require Import Verif.Base.Chars.
Require Import Verif.Gen.ImplAttrs.
Require Import Verif.C01.Model.
Import ListNotations.
Open Scope N_scope.
Open Scope list_scope.

(** * Lists *)

Lemma filter_partition_perm {A} (f : A -> bool) (l : list A) :
  Permutation l (filter f l ++ filter (fun x => negb (f x)) l).
Proof.
  induction l as [|a l IH]; cbn; [constructor|].
  destruct (f a); cbn.
  - now constructor.
  - now apply Permutation_cons_app.
Qed.

Lemma in_partition {A} (f : A -> bool) (l : list A) x :
  In x (filter f l ++ filter (fun x => negb (f x)) l) <-> In x l.
Proof.
  split; intro H.
  - eapply Permutation_in; [apply Permutation_sym, filter_partition_perm | exact H].
  - eapply Permutation_in; [apply filter_partition_perm | exact H].
Qed.

Lemma incl_flat_map {A B} (f : A -> list B) (l l' : list A) :
  incl l l' -> incl (flat_map f l) (flat_map f l').
Proof.
  intros H x Hx. apply in_flat_map in Hx as (a & Ha & Hx). apply in_flat_map. exists a. split; [now apply H | exact Hx].
Qed.

Lemma incl_flat_map_each {A B} (f : A -> list B) (l : list A) (t : list B) :
  (forall a, In a l -> incl (f a) t) -> incl (flat_map f l) t.
Proof.
  intros H x Hx. apply in_flat_map in Hx as (a & Ha & Hx). exact (H a Ha x Hx).
Qed.

Lemma Forall_flat_map {A B} (P : B -> Prop) (f : A -> list B) (l : list A) :
  (forall a, In a l -> Forall P (f a)) -> Forall P (flat_map f l).
Proof.
  intros H. apply Forall_forall. intros x Hx. apply in_flat_map in Hx as (a & Ha & Hx).
  specialize (H a Ha). rewrite Forall_forall in H. now apply H.
Qed.

Lemma NoDup_app_intro {A} (l1 l2 : list A) :
  NoDup l1 -> NoDup l2 -> (forall x, In x l1 -> In x l2 -> False) -> NoDup (l1 ++ l2).
Proof.
  induction l1 as [|a l1 IH]; cbn; intros H1 H2 Hd; [exact H2|].
  inversion H1 as [|? ? Hna Hnd]; subst. constructor.
  - intro Hin. apply in_app_or in Hin as [Hin|Hin]; [now apply Hna | exact (Hd a (or_introl eq_refl) Hin)].
  - apply IH; auto. intros x Hx1 Hx2. exact (Hd x (or_intror Hx1) Hx2).
Qed.

(** * Kinds and the printing order *)

Lemma kinds_exhaustive p : is_lt p = true \/ is_ty p = true \/ is_const p = true.
Proof. unfold is_lt, is_ty, is_const. destruct (p_kind p); auto. Qed.

Lemma nonlt_kind p : negb (is_lt p) = true -> p_kind p <> KLt.
Proof. unfold is_lt. destruct (p_kind p); cbn; congruence. Qed.

Lemma lts_first_app (l1 l2 : list pkind) :
  Forall (fun k => k = KLt) l1 -> Forall (fun k => k <> KLt) l2 -> lts_first (l1 ++ l2) = true.
Proof.
  intros H1 H2. induction H1 as [|k l1 Hk H1 IH]; cbn.
  - destruct l2 as [|k l2]; [reflexivity|]. inversion H2 as [|? ? Hk Hl2]; subst.
    assert (Hall : forallb (fun k0 => match k0 with KLt => false | _ => true end) l2 = true).
    { apply forallb_forall. intros x Hx. rewrite Forall_forall in Hl2. specialize (Hl2 x Hx). now destruct x. }
    destruct k; [congruence | exact Hall | exact Hall].
  - subst k. exact IH.
Qed.

Lemma in_impl_params ps q : In q (impl_params ps) <-> exists p, In p ps /\ q = drop_default p.
Proof.
  unfold impl_params. rewrite in_map_iff. split.
  - intros (p & Hq & Hp). exists p. split; [now apply in_partition in Hp | now symmetry].
  - intros (p & Hp & Hq). exists p. split; [now symmetry | now apply in_partition].
Qed.

Lemma impl_params_names ps : map p_name (impl_params ps) = ty_args_of ps.
Proof. unfold impl_params, ty_args_of. rewrite map_map. reflexivity. Qed.

Lemma ty_args_of_perm ps : Permutation (map p_name ps) (ty_args_of ps).
Proof. unfold ty_args_of. apply Permutation_map, filter_partition_perm. Qed.

Lemma ty_args_incl g : incl (ty_args g) (g_names g).
Proof. intros x Hx. eapply Permutation_in; [apply Permutation_sym, ty_args_of_perm | exact Hx]. Qed.

Lemma impl_params_order ps : lts_first (map p_kind (impl_params ps)) = true.
Proof.
  unfold impl_params. rewrite map_map, map_app. apply lts_first_app.
  - apply Forall_forall. intros k Hk. apply in_map_iff in Hk as (p & Hk & Hp).
    apply filter_In in Hp as [_ Hp]. cbn in Hk. subst k. unfold is_lt in Hp. now destruct (p_kind p).
  - apply Forall_forall. intros k Hk. apply in_map_iff in Hk as (p & Hk & Hp).
    apply filter_In in Hp as [_ Hp]. cbn in Hk. subst k. now apply nonlt_kind.
Qed.

Lemma impl_params_nodefault ps : Forall (fun q => p_default q = None) (impl_params ps).
Proof. apply Forall_forall. intros q Hq. apply in_impl_params in Hq as (p & _ & ->). reflexivity. Qed.

Lemma impl_params_param_names ps : incl (flat_map param_names (impl_params ps)) (flat_map param_names ps).
Proof.
  apply incl_flat_map_each. intros q Hq. apply in_impl_params in Hq as (p & Hp & ->).
  intros x Hx. apply in_flat_map. exists p. split; [exact Hp | exact Hx].
Qed.

Lemma impl_params_param_tys ps : incl (flat_map param_tys (impl_params ps)) (flat_map param_tys ps).
Proof.
  apply incl_flat_map_each. intros q Hq. apply in_impl_params in Hq as (p & Hp & ->).
  intros x Hx. apply in_flat_map. exists p. split; [exact Hp | exact Hx].
Qed.

(** * The general well-formedness lemma *)

Definition extends (p q : param) : Prop :=
  p_kind q = p_kind p /\ p_name q = p_name p /\ p_cty q = p_cty p /\ exists extra, p_bounds q = p_bounds p ++ extra.

Lemma extends_refl p : extends p p.
Proof. repeat split. exists []. now rewrite app_nil_r. Qed.

Lemma extends_prints p q : extends p q -> prints p (drop_default q).
Proof. intros (Hk & Hn & Hc & He). repeat split; assumption. Qed.

(* [ps] is the parameter list of the extended generics the derive prints *)
Record ext (g : generics) (ps : list param) : Prop := {
  ext_decl : forall p, In p (g_params g) -> exists q, In q ps /\ extends p q;
  ext_only : forall q, In q ps -> (exists p, In p (g_params g) /\ extends p q) \/ fresh_name (p_name q) = true;
  ext_nodup : NoDup (map p_name ps) }.

Definition targs (tr : option (str * list ty)) : list ty := match tr with Some (_, a) => a | None => [] end.

Lemma wf_mk g ps wh tr self :
  ext g ps ->
  incl (g_where g) wh ->
  Forall (ty_ok g) (flat_map param_tys ps ++ targs tr ++ [self] ++ flat_map pred_tys wh) ->
  existsb is_input (targs tr ++ [self]) = true ->
  incl (flat_map param_names ps ++ flat_map ty_names (targs tr) ++ ty_names self ++ flat_map pred_names wh)
       (map p_name ps) ->
  wf_header g (mk ps wh tr self).
Proof.
  intros [Hd Ho Hn] Hw Ht Hi Hs. constructor; cbn [mk h_params h_trait h_self h_where].
  - rewrite impl_params_names. eapply Permutation_NoDup; [apply ty_args_of_perm | exact Hn].
  - apply impl_params_order.
  - apply impl_params_nodefault.
  - intros p Hp. destruct (Hd p Hp) as (q & Hq & He). exists (drop_default q). split.
    + apply in_impl_params. now exists q.
    + now apply extends_prints.
  - intros q' Hq'. apply in_impl_params in Hq' as (q & Hq & ->). destruct (Ho q Hq) as [(p & Hp & He)|Hf].
    + left. exists p. split; [exact Hp | now apply extends_prints].
    + right. exact Hf.
  - unfold header_tys, trait_args; cbn [h_params h_trait h_self h_where]. fold (targs tr).
    rewrite !Forall_app in *. destruct Ht as (H1 & H2 & H3 & H4). repeat split; try assumption.
    apply Forall_forall. intros x Hx. apply impl_params_param_tys in Hx. rewrite Forall_forall in H1. now apply H1.
  - unfold trait_args; cbn [h_trait h_self]. exact Hi.
  - unfold header_names, trait_args; cbn [h_params h_trait h_self h_where]. fold (targs tr).
    intros x Hx. rewrite impl_params_names.
    eapply Permutation_in; [apply ty_args_of_perm|]. apply Hs.
    rewrite !in_app_iff in *. destruct Hx as [Hx|Hx]; [left; now apply impl_params_param_names | right; exact Hx].
  - exact Hw.
Qed.

(** * Facts about declared (user) generics *)

Section User.
  Variable g : generics.
  Hypothesis Hg : wf_generics g.

  Lemma user_param_tys : flat_map param_tys (g_params g) = [].
  Proof.
    destruct Hg as [_ _ Hb _ _]. induction Hb as [|p l Hp Hl IH]; cbn; [reflexivity|].
    rewrite IH, app_nil_r. unfold param_tys. induction Hp as [|b bs Hb' Hbs IHb]; cbn; [reflexivity|].
    rewrite IHb. destruct b; cbn in *; try contradiction. reflexivity.
  Qed.

  Lemma user_pred_tys : flat_map pred_tys (g_where g) = [].
  Proof.
    destruct Hg as [_ _ _ Hp _]. induction Hp as [|p l Hp Hl IH]; cbn; [reflexivity|].
    rewrite IH. destruct p; cbn in *; [reflexivity | contradiction].
  Qed.

  Lemma user_param_names : incl (flat_map param_names (g_params g)) (g_names g).
  Proof. destruct Hg as [_ _ _ _ Hs]. intros x Hx. apply Hs. apply in_or_app. now left. Qed.

  Lemma user_pred_names : incl (flat_map pred_names (g_where g)) (g_names g).
  Proof. destruct Hg as [_ _ _ _ Hs]. intros x Hx. apply Hs. apply in_or_app. now right. Qed.

  Lemma user_not_fresh x : In x (g_names g) -> fresh_name x = false.
  Proof.
    destruct Hg as [_ Hf _ _ _]. intros Hx. apply in_map_iff in Hx as (p & <- & Hp).
    rewrite Forall_forall in Hf. now apply Hf.
  Qed.

  (** ext for the recurring shapes of extended parameter lists *)

  Lemma ext_same : ext g (g_params g).
  Proof.
    constructor.
    - intros p Hp. exists p. split; [exact Hp | apply extends_refl].
    - intros q Hq. left. exists q. split; [exact Hq | apply extends_refl].
    - apply Hg.
  Qed.

  Lemma ext_map (f : param -> param) :
    (forall p, extends p (f p)) -> ext g (map f (g_params g)).
  Proof.
    intros Hf. constructor.
    - intros p Hp. exists (f p). split; [now apply in_map | apply Hf].
    - intros q Hq. apply in_map_iff in Hq as (p & <- & Hp). left. exists p. split; [exact Hp | apply Hf].
    - rewrite map_map. erewrite map_ext; [apply Hg|]. intros p. cbn. destruct (Hf p) as (_ & Hn & _). exact Hn.
  Qed.

  Lemma ext_perm_fresh ps fs :
    Permutation ps (g_params g ++ fs) ->
    Forall (fun q => fresh_name (p_name q) = true) fs ->
    NoDup (map p_name fs) ->
    ext g ps.
  Proof.
    intros Hp Hf Hn. constructor.
    - intros p Hin. exists p. split; [|apply extends_refl].
      eapply Permutation_in; [apply Permutation_sym, Hp|]. apply in_or_app. now left.
    - intros q Hq. eapply Permutation_in in Hq; [|exact Hp]. apply in_app_or in Hq as [Hq|Hq].
      + left. exists q. split; [exact Hq | apply extends_refl].
      + right. rewrite Forall_forall in Hf. now apply Hf.
    - eapply Permutation_NoDup; [apply Permutation_sym, Permutation_map, Hp|].
      rewrite map_app. apply NoDup_app_intro; [apply Hg | exact Hn|].
      intros x Hx1 Hx2. apply user_not_fresh in Hx1. apply in_map_iff in Hx2 as (q & <- & Hq).
      rewrite Forall_forall in Hf. rewrite (Hf q Hq) in Hx1. discriminate.
  Qed.

  Lemma ext_app_fresh fs :
    Forall (fun q => fresh_name (p_name q) = true) fs -> NoDup (map p_name fs) -> ext g (g_params g ++ fs).
  Proof. intros. eapply ext_perm_fresh; eauto. Qed.
End User.

(* utils.rs add_extra_generic_type_param keeps every parameter: lifetimes, types, new, consts *)
Lemma type_param_insert_perm (l : list param) x :
  Permutation (filter is_lt l ++ filter is_ty l ++ [x] ++ filter is_const l) (l ++ [x]).
Proof.
  induction l as [|a l IH]; cbn; [reflexivity|].
  unfold is_lt, is_ty, is_const in *. destruct (p_kind a); cbn.
  - now constructor.
  - etransitivity; [|constructor; exact IH]. symmetry. apply Permutation_middle.
  - etransitivity; [|constructor; exact IH].
    rewrite !app_assoc. symmetry. etransitivity; [apply Permutation_middle|]. rewrite <- !app_assoc. reflexivity.
Qed.

(** * Every family *)

Section Families.
  Variable g : generics.
  Hypothesis Hg : wf_generics g.

  Lemma ext_names ps : ext g ps -> incl (g_names g) (map p_name ps).
  Proof.
    intros [Hd _ _] x Hx. apply in_map_iff in Hx as (p & <- & Hp).
    destruct (Hd p Hp) as (q & Hq & (_ & Hn & _)). rewrite <- Hn. now apply in_map.
  Qed.

  (* where-clause = front ++ user's ++ back: covers every family *)
  Lemma wf_mk2 ps front back tr self :
    ext g ps ->
    Forall (ty_ok g) (flat_map param_tys ps) ->
    incl (flat_map param_names ps) (map p_name ps) ->
    Forall (ty_ok g) (targs tr ++ [self] ++ flat_map pred_tys (front ++ back)) ->
    existsb is_input (targs tr ++ [self]) = true ->
    incl (flat_map ty_names (targs tr) ++ ty_names self ++ flat_map pred_names (front ++ back)) (map p_name ps) ->
    wf_header g (mk ps (front ++ g_where g ++ back) tr self).
  Proof.
    intros He Ht Hn Ht2 Hi Hn2. apply wf_mk; auto.
    - intros x Hx. apply in_or_app. right. apply in_or_app. now left.
    - rewrite !flat_map_app in *. rewrite (user_pred_tys g Hg). rewrite !Forall_app in *.
      destruct Ht2 as (A & B & C & D). repeat split; auto.
    - rewrite !flat_map_app in *. intros x Hx. rewrite !in_app_iff in Hx.
      destruct Hx as [Hx|[Hx|[Hx|[Hx|[Hx|Hx]]]]].
      + now apply Hn.
      + apply Hn2. rewrite !in_app_iff. auto.
      + apply Hn2. rewrite !in_app_iff. auto.
      + apply Hn2. rewrite !in_app_iff. auto.
      + apply (ext_names ps He). now apply (user_pred_names g Hg).
      + apply Hn2. rewrite !in_app_iff. auto.
  Qed.

  (** the three kinds of printed parameter lists *)

  Lemma same_tys : Forall (ty_ok g) (flat_map param_tys (g_params g)).
  Proof. rewrite (user_param_tys g Hg). constructor. Qed.

  Lemma same_names : incl (flat_map param_names (g_params g)) (map p_name (g_params g)).
  Proof. apply (user_param_names g Hg). Qed.

  Definition bounded (B : param -> bound) (p : param) : param := if is_ty p then add_bound (B p) p else p.

  Lemma bounded_extends B p : extends p (bounded B p).
  Proof.
    unfold bounded. destruct (is_ty p); [|apply extends_refl].
    repeat split. exists [B p]. reflexivity.
  Qed.

  Lemma bounded_names B : map p_name (map (bounded B) (g_params g)) = g_names g.
  Proof.
    rewrite map_map. apply map_ext. intros p. unfold bounded. now destruct (is_ty p).
  Qed.

  Lemma bounded_tys B :
    (forall p, In p (g_params g) -> Forall (ty_ok g) (bound_tys (B p))) ->
    Forall (ty_ok g) (flat_map param_tys (map (bounded B) (g_params g))).
  Proof.
    intros HB. apply Forall_flat_map. intros q Hq. apply in_map_iff in Hq as (p & <- & Hp).
    unfold bounded. destruct (is_ty p).
    - unfold param_tys, add_bound; cbn [p_bounds]. rewrite flat_map_app. apply Forall_app. split.
      + pose proof same_tys as H. rewrite Forall_forall in H. apply Forall_forall. intros x Hx. apply H.
        apply in_flat_map. exists p. split; [exact Hp | exact Hx].
      + cbn. rewrite app_nil_r. now apply HB.
    - pose proof same_tys as H. rewrite Forall_forall in H. apply Forall_forall. intros x Hx. apply H.
      apply in_flat_map. exists p. split; [exact Hp | exact Hx].
  Qed.

  Lemma bounded_param_names B :
    (forall p, In p (g_params g) -> incl (bound_names (B p)) (g_names g)) ->
    incl (flat_map param_names (map (bounded B) (g_params g))) (map p_name (map (bounded B) (g_params g))).
  Proof.
    intros HB. rewrite bounded_names. apply incl_flat_map_each. intros q Hq. apply in_map_iff in Hq as (p & <- & Hp).
    assert (Hu : incl (param_names p) (g_names g)).
    { intros x Hx. apply same_names. apply in_flat_map. exists p. split; [exact Hp | exact Hx]. }
    unfold bounded. destruct (is_ty p); [|exact Hu].
    unfold param_names, add_bound; cbn [p_bounds]. rewrite flat_map_app. apply incl_app; [exact Hu|].
    cbn. rewrite app_nil_r. now apply HB.
  Qed.

  Lemma perm_fresh_tys ps fs :
    Permutation ps (g_params g ++ fs) -> flat_map param_tys fs = [] ->
    Forall (ty_ok g) (flat_map param_tys ps).
  Proof.
    intros Hp Hf. apply Forall_flat_map. intros q Hq. eapply Permutation_in in Hq; [|exact Hp].
    apply in_app_or in Hq as [Hq|Hq].
    - pose proof same_tys as H. rewrite Forall_forall in H. apply Forall_forall. intros x Hx. apply H.
      apply in_flat_map. exists q. split; [exact Hq | exact Hx].
    - assert (param_tys q = []) as ->; [|constructor].
      destruct (param_tys q) as [|t l] eqn:E; [reflexivity|].
      assert (In t (flat_map param_tys fs)) as Hin by (apply in_flat_map; exists q; split; [exact Hq | rewrite E; now left]).
      rewrite Hf in Hin. contradiction.
  Qed.

  Lemma perm_fresh_names ps fs :
    Permutation ps (g_params g ++ fs) -> flat_map param_names fs = [] ->
    incl (flat_map param_names ps) (map p_name ps).
  Proof.
    intros Hp Hf. apply incl_flat_map_each. intros q Hq. eapply Permutation_in in Hq; [|exact Hp].
    assert (Hsub : incl (g_names g) (map p_name ps)).
    { intros x Hx. eapply Permutation_in; [apply Permutation_sym, Permutation_map, Hp|].
      rewrite map_app. apply in_or_app. now left. }
    apply in_app_or in Hq as [Hq|Hq].
    - intros x Hx. apply Hsub, same_names. apply in_flat_map. exists q. split; [exact Hq | exact Hx].
    - assert (param_names q = []) as ->; [|intros x []].
      destruct (param_names q) as [|t l] eqn:E; [reflexivity|].
      assert (In t (flat_map param_names fs)) as Hin by (apply in_flat_map; exists q; split; [exact Hq | rewrite E; now left]).
      rewrite Hf in Hin. contradiction.
  Qed.

  Lemma perm_names_incl ps fs : Permutation ps (g_params g ++ fs) -> incl (g_names g ++ map p_name fs) (map p_name ps).
  Proof.
    intros Hp x Hx. eapply Permutation_in; [apply Permutation_sym, Permutation_map, Hp|]. now rewrite map_app.
  Qed.

  Lemma self_names r : incl (ref_names r) (g_names g) -> incl (ty_names (TInput r (ty_args g))) (g_names g).
  Proof. intros Hr. cbn [ty_names]. apply incl_app; [exact Hr | apply ty_args_incl]. Qed.

  Let self := TInput RNo (ty_args g).

  (* ---- plain generics, where-clause extended at either end *)
  Lemma wf_plain front back tr slf :
    Forall (ty_ok g) (targs tr ++ [slf] ++ flat_map pred_tys (front ++ back)) ->
    existsb is_input (targs tr ++ [slf]) = true ->
    incl (flat_map ty_names (targs tr) ++ ty_names slf ++ flat_map pred_names (front ++ back)) (g_names g) ->
    wf_header g (mk (g_params g) (front ++ g_where g ++ back) tr slf).
  Proof.
    intros. apply wf_mk2; auto using same_tys, same_names. now apply ext_same.
  Qed.

  Lemma wf_bounded B front tr :
    (forall p, In p (g_params g) -> Forall (ty_ok g) (bound_tys (B p))) ->
    (forall p, In p (g_params g) -> incl (bound_names (B p)) (g_names g)) ->
    Forall (ty_ok g) (flat_map pred_tys front) ->
    incl (flat_map pred_names front) (g_names g) ->
    wf_header g (mk (map (bounded B) (g_params g)) (front ++ g_where g) (Some (tr, [])) self).
  Proof.
    intros Ht Hn Hft Hfn. rewrite <- (app_nil_r (g_where g)). apply wf_mk2.
    - apply ext_map; auto. apply bounded_extends.
    - now apply bounded_tys.
    - now apply bounded_param_names.
    - rewrite app_nil_r. cbn [targs app]. constructor; [reflexivity | exact Hft].
    - reflexivity.
    - rewrite app_nil_r, bounded_names. cbn [targs flat_map app]. apply incl_app; [|exact Hfn].
      apply self_names. intros x [].
  Qed.
End Families.

(** * Fresh names *)

Lemma uint_str_inj u v : uint_str u = uint_str v -> u = v.
Proof.
  revert v. induction u; intros v H; destruct v; cbn in H; try discriminate; try reflexivity;
    injection H as H; f_equal; now apply IHu.
Qed.

Lemma dec_inj a b : dec a = dec b -> a = b.
Proof.
  unfold dec. intros H. apply uint_str_inj in H.
  rewrite <- (DecimalNat.Unsigned.of_to a), <- (DecimalNat.Unsigned.of_to b). now rewrite H.
Qed.

Lemma n_from_inj a b : n_from a = n_from b -> a = b.
Proof. unfold n_from. intros H. apply app_inv_head in H. now apply dec_inj. Qed.

Lemma n_from_fresh i : fresh_name (n_from i) = true.
Proof. reflexivity. Qed.

Lemma numbered_from_nodup n : NoDup (numbered_from n).
Proof.
  unfold numbered_from. apply FinFun.Injective_map_NoDup; [|apply seq_NoDup].
  intros a b. apply n_from_inj.
Qed.

Lemma numbered_from_fresh n : Forall (fun x => fresh_name x = true) (numbered_from n).
Proof. apply Forall_forall. intros x Hx. apply in_map_iff in Hx as (i & <- & _). apply n_from_fresh. Qed.

Lemma ty_params_names ids : map p_name (map (fun id => ty_param id []) ids) = ids.
Proof. rewrite map_map. cbn. apply map_id. Qed.

Lemma ty_params_tys ids : flat_map param_tys (map (fun id => ty_param id []) ids) = [].
Proof. induction ids; cbn; auto. Qed.

Lemma ty_params_pnames ids : flat_map param_names (map (fun id => ty_param id []) ids) = [].
Proof. induction ids; cbn; auto. Qed.

Section Main.
  Variable g : generics.
  Hypothesis Hg : wf_generics g.

  Let self := TInput RNo (ty_args g).

  Lemma wf_fresh ps fs front back tr slf :
    Permutation ps (g_params g ++ fs) ->
    Forall (fun q => fresh_name (p_name q) = true) fs -> NoDup (map p_name fs) ->
    flat_map param_tys fs = [] -> flat_map param_names fs = [] ->
    Forall (ty_ok g) (targs tr ++ [slf] ++ flat_map pred_tys (front ++ back)) ->
    existsb is_input (targs tr ++ [slf]) = true ->
    incl (flat_map ty_names (targs tr) ++ ty_names slf ++ flat_map pred_names (front ++ back))
         (g_names g ++ map p_name fs) ->
    wf_header g (mk ps (front ++ g_where g ++ back) tr slf).
  Proof.
    intros Hp Hf Hn Ht Hpn Ht2 Hi Hn2. apply wf_mk2; auto.
    - eapply ext_perm_fresh; eauto.
    - eapply perm_fresh_tys; eauto.
    - eapply perm_fresh_names; eauto.
    - intros x Hx. eapply perm_names_incl; eauto.
  Qed.

  Lemma wf_plain_fb front back tr slf :
    Forall (ty_ok g) (targs tr ++ [slf] ++ flat_map pred_tys (front ++ back)) ->
    existsb is_input (targs tr ++ [slf]) = true ->
    incl (flat_map ty_names (targs tr) ++ ty_names slf ++ flat_map pred_names (front ++ back)) (g_names g) ->
    wf_header g (mk (g_params g) (front ++ g_where g ++ back) tr slf).
  Proof.
    intros A B C. apply (wf_fresh (g_params g) [] front back); auto.
    - now rewrite app_nil_r.
    - constructor.
    - cbn. now rewrite app_nil_r.
  Qed.

  Lemma wf_plain0 tr slf :
    Forall (ty_ok g) (targs tr ++ [slf]) ->
    existsb is_input (targs tr ++ [slf]) = true ->
    incl (flat_map ty_names (targs tr) ++ ty_names slf) (g_names g) ->
    wf_header g (mk (g_params g) (g_where g) tr slf).
  Proof.
    intros A B C. rewrite <- (app_nil_r (g_where g)). apply (wf_plain_fb [] []); cbn [app flat_map]; rewrite ?app_nil_r; auto.
  Qed.

  Lemma self_ok : ty_ok g self.
  Proof. reflexivity. Qed.

  Lemma self_incl : incl (ty_names self) (g_names g).
  Proof. apply self_names. intros x []. Qed.

  Ltac names :=
    cbn [targs flat_map ty_names ref_names pred_names bound_names opt_list app]; rewrite ?app_nil_r;
    repeat (apply incl_app); try (apply ty_args_incl); try (intros ? []); auto.

  (* ---------------- one lemma per family *)

  Lemma wf_FInherent : wf_header g (header FInherent g).
  Proof.
    unfold header; cbv beta iota zeta. apply wf_plain0.
    - cbn. repeat constructor.
    - reflexivity.
    - names.
  Qed.

  Lemma wf_FFmt tr bounds :
    incl (flat_map pred_names bounds) (g_names g) -> Forall (ty_ok g) (flat_map pred_tys bounds) ->
    wf_header g (header (FFmt tr bounds) g).
  Proof.
    intros Hn Ht. unfold header; cbv beta iota zeta.
    change (g_where g ++ bounds) with ([] ++ g_where g ++ bounds). apply wf_plain_fb.
    - cbn [targs app]. constructor; [reflexivity | exact Ht].
    - reflexivity.
    - names.
  Qed.

  Lemma add_like_eq tr :
    g_params (add_extra_type_param_bound_op_output g tr)
    = map (bounded (fun p => BTrait (ops_path tr) [] (Some (TParam (p_name p))))) (g_params g).
  Proof. reflexivity. Qed.

  Lemma wf_FAddLike tr : wf_header g (header (FAddLike tr) g).
  Proof.
    unfold header; cbv beta iota zeta. rewrite add_like_eq. cbn [add_extra_type_param_bound_op_output g_where].
    apply (wf_bounded g Hg _ []).
    - intros p _. cbn. repeat constructor.
    - intros p Hp. cbn. intros x [<-|[]]. now apply in_map.
    - constructor.
    - intros x [].
  Qed.

  Lemma wf_FAddAssignLike tr : wf_header g (header (FAddAssignLike tr) g).
  Proof.
    unfold header; cbv beta iota zeta.
    change (g_params (add_extra_ty_param_bound_op g tr)) with (map (bounded (fun _ => BTrait (ops_path tr) [] None)) (g_params g)).
    cbn [add_extra_ty_param_bound_op add_extra_ty_param_bound g_where].
    apply (wf_bounded g Hg _ []).
    - intros p _. cbn. constructor.
    - intros p _ x [].
    - constructor.
    - intros x [].
  Qed.

  Lemma wf_FFrom arg :
    plain_from_arg arg -> incl (ty_names arg) (g_names g) -> wf_header g (header (FFrom arg) g).
  Proof.
    intros Hp Hn. unfold header; cbv beta iota zeta. apply wf_plain0.
    - cbn [targs app]. constructor; [|repeat constructor].
      destruct arg as [[] ?| | | |[] ?| ]; cbn in *; auto; contradiction.
    - cbn [targs app existsb]. apply orb_true_iff. right. reflexivity.
    - names.
  Qed.

  Lemma wf_FFromForward ftys :
    incl (flat_map u_free ftys) (g_names g) -> wf_header g (header (FFromForward ftys) g).
  Proof.
    intros Hu. unfold header; cbv beta iota zeta.
    set (ids := numbered_from (length ftys)).
    match goal with |- wf_header g (mk _ (g_where g ++ ?b) _ _) => change (g_where g ++ b) with ([] ++ g_where g ++ b) end.
    apply (wf_fresh _ (map (fun id => ty_param id []) ids)).
    - reflexivity.
    - apply Forall_forall. intros q Hq. apply in_map_iff in Hq as (id & <- & Hid). cbn.
      pose proof (numbered_from_fresh (length ftys)) as H. rewrite Forall_forall in H. now apply H.
    - rewrite ty_params_names. apply numbered_from_nodup.
    - apply ty_params_tys.
    - apply ty_params_pnames.
    - cbn [targs app]. constructor; [exact I|]. constructor; [reflexivity|].
      apply Forall_flat_map. intros pr Hpr. apply in_map_iff in Hpr as ([u id] & <- & _). cbn. repeat constructor.
    - reflexivity.
    - rewrite ty_params_names. cbn [targs flat_map ty_names app]. rewrite app_nil_r.
      repeat apply incl_app.
      + apply incl_appr, incl_refl.
      + cbn. intros x [].
      + apply incl_appl, ty_args_incl.
      + apply incl_flat_map_each. intros pr Hpr. apply in_map_iff in Hpr as ([u id] & <- & Hin).
        cbn. rewrite ?app_nil_r. apply incl_app.
        * apply incl_appl. intros x Hx. apply Hu. apply in_flat_map. exists u. split; [|exact Hx].
          now apply in_combine_l in Hin.
        * apply incl_appr. intros x [<-|[]]. now apply in_combine_r in Hin.
  Qed.

  Lemma wf_ref_param lt_ front back tr slf (sel : refsel) :
    fresh_name lt_ = true ->
    Forall (ty_ok g) (targs tr ++ [slf] ++ flat_map pred_tys (front ++ back)) ->
    existsb is_input (targs tr ++ [slf]) = true ->
    incl (flat_map ty_names (targs tr) ++ ty_names slf ++ flat_map pred_names (front ++ back))
         (g_names g ++ (if is_ref sel then [lt_] else [])) ->
    wf_header g (mk (if is_ref sel then g_params g ++ [lt_param lt_] else g_params g) (front ++ g_where g ++ back) tr slf).
  Proof.
    intros Hf A B C. destruct (is_ref sel).
    - apply (wf_fresh _ [lt_param lt_]).
      + reflexivity.
      + constructor; [exact Hf | constructor].
      + cbn. constructor; [intros [] | constructor].
      + reflexivity.
      + reflexivity.
      + exact A.
      + exact B.
      + exact C.
    - rewrite app_nil_r in C. now apply wf_plain_fb.
  Qed.

  Lemma refk_names sel lt_ : incl (ref_names (refk_of sel lt_)) (if is_ref sel then [lt_] else []).
  Proof. destruct sel; cbn; intros x Hx; auto. Qed.

  Lemma wf_FInto sel out :
    incl (flat_map u_free out) (g_names g) -> wf_header g (header (FInto sel out) g).
  Proof.
    intros Hu. unfold header; cbv beta iota zeta. rewrite <- (app_nil_r (g_where g)).
    apply (wf_ref_param lt_into [] []).
    - reflexivity.
    - cbn. repeat constructor.
    - reflexivity.
    - cbn [targs flat_map ty_names app]. rewrite !app_nil_r. repeat apply incl_app.
      + apply incl_appr, refk_names.
      + apply incl_appl, ty_args_incl.
      + apply incl_appr, refk_names.
      + apply incl_appl, Hu.
  Qed.

  Lemma wf_FAsRef tr k :
    incl (flat_map u_free (utexts_of (FAsRef tr k))) (g_names g) -> wf_header g (header (FAsRef tr k) g).
  Proof.
    intros Hu. unfold header; cbv beta iota zeta. destruct k as [ret|fty ret|fty]; cbn in Hu; rewrite ?app_nil_r in Hu.
    - apply wf_plain0.
      + cbn. repeat constructor.
      + cbn [targs app existsb]. apply orb_true_iff. right. reflexivity.
      + names.
    - match goal with |- wf_header g (mk _ (g_where g ++ ?b) _ _) => change (g_where g ++ b) with ([] ++ g_where g ++ b) end.
      apply wf_plain_fb.
      + cbn. repeat constructor.
      + cbn [targs app existsb]. apply orb_true_iff. right. reflexivity.
      + cbn [targs flat_map ty_names ref_names pred_names bound_names opt_list app]. rewrite ?app_nil_r.
        apply incl_app_inv in Hu as [H1 H2]. repeat apply incl_app; auto. apply ty_args_incl.
    - match goal with |- wf_header g (mk _ (g_where g ++ ?b) _ _) => change (g_where g ++ b) with ([] ++ g_where g ++ b) end.
      apply (wf_fresh _ [ty_param n_as [maybe_sized]]).
      + reflexivity.
      + constructor; [reflexivity | constructor].
      + cbn. constructor; [intros [] | constructor].
      + reflexivity.
      + reflexivity.
      + cbn. repeat constructor.
      + cbn [targs app existsb]. apply orb_true_iff. right. reflexivity.
      + cbn [targs flat_map ty_names ref_names pred_names bound_names opt_list app map p_name ty_param]. rewrite ?app_nil_r.
        intros x Hx. apply in_app_iff. destruct Hx as [<-|Hx]; [right; now left|].
        rewrite !in_app_iff in Hx. destruct Hx as [Hx|[Hx|Hx]].
        * left. now apply ty_args_incl.
        * left. now apply Hu.
        * right. exact Hx.
  Qed.

  Lemma wf_FDeref tr fwd :
    incl (flat_map u_free (utexts_of (FDeref tr fwd))) (g_names g) -> wf_header g (header (FDeref tr fwd) g).
  Proof.
    intros Hu. unfold header; cbv beta iota zeta. destruct fwd as [fty|]; cbn in Hu; rewrite ?app_nil_r in Hu.
    - cbn [add_extra_where_clauses g_params g_where].
      match goal with |- wf_header g (mk _ (?f ++ g_where g) _ _) => rewrite <- (app_nil_r (g_where g)); apply (wf_plain_fb f []) end.
      + cbn. repeat constructor.
      + reflexivity.
      + names.
    - apply wf_plain0.
      + cbn. repeat constructor.
      + reflexivity.
      + names.
  Qed.

  (* utils.rs add_where_clauses_for_new_ident, as used by index / mul *)
  Lemma wf_new_ident nfields id preds tr :
    fresh_name id = true ->
    Forall (ty_ok g) (flat_map pred_tys preds) ->
    incl (flat_map pred_names preds) (g_names g ++ [id]) ->
    let gx := add_where_clauses_for_new_ident g nfields id preds true in
    wf_header g (mk (g_params gx) (g_where gx) (Some (tr, [TParam id])) self).
  Proof.
    intros Hf Ht Hn gx. subst gx. unfold add_where_clauses_for_new_ident.
    set (p := if Nat.ltb 1 nfields then ty_param id [copy_bound] else ty_param id []).
    assert (Hp : p_name p = id /\ param_tys p = [] /\ param_names p = []).
    { subst p. destruct (Nat.ltb 1 nfields); cbn; auto. }
    destruct Hp as (Hp1 & Hp2 & Hp3).
    cbn [add_extra_generic_type_param add_extra_where_clauses g_params g_where].
    rewrite <- (app_nil_r (g_where g)).
    apply (wf_fresh _ [p] preds []).
    - apply type_param_insert_perm.
    - constructor; [now rewrite Hp1 | constructor].
    - cbn. constructor; [intros [] | constructor].
    - cbn. now rewrite Hp2.
    - cbn. now rewrite Hp3.
    - rewrite app_nil_r. cbn [targs app]. constructor; [exact I|]. constructor; [reflexivity | exact Ht].
    - reflexivity.
    - rewrite app_nil_r. cbn [targs flat_map ty_names app map]. rewrite Hp1.
      intros x Hx. destruct Hx as [<-|Hx]; [apply in_app_iff; right; now left|].
      apply in_app_iff in Hx as [Hx|Hx].
      + apply in_app_iff. left. now apply self_incl.
      + now apply Hn.
  Qed.

  Lemma wf_FIndex tr fty : incl (u_free fty) (g_names g) -> wf_header g (header (FIndex tr fty) g).
  Proof.
    intros Hu. unfold header; cbv beta iota zeta. apply wf_new_ident.
    - reflexivity.
    - cbn. repeat constructor.
    - cbn [flat_map pred_names ty_names ref_names bound_names opt_list app]. rewrite ?app_nil_r.
      intros y Hy. apply in_app_iff in Hy as [Hy|[<-|[]]]; apply in_app_iff;
        [left; now apply Hu | right; now left].
  Qed.

  Lemma wf_FMulLike tr n dtys :
    incl (flat_map u_free dtys) (g_names g) -> wf_header g (header (FMulLike tr n dtys) g).
  Proof.
    intros Hu. unfold header; cbv beta iota zeta. apply wf_new_ident.
    - reflexivity.
    - apply Forall_flat_map. intros pr Hpr. apply in_map_iff in Hpr as (u & <- & _). cbn. repeat constructor.
    - apply incl_flat_map_each. intros pr Hpr. apply in_map_iff in Hpr as (u & <- & Hin).
      assert (Hx : incl (u_free u) (g_names g)).
      { intros x Hx. apply Hu. apply in_flat_map. exists u. split; auto. }
      cbn [pred_names ty_names ref_names flat_map bound_names opt_list app]. rewrite ?app_nil_r.
      intros y Hy. apply in_app_iff in Hy as [Hy|[<-|Hy]]; apply in_app_iff;
        [left; now apply Hx | right; now left | left; now apply Hx].
  Qed.

  Lemma wf_FMulAssignLike tr n dtys :
    incl (flat_map u_free dtys) (g_names g) -> wf_header g (header (FMulAssignLike tr n dtys) g).
  Proof.
    intros Hu. unfold header; cbv beta iota zeta. apply wf_new_ident.
    - reflexivity.
    - apply Forall_flat_map. intros pr Hpr. apply in_map_iff in Hpr as (u & <- & _). cbn. repeat constructor.
    - apply incl_flat_map_each. intros pr Hpr. apply in_map_iff in Hpr as (u & <- & Hin).
      assert (Hx : incl (u_free u) (g_names g)).
      { intros x Hx. apply Hu. apply in_flat_map. exists u. split; auto. }
      cbn [pred_names ty_names ref_names flat_map bound_names opt_list app]. rewrite ?app_nil_r.
      intros y Hy. apply in_app_iff in Hy as [Hy|[<-|[]]]; apply in_app_iff;
        [left; now apply Hx | right; now left].
  Qed.

  Lemma gp_ref sel lt_ :
    g_params (if is_ref sel then add_extra_generic_param g (lt_param lt_) else g)
    = if is_ref sel then g_params g ++ [lt_param lt_] else g_params g.
  Proof. now destruct (is_ref sel). Qed.

  Lemma wf_FIntoIterator sel fty :
    incl (u_free fty) (g_names g) -> wf_header g (header (FIntoIterator sel fty) g).
  Proof.
    intros Hu. unfold header; cbv beta iota zeta. rewrite gp_ref.
    cbn [add_extra_where_clauses g_where].
    match goal with |- wf_header g (mk _ (?f ++ g_where g) _ _) => rewrite <- (app_nil_r (g_where g)); apply (wf_ref_param lt_more f []) end.
    - reflexivity.
    - cbn. repeat constructor.
    - reflexivity.
    - cbn [targs flat_map ty_names pred_names bound_names opt_list app]. rewrite !app_nil_r. repeat apply incl_app.
      + apply incl_appr, refk_names.
      + apply incl_appl, ty_args_incl.
      + apply incl_appr, refk_names.
      + apply incl_appl, Hu.
  Qed.

  Lemma wf_FTryInto sel tys :
    incl (flat_map u_free tys) (g_names g) -> wf_header g (header (FTryInto sel tys) g).
  Proof.
    intros Hu. unfold header; cbv beta iota zeta. rewrite gp_ref. rewrite <- (app_nil_r (g_where g)).
    apply (wf_ref_param lt_more [] []).
    - reflexivity.
    - cbn. repeat constructor.
    - reflexivity.
    - cbn [targs flat_map ty_names app]. rewrite !app_nil_r. repeat apply incl_app.
      + apply incl_appr, refk_names.
      + apply incl_appl, ty_args_incl.
      + apply incl_appr, refk_names.
      + apply incl_appl, Hu.
  Qed.

  Lemma wf_FSum tr op : wf_header g (header (FSum tr op) g).
  Proof.
    unfold header; cbv beta iota zeta. destruct (existsb is_ty (g_params g)).
    - cbn [add_extra_where_clauses add_extra_ty_param_bound g_params g_where].
      change (map (fun p => if is_ty p then add_bound (BTrait (with_trait tr) [] None) p else p) (g_params g))
        with (map (bounded (fun _ => BTrait (with_trait tr) [] None)) (g_params g)).
      apply (wf_bounded g Hg).
      + intros p _. cbn. constructor.
      + intros p _ x [].
      + cbn. repeat constructor.
      + cbn [flat_map pred_names ty_names ref_names bound_names opt_list app]. rewrite ?app_nil_r.
        repeat apply incl_app; apply ty_args_incl.
    - apply wf_plain0.
      + cbn. repeat constructor.
      + reflexivity.
      + names.
  Qed.

  Lemma wf_FFromStrStruct : wf_header g (header FFromStrStruct g).
  Proof.
    unfold header; cbv beta iota zeta. cbn [add_extra_ty_param_bound g_params g_where].
    change (map (fun p => if is_ty p then add_bound (BTrait (with_trait (s "FromStr")) [] None) p else p) (g_params g))
      with (map (bounded (fun _ => BTrait (with_trait (s "FromStr")) [] None)) (g_params g)).
    apply (wf_bounded g Hg _ []).
    - intros p _. cbn. constructor.
    - intros p _ x [].
    - constructor.
    - intros x [].
  Qed.

  Lemma wf_FFromStrEnum : wf_header g (header FFromStrEnum g).
  Proof.
    unfold header; cbv beta iota zeta. apply wf_plain0.
    - cbn. repeat constructor.
    - reflexivity.
    - names.
  Qed.

  Lemma wf_FTryFrom repr : wf_header g (header (FTryFrom repr) g).
  Proof.
    unfold header; cbv beta iota zeta. apply wf_plain0.
    - cbn. repeat constructor.
    - cbn [targs app existsb]. apply orb_true_iff. right. reflexivity.
    - names.
  Qed.

  Definition err_self_pred : pred :=
    PAdded self [BTrait (fmt_path (s "Debug")) [] None; BTrait (fmt_path (s "Display")) [] None].
  Definition err_bound_pred (u : utext) : pred :=
    PAdded (TUser RNo u)
           [BTrait (fmt_path (s "Debug")) [] None; BTrait (fmt_path (s "Display")) [] None;
            BTrait (with_trait (s "Error")) [] None; BLit (s "'static")].

  Lemma error_header_eq bounds :
    header (FError bounds) g
    = mk (g_params g)
         (map err_bound_pred bounds ++ ((if existsb is_ty (g_params g) then [err_self_pred] else []) ++ g_where g))
         (Some (with_trait (s "Error"), [])) self.
  Proof.
    unfold header; cbv beta iota zeta. destruct bounds; destruct (existsb is_ty (g_params g)); reflexivity.
  Qed.

  Lemma wf_FError bounds :
    incl (flat_map u_free bounds) (g_names g) -> wf_header g (header (FError bounds) g).
  Proof.
    intros Hu. rewrite error_header_eq. rewrite app_assoc. rewrite <- (app_nil_r (g_where g)). apply wf_plain_fb.
    - rewrite app_nil_r, flat_map_app. cbn [targs app]. constructor; [reflexivity|]. apply Forall_app. split.
      + apply Forall_flat_map. intros pr Hpr. apply in_map_iff in Hpr as (u & <- & _). cbn. repeat constructor.
      + destruct (existsb is_ty (g_params g)); cbn; repeat constructor.
    - reflexivity.
    - rewrite app_nil_r, flat_map_app. cbn [targs flat_map app]. repeat apply incl_app.
      + cbn. intros x [].
      + apply ty_args_incl.
      + apply incl_flat_map_each. intros pr Hpr. apply in_map_iff in Hpr as (u & <- & Hin).
        cbn. rewrite ?app_nil_r. intros x Hx. apply Hu. apply in_flat_map. exists u. split; auto.
      + destruct (existsb is_ty (g_params g)); cbn; [|intros x []]. rewrite ?app_nil_r. apply ty_args_incl.
  Qed.
End Main.

(** * The header theorem *)

Theorem wf_all : forall f g, supported f g -> wf_header g (header f g).
Proof.
  intros f g (Hg & Hu & Hf).
  destruct f; cbn [utexts_of] in Hu; cbn beta iota in Hf.
  - now apply wf_FInherent.
  - destruct Hf. now apply wf_FFmt.
  - now apply wf_FAddLike.
  - now apply wf_FAddAssignLike.
  - destruct Hf. now apply wf_FFrom.
  - now apply wf_FFromForward.
  - now apply wf_FInto.
  - now apply wf_FAsRef.
  - now apply wf_FDeref.
  - apply wf_FIndex; auto. cbn in Hu. now rewrite app_nil_r in Hu.
  - now apply wf_FMulLike.
  - now apply wf_FMulAssignLike.
  - apply wf_FIntoIterator; auto. cbn in Hu. now rewrite app_nil_r in Hu.
  - now apply wf_FSum.
  - now apply wf_FFromStrStruct.
  - now apply wf_FFromStrEnum.
  - now apply wf_FTryFrom.
  - now apply wf_FTryInto.
  - now apply wf_FError.
Qed.

(** * The two repaired headers, unconditionally; the source facts the model relies on *)

Theorem wf_try_from repr g : wf_generics g -> wf_header g (header (FTryFrom repr) g).
Proof. intros Hg. now apply wf_FTryFrom. Qed.

Theorem wf_from_str_enum g : wf_generics g -> wf_header g (header FFromStrEnum g).
Proof. intros Hg. now apply wf_FFromStrEnum. Qed.

(* try_from.rs prints `TryFrom<#repr_ty> for #ident #ty_generics`, from_str.rs prints the enum's generics:
   re-checked against the regenerated Gen/ImplAttrs.v on every run *)
Theorem source_headers :
  try_from_tygen_on_trait = false /\ try_from_tygen_on_self = true /\ from_str_enum_generic = true.
Proof. repeat split; vm_compute; reflexivity. Qed.

Definition g_const : generics := G [P KConst (s "N") [] (s "usize") None] [].

Lemma g_const_wf : wf_generics g_const.
Proof.
  constructor; cbn.
  - constructor; [intros [] | constructor].
  - repeat constructor.
  - repeat constructor.
  - constructor.
  - intros x [].
Qed.

(* the former refutation witness `enum G<const N: usize> { A, B }` now renders correctly *)
Example try_from_const_rendered :
  render (s "G") (header (FTryFrom (s "isize")) g_const)
  = ([s "constN:usize"], Some (s "derive_more::core::convert::TryFrom<isize>"), s "G<N>", []).
Proof. vm_compute. reflexivity. Qed.

(** * Attribute presence over the regenerated template facts *)

Lemma missing_eqb_eq a b : missing_eqb a b = true -> a = b.
Proof. destruct a, b; cbn; congruence. Qed.

Lemma key_eqb_eq a b : key_eqb a b = true -> a = b.
Proof.
  destruct a as [[f1 i1] m1], b as [[f2 i2] m2]. cbn. intros H.
  apply andb_true_iff in H as [H Hm]. apply andb_true_iff in H as [Hf Hi].
  apply String.eqb_eq in Hf. apply Nat.eqb_eq in Hi. apply missing_eqb_eq in Hm. congruence.
Qed.

Theorem attrs_closed : forall o, In o (offenders impl_templates) -> In (key o) known_offender_keys.
Proof.
  assert (H : closedb impl_templates = true) by (vm_compute; reflexivity).
  unfold closedb in H. rewrite forallb_forall in H. intros o Ho. specialize (H o Ho).
  apply existsb_exists in H as (k & Hk & He). apply key_eqb_eq in He. now rewrite He.
Qed.

Lemma offender_of t m : In t impl_templates -> In m (lacks t) -> In (t_file t, t_idx t, m) known_offender_keys.
Proof.
  intros Ht Hm. apply (attrs_closed (t, m)). unfold offenders. apply in_flat_map. exists t. split; [exact Ht|].
  apply in_map_iff. exists m. split; [reflexivity | exact Hm].
Qed.

Theorem attrs_present : forall t, In t impl_templates ->
  (t_auto t = true \/ In (t_file t, t_idx t, MAuto) known_offender_keys)
  /\ (t_interp t = true -> t_dep t = true \/ In (t_file t, t_idx t, MDeprecated) known_offender_keys)
  /\ (t_interp t = true -> t_unreach t = true \/ In (t_file t, t_idx t, MUnreachable) known_offender_keys).
Proof.
  intros t Ht. repeat split.
  - destruct (t_auto t) eqn:E; [now left | right]. apply offender_of; auto.
    unfold lacks. rewrite E. now left.
  - intros Hi. destruct (t_dep t) eqn:E; [now left | right]. apply offender_of; auto.
    unfold lacks. rewrite Hi, E. cbn. apply in_or_app. right. now left.
  - intros Hi. destruct (t_unreach t) eqn:E; [now left | right]. apply offender_of; auto.
    unfold lacks. rewrite Hi, E. cbn. apply in_or_app. right. apply in_or_app. right. now left.
Qed.

(** * The hypotheses are satisfiable; what the model prints *)

(* struct S<'a, T: Clone = i32, const N: usize = 3>(Vec<&'a T>) where T: Copy; *)
Definition g_ex : generics :=
  G [P KLt (s "'a") [] [] None;
     P KTy (s "T") [BUser (U (s "Clone") [])] [] (Some (s "i32"));
     P KConst (s "N") [] (s "usize") (Some (s "3"))]
    [PUser (U (s "T:Copy") [s "T"])].

Example g_ex_wf : wf_generics g_ex.
Proof.
  constructor; cbn.
  - repeat constructor; cbn; intuition discriminate.
  - repeat constructor.
  - repeat constructor.
  - repeat constructor.
  - intros x [<-|[]]. right. now left.
Qed.

Example index_supported : supported (FIndex (s "Index") (U (s "Vec<&'aT>") [s "'a"; s "T"])) g_ex.
Proof.
  split; [apply g_ex_wf|]. split; [|exact I].
  cbn. intros x [<-|[<-|[]]]; [now left | right; now left].
Qed.

Example index_rendered :
  render (s "S") (header (FIndex (s "Index") (U (s "Vec<&'aT>") [s "'a"; s "T"])) g_ex)
  = ([s "'a"; s "T:Clone"; s "__IdxT"; s "constN:usize"],
     Some (s "derive_more::with_trait::Index<__IdxT>"),
     s "S<'a,T,N>",
     [s "Vec<&'aT>:derive_more::with_trait::Index<__IdxT>"; s "T:Copy"]).
Proof. vm_compute. reflexivity. Qed.

Example from_forward_supported : supported (FFromForward [U (s "T") [s "T"]; U (s "i32") []]) g_ex.
Proof.
  split; [apply g_ex_wf|]. split; [|exact I]. cbn. intros x [<-|[]]. right. now left.
Qed.
