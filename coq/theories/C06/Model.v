(** C06 - executable model of what [derive_more::Debug] prints, next to what std's
    [#[derive(Debug)]] prints.  NO PROOFS here (see Proofs.v / Props.v).

    Sources transcribed (one definition per Rust function):
    - core::fmt::builders   (rust-src of the toolchain, library/core/src/fmt/builders.rs):
        PadAdapter (l.5-51), DebugStruct (l.88-256), DebugTuple (l.289-446), DebugInner/DebugList
    - core::fmt::write / Formatter::wrap_buf  (library/core/src/fmt/mod.rs)
    - /repo/src/fmt.rs      derive_more's own DebugTuple: debug_tuple (l.20-31), field (l.58-77),
                            finish (l.104-114), finish_non_exhaustive (l.138-153), Padded (l.162-189)
    - /repo/impl/src/fmt/debug.rs  Expansion::generate_body (l.252-373), the part with no container format
    - rustc_builtin_macros::deriving::debug::show_substructure  (what std's derive emits)

    A formatter is a pair (cfg, writer).  Everything in core bottoms out in [Write::write_str] on the
    formatter's buffer, so a [Debug] impl is a function [cfg -> writer -> writer * result]. *)
From Coq Require Import List NArith Bool.
From Verif Require Import Base.Chars.
Import ListNotations.
Open Scope N_scope.

(* ------------------------------------------------------------------ FormattingOptions *)

Inductive alignment := AlLeft | AlRight | AlCenter.
Inductive sign := SgPlus | SgMinus.
Inductive debug_hex := DhLower | DhUpper.

(** core::fmt::FormattingOptions: every knob a format spec can set *)
Record cfg := mkcfg {
  alternate : bool;                 (* #  *)
  dhex : option debug_hex;          (* x? / X? *)
  width : option N;
  fill : N;
  align : option alignment;
  precision : option N;
  sign_flag : option sign;          (* + / - *)
  zero_pad : bool                   (* 0 *)
}.

(** FormattingOptions::new() *)
Definition default_cfg : cfg :=
  {| alternate := false; dhex := None; width := None; fill := 32; align := None;
     precision := None; sign_flag := None; zero_pad := false |}.

(** the options [fmt::write] installs for the placeholder [{:#?}] *)
Definition pretty_cfg : cfg :=
  {| alternate := true; dhex := None; width := None; fill := 32; align := None;
     precision := None; sign_flag := None; zero_pad := false |}.

Definition opt_eqb {A} (e : A -> A -> bool) (a b : option A) : bool :=
  match a, b with Some x, Some y => e x y | None, None => true | _, _ => false end.
Definition alignment_eqb (a b : alignment) : bool :=
  match a, b with AlLeft, AlLeft | AlRight, AlRight | AlCenter, AlCenter => true | _, _ => false end.
Definition sign_eqb (a b : sign) : bool :=
  match a, b with SgPlus, SgPlus | SgMinus, SgMinus => true | _, _ => false end.
Definition debug_hex_eqb (a b : debug_hex) : bool :=
  match a, b with DhLower, DhLower | DhUpper, DhUpper => true | _, _ => false end.

Definition cfg_eqb (a b : cfg) : bool :=
  Bool.eqb (alternate a) (alternate b) && opt_eqb debug_hex_eqb (dhex a) (dhex b)
  && opt_eqb N.eqb (width a) (width b) && N.eqb (fill a) (fill b)
  && opt_eqb alignment_eqb (align a) (align b) && opt_eqb N.eqb (precision a) (precision b)
  && opt_eqb sign_eqb (sign_flag a) (sign_flag b) && Bool.eqb (zero_pad a) (zero_pad b).

(* ------------------------------------------------------------------ writers *)

(** The buffer behind a formatter: a [String] wrapped in a stack of pad adapters (core's
    [PadAdapter] or derive_more's [Padded]: both hold a reference to the next writer and one bit of
    state).  [pads] lists the [on_newline] bits, outermost adapter (the one written to) first. *)
Record writer := mkw { base : str; pads : list bool }.

Definition c_nl : N := 10.
Definition s_indent : str := [32; 32; 32; 32].          (* "    " *)

(** str::split_inclusive('\n') *)
Fixpoint split_inclusive_nl (s : str) : list str :=
  match s with
  | [] => []
  | c :: s' =>
      if c =? c_nl then [c] :: split_inclusive_nl s'
      else match split_inclusive_nl s' with
           | [] => [[c]]
           | p :: ps => (c :: p) :: ps
           end
  end.

(** str::ends_with('\n') *)
Fixpoint ends_with_nl (s : str) : bool :=
  match s with
  | [] => false
  | c :: s' => match s' with [] => c =? c_nl | _ => ends_with_nl s' end
  end.

(** the loop body of PadAdapter::write_str (builders.rs:31-42) = Padded::write_str (src/fmt.rs:177-188):
    returns the chunks handed to the next writer's write_str, in order, and the new state *)
Fixpoint pad_pieces (on_newline : bool) (pieces : list str) : list str * bool :=
  match pieces with
  | [] => ([], on_newline)
  | p :: ps =>
      let '(out, st) := pad_pieces (ends_with_nl p) ps in
      ((if on_newline then [s_indent] else []) ++ p :: out, st)
  end.

Definition pad_write_str (on_newline : bool) (s : str) : list str * bool :=
  pad_pieces on_newline (split_inclusive_nl s).

(** a sequence of write_str calls on one adapter *)
Fixpoint pad_write_all (on_newline : bool) (chunks : list str) : list str * bool :=
  match chunks with
  | [] => ([], on_newline)
  | c :: cs =>
      let '(o1, st1) := pad_write_str on_newline c in
      let '(o2, st2) := pad_write_all st1 cs in
      (o1 ++ o2, st2)
  end.

(** a sequence of write_str calls on a stack of adapters over a String (String::push_str at the bottom) *)
Fixpoint write_chunks (ps : list bool) (b : str) (chunks : list str) : str * list bool :=
  match ps with
  | [] => (fold_left (@app N) chunks b, [])
  | nl :: rest =>
      let '(chunks', nl') := pad_write_all nl chunks in
      let '(b', rest') := write_chunks rest b chunks' in
      (b', nl' :: rest')
  end.

(** Write::write_str on the formatter's buffer (never fails: String / adapters over a String) *)
Definition write_str (w : writer) (s : str) : writer :=
  let '(b, p) := write_chunks (pads w) (base w) [s] in mkw b p.

(** PadAdapter::wrap (state Default: on_newline = true) / Padded::new; and dropping the adapter *)
Definition push_pad (w : writer) : writer := mkw (base w) (true :: pads w).
Definition pop_pad (w : writer) : writer := mkw (base w) (tl (pads w)).

(* ------------------------------------------------------------------ fmt::Result plumbing *)

(** state of the buffer after the call, and the fmt::Result (true = Ok(())) *)
Definition res := (writer * bool)%type.
Definition fmtfun := cfg -> writer -> res.

Definition wok (w : writer) : res := (w, true).
(** [a?; k] and [result.and_then(|_| k)] *)
Definition bind (r : res) (k : writer -> res) : res :=
  let '(w, ok) := r in if ok then k w else (w, false).

(** run [k] on a fresh pad adapter around [w], then drop the adapter *)
Definition with_pad (w : writer) (k : writer -> res) : res :=
  let '(w', ok) := k (push_pad w) in (pop_pad w', ok).

(** core::fmt::write for a template [lit0 {arg0:spec0} lit1 {arg1:spec1} ... tail]: literal pieces go to
    write_str, every placeholder is formatted by a NEW Formatter carrying only the placeholder's own
    options (the caller's options are not consulted) *)
Fixpoint run_args (ps : list (str * cfg * fmtfun)) (tail : str) (w : writer) : res :=
  match ps with
  | [] => wok (write_str w tail)
  | (l, c, f) :: ps' => bind (f c (write_str w l)) (run_args ps' tail)
  end.

(** Debug/Display for fmt::Arguments: [write(fmt.buf, *self)]; the formatter's options are ignored *)
Definition args_fmt (ps : list (str * cfg * fmtfun)) (tail : str) : fmtfun :=
  fun _ w => run_args ps tail w.

(* ------------------------------------------------------------------ string constants *)
Definition s_lparen_nl : str := [40; 10].                   (* "(\n" *)
Definition s_lparen : str := [40].                          (* "("   *)
Definition s_comma_sp : str := [44; 32].                    (* ", "  *)
Definition s_comma_nl : str := [44; 10].                    (* ",\n" *)
Definition s_comma : str := [44].                           (* ","   *)
Definition s_rparen : str := [41].                          (* ")"   *)
Definition s_dots_nl : str := [46; 46; 10].                 (* "..\n" *)
Definition s_tuple_ne : str := [44; 32; 46; 46; 41].        (* ", ..)" *)
Definition s_tuple_ne_empty : str := [40; 46; 46; 41].      (* "(..)" *)
Definition s_brace_nl : str := [32; 123; 10].               (* " {\n" *)
Definition s_brace_sp : str := [32; 123; 32].               (* " { "  *)
Definition s_colon_sp : str := [58; 32].                    (* ": "   *)
Definition s_rbrace : str := [125].                         (* "}"    *)
Definition s_sp_rbrace : str := [32; 125].                  (* " }"   *)
Definition s_struct_ne : str := [44; 32; 46; 46; 32; 125].  (* ", .. }" *)
Definition s_struct_ne_empty : str := [32; 123; 32; 46; 46; 32; 125].   (* " { .. }" *)
Definition s_lbracket : str := [91].                        (* "[" *)
Definition s_rbracket : str := [93].                        (* "]" *)
Definition s_nl : str := [10].                              (* "\n" *)

Definition is_empty (s : str) : bool := match s with [] => true | _ => false end.

(* ------------------------------------------------------------------ DebugTuple: shared state *)

(** struct DebugTuple { fmt, result, fields, empty_name }  (identical in core and in src/fmt.rs);
    the formatter's options never change during the builder's life, so [cfg] is passed alongside *)
Record dtuple := mkdt { t_w : writer; t_result : bool; t_fields : nat; t_empty_name : bool }.

Definition dt_and_then (b : dtuple) (k : writer -> res) : res :=
  bind (t_w b, t_result b) k.

(* ------------------------------------------------------------------ core::fmt::DebugTuple *)

(** builders.rs:296-302 debug_tuple_new *)
Definition core_debug_tuple_new (w : writer) (name : str) : dtuple :=
  mkdt (write_str w name) true 0 (is_empty name).

(** builders.rs:329-361 DebugTuple::field = field_with(|f| value.fmt(f)) *)
Definition core_tuple_field (c : cfg) (b : dtuple) (value : fmtfun) : dtuple :=
  let r := dt_and_then b (fun w =>
    if alternate c then
      let w1 := if Nat.eqb (t_fields b) 0 then write_str w s_lparen_nl else w in
      (* PadAdapter::wrap: new Formatter, SAME options, buffer = adapter around fmt.buf *)
      with_pad w1 (fun wp =>
        bind (value c wp) (fun wp' => wok (write_str wp' s_comma_nl)))
    else
      let prefix := if Nat.eqb (t_fields b) 0 then s_lparen else s_comma_sp in
      value c (write_str w prefix)) in
  mkdt (fst r) (snd r) (S (t_fields b)) (t_empty_name b).

(** builders.rs:431-441 DebugTuple::finish *)
Definition core_tuple_finish (c : cfg) (b : dtuple) : res :=
  if Nat.ltb 0 (t_fields b) then
    dt_and_then b (fun w =>
      let w1 := if Nat.eqb (t_fields b) 1 && t_empty_name b && negb (alternate c)
                then write_str w s_comma else w in
      wok (write_str w1 s_rparen))
  else (t_w b, t_result b).

(** builders.rs:387-404 DebugTuple::finish_non_exhaustive (stable since 1.83) *)
Definition core_tuple_finish_non_exhaustive (c : cfg) (b : dtuple) : res :=
  dt_and_then b (fun w =>
    if Nat.ltb 0 (t_fields b) then
      if alternate c then
        bind (with_pad w (fun wp => wok (write_str wp s_dots_nl)))
             (fun w' => wok (write_str w' s_rparen))
      else wok (write_str w s_tuple_ne)
    else wok (write_str w s_tuple_ne_empty)).

(* ------------------------------------------------------------------ derive_more::__private::DebugTuple *)

(** src/fmt.rs:20-31 debug_tuple *)
Definition dm_debug_tuple (w : writer) (name : str) : dtuple :=
  mkdt (write_str w name) true 0 (is_empty name).

(** src/fmt.rs:58-77 DebugTuple::field.  Pretty branch: [Padded::new(self.fmt)] then
    [padded.write_fmt(format_args!("{value:#?}"))]: Write::write_fmt -> fmt::write builds a NEW Formatter
    over the Padded writer whose options are those of the placeholder [{:#?}] alone = [pretty_cfg];
    the options of [self.fmt] (hex-debug, width, fill, precision, sign, 0) are not carried over. *)
Definition dm_tuple_field (c : cfg) (b : dtuple) (value : fmtfun) : dtuple :=
  let r := dt_and_then b (fun w =>
    if alternate c then
      let w1 := if Nat.eqb (t_fields b) 0 then write_str w s_lparen_nl else w in
      with_pad w1 (fun wp =>
        bind (run_args [([], pretty_cfg, value)] [] wp)
             (fun wp' => wok (write_str wp' s_comma_nl)))
    else
      let prefix := if Nat.eqb (t_fields b) 0 then s_lparen else s_comma_sp in
      value c (write_str w prefix)) in
  mkdt (fst r) (snd r) (S (t_fields b)) (t_empty_name b).

(** src/fmt.rs:104-114 DebugTuple::finish *)
Definition dm_tuple_finish (c : cfg) (b : dtuple) : res :=
  if Nat.ltb 0 (t_fields b) then
    dt_and_then b (fun w =>
      let w1 := if Nat.eqb (t_fields b) 1 && t_empty_name b && negb (alternate c)
                then write_str w s_comma else w in
      wok (write_str w1 s_rparen))
  else (t_w b, t_result b).

(** src/fmt.rs:138-153 DebugTuple::finish_non_exhaustive *)
Definition dm_tuple_finish_non_exhaustive (c : cfg) (b : dtuple) : res :=
  dt_and_then b (fun w =>
    if Nat.ltb 0 (t_fields b) then
      if alternate c then
        bind (with_pad w (fun wp => wok (write_str wp s_dots_nl)))
             (fun w' => wok (write_str w' s_rparen))
      else wok (write_str w s_tuple_ne)
    else wok (write_str w s_tuple_ne_empty)).

(* ------------------------------------------------------------------ core::fmt::DebugStruct *)

Record dstruct := mkds { s_w : writer; s_result : bool; s_has_fields : bool }.

Definition ds_and_then (b : dstruct) (k : writer -> res) : res :=
  bind (s_w b, s_result b) k.

(** builders.rs:94-100 debug_struct_new *)
Definition core_debug_struct_new (w : writer) (name : str) : dstruct :=
  mkds (write_str w name) true false.

(** builders.rs:132-168 DebugStruct::field *)
Definition core_struct_field (c : cfg) (b : dstruct) (nv : str * fmtfun) : dstruct :=
  let '(name, value) := nv in
  let r := ds_and_then b (fun w =>
    if alternate c then
      let w1 := if s_has_fields b then w else write_str w s_brace_nl in
      with_pad w1 (fun wp =>
        bind (value c (write_str (write_str wp name) s_colon_sp))
             (fun wp' => wok (write_str wp' s_comma_nl)))
    else
      let prefix := if s_has_fields b then s_comma_sp else s_brace_sp in
      value c (write_str (write_str (write_str w prefix) name) s_colon_sp)) in
  mkds (fst r) (snd r) true.

(** builders.rs:244-251 DebugStruct::finish *)
Definition core_struct_finish (c : cfg) (b : dstruct) : res :=
  if s_has_fields b then
    ds_and_then b (fun w =>
      wok (write_str w (if alternate c then s_rbrace else s_sp_rbrace)))
  else (s_w b, s_result b).

(** builders.rs:197-214 DebugStruct::finish_non_exhaustive *)
Definition core_struct_finish_non_exhaustive (c : cfg) (b : dstruct) : res :=
  ds_and_then b (fun w =>
    if s_has_fields b then
      if alternate c then
        bind (with_pad w (fun wp => wok (write_str wp s_dots_nl)))
             (fun w' => wok (write_str w' s_rbrace))
      else wok (write_str w s_struct_ne)
    else wok (write_str w s_struct_ne_empty)).

(* ------------------------------------------------------------------ core::fmt::DebugList (Vec, slices) *)

(** builders.rs DebugInner::entry_with, debug_list_new, DebugList::finish *)
Definition core_list_entry (c : cfg) (b : dstruct) (value : fmtfun) : dstruct :=
  let r := ds_and_then b (fun w =>
    if alternate c then
      let w1 := if s_has_fields b then w else write_str w s_nl in
      with_pad w1 (fun wp =>
        bind (value c wp) (fun wp' => wok (write_str wp' s_comma_nl)))
    else
      let w1 := if s_has_fields b then write_str w s_comma_sp else w in
      value c w1) in
  mkds (fst r) (snd r) true.

Definition list_fmt (items : list fmtfun) : fmtfun := fun c w =>
  let b := fold_left (core_list_entry c) items (mkds (write_str w s_lbracket) true false) in
  ds_and_then b (fun w' => wok (write_str w' s_rbracket)).

(* ------------------------------------------------------------------ whole builder chains *)

Inductive flavour := Dm | Std.

(** [debug_tuple(f, name).field(v0)...field(vn).finish()] (or [finish_non_exhaustive()]) with
    derive_more's builder (Dm) or core's (Std) *)
Definition tuple_fmt (fl : flavour) (name : str) (fields : list fmtfun) (exhaustive : bool) : fmtfun :=
  fun c w =>
    match fl with
    | Dm =>
        let b := fold_left (dm_tuple_field c) fields (dm_debug_tuple w name) in
        if exhaustive then dm_tuple_finish c b else dm_tuple_finish_non_exhaustive c b
    | Std =>
        let b := fold_left (core_tuple_field c) fields (core_debug_tuple_new w name) in
        if exhaustive then core_tuple_finish c b else core_tuple_finish_non_exhaustive c b
    end.

(** [f.debug_struct(name).field(n0, v0)...finish()] : core's builder on both sides *)
Definition struct_fmt (name : str) (fields : list (str * fmtfun)) (exhaustive : bool) : fmtfun :=
  fun c w =>
    let b := fold_left (core_struct_field c) fields (core_debug_struct_new w name) in
    if exhaustive then core_struct_finish c b else core_struct_finish_non_exhaustive c b.

(** Formatter::write_str(f, name) *)
Definition unit_fmt (name : str) : fmtfun := fun _ w => wok (write_str w name).

(* ------------------------------------------------------------------ values *)

(** What gets formatted: a tree whose inner nodes are builder chains.  [VLeaf] is an opaque Debug impl
    (integers, floats, strings, user impls).  [VTuple Dm] is a tuple struct/variant deriving
    derive_more::Debug, [VTuple Std] one deriving std Debug (also Option's Some, and tuples with
    name ""); [VNamed] uses core's DebugStruct under both derives; [VList] is Vec/slice;
    [VArgs] is a [format_args!] value (pieces: literal, spec, argument ... trailing literal). *)
Inductive val :=
| VLeaf (f : fmtfun)
| VUnit (name : str)
| VTuple (fl : flavour) (name : str) (fields : list val) (exhaustive : bool)
| VNamed (name : str) (fields : list (str * val)) (exhaustive : bool)
| VList (items : list val)
| VArgs (ps : list (str * cfg * val)) (tail : str).

Fixpoint fmt_val (v : val) : fmtfun :=
  match v with
  | VLeaf f => f
  | VUnit n => unit_fmt n
  | VTuple fl n fs ex => tuple_fmt fl n (map fmt_val fs) ex
  | VNamed n fs ex => struct_fmt n (map (fun p => let '(k, x) := p in (k, fmt_val x)) fs) ex
  | VList items => list_fmt (map fmt_val items)
  | VArgs ps tail => args_fmt (map (fun p => let '(l, c, x) := p in (l, c, fmt_val x)) ps) tail
  end.

(** the same value with every derive_more builder replaced by core's: what the identical definitions
    print under std's derive *)
Fixpoint to_std (v : val) : val :=
  match v with
  | VLeaf f => VLeaf f
  | VUnit n => VUnit n
  | VTuple _ n fs ex => VTuple Std n (map to_std fs) ex
  | VNamed n fs ex => VNamed n (map (fun p => let '(k, x) := p in (k, to_std x)) fs) ex
  | VList items => VList (map to_std items)
  | VArgs ps tail => VArgs (map (fun p => let '(l, c, x) := p in (l, c, to_std x)) ps) tail
  end.

(** the text of [format!(spec, v)] *)
Definition render (v : val) (c : cfg) : str := base (fst (fmt_val v c (mkw [] []))).

(** [safe c v]: no derive_more tuple builder with at least one printed field is reached under a
    configuration that is pretty AND carries any further option.  (Decidable; [safeb] below.) *)
Definition cfg_ok_for_dm_tuple (c : cfg) : bool := negb (alternate c) || cfg_eqb c pretty_cfg.

Definition is_nil {A} (l : list A) : bool := match l with [] => true | _ => false end.

Fixpoint safeb (c : cfg) (v : val) : bool :=
  match v with
  | VLeaf _ | VUnit _ => true
  | VTuple fl _ fs _ =>
      (match fl with Std => true | Dm => cfg_ok_for_dm_tuple c || is_nil fs end)
      && forallb (safeb c) fs
  | VNamed _ fs _ => forallb (fun p => let '(_, x) := p in safeb c x) fs
  | VList items => forallb (safeb c) items
  | VArgs ps _ => forallb (fun p => let '(_, c', x) := p in safeb c' x) ps
  end.

(** a leaf given by the text it prints under each configuration (table measured on the real
    formatter by the check); by chunking irrelevance only the text matters *)
Fixpoint lookup_cfg (c : cfg) (t : list (cfg * str)) (d : str) : str :=
  match t with
  | [] => d
  | (c', s) :: t' => if cfg_eqb c c' then s else lookup_cfg c t' d
  end.
Definition leaf_table (t : list (cfg * str)) (d : str) : fmtfun :=
  fun c w => wok (write_str w (lookup_cfg c t d)).

(** a leaf whose Debug impl writes its text and then returns Err(fmt::Error) *)
Definition leaf_table_err (t : list (cfg * str)) (d : str) : fmtfun :=
  fun c w => (write_str w (lookup_cfg c t d), false).

(** text and fmt::Result of [write!(String::new(), spec, v)] *)
Definition render_res (v : val) (c : cfg) : str * bool :=
  let r := fmt_val v c (mkw [] []) in (base (fst r), snd r).

(* ------------------------------------------------------------------ decision logic of the derives *)

(** proc_macro2::Ident: [r#struct] is {raw := true; iname := "struct"} *)
Record ident := mkid { raw : bool; iname : str }.
Definition s_raw_prefix : str := [114; 35].                 (* "r#" *)
(** Ident::to_string / IdentExt::unraw *)
Definition ident_to_string (i : ident) : str := if raw i then s_raw_prefix ++ iname i else iname i.
Definition unraw (i : ident) : ident := mkid false (iname i).

(** field attribute: none | #[debug(skip)] / #[debug(ignore)] | #[debug("...", args)] (k = which) *)
Inductive fattr := ANone | ASkip | AFmt (k : nat).

Inductive fields :=
| FUnit
| FUnnamed (l : list fattr)
| FNamed (l : list (ident * fattr)).

(** Expansion { ident, fields } for a struct or an enum variant with no container-level format *)
Record expansion := mkexp { e_ident : ident; e_fields : fields }.

(** whether each of the four name sites of generate_body applies [unraw()] before [to_string()];
    read off the source on every run by the check (debug.rs:269, 279, 325, 337) *)
Record name_sites := mksites {
  unit_unraw : bool; tuple_unraw : bool; named_unraw : bool; field_unraw : bool }.

(** the tree as it is now (since fix 0354bd6): debug.rs:269 [self.ident.unraw().to_string()] (unit),
    :279 (tuple), :325 (named), :337 [field_ident.unraw().to_string()] - every site unraws.  The check
    compares this constant with what its translator reads from the source on every run. *)
Definition current_sites : name_sites := mksites true true true true.

Definition site_string (u : bool) (i : ident) : str :=
  ident_to_string (if u then unraw i else i).

(** the value handed to a builder's [field]: [&_i] / [&field] or [&format_args!(#fmt_attr, ..)] *)
Inductive fexpr := FeField (i : nat) | FeArgs (i : nat) (k : nat).

Inductive body :=
| BWriteStr (name : str)                                             (* Formatter::write_str(f, name) *)
| BDmTuple (name : str) (fs : list fexpr) (exhaustive : bool)        (* derive_more::__private::debug_tuple *)
| BCoreTuple (name : str) (fs : list fexpr) (exhaustive : bool)      (* Formatter::debug_tuple *)
| BCoreStruct (name : str) (fs : list (str * fexpr)) (exhaustive : bool).   (* Formatter::debug_struct *)

(** debug.rs:287-316 the try_fold over unnamed fields (+ the [exhaustive] flag) *)
Fixpoint unnamed_calls (i : nat) (l : list fattr) : list fexpr * bool :=
  match l with
  | [] => ([], true)
  | a :: l' =>
      let '(fs, ex) := unnamed_calls (S i) l' in
      match a with
      | ASkip => (fs, false)
      | AFmt k => (FeArgs i k :: fs, ex)
      | ANone => (FeField i :: fs, ex)
      end
  end.

(** debug.rs:333-365 the try_fold over named fields *)
Fixpoint named_calls (u : bool) (i : nat) (l : list (ident * fattr)) : list (str * fexpr) * bool :=
  match l with
  | [] => ([], true)
  | (id, a) :: l' =>
      let '(fs, ex) := named_calls u (S i) l' in
      match a with
      | ASkip => (fs, false)
      | AFmt k => ((site_string u id, FeArgs i k) :: fs, ex)
      | ANone => ((site_string u id, FeField i) :: fs, ex)
      end
  end.

(** debug.rs:267-372 Expansion::generate_body when [self.attr.fmt] is None *)
Definition generate_body (st : name_sites) (e : expansion) : body :=
  match e_fields e with
  | FUnit => BWriteStr (site_string (unit_unraw st) (e_ident e))
  | FUnnamed l =>
      let '(fs, ex) := unnamed_calls 0 l in
      BDmTuple (site_string (tuple_unraw st) (e_ident e)) fs ex
  | FNamed l =>
      let '(fs, ex) := named_calls (field_unraw st) 0 l in
      BCoreStruct (site_string (named_unraw st) (e_ident e)) fs ex
  end.

(** generate_body of the current tree *)
Definition generate_body_now (e : expansion) : body := generate_body current_sites e.

(** rustc_builtin_macros deriving/debug.rs show_substructure: names are [ident.name] (a Symbol, which
    never carries [r#]); no fields at all (unit, [S()], [S {}]) => write_str(name); otherwise
    debug_tuple_fieldN_finish / debug_struct_fieldN_finish (= new, field.., finish).  Attributes of
    derive_more are not known to it: every field is printed. *)
Fixpoint std_unnamed_calls (i : nat) (l : list fattr) : list fexpr :=
  match l with [] => [] | _ :: l' => FeField i :: std_unnamed_calls (S i) l' end.
Fixpoint std_named_calls (i : nat) (l : list (ident * fattr)) : list (str * fexpr) :=
  match l with [] => [] | (id, _) :: l' => (iname id, FeField i) :: std_named_calls (S i) l' end.

Definition std_derive_body (e : expansion) : body :=
  let name := iname (e_ident e) in
  match e_fields e with
  | FUnit => BWriteStr name
  | FUnnamed [] => BWriteStr name
  | FUnnamed l => BCoreTuple name (std_unnamed_calls 0 l) true
  | FNamed [] => BWriteStr name
  | FNamed l => BCoreStruct name (std_named_calls 0 l) true
  end.

(** what a body does on a value: [fv i] is field i, [av i k] the [format_args!] of field i's attribute *)
Definition fexpr_val (fv : nat -> val) (av : nat -> nat -> val) (x : fexpr) : val :=
  match x with FeField i => fv i | FeArgs i k => av i k end.

Definition body_val (fv : nat -> val) (av : nat -> nat -> val) (b : body) : val :=
  match b with
  | BWriteStr n => VUnit n
  | BDmTuple n fs ex => VTuple Dm n (map (fexpr_val fv av) fs) ex
  | BCoreTuple n fs ex => VTuple Std n (map (fexpr_val fv av) fs) ex
  | BCoreStruct n fs ex => VNamed n (map (fun p => let '(k, x) := p in (k, fexpr_val fv av x)) fs) ex
  end.

(** the same calls with core's tuple builder in place of derive_more's *)
Definition std_of_body (b : body) : body :=
  match b with BDmTuple n fs ex => BCoreTuple n fs ex | _ => b end.

Definition no_attrs (e : expansion) : bool :=
  match e_fields e with
  | FUnit => true
  | FUnnamed l => forallb (fun a => match a with ANone => true | _ => false end) l
  | FNamed l => forallb (fun p => match snd p with ANone => true | _ => false end) l
  end.

Definition all_unraw (st : name_sites) : bool :=
  unit_unraw st && tuple_unraw st && named_unraw st && field_unraw st.

Definition fields_raw_free (e : expansion) : bool :=
  match e_fields e with
  | FNamed l => forallb (fun p => negb (raw (fst p))) l
  | _ => true
  end.

(** list helper used by the check to build [fv] from a list *)
Definition nth_val (l : list val) (i : nat) : val := nth i l (VUnit []).

(* ------------------------------------------------------------------ the reference: hand-written std impls *)

(** what one field contributes to the builder chain, read directly off its attribute *)
Definition printed (p : nat * fattr) : list fexpr :=
  match snd p with ASkip => [] | ANone => [FeField (fst p)] | AFmt k => [FeArgs (fst p) k] end.
Definition is_skip (a : fattr) : bool := match a with ASkip => true | _ => false end.
Definition printed_named (u : bool) (p : nat * (ident * fattr)) : list (str * fexpr) :=
  match snd (snd p) with
  | ASkip => []
  | ANone => [(site_string u (fst (snd p)), FeField (fst p))]
  | AFmt k => [(site_string u (fst (snd p)), FeArgs (fst p) k)]
  end.

(** The impl one writes by hand with std's builders for an item carrying skip / format attributes (the
    property text's reference): name without r#, [field(&x)] for a plain field, [field(&format_args!(..))]
    for a formatted one, nothing for a skipped one, [finish_non_exhaustive()] iff something is skipped. *)
Definition reference_body (e : expansion) : body :=
  let n := iname (e_ident e) in
  match e_fields e with
  | FUnit => BWriteStr n
  | FUnnamed l =>
      BCoreTuple n (flat_map printed (combine (seq 0 (length l)) l)) (negb (existsb is_skip l))
  | FNamed l =>
      BCoreStruct n (flat_map (printed_named true) (combine (seq 0 (length l)) l))
                  (negb (existsb (fun p => is_skip (snd p)) l))
  end.

(** what the identical definition does on the std side: std's derive when there is no attribute, the
    hand-written reference otherwise *)
Definition std_side_body (e : expansion) : body :=
  if no_attrs e then std_derive_body e else reference_body e.

(* ------------------------------------------------------------------ derived values, end to end *)

(** A value of a program in which some types derive Debug: [DAdt e fields fargs] is a struct / the chosen
    enum variant with Expansion [e] (expand_enum, debug.rs:118-193, builds one Expansion per variant and the
    [match self] picks the arm of the value's variant), [fargs] the format_args! values of its field-level
    formats (by field index); [DStd]/[DName]/[DList] are std's own impls (Some(..), tuples / None / Vec,
    slices, arrays); [DArgs] a format_args! value. *)
Inductive dval :=
| DLeaf (f : fmtfun)
| DAdt (e : expansion) (fields : list dval) (fargs : list dval)
| DStd (name : str) (fields : list dval)
| DName (name : str)
| DList (items : list dval)
| DArgs (ps : list (str * cfg * dval)) (tail : str).

(** the value when every [DAdt] derives derive_more::Debug (current tree) ... *)
Fixpoint dm_val (d : dval) : val :=
  match d with
  | DLeaf f => VLeaf f
  | DAdt e fs avs =>
      body_val (nth_val (map dm_val fs)) (fun i _ => nth_val (map dm_val avs) i) (generate_body_now e)
  | DStd n fs => VTuple Std n (map dm_val fs) true
  | DName n => VUnit n
  | DList items => VList (map dm_val items)
  | DArgs ps tail => VArgs (map (fun p => let '(l, c, x) := p in (l, c, dm_val x)) ps) tail
  end.

(** ... and when every [DAdt] is the identical definition on the std side *)
Fixpoint std_val (d : dval) : val :=
  match d with
  | DLeaf f => VLeaf f
  | DAdt e fs avs =>
      body_val (nth_val (map std_val fs)) (fun i _ => nth_val (map std_val avs) i) (std_side_body e)
  | DStd n fs => VTuple Std n (map std_val fs) true
  | DName n => VUnit n
  | DList items => VList (map std_val items)
  | DArgs ps tail => VArgs (map (fun p => let '(l, c, x) := p in (l, c, std_val x)) ps) tail
  end.

(** the known-finding class, on programs: formatting [d] under [c] reaches a derive_more tuple struct /
    tuple variant with at least one printed field while the formatter is pretty AND has another option *)
Definition known_class (d : dval) (c : cfg) : bool := negb (safeb c (dm_val d)).

(* ------------------------------------------------------------------ generate_bounds (debug.rs:375-419) *)

Inductive ftrait := TrDebug | TrDisplay | TrBinary | TrOctal | TrLowerHex | TrUpperHex | TrLowerExp | TrUpperExp | TrPointer.

(** a where-predicate [<type of field j>: core::fmt::Trait] *)
Definition bound := (nat * ftrait)%type.

(** Expansion::generate_bounds when [self.attr.fmt] is None and there is no [bound(...)] attribute.
    [generic j] = [ty_j.contains_generics(type_params)]; [refs i k] = [fmt_attr.bounded_types(fields)] of
    field i's format attribute: the (field, trait) pairs its placeholders resolve to. *)
Fixpoint bounds_from (generic : nat -> bool) (refs : nat -> nat -> list bound) (i : nat) (l : list fattr)
  : list bound :=
  match l with
  | [] => []
  | a :: l' =>
      (match a with
       | AFmt k => filter (fun b => generic (fst b)) (refs i k)
       | ASkip => []
       | ANone => if generic i then [(i, TrDebug)] else []
       end) ++ bounds_from generic refs (S i) l'
  end.

Definition field_attrs (f : fields) : list fattr :=
  match f with FUnit => [] | FUnnamed l => l | FNamed l => map snd l end.

Definition generate_bounds (generic : nat -> bool) (refs : nat -> nat -> list bound) (e : expansion) : list bound :=
  bounds_from generic refs 0 (field_attrs (e_fields e)).

(* ------------------------------------------------------------------ the impl's where clause (debug.rs:53-60) *)

(** expand_enum (debug.rs:134-185): the inferred bounds of the variants are concatenated in declaration
    order ([bounds.extend(v.generate_bounds()?)]); a struct is the one-unit case.  Each bound is tagged
    with the unit (struct = 0 / variant index) whose field type it speaks about. *)
Fixpoint enum_bounds_from (u : nat) (bss : list (list bound)) : list (nat * bound) :=
  match bss with
  | [] => []
  | bs :: rest => map (fun b => (u, b)) bs ++ enum_bounds_from (S u) rest
  end.
Definition enum_bounds (bss : list (list bound)) : list (nat * bound) := enum_bounds_from 0 bss.

(** a predicate of the emitted impl's where clause: the k-th predicate the user wrote on the item, or an
    inferred one *)
Inductive wpred := WUser (k : nat) | WField (ub : nat * bound).

(** expand (debug.rs:53-60): [where_clause.cloned().unwrap_or_else(|| parse_quote!{ where })] then
    [predicates.extend(bounds)] - the user's predicates (if any) in their order, then ALL inferred bounds,
    whether or not the item had a where clause of its own *)
Definition impl_where_clause (n_user : nat) (inferred : list (nat * bound)) : list wpred :=
  map WUser (seq 0 n_user) ++ map WField inferred.

(* ------------------------------------------------------------------ contains_generics (impl/src/fmt/mod.rs:617-717) *)

(** the part of syn::Type that contains_generics inspects *)
Inductive sty :=
| SPath (qself : option sty) (segs : list (str * list sty))   (* [<Q as A::B<..>>::C<..>] / [a::b<..>]; [] = no arguments *)
| SElem (elem : sty)                                           (* array, group, paren, ptr, reference, slice *)
| STuple (elems : list sty)
| SOpaque.                                                     (* impl Trait, _, macro, !, verbatim *)

Definition in_params (ps : list str) (id : str) : bool := existsb (str_eqb id) ps.

(** ContainsGenericsExt for syn::Type and for syn::Path.  Path arm: a qualified self type that mentions a
    parameter decides at once; otherwise a lone identifier is compared with the parameters, any other
    path is searched segment by segment ([T::Assoc]: first segment without arguments; [X<A, B>]: the
    type arguments). *)
Fixpoint contains_generics (ps : list str) (t : sty) : bool :=
  match ps with [] => false | _ =>
  match t with
  | SPath q segs =>
      (match q with Some qt => contains_generics ps qt | None => false end)
      || (match segs with
          | [(id, [])] => in_params ps id
          | _ =>
              (fix go (n : nat) (l : list (str * list sty)) : bool :=
                 match l with
                 | [] => false
                 | (id, args) :: l' =>
                     (match args with
                      | [] => Nat.eqb n 0 && in_params ps id
                      | _ => (fix any (a : list sty) : bool :=
                                match a with [] => false | x :: a' => contains_generics ps x || any a' end) args
                      end) || go (S n) l'
                 end) 0%nat segs
          end)
  | SElem e => contains_generics ps e
  | STuple es => (fix any (a : list sty) : bool :=
                    match a with [] => false | x :: a' => contains_generics ps x || any a' end) es
  | SOpaque => false
  end end.
