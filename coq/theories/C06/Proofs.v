(** C06 - proofs about the model in Model.v *)
From Coq Require Import List NArith Bool Lia Arith.
From Verif Require Import Base.Chars C06.Model.
Import ListNotations.
Open Scope N_scope.

(* ================================================================== 1. writers: chunking is irrelevant *)

(** character-level specification of one pad adapter: what PadAdapter::write_char does in a loop *)
Fixpoint pad_text (nl : bool) (s : str) : str * bool :=
  match s with
  | [] => ([], nl)
  | c :: s' =>
      let '(o, st) := pad_text (c =? c_nl) s' in
      ((if nl then s_indent else []) ++ c :: o, st)
  end.

(** text handed to the next writer by one write_str on an adapter, and the new state *)
Definition pad_flat (nl : bool) (s : str) : str * bool :=
  (concat (fst (pad_write_str nl s)), snd (pad_write_str nl s)).

Lemma split_nil_inv s : split_inclusive_nl s = [] -> s = [].
Proof.
  destruct s as [|c s']; [reflexivity|]. cbn [split_inclusive_nl].
  destruct (c =? c_nl); [discriminate|].
  destruct (split_inclusive_nl s'); discriminate.
Qed.

Lemma split_pieces_nonempty s : Forall (fun p => p <> []) (split_inclusive_nl s).
Proof.
  induction s as [|c s' IH]; cbn [split_inclusive_nl]; [constructor|].
  destruct (c =? c_nl).
  - constructor; [discriminate | exact IH].
  - destruct (split_inclusive_nl s') as [|p ps]; constructor; try discriminate; try constructor.
    inversion IH; assumption.
Qed.

Lemma ends_with_nl_cons c p : p <> [] -> ends_with_nl (c :: p) = ends_with_nl p.
Proof. destruct p; [congruence | reflexivity]. Qed.

Lemma pad_flat_text : forall s nl, pad_flat nl s = pad_text nl s.
Proof.
  unfold pad_flat, pad_write_str.
  induction s as [|c s' IH]; intros nl; [reflexivity|].
  cbn [split_inclusive_nl pad_text].
  destruct (c =? c_nl) eqn:Ec.
  - cbn [pad_pieces]. replace (ends_with_nl [c]) with true by (cbn; now rewrite Ec).
    specialize (IH true). destruct (pad_pieces true (split_inclusive_nl s')) as [out st].
    cbn [fst snd] in IH. rewrite <- IH. cbn [fst snd].
    rewrite concat_app. destruct nl; cbn; rewrite ?app_nil_r; reflexivity.
  - destruct (split_inclusive_nl s') as [|p ps] eqn:Es.
    + apply split_nil_inv in Es. subst s'. cbn. rewrite Ec.
      destruct nl; reflexivity.
    + assert (Hp : p <> []).
      { pose proof (split_pieces_nonempty s') as H. rewrite Es in H. now inversion H. }
      specialize (IH false). cbn [pad_pieces] in IH |- *.
      rewrite (ends_with_nl_cons c p Hp).
      destruct (pad_pieces (ends_with_nl p) ps) as [out st].
      cbn [fst snd app] in IH |- *. rewrite <- IH.
      rewrite concat_app. destruct nl; cbn; rewrite ?app_nil_r; reflexivity.
Qed.

Lemma pad_text_app : forall a b nl,
  pad_text nl (a ++ b) =
  (fst (pad_text nl a) ++ fst (pad_text (snd (pad_text nl a)) b), snd (pad_text (snd (pad_text nl a)) b)).
Proof.
  induction a as [|c a IH]; intros b nl.
  - cbn. now destruct (pad_text nl b).
  - cbn [app pad_text]. rewrite IH.
    destruct (pad_text (c =? c_nl) a) as [o st]. cbn [fst snd].
    now rewrite <- app_assoc.
Qed.

(** the lemma of DESIGN.md: writing [a ++ b] through a pad adapter = writing [a], then [b] *)
Lemma padded_concat : forall st a b,
  pad_flat st (a ++ b) =
  (fst (pad_flat st a) ++ fst (pad_flat (snd (pad_flat st a)) b), snd (pad_flat (snd (pad_flat st a)) b)).
Proof. intros. rewrite !pad_flat_text. apply pad_text_app. Qed.

Lemma pad_write_all_text : forall cs nl,
  (concat (fst (pad_write_all nl cs)), snd (pad_write_all nl cs)) = pad_text nl (concat cs).
Proof.
  induction cs as [|c cs IH]; intros nl; [reflexivity|].
  cbn [pad_write_all concat]. rewrite pad_text_app, <- pad_flat_text.
  unfold pad_flat. destruct (pad_write_str nl c) as [o1 st1]. cbn [fst snd].
  specialize (IH st1). destruct (pad_write_all st1 cs) as [o2 st2]. cbn [fst snd] in *.
  rewrite concat_app. rewrite <- IH. reflexivity.
Qed.

Lemma pad_write_all_app : forall cs1 cs2 nl,
  pad_write_all nl (cs1 ++ cs2) =
  (fst (pad_write_all nl cs1) ++ fst (pad_write_all (snd (pad_write_all nl cs1)) cs2),
   snd (pad_write_all (snd (pad_write_all nl cs1)) cs2)).
Proof.
  induction cs1 as [|c cs1 IH]; intros cs2 nl.
  - cbn. now destruct (pad_write_all nl cs2).
  - cbn [app pad_write_all]. destruct (pad_write_str nl c) as [o1 st1].
    rewrite IH. destruct (pad_write_all st1 cs1) as [o2 st2]. cbn [fst snd].
    now rewrite app_assoc.
Qed.

Lemma fold_left_app_concat : forall (cs : list str) b, fold_left (@app N) cs b = b ++ concat cs.
Proof.
  induction cs as [|c cs IH]; intros b; cbn; [now rewrite app_nil_r|].
  now rewrite IH, app_assoc.
Qed.

(** a stack of adapters over a String only sees the concatenation of what is written *)
Lemma write_chunks_concat : forall ps b cs cs',
  concat cs = concat cs' -> write_chunks ps b cs = write_chunks ps b cs'.
Proof.
  induction ps as [|nl rest IH]; intros b cs cs' H; cbn [write_chunks].
  - now rewrite !fold_left_app_concat, H.
  - pose proof (pad_write_all_text cs nl) as H1. pose proof (pad_write_all_text cs' nl) as H2.
    rewrite H in H1. rewrite <- H2 in H1.
    destruct (pad_write_all nl cs) as [o1 s1], (pad_write_all nl cs') as [o2 s2].
    cbn [fst snd] in H1. inversion H1; subst.
    now rewrite (IH b o1 o2).
Qed.

Lemma write_chunks_app : forall ps b cs1 cs2,
  write_chunks ps b (cs1 ++ cs2) =
  write_chunks (snd (write_chunks ps b cs1)) (fst (write_chunks ps b cs1)) cs2.
Proof.
  induction ps as [|nl rest IH]; intros b cs1 cs2; cbn [write_chunks].
  - cbn [fst snd write_chunks]. now rewrite fold_left_app.
  - rewrite pad_write_all_app.
    destruct (pad_write_all nl cs1) as [o1 s1]. cbn [fst snd].
    rewrite IH. destruct (write_chunks rest b o1) as [b1 r1]. cbn [fst snd write_chunks].
    destruct (pad_write_all s1 cs2) as [o2 s2]. cbn [fst snd].
    destruct (write_chunks r1 b1 o2) as [b2 r2]. reflexivity.
Qed.

Lemma write_chunks_nil : forall ps b, write_chunks ps b [] = (b, ps).
Proof.
  induction ps as [|nl rest IH]; intros b; cbn; [reflexivity|]. now rewrite IH.
Qed.

Lemma write_str_nil w : write_str w [] = w.
Proof.
  destruct w as [b ps]. unfold write_str. cbn [pads base].
  assert (E : write_chunks ps b (@cons str (@nil N) (@nil str)) = write_chunks ps b []) by (apply write_chunks_concat; reflexivity).
  now rewrite E, write_chunks_nil.
Qed.

(** chunking irrelevance for every writer (any depth of adapters) *)
Lemma write_str_app w a b : write_str (write_str w a) b = write_str w (a ++ b).
Proof.
  destruct w as [b0 ps]. unfold write_str. cbn [pads base].
  assert (E : write_chunks ps b0 (@cons str (a ++ b) (@nil str)) = write_chunks ps b0 ([a] ++ [b]))
    by (apply write_chunks_concat; cbn; now rewrite !app_nil_r).
  rewrite E, write_chunks_app.
  destruct (write_chunks ps b0 [a]) as [b1 p1]. reflexivity.
Qed.

(** a Debug impl that only ever calls write_str is determined by the text it writes *)
Definition writes_only (f : fmtfun) : Prop :=
  forall c, exists (chunks : list str) (ok : bool), forall w, f c w = (fold_left write_str chunks w, ok).

Lemma fold_write_concat : forall cs w, fold_left write_str cs w = write_str w (concat cs).
Proof.
  induction cs as [|c cs IH]; intros w; cbn [fold_left concat]; [now rewrite write_str_nil|].
  now rewrite IH, write_str_app.
Qed.

Lemma writes_only_text f : writes_only f ->
  forall c, exists (text : str) (ok : bool), forall w, f c w = (write_str w text, ok).
Proof.
  intros H c. destruct (H c) as (cs & ok & Hf). exists (concat cs), ok. intros w.
  now rewrite Hf, fold_write_concat.
Qed.

Example leaf_table_writes_only t d : writes_only (leaf_table t d).
Proof. intros c. exists [lookup_cfg c t d], true. reflexivity. Qed.

(* ================================================================== 2. cfg equality *)

Lemma opt_eqb_eq {A} (e : A -> A -> bool) :
  (forall x y, e x y = true -> x = y) -> forall a b, opt_eqb e a b = true -> a = b.
Proof. intros He [x|] [y|]; cbn; intros H; try discriminate; try reflexivity. f_equal; auto. Qed.

Lemma cfg_eqb_eq a b : cfg_eqb a b = true -> a = b.
Proof.
  destruct a as [a1 a2 a3 a4 a5 a6 a7 a8], b as [b1 b2 b3 b4 b5 b6 b7 b8]. unfold cfg_eqb.
  cbn [alternate dhex width fill align precision sign_flag zero_pad].
  rewrite !andb_true_iff. intros [[[[[[[H1 H2] H3] H4] H5] H6] H7] H8].
  apply eqb_prop in H1, H8. apply N.eqb_eq in H4.
  apply (opt_eqb_eq debug_hex_eqb) in H2; [|intros [] []; cbn; congruence].
  apply (opt_eqb_eq N.eqb) in H3; [|intros x y; apply N.eqb_eq].
  apply (opt_eqb_eq alignment_eqb) in H5; [|intros [] []; cbn; congruence].
  apply (opt_eqb_eq N.eqb) in H6; [|intros x y; apply N.eqb_eq].
  apply (opt_eqb_eq sign_eqb) in H7; [|intros [] []; cbn; congruence].
  congruence.
Qed.

Lemma cfg_ok_cases c : cfg_ok_for_dm_tuple c = true -> alternate c = false \/ c = pretty_cfg.
Proof.
  unfold cfg_ok_for_dm_tuple. intros H. apply orb_true_iff in H as [H|H].
  - left. now destruct (alternate c).
  - right. now apply cfg_eqb_eq.
Qed.

(* ================================================================== 3. the two tuple builders *)

Lemma bind_wok_r r : bind r wok = r.
Proof. destruct r as [w [|]]; reflexivity. Qed.

(** DebugTuple::field: derive_more's = core's whenever the formatter is compact, or pretty with no
    other option *)
Lemma tuple_field_eq c b f :
  cfg_ok_for_dm_tuple c = true -> dm_tuple_field c b f = core_tuple_field c b f.
Proof.
  intros H. apply cfg_ok_cases in H as [H|H].
  - unfold dm_tuple_field, core_tuple_field. now rewrite H.
  - subst c. unfold dm_tuple_field, core_tuple_field. cbn [alternate pretty_cfg].
    f_equal; f_equal; unfold dt_and_then, bind; destruct (t_result b); try reflexivity;
      unfold with_pad, run_args, bind; rewrite write_str_nil;
      destruct (f pretty_cfg _) as [w' [|]]; cbn; rewrite ?write_str_nil; reflexivity.
Qed.

(** finish / finish_non_exhaustive / constructor are the same code: equal for EVERY configuration *)
Lemma tuple_new_eq w n : dm_debug_tuple w n = core_debug_tuple_new w n.
Proof. reflexivity. Qed.
Lemma tuple_finish_eq c b : dm_tuple_finish c b = core_tuple_finish c b.
Proof. reflexivity. Qed.
Lemma tuple_finish_non_exhaustive_eq c b :
  dm_tuple_finish_non_exhaustive c b = core_tuple_finish_non_exhaustive c b.
Proof. reflexivity. Qed.

Lemma fold_left_ext {A B} (f g : A -> B -> A) :
  (forall a x, f a x = g a x) -> forall l a, fold_left f l a = fold_left g l a.
Proof. intros H; induction l as [|x l IH]; intros a; cbn; [reflexivity|]. now rewrite H, IH. Qed.

Lemma tuple_fmt_eq name fs ex c w :
  cfg_ok_for_dm_tuple c = true -> tuple_fmt Dm name fs ex c w = tuple_fmt Std name fs ex c w.
Proof.
  intros H. unfold tuple_fmt.
  rewrite (fold_left_ext (dm_tuple_field c) (core_tuple_field c)) by (intros; now apply tuple_field_eq).
  reflexivity.
Qed.

Lemma tuple_compact name fs ex c w :
  alternate c = false -> tuple_fmt Dm name fs ex c w = tuple_fmt Std name fs ex c w.
Proof. intros H. apply tuple_fmt_eq. unfold cfg_ok_for_dm_tuple. now rewrite H. Qed.

Lemma tuple_pretty_only name fs ex w :
  tuple_fmt Dm name fs ex pretty_cfg w = tuple_fmt Std name fs ex pretty_cfg w.
Proof. now apply tuple_fmt_eq. Qed.

Lemma tuple_no_fields name ex c w : tuple_fmt Dm name [] ex c w = tuple_fmt Std name [] ex c w.
Proof. reflexivity. Qed.

(* ================================================================== 4. congruence of the builder chains *)

Definition agree_at (c : cfg) (f g : fmtfun) : Prop := forall w, f c w = g c w.

Lemma fold_left_Forall2 {A B C} (f : A -> B -> A) (g : A -> C -> A) (R : B -> C -> Prop) :
  (forall a x y, R x y -> f a x = g a y) ->
  forall l l', Forall2 R l l' -> forall a, fold_left f l a = fold_left g l' a.
Proof.
  intros H l l' HF. induction HF as [|x y l l' Hxy _ IH]; intros a; cbn; [reflexivity|].
  now rewrite (H a x y Hxy), IH.
Qed.

Lemma core_tuple_field_cong c b f g : agree_at c f g -> core_tuple_field c b f = core_tuple_field c b g.
Proof.
  intros H. unfold core_tuple_field, dt_and_then, bind, with_pad.
  destruct (t_result b); [|reflexivity].
  destruct (alternate c); now rewrite H.
Qed.

Lemma tuple_fmt_std_cong name ex c fs gs :
  Forall2 (agree_at c) fs gs -> forall w, tuple_fmt Std name fs ex c w = tuple_fmt Std name gs ex c w.
Proof.
  intros H w. unfold tuple_fmt.
  now rewrite (fold_left_Forall2 _ _ (agree_at c) (fun a x y Hxy => core_tuple_field_cong c a x y Hxy) fs gs H).
Qed.

Definition agree_named (c : cfg) (p q : str * fmtfun) : Prop := fst p = fst q /\ agree_at c (snd p) (snd q).

Lemma core_struct_field_cong c b p q : agree_named c p q -> core_struct_field c b p = core_struct_field c b q.
Proof.
  destruct p as [k f], q as [k' g]. intros [Hk H]. cbn [fst snd] in Hk, H. subst k'.
  unfold core_struct_field, ds_and_then, bind, with_pad.
  destruct (s_result b); [|reflexivity].
  destruct (alternate c); now rewrite H.
Qed.

Lemma struct_fmt_cong name ex c fs gs :
  Forall2 (agree_named c) fs gs -> forall w, struct_fmt name fs ex c w = struct_fmt name gs ex c w.
Proof.
  intros H w. unfold struct_fmt.
  now rewrite (fold_left_Forall2 _ _ (agree_named c) (fun a x y Hxy => core_struct_field_cong c a x y Hxy) fs gs H).
Qed.

Lemma core_list_entry_cong c b f g : agree_at c f g -> core_list_entry c b f = core_list_entry c b g.
Proof.
  intros H. unfold core_list_entry, ds_and_then, bind, with_pad.
  destruct (s_result b); [|reflexivity].
  destruct (alternate c); now rewrite H.
Qed.

Lemma list_fmt_cong c fs gs :
  Forall2 (agree_at c) fs gs -> forall w, list_fmt fs c w = list_fmt gs c w.
Proof.
  intros H w. unfold list_fmt.
  now rewrite (fold_left_Forall2 _ _ (agree_at c) (fun a x y Hxy => core_list_entry_cong c a x y Hxy) fs gs H).
Qed.

Definition agree_piece (p q : str * cfg * fmtfun) : Prop :=
  fst (fst p) = fst (fst q) /\ snd (fst p) = snd (fst q) /\ agree_at (snd (fst p)) (snd p) (snd q).

Lemma run_args_cong tail ps qs :
  Forall2 agree_piece ps qs -> forall w, run_args ps tail w = run_args qs tail w.
Proof.
  intros H. induction H as [|p q ps qs Hpq _ IH]; intros w; [reflexivity|].
  destruct p as [[l c] f], q as [[l' c'] g]. destruct Hpq as (Hl & Hc & Hf). cbn [fst snd] in *.
  subst l' c'. cbn [run_args]. rewrite Hf. unfold bind. destruct (g c (write_str w l)) as [w' [|]]; auto.
Qed.

(* ================================================================== 5. value trees *)

Section val_induction.
  Variable P : val -> Prop.
  Hypothesis Hleaf : forall f, P (VLeaf f).
  Hypothesis Hunit : forall n, P (VUnit n).
  Hypothesis Htuple : forall fl n fs ex, Forall P fs -> P (VTuple fl n fs ex).
  Hypothesis Hnamed : forall n fs ex, Forall (fun p => P (snd p)) fs -> P (VNamed n fs ex).
  Hypothesis Hlist : forall items, Forall P items -> P (VList items).
  Hypothesis Hargs : forall ps tail, Forall (fun p => P (snd p)) ps -> P (VArgs ps tail).

  Fixpoint val_ind' (v : val) : P v :=
    match v with
    | VLeaf f => Hleaf f
    | VUnit n => Hunit n
    | VTuple fl n fs ex =>
        Htuple fl n fs ex
          ((fix go (l : list val) : Forall P l :=
              match l with [] => Forall_nil _ | x :: l' => Forall_cons x (val_ind' x) (go l') end) fs)
    | VNamed n fs ex =>
        Hnamed n fs ex
          ((fix go (l : list (str * val)) : Forall (fun p => P (snd p)) l :=
              match l with
              | [] => Forall_nil _
              | p :: l' => Forall_cons p (val_ind' (snd p)) (go l')
              end) fs)
    | VList items =>
        Hlist items
          ((fix go (l : list val) : Forall P l :=
              match l with [] => Forall_nil _ | x :: l' => Forall_cons x (val_ind' x) (go l') end) items)
    | VArgs ps tail =>
        Hargs ps tail
          ((fix go (l : list (str * cfg * val)) : Forall (fun p => P (snd p)) l :=
              match l with
              | [] => Forall_nil _
              | p :: l' => Forall_cons p (val_ind' (snd p)) (go l')
              end) ps)
    end.
End val_induction.

Definition same_as_std (c : cfg) (v : val) : Prop := forall w, fmt_val v c w = fmt_val (to_std v) c w.

Lemma Forall2_map_vals c (fs : list val) :
  Forall (fun v => forall c, safeb c v = true -> same_as_std c v) fs ->
  forallb (safeb c) fs = true ->
  Forall2 (agree_at c) (map fmt_val fs) (map fmt_val (map to_std fs)).
Proof.
  induction fs as [|v fs IH]; intros HF Hs; cbn; [constructor|].
  cbn in Hs. apply andb_true_iff in Hs as [H1 H2]. inversion HF; subst.
  constructor; [|now apply IH]. intros w. now apply H3.
Qed.

(** MAIN LEMMA: wherever no derive_more tuple builder with a printed field meets "pretty + further
    options", the derive_more value prints exactly what the std-derived twin prints *)
Lemma safe_same_as_std : forall v c, safeb c v = true -> same_as_std c v.
Proof.
  induction v as [f|n|fl n fs ex IH|n fs ex IH|items IH|ps tail IH] using val_ind'; intros c Hs w.
  - reflexivity.
  - reflexivity.
  - cbn [safeb] in Hs. apply andb_true_iff in Hs as [Hfl Hfs].
    cbn [fmt_val to_std].
    transitivity (tuple_fmt Std n (map fmt_val fs) ex c w).
    + destruct fl; [|reflexivity].
      apply orb_true_iff in Hfl as [Hc|Hn].
      * now apply tuple_fmt_eq.
      * destruct fs; [reflexivity|discriminate].
    + apply tuple_fmt_std_cong. now apply Forall2_map_vals.
  - cbn [safeb] in Hs. cbn [fmt_val to_std]. apply struct_fmt_cong.
    clear w. induction fs as [|[k x] fs IHfs]; cbn; [constructor|].
    cbn in Hs. apply andb_true_iff in Hs as [H1 H2]. inversion IH; subst.
    constructor; [|now apply IHfs]. split; [reflexivity|]. intros w. cbn [snd] in *. now apply H3.
  - cbn [safeb] in Hs. cbn [fmt_val to_std]. apply list_fmt_cong. now apply Forall2_map_vals.
  - cbn [safeb] in Hs. cbn [fmt_val to_std]. unfold args_fmt. apply run_args_cong.
    clear w. induction ps as [|[[l c'] x] ps IHps]; cbn; [constructor|].
    cbn in Hs. apply andb_true_iff in Hs as [H1 H2]. inversion IH; subst.
    constructor; [|now apply IHps]. repeat split. cbn [fst snd] in *. intros w. now apply H3.
Qed.

(** values in which every [format_args!] placeholder that reaches a derive_more tuple is itself
    compact or plain [{:#?}]; in particular every value built without field-level formats *)
Fixpoint args_ok (v : val) : bool :=
  match v with
  | VLeaf _ | VUnit _ => true
  | VTuple _ _ fs _ => forallb args_ok fs
  | VNamed _ fs _ => forallb (fun p => let '(_, x) := p in args_ok x) fs
  | VList items => forallb args_ok items
  | VArgs ps _ => forallb (fun p => let '(_, c', x) := p in cfg_ok_for_dm_tuple c' && args_ok x) ps
  end.

Lemma forallb_impl {A} (p q : A -> bool) l :
  Forall (fun x => p x = true -> q x = true) l -> forallb p l = true -> forallb q l = true.
Proof.
  induction 1 as [|x l Hx _ IH]; cbn; [auto|]. rewrite !andb_true_iff. intros [H1 H2]. auto.
Qed.

Lemma args_ok_safe : forall v c, cfg_ok_for_dm_tuple c = true -> args_ok v = true -> safeb c v = true.
Proof.
  induction v as [f|n|fl n fs ex IH|n fs ex IH|items IH|ps tail IH] using val_ind'; intros c Hc Ha;
    cbn [safeb args_ok] in *; try reflexivity.
  - apply andb_true_iff. split.
    + destruct fl; [now rewrite Hc | reflexivity].
    + revert Ha. apply forallb_impl. eapply Forall_impl; [|exact IH]. cbn. auto.
  - revert Ha. apply forallb_impl. eapply Forall_impl; [|exact IH]. intros [k x]. cbn. auto.
  - revert Ha. apply forallb_impl. eapply Forall_impl; [|exact IH]. cbn. auto.
  - revert Ha. apply forallb_impl. eapply Forall_impl; [|exact IH]. intros [[l c'] x]. cbn.
    intros H Hx. apply andb_true_iff in Hx as [H1 H2]. auto.
Qed.

Lemma compact_same_as_std v c : alternate c = false -> args_ok v = true -> same_as_std c v.
Proof.
  intros Hc Ha. apply safe_same_as_std, args_ok_safe; [|exact Ha].
  unfold cfg_ok_for_dm_tuple. now rewrite Hc.
Qed.

Lemma pretty_only_same_as_std v : args_ok v = true -> same_as_std pretty_cfg v.
Proof. intros Ha. now apply safe_same_as_std, args_ok_safe. Qed.

(* ================================================================== 6. the refutation of the full statement *)

(** a leaf that, like the integers, prints differently when hex-debug is requested *)
Definition hexish_leaf : fmtfun :=
  fun c w => wok (write_str w (match dhex c with Some _ => [48; 120; 102; 102] | None => [50; 53; 53] end)).

Definition pretty_hex_cfg : cfg :=
  {| alternate := true; dhex := Some DhLower; width := None; fill := 32; align := None;
     precision := None; sign_flag := None; zero_pad := false |}.

Lemma tuple_pretty_refuted :
  exists name fs c w, alternate c = true /\
    tuple_fmt Dm name fs true c w <> tuple_fmt Std name fs true c w.
Proof.
  exists [68], [hexish_leaf], pretty_hex_cfg, (mkw [] []). split; [reflexivity|].
  intros H. vm_compute in H. discriminate H.
Qed.

Lemma full_statement_refuted : ~ (forall v c w, fmt_val v c w = fmt_val (to_std v) c w).
Proof.
  intros H. specialize (H (VTuple Dm [68] [VLeaf hexish_leaf] true) pretty_hex_cfg (mkw [] [])).
  vm_compute in H. discriminate H.
Qed.

(** the class is exact: for EVERY configuration that is pretty and carries any other option there is a
    one-field tuple struct on which derive_more's text differs from std's *)
Definition cfg_probe_leaf : fmtfun :=
  fun c w => wok (write_str w (if cfg_eqb c pretty_cfg then [97] else [98])).

Lemma cfg_eqb_refl c : cfg_eqb c c = true.
Proof.
  destruct c as [a h wd f al p s z]. unfold cfg_eqb. cbn.
  rewrite eqb_reflx, N.eqb_refl, eqb_reflx.
  destruct h as [[]|], wd, al as [[]|], p, s as [[]|]; cbn; rewrite ?N.eqb_refl; reflexivity.
Qed.

Lemma write_str_base_nopad b s : write_str (mkw b []) s = mkw (b ++ s) [].
Proof. reflexivity. Qed.

Lemma unsafe_cfg_differs c :
  cfg_ok_for_dm_tuple c = false ->
  render (VTuple Dm [68] [VLeaf cfg_probe_leaf] true) c <>
  render (to_std (VTuple Dm [68] [VLeaf cfg_probe_leaf] true)) c.
Proof.
  unfold cfg_ok_for_dm_tuple. intros H. apply orb_false_iff in H as [Ha He].
  apply negb_false_iff in Ha.
  unfold render. cbn [to_std map fmt_val tuple_fmt fold_left].
  unfold dm_tuple_field, core_tuple_field, dm_tuple_finish, core_tuple_finish,
    dm_debug_tuple, core_debug_tuple_new, dt_and_then.
  cbn [t_w t_result t_fields t_empty_name fst snd].
  rewrite Ha. cbn [bind Nat.eqb Nat.ltb Nat.leb is_empty andb negb].
  unfold with_pad, run_args, cfg_probe_leaf, bind, wok. cbn [fst snd].
  rewrite He, cfg_eqb_refl. vm_compute. discriminate.
Qed.

(* ================================================================== 7. decision logic of the derives *)

Lemma site_string_unraw i : site_string true i = iname i.
Proof. reflexivity. Qed.

Lemma site_string_not_raw u i : raw i = false -> site_string u i = iname i.
Proof. intros H. unfold site_string, ident_to_string. destruct u; cbn; now rewrite ?H. Qed.

Definition attr_none (a : fattr) : bool := match a with ANone => true | _ => false end.

Lemma unnamed_calls_no_attrs : forall l i,
  forallb attr_none l = true -> unnamed_calls i l = (std_unnamed_calls i l, true).
Proof.
  induction l as [|a l IH]; intros i H; [reflexivity|].
  cbn in H. apply andb_true_iff in H as [Ha Hl]. destruct a; try discriminate.
  cbn [unnamed_calls std_unnamed_calls]. now rewrite (IH (S i) Hl).
Qed.

Lemma named_calls_no_attrs : forall l u i,
  forallb (fun p => attr_none (snd p)) l = true ->
  (u = true \/ forallb (fun p : ident * fattr => negb (raw (fst p))) l = true) ->
  named_calls u i l = (std_named_calls i l, true).
Proof.
  induction l as [|[id a] l IH]; intros u i H Hu; [reflexivity|].
  cbn in H. apply andb_true_iff in H as [Ha Hl]. destruct a; try discriminate.
  cbn [named_calls std_named_calls].
  assert (Hid : site_string u id = iname id).
  { destruct Hu as [->|Hr]; [reflexivity|]. cbn in Hr. apply andb_true_iff in Hr as [Hr _].
    apply site_string_not_raw. now destruct (raw id). }
  rewrite Hid, (IH u (S i) Hl); [reflexivity|].
  destruct Hu as [->|Hr]; [now left|]. right. cbn in Hr. now apply andb_true_iff in Hr as [_ Hr].
Qed.

(** With no attributes and names printed without [r#], derive_more emits the very calls std's derive
    emits (on its own tuple builder instead of core's); the only syntactic difference - std uses
    write_str for [S()] and [S {}] - prints the same. *)
Lemma derive_calls_same_gen st e :
  no_attrs e = true ->
  (raw (e_ident e) = false \/ (unit_unraw st && tuple_unraw st && named_unraw st = true)) ->
  (field_unraw st = true \/ fields_raw_free e = true) ->
  forall fv av c w,
    fmt_val (body_val fv av (std_of_body (generate_body st e))) c w =
    fmt_val (body_val fv av (std_derive_body e)) c w.
Proof.
  destruct e as [id fs]. unfold no_attrs, fields_raw_free, generate_body, std_derive_body.
  cbn [e_ident e_fields]. intros Hna Hname Hfld fv av c w.
  assert (Hn : forall u, (raw id = false \/ u = true) -> site_string u id = iname id).
  { intros u [H| ->]; [now apply site_string_not_raw | reflexivity]. }
  destruct fs as [|l|l].
  - rewrite Hn; [reflexivity|]. destruct Hname as [H|H]; [now left|right].
    now apply andb_true_iff in H as [H _]; apply andb_true_iff in H as [H _].
  - rewrite (unnamed_calls_no_attrs l 0) by exact Hna.
    rewrite Hn.
    2:{ destruct Hname as [H|H]; [now left|right].
        now apply andb_true_iff in H as [H _]; apply andb_true_iff in H as [_ H]. }
    destruct l; reflexivity.
  - rewrite (named_calls_no_attrs l (field_unraw st) 0).
    + rewrite Hn.
      2:{ destruct Hname as [H|H]; [now left|right]. now apply andb_true_iff in H as [_ H]. }
      destruct l; reflexivity.
    + exact Hna.
    + destruct Hfld as [H|H]; [now left | now right].
Qed.

Lemma derive_calls_same st e :
  no_attrs e = true -> all_unraw st = true ->
  forall fv av c w,
    fmt_val (body_val fv av (std_of_body (generate_body st e))) c w =
    fmt_val (body_val fv av (std_derive_body e)) c w.
Proof.
  intros Hna Hu. unfold all_unraw in Hu. apply andb_true_iff in Hu as [Hu Hf].
  apply derive_calls_same_gen; auto.
Qed.

(** the current tree: no hypothesis on the names is left *)
Lemma derive_calls_same_now e :
  no_attrs e = true ->
  forall fv av c w,
    fmt_val (body_val fv av (std_of_body (generate_body_now e))) c w =
    fmt_val (body_val fv av (std_derive_body e)) c w.
Proof. intros Hna. now apply derive_calls_same. Qed.

(** syntactic form, whenever at least one field is declared (or the item is a unit) *)
Definition has_decl_fields (e : expansion) : bool :=
  match e_fields e with FUnit => true | FUnnamed l => negb (is_nil l) | FNamed l => negb (is_nil l) end.

Lemma derive_calls_same_syntactic st e :
  no_attrs e = true -> all_unraw st = true -> has_decl_fields e = true ->
  std_of_body (generate_body st e) = std_derive_body e.
Proof.
  destruct e as [id fs]. unfold no_attrs, all_unraw, has_decl_fields, generate_body, std_derive_body.
  cbn [e_ident e_fields]. intros Hna Hu Hd.
  apply andb_true_iff in Hu as [Hu Hf]. apply andb_true_iff in Hu as [Hu Hn].
  apply andb_true_iff in Hu as [Hu Ht]. rewrite Hu, Ht, Hn, Hf.
  destruct fs as [|l|l].
  - reflexivity.
  - rewrite (unnamed_calls_no_attrs l 0) by exact Hna.
    destruct l; [discriminate|reflexivity].
  - rewrite (named_calls_no_attrs l true 0); [|exact Hna|now left].
    destruct l; [discriminate|reflexivity].
Qed.

Lemma derive_calls_same_syntactic_now e :
  no_attrs e = true -> has_decl_fields e = true ->
  std_of_body (generate_body_now e) = std_derive_body e.
Proof. intros Hna Hd. now apply derive_calls_same_syntactic. Qed.

(** names of the current tree never carry [r#]: every name literal is the identifier's own name *)
Lemma current_names_unraw e :
  match generate_body_now e with
  | BWriteStr n | BDmTuple n _ _ | BCoreTuple n _ _ | BCoreStruct n _ _ => n = iname (e_ident e)
  end.
Proof.
  destruct e as [id fs]. unfold generate_body_now, generate_body. cbn [e_ident e_fields].
  destruct fs as [|l|l]; cbn.
  - reflexivity.
  - now destruct (unnamed_calls 0 l).
  - now destruct (named_calls true 0 l).
Qed.

(** sensitivity (regression guard, formerly the refutation for the unrepaired tree): any name site that
    keeps the [r#] prefix shows in the output *)
Definition raw_struct : ident := mkid true [115; 116; 114; 117; 99; 116].      (* r#struct *)
Definition raw_fn : ident := mkid true [102; 110].                               (* r#fn *)

Lemma raw_name_site_sensitive st :
  all_unraw st = false ->
  exists e, no_attrs e = true /\
    render (body_val (fun _ => VUnit [120]) (fun _ _ => VUnit [120]) (generate_body st e)) default_cfg <>
    render (body_val (fun _ => VUnit [120]) (fun _ _ => VUnit [120]) (std_derive_body e)) default_cfg.
Proof.
  destruct st as [[] [] [] []]; cbn; intros H; try discriminate H.
  all: first
    [ exists (mkexp raw_struct FUnit); split; [reflexivity|]; vm_compute; discriminate
    | exists (mkexp raw_struct (FUnnamed [ANone])); split; [reflexivity|]; vm_compute; discriminate
    | exists (mkexp raw_struct (FNamed [(mkid false [97], ANone)])); split; [reflexivity|]; vm_compute; discriminate
    | exists (mkexp (mkid false [83]) (FNamed [(raw_fn, ANone)])); split; [reflexivity|]; vm_compute; discriminate ].
Qed.

(** skipped fields: exactly the non-skipped fields are handed to the builder, in declaration order, and
    the chain is closed with finish_non_exhaustive iff some field is skipped *)

Lemma unnamed_calls_spec : forall l i,
  unnamed_calls i l = (flat_map printed (combine (seq i (length l)) l), negb (existsb is_skip l)).
Proof.
  induction l as [|a l IH]; intros i; [reflexivity|].
  cbn [unnamed_calls length seq combine flat_map existsb]. rewrite IH.
  destruct a; cbn; try reflexivity.
Qed.


Lemma named_calls_spec : forall l u i,
  named_calls u i l =
  (flat_map (printed_named u) (combine (seq i (length l)) l), negb (existsb (fun p => is_skip (snd p)) l)).
Proof.
  induction l as [|[id a] l IH]; intros u i; [reflexivity|].
  cbn [named_calls length seq combine flat_map existsb]. rewrite IH.
  destruct a; cbn; try reflexivity.
Qed.

(* ================================================================== 8. attributes: the hand-written reference *)

(** every arrangement of plain / skip / ignore / formatted fields, tuple or named, raw names or not:
    derive_more emits exactly the reference chain (on its own tuple builder) *)
Lemma attrs_reference e : std_of_body (generate_body_now e) = reference_body e.
Proof.
  destruct e as [id fs]. unfold generate_body_now, generate_body, reference_body.
  cbn [e_ident e_fields current_sites unit_unraw tuple_unraw named_unraw field_unraw].
  destruct fs as [|l|l].
  - reflexivity.
  - rewrite unnamed_calls_spec. reflexivity.
  - rewrite named_calls_spec. reflexivity.
Qed.

Lemma unnamed_printed_app : forall l1 l2 i,
  flat_map printed (combine (seq i (length (l1 ++ l2))) (l1 ++ l2)) =
  flat_map printed (combine (seq i (length l1)) l1) ++
  flat_map printed (combine (seq (i + length l1) (length l2)) l2).
Proof.
  induction l1 as [|a l1 IH]; intros l2 i.
  - cbn. now rewrite Nat.add_0_r.
  - cbn [app length seq combine flat_map]. rewrite IH, <- app_assoc.
    now replace (S i + length l1)%nat with (i + S (length l1))%nat by lia.
Qed.

(** locality: a field's attribute decides that field's entry and nothing else *)
Lemma unnamed_calls_local l1 a l2 :
  fst (unnamed_calls 0 (l1 ++ a :: l2)) =
  fst (unnamed_calls 0 l1) ++ printed (length l1, a) ++ fst (unnamed_calls (S (length l1)) l2).
Proof.
  rewrite !unnamed_calls_spec. cbn [fst]. rewrite unnamed_printed_app.
  cbn [length seq combine flat_map Nat.add]. reflexivity.
Qed.

(** unit, [S()], [S {}]: just the name, whatever the formatter *)
Lemma empty_shapes e fv av c w :
  (e_fields e = FUnit \/ e_fields e = FUnnamed [] \/ e_fields e = FNamed []) ->
  fmt_val (body_val fv av (generate_body_now e)) c w = (write_str w (iname (e_ident e)), true).
Proof. destruct e as [id fs]. cbn [e_fields e_ident]. intros [->|[->| ->]]; reflexivity. Qed.

(** a format_args! value is formatted by fresh formatters: the outer configuration is irrelevant *)
Lemma args_ignore_outer ps tail c c' w : fmt_val (VArgs ps tail) c w = fmt_val (VArgs ps tail) c' w.
Proof. reflexivity. Qed.

(* ================================================================== 9. generate_bounds *)

Section bounds.
  Variable generic : nat -> bool.
  Variable refs : nat -> nat -> list bound.

  Lemma bounds_from_sound : forall l i j tr,
    In (j, tr) (bounds_from generic refs i l) ->
    generic j = true /\
    ((tr = TrDebug /\ exists n, j = (i + n)%nat /\ nth_error l n = Some ANone) \/
     (exists n k, nth_error l n = Some (AFmt k) /\ In (j, tr) (refs (i + n)%nat k))).
  Proof.
    induction l as [|a l IH]; intros i j tr H; [destruct H|].
    cbn [bounds_from] in H. apply in_app_or in H as [H|H].
    - destruct a as [| |k].
      + destruct (generic i) eqn:G; [|destruct H]. destruct H as [H|[]]. inversion H; subst.
        split; [exact G|]. left. split; [reflexivity|]. exists 0%nat. split; [lia|reflexivity].
      + destruct H.
      + apply filter_In in H as [H G]. cbn [fst] in G. split; [exact G|]. right. exists 0%nat, k.
        split; [reflexivity|]. now rewrite Nat.add_0_r.
    - apply IH in H as [G [[Ht (n & Hn & Hl)]|(n & k & Hl & Hr)]]; (split; [exact G|]).
      + left. split; [exact Ht|]. exists (S n). split; [lia|exact Hl].
      + right. exists (S n), k. split; [exact Hl|]. now replace (i + S n)%nat with (S i + n)%nat by lia.
  Qed.

  Lemma bounds_from_plain_complete : forall l i n,
    nth_error l n = Some ANone -> generic (i + n)%nat = true ->
    In ((i + n)%nat, TrDebug) (bounds_from generic refs i l).
  Proof.
    induction l as [|a l IH]; intros i [|n] H G; try discriminate H; cbn [bounds_from]; apply in_or_app.
    - cbn in H. inversion H; subst. left. rewrite Nat.add_0_r in G |- *. rewrite G. now left.
    - right. cbn in H. replace (i + S n)%nat with (S i + n)%nat in * by lia. now apply IH.
  Qed.

  Lemma bounds_from_fmt_complete : forall l i n k j tr,
    nth_error l n = Some (AFmt k) -> In (j, tr) (refs (i + n)%nat k) -> generic j = true ->
    In (j, tr) (bounds_from generic refs i l).
  Proof.
    induction l as [|a l IH]; intros i [|n] k j tr H Hr G; try discriminate H; cbn [bounds_from]; apply in_or_app.
    - cbn in H. inversion H; subst. left. rewrite Nat.add_0_r in Hr. apply filter_In. now split.
    - right. cbn in H. replace (i + S n)%nat with (S i + n)%nat in * by lia. now apply (IH (S i) n k).
  Qed.
End bounds.

(** exact characterisation of the generated where-predicates *)
Lemma generate_bounds_exact generic refs e j tr :
  In (j, tr) (generate_bounds generic refs e) <->
  generic j = true /\
  ((tr = TrDebug /\ nth_error (field_attrs (e_fields e)) j = Some ANone) \/
   (exists i k, nth_error (field_attrs (e_fields e)) i = Some (AFmt k) /\ In (j, tr) (refs i k))).
Proof.
  unfold generate_bounds. split.
  - intros H. apply bounds_from_sound in H as [G [[Ht (n & Hn & Hl)]|(n & k & Hl & Hr)]]; (split; [exact G|]).
    + left. cbn in Hn. subst. now split.
    + right. now exists n, k.
  - intros [G [[-> H]|(i & k & H & Hr)]].
    + now apply (bounds_from_plain_complete generic refs _ 0 j).
    + now apply (bounds_from_fmt_complete generic refs _ 0 i k).
Qed.

(** skipped fields impose no bound of their own: without field-level formats only plainly printed fields
    with a generic type are bounded, each by Debug *)
Lemma generate_bounds_skip_free generic refs e j tr :
  (forall i k, nth_error (field_attrs (e_fields e)) i <> Some (AFmt k)) ->
  In (j, tr) (generate_bounds generic refs e) ->
  tr = TrDebug /\ generic j = true /\ nth_error (field_attrs (e_fields e)) j = Some ANone.
Proof.
  intros Hno H. apply generate_bounds_exact in H as [G [[-> H]|(i & k & H & _)]]; [auto|].
  now apply Hno in H.
Qed.

Example generate_bounds_example :
  generate_bounds (fun j => match j with 0 | 1 | 3 => true | _ => false end)%nat
                  (fun i k => [(3, TrDisplay); (2, TrLowerHex)]%nat)
                  (mkexp (mkid false [71]) (FUnnamed [ANone; ASkip; ANone; AFmt 0]))
  = [(0, TrDebug); (3, TrDisplay)]%nat.
Proof. reflexivity. Qed.

(* ================================================================== 10. derived programs, end to end *)

Section dval_induction.
  Variable P : dval -> Prop.
  Hypothesis Hleaf : forall f, P (DLeaf f).
  Hypothesis Hadt : forall e fs avs, Forall P fs -> Forall P avs -> P (DAdt e fs avs).
  Hypothesis Hstd : forall n fs, Forall P fs -> P (DStd n fs).
  Hypothesis Hname : forall n, P (DName n).
  Hypothesis Hlist : forall items, Forall P items -> P (DList items).
  Hypothesis Hargs : forall ps tail, Forall (fun p => P (snd p)) ps -> P (DArgs ps tail).

  Fixpoint dval_ind' (d : dval) : P d :=
    let go := fix go (l : list dval) : Forall P l :=
      match l with [] => Forall_nil _ | x :: l' => Forall_cons x (dval_ind' x) (go l') end in
    match d with
    | DLeaf f => Hleaf f
    | DAdt e fs avs => Hadt e fs avs (go fs) (go avs)
    | DStd n fs => Hstd n fs (go fs)
    | DName n => Hname n
    | DList items => Hlist items (go items)
    | DArgs ps tail =>
        Hargs ps tail
          ((fix go2 (l : list (str * cfg * dval)) : Forall (fun p => P (snd p)) l :=
              match l with
              | [] => Forall_nil _
              | p :: l' => Forall_cons p (dval_ind' (snd p)) (go2 l')
              end) ps)
    end.
End dval_induction.

(** same text and result under every configuration and writer *)
Definition sem_eq (v v' : val) : Prop := forall c w, fmt_val v c w = fmt_val v' c w.

Lemma sem_eq_refl v : sem_eq v v.
Proof. intros c w. reflexivity. Qed.

Lemma to_std_fexpr fv av x :
  to_std (fexpr_val fv av x) = fexpr_val (fun i => to_std (fv i)) (fun i k => to_std (av i k)) x.
Proof. destruct x; reflexivity. Qed.

Lemma to_std_body_val fv av b :
  to_std (body_val fv av b) =
  body_val (fun i => to_std (fv i)) (fun i k => to_std (av i k)) (std_of_body b).
Proof.
  destruct b as [n|n fs ex|n fs ex|n fs ex]; cbn [body_val to_std std_of_body]; try reflexivity.
  - f_equal. rewrite map_map. apply map_ext. intros x. apply to_std_fexpr.
  - f_equal. rewrite map_map. apply map_ext. intros x. apply to_std_fexpr.
  - f_equal. rewrite map_map. apply map_ext. intros [k x]. now rewrite to_std_fexpr.
Qed.

Definition core_only (b : body) : Prop := match b with BDmTuple _ _ _ => False | _ => True end.

Lemma core_only_std_of_body b : core_only (std_of_body b).
Proof. destruct b; exact I. Qed.

Lemma fexpr_val_cong fv fv' av av' x :
  (forall i, sem_eq (fv i) (fv' i)) -> (forall i k, sem_eq (av i k) (av' i k)) ->
  sem_eq (fexpr_val fv av x) (fexpr_val fv' av' x).
Proof. intros Hf Ha. destruct x; cbn; auto. Qed.

Lemma body_val_cong b fv fv' av av' :
  core_only b ->
  (forall i, sem_eq (fv i) (fv' i)) -> (forall i k, sem_eq (av i k) (av' i k)) ->
  sem_eq (body_val fv av b) (body_val fv' av' b).
Proof.
  intros Hb Hf Ha c w. destruct b as [n|n fs ex|n fs ex|n fs ex]; cbn [body_val fmt_val].
  - reflexivity.
  - destruct Hb.
  - apply tuple_fmt_std_cong. clear Hb. induction fs as [|x fs IH]; cbn; [constructor|]. constructor; [|exact IH].
    intros w'. now apply fexpr_val_cong.
  - apply struct_fmt_cong. clear Hb. induction fs as [|[k x] fs IH]; cbn; [constructor|]. constructor; [|exact IH].
    split; [reflexivity|]. intros w'. cbn [snd]. now apply fexpr_val_cong.
Qed.

(** the std side of an item = derive_more's calls on core's builder, for every formatter *)
Lemma std_side_body_sem e fv av :
  sem_eq (body_val fv av (std_side_body e)) (body_val fv av (std_of_body (generate_body_now e))).
Proof.
  intros c w. unfold std_side_body. destruct (no_attrs e) eqn:Hna.
  - symmetry. now apply derive_calls_same_now.
  - now rewrite attrs_reference.
Qed.

Lemma nth_val_map_sem (f g : dval -> val) fs :
  Forall (fun d => sem_eq (f d) (g d)) fs -> forall i, sem_eq (nth_val (map f fs) i) (nth_val (map g fs) i).
Proof.
  induction 1 as [|d fs Hd _ IH]; intros [|i]; cbn; try apply sem_eq_refl; [exact Hd|apply IH].
Qed.

Lemma to_std_nth_val l i : to_std (nth_val l i) = nth_val (map to_std l) i.
Proof. unfold nth_val. revert i. induction l as [|x l IH]; intros [|i]; cbn; auto. Qed.

Lemma Forall2_agree_maps (f g : dval -> val) c fs :
  Forall (fun d => sem_eq (f d) (g d)) fs ->
  Forall2 (agree_at c) (map fmt_val (map f fs)) (map fmt_val (map g fs)).
Proof. induction 1 as [|d fs Hd _ IH]; cbn; [constructor|]. constructor; [intros w; apply Hd|exact IH]. Qed.

(** LEMMA A: the std-side value is the derive_more value with core's tuple builder everywhere *)
Lemma std_val_is_to_std : forall d, sem_eq (std_val d) (to_std (dm_val d)).
Proof.
  induction d as [f|e fs avs IHf IHa|n fs IH|n|items IH|ps tail IH] using dval_ind'.
  - apply sem_eq_refl.
  - cbn [std_val dm_val]. rewrite to_std_body_val. intros c w.
    rewrite std_side_body_sem. apply body_val_cong; [apply core_only_std_of_body| |].
    + intros i. rewrite to_std_nth_val, map_map. now apply nth_val_map_sem.
    + intros i _. rewrite to_std_nth_val, map_map. now apply nth_val_map_sem.
  - intros c w. cbn [std_val dm_val to_std fmt_val]. apply tuple_fmt_std_cong.
    rewrite (map_map dm_val to_std).
    now apply (Forall2_agree_maps std_val (fun d => to_std (dm_val d))).
  - apply sem_eq_refl.
  - intros c w. cbn [std_val dm_val to_std fmt_val]. apply list_fmt_cong. rewrite (map_map dm_val to_std).
    now apply (Forall2_agree_maps std_val (fun d => to_std (dm_val d))).
  - intros c w. cbn [std_val dm_val to_std fmt_val]. unfold args_fmt. apply run_args_cong.
    rewrite !map_map. induction IH as [|[[l c'] x] ps Hx _ IHps]; cbn; [constructor|]. constructor; [|exact IHps].
    repeat split. cbn [fst snd] in *. intros w'. apply Hx.
Qed.

(** THE PROPERTY, end to end: outside the known-finding class a program in which every type derives
    derive_more::Debug prints what the identical program prints with std's derive (attribute-free types)
    / the hand-written reference (types with skip or format attributes) - every type shape, every nesting
    depth, every formatter configuration, every writer *)
Lemma end_to_end d c :
  known_class d c = false -> forall w, fmt_val (dm_val d) c w = fmt_val (std_val d) c w.
Proof.
  unfold known_class. intros H w. apply negb_false_iff in H.
  rewrite (safe_same_as_std _ _ H w). symmetry. apply std_val_is_to_std.
Qed.

(** programs without any #[debug] attribute *)
Fixpoint attr_free (d : dval) : bool :=
  match d with
  | DLeaf _ | DName _ => true
  | DAdt e fs _ => no_attrs e && forallb attr_free fs
  | DStd _ fs => forallb attr_free fs
  | DList items => forallb attr_free items
  | DArgs _ _ => false
  end.

Lemma nth_val_args_ok (f : dval -> val) fs :
  Forall (fun d => attr_free d = true -> args_ok (f d) = true) fs -> forallb attr_free fs = true ->
  forall i, args_ok (nth_val (map f fs) i) = true.
Proof.
  induction 1 as [|d fs Hd _ IH]; intros Hs i.
  - destruct i; reflexivity.
  - cbn [forallb] in Hs. apply andb_true_iff in Hs as [H1 H2]. destruct i as [|i].
    + exact (Hd H1).
    + exact (IH H2 i).
Qed.

Lemma forallb_map_args_ok (f : dval -> val) fs :
  Forall (fun d => attr_free d = true -> args_ok (f d) = true) fs -> forallb attr_free fs = true ->
  forallb args_ok (map f fs) = true.
Proof.
  induction 1 as [|d fs Hd _ IH]; intros Hs; cbn in *; [reflexivity|].
  apply andb_true_iff in Hs as [H1 H2]. apply andb_true_iff. auto.
Qed.

Lemma std_unnamed_args_ok fv av : (forall i, args_ok (fv i) = true) ->
  forall l i, forallb args_ok (map (fexpr_val fv av) (std_unnamed_calls i l)) = true.
Proof. intros H. induction l as [|a l IH]; intros i; cbn; [reflexivity|]. now rewrite H, IH. Qed.

Lemma std_named_args_ok fv av : (forall i, args_ok (fv i) = true) ->
  forall l i, forallb (fun p : str * val => let '(_, x) := p in args_ok x)
                (map (fun p : str * fexpr => let '(k, x) := p in (k, fexpr_val fv av x)) (std_named_calls i l)) = true.
Proof. intros H. induction l as [|[id a] l IH]; intros i; cbn; [reflexivity|]. now rewrite H, IH. Qed.

Lemma attr_free_args_ok : forall d, attr_free d = true -> args_ok (dm_val d) = true.
Proof.
  induction d as [f|e fs avs IHf IHa|n fs IH|n|items IH|ps tail IH] using dval_ind'; intros Ha;
    cbn [attr_free] in Ha; try discriminate Ha; try reflexivity.
  - apply andb_true_iff in Ha as [Hna Hfs]. cbn [dm_val].
    pose proof (nth_val_args_ok dm_val fs IHf Hfs) as Hfv.
    destruct e as [id fl]. unfold generate_body_now, generate_body, no_attrs in *. cbn [e_ident e_fields] in *.
    destruct fl as [|l|l].
    + reflexivity.
    + rewrite (unnamed_calls_no_attrs l 0) by exact Hna. cbn [body_val args_ok].
      now apply std_unnamed_args_ok.
    + rewrite (named_calls_no_attrs l _ 0); [|exact Hna|now left]. cbn [body_val args_ok].
      now apply std_named_args_ok.
  - cbn [dm_val args_ok]. now apply forallb_map_args_ok.
  - cbn [dm_val args_ok]. now apply forallb_map_args_ok.
Qed.

(** no attributes, compact formatter (every other option allowed): indistinguishable from std's derive *)
Lemma attr_free_compact d c :
  attr_free d = true -> alternate c = false -> forall w, fmt_val (dm_val d) c w = fmt_val (std_val d) c w.
Proof.
  intros Ha Hc. apply end_to_end. unfold known_class. apply negb_false_iff.
  apply args_ok_safe; [|now apply attr_free_args_ok]. unfold cfg_ok_for_dm_tuple. now rewrite Hc.
Qed.

(** no attributes, [{:#?}] and nothing else *)
Lemma attr_free_pretty d :
  attr_free d = true -> forall w, fmt_val (dm_val d) pretty_cfg w = fmt_val (std_val d) pretty_cfg w.
Proof.
  intros Ha. apply end_to_end. unfold known_class. apply negb_false_iff.
  apply args_ok_safe; [reflexivity|now apply attr_free_args_ok].
Qed.

(** the std side of an attribute-free program really is std's derive at every node *)
Lemma attr_free_std_side e : no_attrs e = true -> std_side_body e = std_derive_body e.
Proof. intros H. unfold std_side_body. now rewrite H. Qed.

(** the witness of the known class, as a program: [struct D(u8)]-like under [{:#x?}] *)
Definition witness_program : dval :=
  DAdt (mkexp (mkid false [68]) (FUnnamed [ANone])) [DLeaf hexish_leaf] [].

Lemma known_class_witness :
  attr_free witness_program = true /\ known_class witness_program pretty_hex_cfg = true /\
  render (dm_val witness_program) pretty_hex_cfg <> render (std_val witness_program) pretty_hex_cfg.
Proof. repeat split. vm_compute. discriminate. Qed.

(** ... and the class is hit by every configuration it names *)
Lemma known_class_every_cfg c :
  cfg_ok_for_dm_tuple c = false ->
  let d := DAdt (mkexp (mkid false [68]) (FUnnamed [ANone])) [DLeaf cfg_probe_leaf] [] in
  attr_free d = true /\ known_class d c = true /\
  render (dm_val d) c <> render (std_val d) c.
Proof.
  intros H d. split; [reflexivity|]. split.
  - unfold known_class, d. cbn. now rewrite H.
  - exact (unsafe_cfg_differs c H).
Qed.

Example end_to_end_example :
  let inner := DAdt (mkexp (mkid true [102; 110]) (FNamed [(mkid true [116; 121; 112; 101], ANone)])) [DLeaf hexish_leaf] [] in
  let d := DAdt (mkexp (mkid false [83]) (FUnnamed [ANone; ASkip; AFmt 0]))
                [DList [inner; inner]; DName [78]; DLeaf hexish_leaf]
                [DName []; DName []; DArgs [([60], pretty_hex_cfg, DLeaf hexish_leaf)] [62]] in
  known_class d pretty_cfg = false /\ known_class d pretty_hex_cfg = true /\
  render (dm_val d) pretty_cfg = render (std_val d) pretty_cfg.
Proof. vm_compute. repeat split. Qed.

(* ================================================================== 11. the impl's where clause *)

Lemma enum_bounds_from_In : forall bss u0 u bs b,
  nth_error bss u = Some bs -> In b bs -> In ((u0 + u)%nat, b) (enum_bounds_from u0 bss).
Proof.
  induction bss as [|bs0 rest IH]; intros u0 [|u] bs b H Hb; try discriminate H; cbn in H |- *; apply in_or_app.
  - inversion H; subst. left. rewrite Nat.add_0_r. now apply (in_map (fun b => (u0, b))).
  - right. replace (u0 + S u)%nat with (S u0 + u)%nat by lia. now apply (IH (S u0) u bs).
Qed.

(** every inferred bound of every struct / variant is a predicate of the impl - whatever where clause the
    user wrote (none, or any number of predicates) *)
Lemma where_keeps_inferred n bss u bs b :
  nth_error bss u = Some bs -> In b bs -> In (WField (u, b)) (impl_where_clause n (enum_bounds bss)).
Proof.
  intros H Hb. unfold impl_where_clause. apply in_or_app. right. apply in_map.
  exact (enum_bounds_from_In bss 0 u bs b H Hb).
Qed.

(** the user's predicates come first, in their order, and nothing else precedes the inferred ones *)
Lemma where_keeps_user n inferred :
  firstn n (impl_where_clause n inferred) = map WUser (seq 0 n) /\
  skipn n (impl_where_clause n inferred) = map WField inferred.
Proof.
  unfold impl_where_clause.
  assert (L : length (map WUser (seq 0 n)) = n) by now rewrite map_length, seq_length.
  split.
  - rewrite firstn_app, L, Nat.sub_diag. cbn. rewrite app_nil_r.
    rewrite <- L at 1. apply firstn_all.
  - rewrite skipn_app, L, Nat.sub_diag. cbn. rewrite <- L at 1. now rewrite skipn_all.
Qed.

Lemma nth_error_combine_seq {A} : forall (es : list A) s u e,
  nth_error es u = Some e -> nth_error (combine (seq s (length es)) es) u = Some ((s + u)%nat, e).
Proof.
  induction es as [|e0 es IH]; intros s [|u] e H; try discriminate H; cbn in *.
  - inversion H. now rewrite Nat.add_0_r.
  - rewrite (IH (S s) u e H). f_equal. f_equal. lia.
Qed.

(** combined with generate_bounds: a plainly printed field with a generic type is bounded by Debug in the
    emitted impl, with or without a user where clause *)
Lemma printed_generic_field_bounded n generic refs es u e j :
  nth_error es u = Some e ->
  nth_error (field_attrs (e_fields e)) j = Some ANone -> generic u j = true ->
  In (WField (u, (j, TrDebug)))
     (impl_where_clause n (enum_bounds (map (fun ue => generate_bounds (generic (fst ue)) (refs (fst ue)) (snd ue))
                                            (combine (seq 0 (length es)) es)))).
Proof.
  intros He Ha G. eapply where_keeps_inferred.
  - rewrite nth_error_map.
    assert (Hc : nth_error (combine (seq 0 (length es)) es) u = Some (u, e))
      by exact (nth_error_combine_seq es 0 u e He).
    rewrite Hc. cbn. reflexivity.
  - cbn [fst snd]. apply generate_bounds_exact. split; [exact G|]. left. now split.
Qed.

Example impl_where_example :
  impl_where_clause 2 (enum_bounds [[(0, TrDebug)]; []; [(1, TrDebug); (0, TrDisplay)]])%nat =
  [WUser 0; WUser 1; WField (0, (0, TrDebug)); WField (2, (1, TrDebug)); WField (2, (0, TrDisplay))]%nat.
Proof. reflexivity. Qed.

(* ================================================================== 12. contains_generics on qualified paths *)

Lemma contains_generics_no_params t : contains_generics [] t = false.
Proof. destruct t; reflexivity. Qed.

(** [<Q as Tr<..A..>>::Assoc]: a parameter in the TRAIT's arguments makes the type generic, whatever Q is *)
Lemma qpath_generic_in_trait_args ps q tr a assoc :
  contains_generics ps a = true ->
  contains_generics ps (SPath q [(tr, [a]); (assoc, [])]) = true.
Proof.
  intros H. destruct ps as [|p ps]; [now rewrite ?contains_generics_no_params in H|].
  cbn -[in_params]. rewrite H. cbn. now rewrite orb_true_r.
Qed.

(** [<Q as Tr>::Assoc<..A..>] (a generic associated type): a parameter in the associated type's own arguments *)
Lemma qpath_generic_in_assoc_args ps q tr a assoc :
  contains_generics ps a = true ->
  contains_generics ps (SPath q [(tr, []); (assoc, [a])]) = true.
Proof.
  intros H. destruct ps as [|p ps]; [now rewrite ?contains_generics_no_params in H|].
  cbn -[in_params]. rewrite H. cbn. now rewrite !orb_true_r.
Qed.

(** [<..Q.. as Tr>::Assoc]: a parameter in the self type *)
Lemma qpath_generic_in_self ps q segs :
  contains_generics ps q = true -> contains_generics ps (SPath (Some q) segs) = true.
Proof.
  intros H. destruct ps as [|p ps]; [now rewrite ?contains_generics_no_params in H|]. cbn -[in_params]. now rewrite H.
Qed.

(** [T::Assoc] *)
Lemma assoc_of_param_generic ps t assoc :
  in_params ps t = true -> contains_generics ps (SPath None [(t, []); (assoc, [])]) = true.
Proof.
  intros H. destruct ps as [|p ps]; [now rewrite ?contains_generics_no_params in H|]. cbn -[in_params]. now rewrite H.
Qed.

(** a parameter itself *)
Lemma param_generic ps t : in_params ps t = true -> contains_generics ps (SPath None [(t, [])]) = true.
Proof. intros H. destruct ps as [|p ps]; [now rewrite ?contains_generics_no_params in H|]. cbn -[in_params]. now rewrite H. Qed.

Example contains_generics_examples :
  let T := [84] in let ps := [T] in
  let heap := SPath None [([72], [])] in let pT := SPath None [(T, [])] in
  contains_generics ps (SPath (Some heap) [([83], [pT]); ([79], [])]) = true /\      (* <H as S<T>>::O *)
  contains_generics ps (SPath (Some heap) [([70], []); ([79], [pT])]) = true /\      (* <H as F>::O<T> *)
  contains_generics ps (SPath (Some (SPath None [([86], [pT])])) [([80], []); ([79], [])]) = true /\   (* <V<T> as P>::O *)
  contains_generics ps (SPath (Some heap) [([83], [heap]); ([79], [])]) = false /\   (* <H as S<H>>::O *)
  contains_generics ps (SPath None [([120], []); (T, [])]) = false.                  (* x::T is not the parameter *)
Proof. repeat split. Qed.
