(** C06 - derive_more::Debug without attributes is indistinguishable from std Debug: property theorems.
    FULL STATEMENT (false of the faithful model, see C06_full_refuted):
      forall v c w, fmt_val v c w = fmt_val (to_std v) c w
    i.e. every value tree, under every formatter configuration, prints through derive_more's builders
    exactly what it prints through core's. *)
From Coq Require Import List NArith Bool.
From Verif Require Import Base.Chars C06.Model C06.Proofs.
Import ListNotations.
Open Scope N_scope.

(** chunking is irrelevant: one pad adapter (PadAdapter = Padded) *)
Theorem C06_padded_concat : forall st a b,
  pad_flat st (a ++ b) =
  (fst (pad_flat st a) ++ fst (pad_flat (snd (pad_flat st a)) b), snd (pad_flat (snd (pad_flat st a)) b)).
Proof. exact Proofs.padded_concat. Qed.
Print Assumptions C06_padded_concat.

(** chunking is irrelevant: any stack of adapters over a String *)
Theorem C06_chunking_irrelevant : forall w a b, write_str (write_str w a) b = write_str w (a ++ b).
Proof. exact Proofs.write_str_app. Qed.
Print Assumptions C06_chunking_irrelevant.

(** compact mode: every field count, every other flag, finish and finish_non_exhaustive *)
Theorem C06_tuple_compact : forall name fs ex c w,
  alternate c = false -> tuple_fmt Dm name fs ex c w = tuple_fmt Std name fs ex c w.
Proof. exact Proofs.tuple_compact. Qed.
Print Assumptions C06_tuple_compact.

(** pretty mode, PARTIAL: only when [alternate] is the one option set *)
Theorem C06_tuple_pretty_partial : forall name fs ex c w,
  c = pretty_cfg -> tuple_fmt Dm name fs ex c w = tuple_fmt Std name fs ex c w.
Proof. intros name fs ex c w ->. exact (Proofs.tuple_pretty_only name fs ex w). Qed.
Print Assumptions C06_tuple_pretty_partial.

(** ... REFUTED in general: pretty + hex-debug on a one-field tuple struct *)
Theorem C06_tuple_pretty_refuted :
  exists name fs c w, alternate c = true /\
    tuple_fmt Dm name fs true c w <> tuple_fmt Std name fs true c w.
Proof. exact Proofs.tuple_pretty_refuted. Qed.
Print Assumptions C06_tuple_pretty_refuted.

(** finish_non_exhaustive itself: same for EVERY configuration and builder state *)
Theorem C06_non_exhaustive : forall c b,
  dm_tuple_finish_non_exhaustive c b = core_tuple_finish_non_exhaustive c b
  /\ dm_tuple_finish c b = core_tuple_finish c b.
Proof. intros c b. split; [exact (Proofs.tuple_finish_non_exhaustive_eq c b) | exact (Proofs.tuple_finish_eq c b)]. Qed.
Print Assumptions C06_non_exhaustive.

(** arbitrary nesting (derive_more types inside std containers inside derive_more types ...), PARTIAL:
    equal unless a derive_more tuple builder with a printed field is reached under pretty + other options *)
Theorem C06_nested_partial : forall v c,
  safeb c v = true -> forall w, fmt_val v c w = fmt_val (to_std v) c w.
Proof. exact Proofs.safe_same_as_std. Qed.
Print Assumptions C06_nested_partial.

Theorem C06_nested_compact : forall v c,
  alternate c = false -> args_ok v = true -> forall w, fmt_val v c w = fmt_val (to_std v) c w.
Proof. exact Proofs.compact_same_as_std. Qed.
Print Assumptions C06_nested_compact.

Theorem C06_nested_pretty_partial : forall v,
  args_ok v = true -> forall w, fmt_val v pretty_cfg w = fmt_val (to_std v) pretty_cfg w.
Proof. exact Proofs.pretty_only_same_as_std. Qed.
Print Assumptions C06_nested_pretty_partial.

(** the FULL statement is false of the model *)
Theorem C06_full_refuted : ~ (forall v c w, fmt_val v c w = fmt_val (to_std v) c w).
Proof. exact Proofs.full_statement_refuted. Qed.
Print Assumptions C06_full_refuted.

(** and the exception class is exact: every pretty configuration with any further option is hit *)
Theorem C06_unsafe_cfg_differs : forall c,
  cfg_ok_for_dm_tuple c = false ->
  render (VTuple Dm [68] [VLeaf cfg_probe_leaf] true) c <>
  render (to_std (VTuple Dm [68] [VLeaf cfg_probe_leaf] true)) c.
Proof. exact Proofs.unsafe_cfg_differs. Qed.
Print Assumptions C06_unsafe_cfg_differs.

(** decision logic of the CURRENT tree (all four name sites unraw, fix 0354bd6): with no attributes the
    calls are std's calls (derive_more's own tuple builder in place of core's), for every identifier,
    raw or not *)
Theorem C06_named_and_unit : forall e,
  no_attrs e = true ->
  forall fv av c w,
    fmt_val (body_val fv av (std_of_body (generate_body_now e))) c w =
    fmt_val (body_val fv av (std_derive_body e)) c w.
Proof. exact Proofs.derive_calls_same_now. Qed.
Print Assumptions C06_named_and_unit.

Theorem C06_named_and_unit_syntactic : forall e,
  no_attrs e = true -> has_decl_fields e = true ->
  std_of_body (generate_body_now e) = std_derive_body e.
Proof. exact Proofs.derive_calls_same_syntactic_now. Qed.
Print Assumptions C06_named_and_unit_syntactic.

(** every name literal emitted is the identifier without [r#] (type, variant: also with attributes) *)
Theorem C06_names_unraw : forall e,
  match generate_body_now e with
  | BWriteStr n | BDmTuple n _ _ | BCoreTuple n _ _ | BCoreStruct n _ _ => n = iname (e_ident e)
  end.
Proof. exact Proofs.current_names_unraw. Qed.
Print Assumptions C06_names_unraw.

(** the same for any reading of the name sites that unraws everywhere (what the check's translator must
    read off debug.rs for the model to apply) *)
Theorem C06_named_and_unit_sites : forall st e,
  no_attrs e = true -> all_unraw st = true ->
  forall fv av c w,
    fmt_val (body_val fv av (std_of_body (generate_body st e))) c w =
    fmt_val (body_val fv av (std_derive_body e)) c w.
Proof. exact Proofs.derive_calls_same. Qed.
Print Assumptions C06_named_and_unit_sites.

(** skipped fields: the non-skipped fields, in order; finish_non_exhaustive iff something is skipped *)
Theorem C06_skip_unnamed : forall l i,
  unnamed_calls i l = (flat_map printed (combine (seq i (length l)) l), negb (existsb is_skip l)).
Proof. exact Proofs.unnamed_calls_spec. Qed.
Print Assumptions C06_skip_unnamed.

Theorem C06_skip_named : forall l u i,
  named_calls u i l =
  (flat_map (printed_named u) (combine (seq i (length l)) l), negb (existsb (fun p => is_skip (snd p)) l)).
Proof. exact Proofs.named_calls_spec. Qed.
Print Assumptions C06_skip_named.

(* ------------------------------------------------------------------ growth round: end to end *)

(** every arrangement of plain / skip / ignore / formatted fields (tuple or named, raw names or not):
    the calls derive_more emits are the hand-written std reference's calls *)
Theorem C06_attrs_reference : forall e, std_of_body (generate_body_now e) = reference_body e.
Proof. exact Proofs.attrs_reference. Qed.
Print Assumptions C06_attrs_reference.

(** "replaces only that field's value": a field's attribute decides that field's entry and nothing else *)
Theorem C06_field_entry_local : forall l1 a l2,
  fst (unnamed_calls 0 (l1 ++ a :: l2)) =
  fst (unnamed_calls 0 l1) ++ printed (length l1, a) ++ fst (unnamed_calls (S (length l1)) l2).
Proof. exact Proofs.unnamed_calls_local. Qed.
Print Assumptions C06_field_entry_local.

(** ... and the formatted literal is printed by fresh formatters: the outer configuration never reaches it *)
Theorem C06_field_format_fresh_formatter : forall ps tail c c' w,
  fmt_val (VArgs ps tail) c w = fmt_val (VArgs ps tail) c' w.
Proof. exact Proofs.args_ignore_outer. Qed.
Print Assumptions C06_field_format_fresh_formatter.

(** unit, [S()], [S {}]: the bare name under every configuration *)
Theorem C06_empty_shapes : forall e fv av c w,
  (e_fields e = FUnit \/ e_fields e = FUnnamed [] \/ e_fields e = FNamed []) ->
  fmt_val (body_val fv av (generate_body_now e)) c w = (write_str w (iname (e_ident e)), true).
Proof. exact Proofs.empty_shapes. Qed.
Print Assumptions C06_empty_shapes.

(** the std side of a program is the derive_more side with core's tuple builder at every node, for EVERY
    configuration and writer (std's derive where there is no attribute, the reference otherwise) *)
Theorem C06_std_side_is_core_twin : forall d c w,
  fmt_val (std_val d) c w = fmt_val (to_std (dm_val d)) c w.
Proof. exact Proofs.std_val_is_to_std. Qed.
Print Assumptions C06_std_side_is_core_twin.

(** THE PROPERTY end to end: the known-finding class is the ONLY divergence *)
Theorem C06_end_to_end : forall d c,
  known_class d c = false -> forall w, fmt_val (dm_val d) c w = fmt_val (std_val d) c w.
Proof. exact Proofs.end_to_end. Qed.
Print Assumptions C06_end_to_end.

Theorem C06_attr_free_compact : forall d c,
  attr_free d = true -> alternate c = false -> forall w, fmt_val (dm_val d) c w = fmt_val (std_val d) c w.
Proof. exact Proofs.attr_free_compact. Qed.
Print Assumptions C06_attr_free_compact.

Theorem C06_attr_free_pretty : forall d,
  attr_free d = true -> forall w, fmt_val (dm_val d) pretty_cfg w = fmt_val (std_val d) pretty_cfg w.
Proof. exact Proofs.attr_free_pretty. Qed.
Print Assumptions C06_attr_free_pretty.

(** the class is inhabited (the witness replayed on the real macro is the known finding) ... *)
Theorem C06_known_class_witness :
  attr_free witness_program = true /\ known_class witness_program pretty_hex_cfg = true /\
  render (dm_val witness_program) pretty_hex_cfg <> render (std_val witness_program) pretty_hex_cfg.
Proof. exact Proofs.known_class_witness. Qed.
Print Assumptions C06_known_class_witness.

(** ... by every configuration it names *)
Theorem C06_known_class_every_cfg : forall c,
  cfg_ok_for_dm_tuple c = false ->
  let d := DAdt (mkexp (mkid false [68]) (FUnnamed [ANone])) [DLeaf cfg_probe_leaf] [] in
  attr_free d = true /\ known_class d c = true /\ render (dm_val d) c <> render (std_val d) c.
Proof. exact Proofs.known_class_every_cfg. Qed.
Print Assumptions C06_known_class_every_cfg.

(** generate_bounds: exactly the generic types of plainly printed fields (Debug) and of the fields a
    field-level format refers to (their placeholder's trait); skipped fields impose nothing *)
Theorem C06_bounds_exact : forall generic refs e j tr,
  In (j, tr) (generate_bounds generic refs e) <->
  generic j = true /\
  ((tr = TrDebug /\ nth_error (field_attrs (e_fields e)) j = Some ANone) \/
   (exists i k, nth_error (field_attrs (e_fields e)) i = Some (AFmt k) /\ In (j, tr) (refs i k))).
Proof. exact Proofs.generate_bounds_exact. Qed.
Print Assumptions C06_bounds_exact.

Theorem C06_bounds_skip_free : forall generic refs e j tr,
  (forall i k, nth_error (field_attrs (e_fields e)) i <> Some (AFmt k)) ->
  In (j, tr) (generate_bounds generic refs e) ->
  tr = TrDebug /\ generic j = true /\ nth_error (field_attrs (e_fields e)) j = Some ANone.
Proof. exact Proofs.generate_bounds_skip_free. Qed.
Print Assumptions C06_bounds_skip_free.

(* ------------------------------------------------------------------ the impl's where clause *)

(** every inferred bound of every struct / variant is in the emitted impl's where clause, whatever the
    user's own where clause is (none, or any number of predicates) *)
Theorem C06_where_keeps_inferred : forall n bss u bs b,
  nth_error bss u = Some bs -> In b bs -> In (WField (u, b)) (impl_where_clause n (enum_bounds bss)).
Proof. exact Proofs.where_keeps_inferred. Qed.
Print Assumptions C06_where_keeps_inferred.

(** the user's predicates come first, in order; the rest is exactly the inferred bounds, in order *)
Theorem C06_where_keeps_user : forall n inferred,
  firstn n (impl_where_clause n inferred) = map WUser (seq 0 n) /\
  skipn n (impl_where_clause n inferred) = map WField inferred.
Proof. exact Proofs.where_keeps_user. Qed.
Print Assumptions C06_where_keeps_user.

(** hence: a plainly printed field whose type mentions a type parameter is bounded by Debug in the impl *)
Theorem C06_printed_generic_field_bounded : forall n generic refs es u e j,
  nth_error es u = Some e ->
  nth_error (field_attrs (e_fields e)) j = Some ANone -> generic u j = true ->
  In (WField (u, (j, TrDebug)))
     (impl_where_clause n (enum_bounds (map (fun ue => generate_bounds (generic (fst ue)) (refs (fst ue)) (snd ue))
                                            (combine (seq 0 (length es)) es)))).
Proof. exact Proofs.printed_generic_field_bounded. Qed.
Print Assumptions C06_printed_generic_field_bounded.

(* ------------------------------------------------------------------ contains_generics on qualified paths *)

(** a field type [<Q as Tr<..A..>>::Assoc] mentions a parameter as soon as the TRAIT's arguments do *)
Theorem C06_qpath_generic_in_trait_args : forall ps q tr a assoc,
  contains_generics ps a = true -> contains_generics ps (SPath q [(tr, [a]); (assoc, [])]) = true.
Proof. exact Proofs.qpath_generic_in_trait_args. Qed.
Print Assumptions C06_qpath_generic_in_trait_args.

(** [<Q as Tr>::Assoc<..A..>]: ... or the associated type's own arguments *)
Theorem C06_qpath_generic_in_assoc_args : forall ps q tr a assoc,
  contains_generics ps a = true -> contains_generics ps (SPath q [(tr, []); (assoc, [a])]) = true.
Proof. exact Proofs.qpath_generic_in_assoc_args. Qed.
Print Assumptions C06_qpath_generic_in_assoc_args.

(** [<..Q.. as Tr>::Assoc]: ... or the self type *)
Theorem C06_qpath_generic_in_self : forall ps q segs,
  contains_generics ps q = true -> contains_generics ps (SPath (Some q) segs) = true.
Proof. exact Proofs.qpath_generic_in_self. Qed.
Print Assumptions C06_qpath_generic_in_self.

(** [T::Assoc] *)
Theorem C06_assoc_of_param_generic : forall ps t assoc,
  in_params ps t = true -> contains_generics ps (SPath None [(t, []); (assoc, [])]) = true.
Proof. exact Proofs.assoc_of_param_generic. Qed.
Print Assumptions C06_assoc_of_param_generic.
