(** C05 - caller's formatting flags pass through exactly for bare-placeholder formats.
    Property theorems only (statements pinned here; proofs in Proofs.v). *)
From Verif Require Import Fmt.Model C05.Proofs.

(** a format attribute delegates iff its literal is one modifier-free placeholder referring to its only
    argument (no index / index 0 / matching alias) or to a binding by name; the trait is the placeholder's *)
Theorem C05_transparent_iff : forall cc a e tr,
  transparent_call cc a = Some (e, tr) <-> delegates_to cc a e tr.
Proof. exact transparent_call_iff. Qed.
Print Assumptions C05_transparent_iff.

(** an index that denotes no existing argument is never a delegation (it is left to format_args! to reject) *)
Theorem C05_bad_index_rejected : forall cc a e tr f n,
  transparent_call cc a = Some (e, tr) ->
  format_p cc (lit a) = Some ([], f) -> f_arg f = Some (AInt n) ->
  n = 0 /\ (N.to_nat n < length (args a))%nat.
Proof. exact transparent_index_in_range. Qed.
Print Assumptions C05_bad_index_rejected.

Theorem C05_modifiers_never_delegate : forall cc a f rest,
  format_p cc (lit a) = Some (rest, f) -> has_modifiers f = true -> transparent_call cc a = None.
Proof. exact modifiers_never_delegate. Qed.
Print Assumptions C05_modifiers_never_delegate.

Theorem C05_not_single_placeholder_never_delegates : forall cc a,
  (forall f, format_p cc (lit a) <> Some ([], f)) -> transparent_call cc a = None.
Proof. exact not_single_placeholder_never_delegates. Qed.
Print Assumptions C05_not_single_placeholder_never_delegates.

(** pass-through: when the attribute delegates, the emitted body hands the caller's formatter to the
    argument under the placeholder's trait *)
Theorem C05_passthrough : forall cc (value fspec out : Type) (render : trait -> value -> fspec -> out)
    (run_args : fmt_attr -> list ident -> out) (eval : texpr -> value) d a e tr sp,
  plain d -> d_fmt d = Some a -> transparent_call_on_fields cc a (d_fields d) = Some (e, tr) ->
  exists b, d_generate_body cc d = ROk b /\
            sem value fspec out render run_args eval b sp = Some (render tr (eval e) sp).
Proof. exact passthrough. Qed.
Print Assumptions C05_passthrough.

(** every other attribute-driven case: the caller's flags leave the output unchanged *)
Theorem C05_inert : forall cc (value fspec out : Type) (render : trait -> value -> fspec -> out)
    (run_args : fmt_attr -> list ident -> out) (eval : texpr -> value) d a sp sp',
  plain d -> d_fmt d = Some a -> transparent_call_on_fields cc a (d_fields d) = None ->
  exists b, d_generate_body cc d = ROk b /\
            sem value fspec out render run_args eval b sp = sem value fspec out render run_args eval b sp' /\
            sem value fspec out render run_args eval b sp <> None.
Proof. exact inert. Qed.
Print Assumptions C05_inert.

(** a single-field type without attribute delegates under the derived trait *)
Theorem C05_implicit_single : forall cc (value fspec out : Type) (render : trait -> value -> fspec -> out)
    (run_args : fmt_attr -> list ident -> out) (eval : texpr -> value) d f sp,
  plain d -> d_fmt d = None -> fl (d_fields d) = [f] ->
  exists b, d_generate_body cc d = ROk b /\
    sem value fspec out render run_args eval b sp =
      Some (render (d_trait d)
              (eval (TField (match fname f with Some n => n | None => positional_ident 0 end))) sp).
Proof. exact implicit_single_passthrough. Qed.
Print Assumptions C05_implicit_single.

(** Debug with a struct-/variant-level format: delegation or verbatim write!, same dichotomy *)
Theorem C05_debug_body : forall cc g a,
  g_fmt g = Some a -> has_field_fmt (g_fields g) = false ->
  g_generate_body cc g =
    ROk (match transparent_call_on_fields cc a (g_fields g) with
         | Some (e, tr) => GDelegate tr e
         | None => GWrite a (additional_deref_args cc a (g_fields g))
         end).
Proof. exact debug_body_with_attr. Qed.
Print Assumptions C05_debug_body.

(** link to std (through C03): a delegating attribute's literal is accepted by format_args! as exactly one
    flag-free placeholder of the same trait; literals std rejects are therefore never silently accepted *)
From Verif Require C03.StdParse.
Theorem C05_delegation_agrees_with_std : forall cc, CC_ok cc -> forall a e tr,
  transparent_call cc a = Some (e, tr) ->
  exists sa, StdParse.std_parse cc (lit a) = Some [sa] /\
             spec_has_modifiers (StdParse.sa_spec sa) = false /\
             trait_name (sp_ty (StdParse.sa_spec sa)) = tr.
Proof. exact delegation_agrees_with_std. Qed.
Print Assumptions C05_delegation_agrees_with_std.
