(** C05 - caller's formatting flags pass through exactly for bare-placeholder formats.
    Property theorems only (statements pinned here; proofs in Proofs.v). *)
From Verif Require Import Fmt.Model C05.Proofs.

(** a format attribute delegates iff its literal is one modifier-free placeholder referring to its only
    argument (no index / index 0 / matching alias) or to a binding by name; the trait is the placeholder's *)
Theorem C05_transparent_iff : forall cc a e tr,
  transparent_call cc a = Some (e, tr) <-> delegates_to cc a e tr.
Proof. exact transparent_call_iff. Qed.
Print Assumptions C05_transparent_iff.

(** an index that denotes no existing argument is never a delegation (it is left to format_args! to reject) *)
Theorem C05_bad_index_rejected : forall cc a e tr f n,
  transparent_call cc a = Some (e, tr) ->
  format_p cc (lit a) = Some ([], f) -> f_arg f = Some (AInt n) ->
  n = 0 /\ (N.to_nat n < length (args a))%nat.
Proof. exact transparent_index_in_range. Qed.
Print Assumptions C05_bad_index_rejected.

Theorem C05_modifiers_never_delegate : forall cc a f rest,
  format_p cc (lit a) = Some (rest, f) -> has_modifiers f = true -> transparent_call cc a = None.
Proof. exact modifiers_never_delegate. Qed.
Print Assumptions C05_modifiers_never_delegate.

Theorem C05_not_single_placeholder_never_delegates : forall cc a,
  (forall f, format_p cc (lit a) <> Some ([], f)) -> transparent_call cc a = None.
Proof. exact not_single_placeholder_never_delegates. Qed.
Print Assumptions C05_not_single_placeholder_never_delegates.

(** pass-through: when the attribute delegates, the emitted body hands the caller's formatter to the
    argument under the placeholder's trait *)
Theorem C05_passthrough : forall cc (value fspec out : Type) (render : trait -> value -> fspec -> out)
    (run_args : fmt_attr -> list ident -> out) (eval : texpr -> value) d a e tr sp,
  plain d -> d_fmt d = Some a -> transparent_call_on_fields cc a (d_fields d) = Some (e, tr) ->
  exists b, d_generate_body cc d = ROk b /\
            sem value fspec out render run_args eval b sp = Some (render tr (eval e) sp).
Proof. exact passthrough. Qed.
Print Assumptions C05_passthrough.

(** every other attribute-driven case: the caller's flags leave the output unchanged *)
Theorem C05_inert : forall cc (value fspec out : Type) (render : trait -> value -> fspec -> out)
    (run_args : fmt_attr -> list ident -> out) (eval : texpr -> value) d a sp sp',
  plain d -> d_fmt d = Some a -> transparent_call_on_fields cc a (d_fields d) = None ->
  exists b, d_generate_body cc d = ROk b /\
            sem value fspec out render run_args eval b sp = sem value fspec out render run_args eval b sp' /\
            sem value fspec out render run_args eval b sp <> None.
Proof. exact inert. Qed.
Print Assumptions C05_inert.

(** a single-field type without attribute delegates under the derived trait *)
Theorem C05_implicit_single : forall cc (value fspec out : Type) (render : trait -> value -> fspec -> out)
    (run_args : fmt_attr -> list ident -> out) (eval : texpr -> value) d f sp,
  plain d -> d_fmt d = None -> fl (d_fields d) = [f] ->
  exists b, d_generate_body cc d = ROk b /\
    sem value fspec out render run_args eval b sp =
      Some (render (d_trait d)
              (eval (TField (match fname f with Some n => n | None => positional_ident 0 end))) sp).
Proof. exact implicit_single_passthrough. Qed.
Print Assumptions C05_implicit_single.

(** Debug with a struct-/variant-level format: delegation or verbatim write!, same dichotomy *)
Theorem C05_debug_body : forall cc g a,
  g_fmt g = Some a -> has_field_fmt (g_fields g) = false ->
  g_generate_body cc g =
    ROk (match transparent_call_on_fields cc a (g_fields g) with
         | Some (e, tr) => GDelegate tr e
         | None => GWrite a (additional_deref_args cc a (g_fields g))
         end).
Proof. exact debug_body_with_attr. Qed.
Print Assumptions C05_debug_body.

(** link to std (through C03): a delegating attribute's literal is accepted by format_args! as exactly one
    flag-free placeholder of the same trait; literals std rejects are therefore never silently accepted *)
From Verif Require C03.StdParse.
Theorem C05_delegation_agrees_with_std : forall cc, CC_ok cc -> forall a e tr,
  transparent_call cc a = Some (e, tr) ->
  exists sa, StdParse.std_parse cc (lit a) = Some [sa] /\
             spec_has_modifiers (StdParse.sa_spec sa) = false /\
             trait_name (sp_ty (StdParse.sa_spec sa)) = tr.
Proof. exact delegation_agrees_with_std. Qed.
Print Assumptions C05_delegation_agrees_with_std.

(** ---- coverage-growth round: pinned below ---- *)
From Verif Require Import Fmt.Front C07.Proofs C05.Single C05.Delegation.

(** for EVERY struct / enum variant under every combination of own and enum-level attribute: the body ends in exactly the delegation the governing attribute prescribes (own attribute; the enum-level one when it mentions [_variant] - every variant - or when the variant has none; a bare [{_variant}] of the derived trait counts as absent); without any attribute a single field delegates under the derived trait and nothing else does *)
Theorem C05_delegation_governed :
  forall (cc : CharClass) (d : dexpansion) (b : body),
  d_generate_body cc d = ROk b ->
  top_delegation b =
  match governing_attr cc d with
  | Some a => transparent_call_on_fields cc a (d_fields d)
  | None => implicit_delegation d
  end.
Proof. exact Delegation.delegation_governed. Qed.
Print Assumptions C05_delegation_governed.

(** the property's condition as an iff over all attributes: the body delegates to [e] under [tr] iff the governing attribute's literal is exactly one modifier-free placeholder of trait [tr] referring to its only argument (no index / index 0 / matching name) or to a binding by name, [e] being that argument (the field binding itself when it is one) - or there is no attribute and the type has a single field *)
Theorem C05_delegation_textual :
  forall (cc : CharClass) (d : dexpansion) (b : body) (e : texpr) (tr : trait),
  d_generate_body cc d = ROk b ->
  top_delegation b = Some (e, tr) <->
  match governing_attr cc d with
  | Some a => exists e0 : expr, delegates_to cc a e0 tr /\ e = field_expr a (d_fields d) e0 tr
  | None =>
  exists f : field,
  fl (d_fields d) = [f] /\
  tr = d_trait d /\ e = TField match fname f with
  | Some n => n
  | None => positional_ident 0
  end
  end.
Proof. exact Delegation.delegation_textual. Qed.
Print Assumptions C05_delegation_textual.

(** Layer-2 reading for every body shape (write!, delegation, write_str, match .. { _variant => .. }): when the governing attribute delegates, the caller's configuration reaches that argument under the placeholder's trait; in every other case the output does not depend on it *)
Theorem C05_flags_governed :
  forall (cc : CharClass) (value out fspec : Type) (render : trait -> value -> fspec -> out)
  (run : fmt_attr -> list ident -> (ident -> value) -> out) (text_value : out -> value)
  (name_text : str -> out) (default_fspec : fspec) (eval : texpr -> (ident -> value) -> value)
  (d : dexpansion) (b : body),
  d_generate_body cc d = ROk b ->
  match
  match governing_attr cc d with
  | Some a => transparent_call_on_fields cc a (d_fields d)
  | None => implicit_delegation d
  end
  with
  | Some (e, tr) =>
  forall (env : ident -> value) (sp : fspec),
  sem value out fspec render run text_value name_text default_fspec eval b env sp =
  render tr (eval e (inner_env value out fspec render run text_value name_text default_fspec b env)) sp
  | None =>
  forall (env : ident -> value) (sp sp' : fspec),
  sem value out fspec render run text_value name_text default_fspec eval b env sp =
  sem value out fspec render run text_value name_text default_fspec eval b env sp'
  end.
Proof. exact Delegation.flags_governed. Qed.
Print Assumptions C05_flags_governed.

(** pass-through for any body that ends in a delegation *)
Theorem C05_sem_delegation :
  forall (value out fspec : Type) (render : trait -> value -> fspec -> out)
  (run : fmt_attr -> list ident -> (ident -> value) -> out) (text_value : out -> value)
  (name_text : str -> out) (default_fspec : fspec) (eval : texpr -> (ident -> value) -> value)
  (b : body) (env : ident -> value) (sp : fspec) (e : texpr) (tr : trait),
  top_delegation b = Some (e, tr) ->
  sem value out fspec render run text_value name_text default_fspec eval b env sp =
  render tr (eval e (inner_env value out fspec render run text_value name_text default_fspec b env)) sp.
Proof. exact Delegation.sem_delegation. Qed.
Print Assumptions C05_sem_delegation.

(** inertness for any body that does not *)
Theorem C05_sem_inert :
  forall (value out fspec : Type) (render : trait -> value -> fspec -> out)
  (run : fmt_attr -> list ident -> (ident -> value) -> out) (text_value : out -> value)
  (name_text : str -> out) (default_fspec : fspec) (eval : texpr -> (ident -> value) -> value)
  (b : body) (env : ident -> value) (sp sp' : fspec),
  top_delegation b = None ->
  sem value out fspec render run text_value name_text default_fspec eval b env sp =
  sem value out fspec render run text_value name_text default_fspec eval b env sp'.
Proof. exact Delegation.sem_inert. Qed.
Print Assumptions C05_sem_inert.

(** a bare [{_variant}] under a non-Display derive delegates to the variant's text, a fmt::Arguments, whose Display ignores the configuration (hypothesis): the caller's flags are inert *)
Theorem C05_bare_variant_non_display_inert :
  forall (cc : CharClass) (value out fspec : Type) (render : trait -> value -> fspec -> out)
  (run : fmt_attr -> list ident -> (ident -> value) -> out) (text_value : out -> value)
  (name_text : str -> out) (default_fspec : fspec) (eval : texpr -> (ident -> value) -> value),
  (forall (o : out) (env : ident -> value) (sp sp' : fspec),
  render TrDisplay (eval (TRef (EIdent variant_ident)) (bind value variant_ident (text_value o) env)) sp =
  render TrDisplay (eval (TRef (EIdent variant_ident)) (bind value variant_ident (text_value o) env)) sp') ->
  forall (d : dexpansion) (sa : fmt_attr) (b : body) (bs : list bound),
  d_shared d = Some sa ->
  transparent_call_on_fields cc sa (d_fields d) = Some (TRef (EIdent variant_ident), TrDisplay) ->
  mentions_variant cc sa = true ->
  d_trait d <> TrDisplay ->
  d_expand_variant cc d = ROk (b, bs) ->
  forall (env : ident -> value) (sp sp' : fspec),
  sem value out fspec render run text_value name_text default_fspec eval b env sp =
  sem value out fspec render run text_value name_text default_fspec eval b env sp'.
Proof. exact Delegation.bare_variant_non_display_inert. Qed.
Print Assumptions C05_bare_variant_non_display_inert.

(** Debug delegates only through a struct-/variant-level format *)
Theorem C05_debug_delegation_governed :
  forall (cc : CharClass) (g : gexpansion) (b : gbody),
  g_generate_body cc g = ROk b ->
  g_top_delegation b =
  match g_fmt g with
  | Some a => transparent_call_on_fields cc a (g_fields g)
  | None => None
  end.
Proof. exact Delegation.debug_delegation_governed. Qed.
Print Assumptions C05_debug_delegation_governed.

(** [transparent_call_on_fields] = [transparent_call] followed by the choice of how the expression is passed *)
Theorem C05_on_fields_eq :
  forall (cc : CharClass) (a : fmt_attr) (fs : fields),
  transparent_call_on_fields cc a fs =
  match transparent_call cc a with
  | Some (e, tr) => Some (field_expr a fs e tr, tr)
  | None => None
  end.
Proof. exact Delegation.on_fields_eq. Qed.
Print Assumptions C05_on_fields_eq.

(** a delegating attribute's literal is one placeholder for [Placeholder::parse_fmt_string] too (same trait, no modifiers) *)
Theorem C05_transparent_placeholders :
  forall cc : CharClass,
  CC_ok cc ->
  forall (a : fmt_attr) (e : expr) (tr : trait),
  transparent_call cc a = Some (e, tr) ->
  exists f : format,
  format_p cc (lit a) = Some ([], f) /\
  has_modifiers f = false /\
  tr = trait_of f /\
  placeholders cc (lit a) =
  [{|
  ph_arg := match f_arg f with
  | Some x => param_of_arg x
  | None => Positional 0
  end;
  ph_mods := false;
  ph_trait := tr
  |}].
Proof. exact Single.transparent_placeholders. Qed.
Print Assumptions C05_transparent_placeholders.

(** a literal [parsing::format] consumes entirely is that one placeholder for [parsing::format_string] *)
Theorem C05_format_string_single :
  forall cc : CharClass,
  CC_ok cc -> forall (s : str) (f : format), format_p cc s = Some ([], f) -> format_string cc s = Some [f].
Proof. exact Single.format_string_single. Qed.
Print Assumptions C05_format_string_single.

(** a name taken from a literal is never a raw identifier *)
Theorem C05_format_arg_not_raw :
  forall cc : CharClass,
  CC_ok cc ->
  forall (s r : str) (f : format) (n : str),
  format_p cc s = Some (r, f) -> f_arg f = Some (AIdent n) -> unraw n = n.
Proof. exact Single.format_arg_not_raw. Qed.
Print Assumptions C05_format_arg_not_raw.

(** a placeholder whose index does not denote an existing argument is never a delegation ... *)
Theorem C05_bad_index_not_delegated :
  forall (cc : CharClass) (a : fmt_attr) (f : format) (n : N),
  format_p cc (lit a) = Some ([], f) ->
  f_arg f = Some (AInt n) -> (length (args a) <= N.to_nat n)%nat -> transparent_call cc a = None.
Proof. exact Delegation.bad_index_not_delegated. Qed.
Print Assumptions C05_bad_index_not_delegated.

(** ... the attribute is handed to write! as written, so it is format_args! that refuses it (a compile error rather than a delegation) *)
Theorem C05_bad_index_written_verbatim :
  forall (cc : CharClass) (d : dexpansion) (a : fmt_attr) (f : format) (n : N),
  plain d ->
  d_fmt d = Some a ->
  format_p cc (lit a) = Some ([], f) ->
  f_arg f = Some (AInt n) ->
  (length (args a) <= N.to_nat n)%nat ->
  d_generate_body cc d = ROk (BWrite a (additional_deref_args cc a (d_fields d))).
Proof. exact Delegation.bad_index_written_verbatim. Qed.
Print Assumptions C05_bad_index_written_verbatim.
