(** C05 - when does a format attribute delegate (and so let the caller's flags through)? *)
From Verif Require Import Fmt.Model.
From Coq Require Import Lia.

Section C05.
Variable cc : CharClass.

(** the trait a parsed placeholder names *)
Definition trait_of (f : format) : trait :=
  trait_name (match f_spec f with Some s => sp_ty s | None => TDisplay end).

(** The documented condition, written against derive_more's own reading of the literal:
    the literal is exactly one placeholder [f] without modifiers, and it refers to its only
    argument (no index or index 0, or the argument's alias) or to an outer binding by name. *)
Definition delegates_to (a : fmt_attr) (e : expr) (tr : trait) : Prop :=
  exists f, format_p cc (lit a) = Some ([], f) /\ has_modifiers f = false /\ tr = trait_of f /\
    ( ((f_arg f = None \/ f_arg f = Some (AInt 0)) /\ exists x, args a = [x] /\ e = aexpr x)
      \/ (exists n, f_arg f = Some (AIdent n) /\ args a = [] /\ e = EIdent n)
      \/ (exists n x, f_arg f = Some (AIdent n) /\ args a = [x] /\ alias x = Some n /\ e = aexpr x) ).

Lemma transparent_call_sound a e tr :
  transparent_call cc a = Some (e, tr) -> delegates_to a e tr.
Proof.
  unfold transparent_call, delegates_to.
  destruct (format_p cc (lit a)) as [[rest f]|] eqn:Hf; [|discriminate].
  destruct rest as [|c rest]; [|discriminate].
  destruct (has_modifiers f) eqn:Hm; [discriminate|].
  intros H. exists f. split; [reflexivity|]. split; [exact Hm|].
  destruct (f_arg f) as [[n|name]|] eqn:Ha.
  - destruct n as [|p].
    + destruct (args a) as [|x [|y l]] eqn:Hargs; try discriminate.
      inversion H; subst. split; [reflexivity|]. left. split; [right; reflexivity|].
      exists x. split; reflexivity.
    + discriminate.
  - destruct (args a) as [|x [|y l]] eqn:Hargs.
    + inversion H; subst. split; [reflexivity|]. right. left. exists name. repeat split; reflexivity.
    + destruct (alias x) as [al|] eqn:Hal; [|discriminate].
      destruct (ident_eqb al name) eqn:He; [|discriminate].
      apply str_eqb_eq in He. subst al.
      inversion H; subst. split; [reflexivity|]. right. right. exists name, x. repeat split; try reflexivity; assumption.
    + discriminate.
  - destruct (args a) as [|x [|y l]] eqn:Hargs; try discriminate.
    inversion H; subst. split; [reflexivity|]. left. split; [left; reflexivity|].
    exists x. split; reflexivity.
Qed.

Lemma ident_eqb_refl s : ident_eqb s s = true.
Proof. apply str_eqb_eq. reflexivity. Qed.

Lemma transparent_call_complete a e tr :
  delegates_to a e tr -> transparent_call cc a = Some (e, tr).
Proof.
  unfold transparent_call, delegates_to, trait_of.
  intros (f & Hf & Hm & Htr & H). rewrite Hf, Hm. subst tr.
  destruct H as [[Harg (x & Hargs & He)] | [(n & Harg & Hargs & He) | (n & x & Harg & Hargs & Hal & He)]].
  - destruct Harg as [Harg|Harg]; rewrite Harg, Hargs; subst e; reflexivity.
  - rewrite Harg, Hargs. subst e. reflexivity.
  - rewrite Harg, Hargs, Hal, ident_eqb_refl. subst e. reflexivity.
Qed.

Theorem transparent_call_iff a e tr :
  transparent_call cc a = Some (e, tr) <-> delegates_to a e tr.
Proof. split; [apply transparent_call_sound | apply transparent_call_complete]. Qed.

(** A delegation never happens through an index that denotes no argument: the only index
    accepted is 0, with exactly one argument present (so the index is in range). *)
Theorem transparent_index_in_range a e tr f n :
  transparent_call cc a = Some (e, tr) ->
  format_p cc (lit a) = Some ([], f) -> f_arg f = Some (AInt n) ->
  n = 0 /\ (N.to_nat n < length (args a))%nat.
Proof.
  intros H Hf Ha. apply transparent_call_sound in H.
  destruct H as (f' & Hf' & _ & _ & H). rewrite Hf in Hf'. inversion Hf'; subst f'.
  destruct H as [[Harg (x & Hargs & _)] | [(m & Harg & _) | (m & x & Harg & _)]];
    try (rewrite Ha in Harg; discriminate).
  destruct Harg as [Harg|Harg]; rewrite Ha in Harg; [discriminate|].
  inversion Harg; subst. rewrite Hargs. cbn. split; [reflexivity|lia].
Qed.

(** Modifiers (fill, alignment, sign, [#], [0], width, precision, [x?]/[X?]) are never delegated. *)
Theorem modifiers_never_delegate a f rest :
  format_p cc (lit a) = Some (rest, f) -> has_modifiers f = true -> transparent_call cc a = None.
Proof.
  intros Hf Hm. unfold transparent_call. rewrite Hf. destruct rest; [rewrite Hm|]; reflexivity.
Qed.

(** Text around the placeholder, a second placeholder or an unparsable literal never delegate. *)
Theorem not_single_placeholder_never_delegates a :
  (forall f, format_p cc (lit a) <> Some ([], f)) -> transparent_call cc a = None.
Proof.
  intros H. unfold transparent_call.
  destruct (format_p cc (lit a)) as [[rest f]|] eqn:Hf; [|reflexivity].
  destruct rest; [exfalso; eapply H; reflexivity | reflexivity].
Qed.

(** ** What the struct / variant body then is ([display.rs], no enum-level attribute involved) *)

Definition plain (d : dexpansion) : Prop := d_shared d = None.

Lemma shared_info_plain d : plain d -> shared_attr_info cc d = (false, false).
Proof. unfold plain, shared_attr_info. intros ->. reflexivity. Qed.

(** with its own attribute: a delegation exactly when [transparent_call_on_fields] says so,
    otherwise [write!] with the attribute handed over verbatim *)
Theorem body_with_attr d a :
  plain d -> d_fmt d = Some a ->
  d_generate_body cc d =
    ROk (match transparent_call_on_fields cc a (d_fields d) with
         | Some (e, tr) => BDelegate tr e
         | None => BWrite a (additional_deref_args cc a (d_fields d))
         end).
Proof.
  intros Hp Ha. unfold d_generate_body. rewrite (shared_info_plain d Hp), Ha. cbn.
  destruct (transparent_call_on_fields cc a (d_fields d)) as [[e tr]|]; reflexivity.
Qed.

(** [transparent_call_on_fields] delegates exactly when [transparent_call] does, under the same trait *)
Theorem on_fields_iff a fs :
  (exists e tr, transparent_call_on_fields cc a fs = Some (e, tr)) <->
  (exists e tr, transparent_call cc a = Some (e, tr)).
Proof.
  unfold transparent_call_on_fields. split.
  - intros (e & tr & H). destruct (transparent_call cc a) as [[e' tr']|]; [eauto|discriminate].
  - intros (e & tr & H). rewrite H. eauto.
Qed.

Theorem on_fields_trait a fs e tr :
  transparent_call_on_fields cc a fs = Some (e, tr) ->
  exists e', transparent_call cc a = Some (e', tr).
Proof.
  unfold transparent_call_on_fields.
  destruct (transparent_call cc a) as [[e' tr']|]; [|discriminate].
  intros H. inversion H; subst. eauto.
Qed.

(** without attribute: a single field delegates under the derived trait; a unit prints its name *)
Theorem body_implicit_single d f :
  plain d -> d_fmt d = None -> fl (d_fields d) = [f] ->
  d_generate_body cc d =
    ROk (BDelegate (d_trait d)
           (TField (match fname f with Some n => n | None => positional_ident 0 end))).
Proof.
  intros Hp Ha Hf. unfold d_generate_body. rewrite (shared_info_plain d Hp), Ha, Hf. reflexivity.
Qed.

Theorem body_implicit_unit d :
  plain d -> d_fmt d = None -> fl (d_fields d) = [] ->
  d_generate_body cc d = ROk (BWriteStr (d_name d)).
Proof.
  intros Hp Ha Hf. unfold d_generate_body. rewrite (shared_info_plain d Hp), Ha, Hf. reflexivity.
Qed.

(** [Debug] with a struct- or variant-level format: same dichotomy *)
Theorem debug_body_with_attr g a :
  g_fmt g = Some a -> has_field_fmt (g_fields g) = false ->
  g_generate_body cc g =
    ROk (match transparent_call_on_fields cc a (g_fields g) with
         | Some (e, tr) => GDelegate tr e
         | None => GWrite a (additional_deref_args cc a (g_fields g))
         end).
Proof.
  intros Ha Hf. unfold g_generate_body. rewrite Ha, Hf.
  destruct (transparent_call_on_fields cc a (g_fields g)) as [[e tr]|]; reflexivity.
Qed.

(** ** Layer-2 semantics of the two body shapes (the assumption "what the emitted Rust does",
    validated against rustc-compiled expansions on every run): a delegation hands the caller's
    formatter to the argument's own impl; [write!] builds fresh [fmt::Arguments] and never
    looks at the caller's options. *)
Section Sem.
Variables (value fspec out : Type).
Variable render : trait -> value -> fspec -> out.            (* leaf impl under a formatter configuration *)
Variable run_args : fmt_attr -> list ident -> out.             (* format_args!(lit, args.., deref..) printed *)
Variable eval : texpr -> value.

Definition sem (b : body) (sp : fspec) : option out :=
  match b with
  | BDelegate tr e => Some (render tr (eval e) sp)
  | BWrite a deref => Some (run_args a deref)
  | _ => None
  end.

Theorem passthrough d a e tr sp :
  plain d -> d_fmt d = Some a -> transparent_call_on_fields cc a (d_fields d) = Some (e, tr) ->
  exists b, d_generate_body cc d = ROk b /\ sem b sp = Some (render tr (eval e) sp).
Proof.
  intros Hp Ha Ht. rewrite (body_with_attr d a Hp Ha), Ht. eexists. split; reflexivity.
Qed.

Theorem inert d a sp sp' :
  plain d -> d_fmt d = Some a -> transparent_call_on_fields cc a (d_fields d) = None ->
  exists b, d_generate_body cc d = ROk b /\ sem b sp = sem b sp' /\ sem b sp <> None.
Proof.
  intros Hp Ha Ht. rewrite (body_with_attr d a Hp Ha), Ht. eexists. split; [reflexivity|].
  split; [reflexivity|discriminate].
Qed.

Theorem implicit_single_passthrough d f sp :
  plain d -> d_fmt d = None -> fl (d_fields d) = [f] ->
  exists b, d_generate_body cc d = ROk b /\
    sem b sp = Some (render (d_trait d)
                       (eval (TField (match fname f with Some n => n | None => positional_ident 0 end))) sp).
Proof.
  intros Hp Ha Hf. rewrite (body_implicit_single d f Hp Ha Hf). eexists. split; reflexivity.
Qed.
End Sem.

End C05.

(** non-vacuity: "{_0:x}" on a tuple struct delegates to LowerHex of the field; "{:>8}" does not *)
Example ex_delegate :
  transparent_call_on_fields ascii_cc {| lit := [123; 95; 48; 58; 120; 125]; args := [] |}
    {| fk := Unnamed; fl := [ {| fname := None; fty := TyOpaque; ftid := 1; fattr := FNone |} ] |}
  = Some (TField [95; 48], TrLowerHex).
Proof. vm_compute. reflexivity. Qed.

Example ex_no_delegate :
  transparent_call ascii_cc {| lit := [123; 58; 62; 56; 125];
                               args := [ {| alias := None; aexpr := EIdent [95; 48] |} ] |} = None.
Proof. vm_compute. reflexivity. Qed.

Example ex_bad_index :
  transparent_call ascii_cc {| lit := [123; 49; 125];
                               args := [ {| alias := None; aexpr := EIdent [95; 48] |} ] |} = None.
Proof. vm_compute. reflexivity. Qed.

(** ** Link to std's reading of the literal (uses C03): whenever the attribute delegates, [format_args!]
    itself accepts the literal as exactly one placeholder, flag-free, of the same trait - so a literal
    std rejects is never silently accepted through the delegating path. *)
From Verif Require C03.StdParse C03.Props.
Theorem delegation_agrees_with_std cc (Hcc : CC_ok cc) a e tr :
  transparent_call cc a = Some (e, tr) ->
  exists sa, StdParse.std_parse cc (lit a) = Some [sa] /\
             spec_has_modifiers (StdParse.sa_spec sa) = false /\
             trait_name (sp_ty (StdParse.sa_spec sa)) = tr.
Proof.
  intros H. apply transparent_call_sound in H.
  destruct H as (f & Hf & Hm & Htr & Hcase).
  assert (Harg : match f_arg f with Some (AInt n) => n = 0 | _ => True end).
  { destruct Hcase as [[[Ha|Ha] _] | [(n & Ha & _) | (n & x & Ha & _)]]; rewrite Ha; auto. }
  destruct (Props.C03_no_silent_accept cc Hcc (lit a) f Hf Hm Harg) as (sa & Hs & Hspec & _).
  exists sa. split; [exact Hs|]. rewrite Hspec. unfold Props.spec_or_default.
  unfold has_modifiers in Hm. unfold trait_of in Htr. subst tr.
  destruct (f_spec f) as [s|]; [split; [exact Hm|reflexivity] | split; reflexivity].
Qed.
