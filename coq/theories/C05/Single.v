(** Facts about a literal that is exactly one placeholder ([parsing::format] with nothing left over), shared by the
    C02/C04/C05/C07 proofs: what [Placeholder::parse_fmt_string] makes of it, and that a name taken from a literal is
    never a raw identifier. *)
From Verif Require Import Fmt.Model C05.Proofs.
From Verif Require Import C03.Proofs1 C03.Proofs2 C03.Proofs4.
From Coq Require Import Lia.

Section Single.
Variable cc : CharClass.
Hypothesis Hok : CC_ok cc.

(** [unraw] only strips a leading [r#] *)
Lemma unraw_neq1 c t : c <> 114 -> unraw (c :: t) = c :: t.
Proof.
  intros E. unfold unraw. destruct c as [|p]; [reflexivity|].
  do 7 (try (destruct p as [p|p|]; try reflexivity)). exfalso. apply E. reflexivity.
Qed.

Lemma unraw_neq2 c d t : d <> 35 -> unraw (c :: d :: t) = c :: d :: t.
Proof.
  intros E. destruct (N.eq_dec c 114) as [->|Hc]; [|apply unraw_neq1; exact Hc].
  unfold unraw. destruct d as [|p]; [reflexivity|].
  do 6 (try (destruct p as [p|p|]; try reflexivity)). exfalso. apply E. reflexivity.
Qed.

Lemma unraw_single c : unraw [c] = [c].
Proof.
  destruct (N.eq_dec c 114) as [->|Hc]; [reflexivity|apply unraw_neq1; exact Hc].
Qed.

(** a name parsed out of a literal never starts with [r#] *)
Lemma identifier_not_raw i r x : identifier cc i = Some (r, x) -> unraw x = x.
Proof.
  intros H. apply identifier_inv in H as [Hx [(c & i' & -> & Hc & Hr) | (c & i' & -> & Hc & Hr)]].
  - destruct (skip_while_split (xid_continue cc) i') as [pre [Hpre Hall]]. rewrite <- Hr in Hpre.
    assert (Hx' : x = c :: pre).
    { rewrite Hx, Hpre. change (c :: pre ++ r) with ((c :: pre) ++ r). apply consumed_app. }
    rewrite Hx'. destruct pre as [|d pre]; [apply unraw_single|].
    cbn [forallb] in Hall. apply andb_true_iff in Hall as [Hd _].
    apply unraw_neq2. intros ->.
    rewrite (ok_special_not_continue cc Hok 35) in Hd by reflexivity. discriminate.
  - assert (Hs : suf r (c :: i')).
    { rewrite Hr. apply suf_cons, skip_while_suf. }
    rewrite Hx. rewrite (consumed_cons c_underscore) by exact Hs. apply unraw_neq1. discriminate.
Qed.

Lemma format_arg_not_raw s r f n : format_p cc s = Some (r, f) -> f_arg f = Some (AIdent n) -> unraw n = n.
Proof.
  intros Hf Ha. rewrite format_p_unfold in Hf.
  destruct (p_char c_lbrace s) as [i1|]; [|discriminate].
  destruct (optional_result (argument cc) i1) as [i2 a] eqn:E1.
  destruct (colon_spec_p cc (ws cc i2)) as [[i3 sp]|]; [|discriminate].
  destruct (p_char c_rbrace (ws cc i3)) as [i4|]; [|discriminate].
  inversion Hf; subst. cbn [f_arg] in Ha. subst a.
  apply optional_result_inv in E1 as [(x & Hx & Harg) | (Hx & _)]; [|discriminate].
  inversion Hx; subst x.
  apply argument_inv in Harg as [(s' & Hs' & Hid) | (m & Hm & _)]; [|discriminate].
  inversion Hs'; subst s'. eapply identifier_not_raw. exact Hid.
Qed.

(** a literal that [parsing::format] consumes entirely is, for [parsing::format_string], that one placeholder *)
Lemma format_string_single s f : format_p cc s = Some ([], f) -> format_string cc s = Some [f].
Proof.
  intros Hf. pose proof Hf as Hf0. rewrite format_p_unfold in Hf.
  destruct (p_char c_lbrace s) as [i1|] eqn:E0; [|discriminate].
  apply p_char_inv in E0. subst s. clear Hf.
  assert (Hi1 : forall r, i1 <> c_lbrace :: r).
  { intros r ->. rewrite (format_p_lbrace2 cc Hok) in Hf0. discriminate. }
  unfold format_string, format_string_fuel.
  assert (Ht : optional_result text (c_lbrace :: i1) = (c_lbrace :: i1, None)) by reflexivity.
  rewrite Ht. cbn [length].
  assert (Hm : maybe_format cc (c_lbrace :: i1) = Some ([], Some f)).
  { unfold maybe_format, alt, map_p. cbn [find_map].
    assert (H1 : p_str [c_lbrace; c_lbrace] (c_lbrace :: i1) = None).
    { cbn [p_str]. change (N.eqb c_lbrace c_lbrace) with true. cbv iota.
      destruct i1 as [|x i1']; [reflexivity|]. destruct (N.eqb_spec x c_lbrace) as [->|]; [|reflexivity].
      exfalso. eapply Hi1. reflexivity. }
    rewrite H1. assert (H2 : p_str [c_rbrace; c_rbrace] (c_lbrace :: i1) = None) by reflexivity.
    rewrite H2, Hf0. reflexivity. }
  cbn [scan]. unfold alt at 1. cbn [find_map]. rewrite Hm.
  destruct (length i1); reflexivity.
Qed.

Lemma no_modifiers_no_star f : has_modifiers f = false -> is_star f = false.
Proof.
  unfold has_modifiers, is_star, spec_has_modifiers. destruct (f_spec f) as [s|]; [|reflexivity].
  destruct (sp_prec s) as [[c|]|]; try reflexivity.
  intros H. repeat rewrite ?orb_true_r, ?orb_true_l in H. cbn in H.
  destruct (is_some (sp_align s)), (is_some (sp_sign s)), (sp_alt s), (sp_zero s), (is_some (sp_width s)); discriminate.
Qed.

(** the placeholder list of a delegating attribute *)
Theorem transparent_placeholders a e tr :
  transparent_call cc a = Some (e, tr) ->
  exists f, format_p cc (lit a) = Some ([], f) /\ has_modifiers f = false /\ tr = trait_of f /\
    placeholders cc (lit a) =
      [ {| ph_arg := match f_arg f with Some x => param_of_arg x | None => Positional 0 end;
           ph_mods := false; ph_trait := tr |} ].
Proof.
  intros H. apply transparent_call_sound in H as (f & Hf & Hm & Htr & _).
  exists f. split; [exact Hf|]. split; [exact Hm|]. split; [exact Htr|].
  unfold placeholders. rewrite (format_string_single _ _ Hf). cbn [placeholders_from].
  rewrite (no_modifiers_no_star f Hm), Hm. subst tr. unfold trait_of.
  destruct (f_arg f); reflexivity.
Qed.

End Single.
