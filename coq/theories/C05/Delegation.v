(** C05 - which attribute decides whether the caller's formatter reaches an argument, for every combination of
    struct-/variant-level and enum-level attribute; and what every generated body does with the caller's flags. *)
From Verif Require Import Fmt.Model C05.Proofs.
From Verif Require C07.Proofs.

Section Deleg.
Variable cc : CharClass.

Notation mentions_variant := (C07.Proofs.mentions_variant cc).
Notation bare_same_trait := (C07.Proofs.bare_same_trait cc).

(** the attribute whose literal governs the impl of this struct / variant:
    - no enum-level attribute: its own;
    - an enum-level attribute that mentions [_variant]: that one, for every variant - unless it is a bare
      [{_variant}] of the derived trait, which counts as absent;
    - an enum-level attribute that does not mention [_variant]: the variant's own, else the enum's. *)
Definition governing_attr (d : dexpansion) : option fmt_attr :=
  match d_shared d with
  | None => d_fmt d
  | Some sa =>
    if mentions_variant sa then
      if bare_same_trait sa (d_trait d) then d_fmt d else Some sa
    else match d_fmt d with Some a => Some a | None => Some sa end
  end.

(** the delegation a body ends in, if it does ([match .. { _variant => <outer> }] evaluates [<outer>]) *)
Fixpoint top_delegation (b : body) : option (texpr * trait) :=
  match b with
  | BDelegate tr e => Some (e, tr)
  | BMatchVariant _ outer => top_delegation outer
  | _ => None
  end.

Definition implicit_delegation (d : dexpansion) : option (texpr * trait) :=
  match fl (d_fields d) with
  | [f] => Some (TField (match fname f with Some n => n | None => positional_ident 0 end), d_trait d)
  | _ => None
  end.

Lemma top_attr_body a fs :
  top_delegation (match transparent_call_on_fields cc a fs with
                  | Some (e, tr) => BDelegate tr e
                  | None => BWrite a (additional_deref_args cc a fs) end)
  = transparent_call_on_fields cc a fs.
Proof. destruct (transparent_call_on_fields cc a fs) as [[e tr]|]; reflexivity. Qed.

(** the body delegates exactly as the governing attribute says; without one, a single field delegates under the
    derived trait and nothing else does *)
Theorem delegation_governed d b :
  d_generate_body cc d = ROk b ->
  top_delegation b = match governing_attr d with
                     | Some a => transparent_call_on_fields cc a (d_fields d)
                     | None => implicit_delegation d
                     end.
Proof.
  unfold governing_attr, implicit_delegation, d_generate_body.
  destruct (d_shared d) as [sa|] eqn:Hs.
  - rewrite (C07.Proofs.info_cases cc d sa Hs).
    destruct (mentions_variant sa) eqn:Hm.
    + destruct (bare_same_trait sa (d_trait d)) eqn:Hb.
      * (* as if absent *)
        destruct (d_fmt d) as [a|].
        -- destruct (transparent_call_on_fields cc a (d_fields d)) as [[e tr]|];
             intros H; inversion H; subst b; reflexivity.
        -- cbn. destruct (fl (d_fields d)) as [|f [|f2 l]]; intros H; inversion H; reflexivity.
      * (* wrapping *)
        destruct (d_fmt d) as [a|].
        -- intros H. inversion H; subst b. cbn [top_delegation]. apply top_attr_body.
        -- cbn. destruct (fl (d_fields d)) as [|f [|f2 l]]; intros H; inversion H; subst b;
             cbn [top_delegation]; apply top_attr_body.
    + (* default only *)
      destruct (d_fmt d) as [a|].
      * destruct (transparent_call_on_fields cc a (d_fields d)) as [[e tr]|];
          intros H; inversion H; subst b; reflexivity.
      * cbn. intros H. inversion H; subst b. apply top_attr_body.
  - assert (Hi : shared_attr_info cc d = (false, false)) by (apply shared_info_plain; exact Hs).
    rewrite Hi. destruct (d_fmt d) as [a|].
    + destruct (transparent_call_on_fields cc a (d_fields d)) as [[e tr]|];
        intros H; inversion H; subst b; reflexivity.
    + cbn. destruct (fl (d_fields d)) as [|f [|f2 l]]; intros H; inversion H; reflexivity.
Qed.

(** a placeholder whose index does not denote an existing argument is never a delegation; a struct with such an
    attribute hands it to [write!] as written, so [format_args!] is the one to refuse it *)
Theorem bad_index_not_delegated a f n :
  format_p cc (lit a) = Some ([], f) -> f_arg f = Some (AInt n) ->
  (length (args a) <= N.to_nat n)%nat -> transparent_call cc a = None.
Proof.
  intros Hf Ha Hn. destruct (transparent_call cc a) as [[e tr]|] eqn:Ht; [|reflexivity].
  destruct (transparent_index_in_range cc a e tr f n Ht Hf Ha) as [_ Hlt]. exfalso.
  apply (PeanoNat.Nat.lt_irrefl (N.to_nat n)). eapply PeanoNat.Nat.lt_le_trans; eassumption.
Qed.

Theorem bad_index_written_verbatim d a f n :
  plain d -> d_fmt d = Some a ->
  format_p cc (lit a) = Some ([], f) -> f_arg f = Some (AInt n) -> (length (args a) <= N.to_nat n)%nat ->
  d_generate_body cc d = ROk (BWrite a (additional_deref_args cc a (d_fields d))).
Proof.
  intros Hp Ha Hf Harg Hn. rewrite (body_with_attr cc d a Hp Ha).
  unfold transparent_call_on_fields. rewrite (bad_index_not_delegated a f n Hf Harg Hn). reflexivity.
Qed.

(** [transparent_call_on_fields] is [transparent_call] followed by a choice of how the expression is passed *)
Definition field_expr (a : fmt_attr) (fs : fields) (e : expr) (tr : trait) : texpr :=
  let hit := find (fun f => match e with
                            | EIdent i => ident_eqb i f || ident_eqb i (unraw f)
                            | EOther _ => false end) (fmt_args_idents fs) in
  let hit := match args a with
             | [] => hit
             | _ => if trait_eqb tr TrPointer then None else hit
             end in
  match hit with Some f => TField f | None => TRef e end.

Lemma on_fields_eq a fs :
  transparent_call_on_fields cc a fs =
  match transparent_call cc a with
  | Some (e, tr) => Some (field_expr a fs e tr, tr)
  | None => None
  end.
Proof. unfold transparent_call_on_fields, field_expr. destruct (transparent_call cc a) as [[e tr]|]; reflexivity. Qed.

(** the property's condition, for ALL attributes: the body delegates to [e] under [tr] iff the governing
    attribute's literal is exactly one modifier-free placeholder of trait [tr] that refers to its only argument
    (no index / index 0 / matching name) or to a binding by name - or there is no attribute at all and the type
    has a single field (then [tr] is the derived trait) *)
Theorem delegation_textual d b e tr :
  d_generate_body cc d = ROk b ->
  (top_delegation b = Some (e, tr) <->
   match governing_attr d with
   | Some a => exists e0, delegates_to cc a e0 tr /\ e = field_expr a (d_fields d) e0 tr
   | None => exists f, fl (d_fields d) = [f] /\ tr = d_trait d /\
                       e = TField (match fname f with Some n => n | None => positional_ident 0 end)
   end).
Proof.
  intros Hb. rewrite (delegation_governed d b Hb). destruct (governing_attr d) as [a|].
  - rewrite on_fields_eq. split.
    + destruct (transparent_call cc a) as [[e0 tr0]|] eqn:Ht; [|discriminate].
      intros H. inversion H; subst. exists e0. split; [apply transparent_call_iff; exact Ht|reflexivity].
    + intros (e0 & Hd & ->). apply transparent_call_iff in Hd. rewrite Hd. reflexivity.
  - unfold implicit_delegation. split.
    + destruct (fl (d_fields d)) as [|f [|f2 l]]; try discriminate.
      intros H. inversion H; subst. exists f. repeat split; reflexivity.
    + intros (f & -> & -> & ->). reflexivity.
Qed.

(** Debug: only a struct-/variant-level format can delegate *)
Definition g_top_delegation (b : gbody) : option (texpr * trait) :=
  match b with GDelegate tr e => Some (e, tr) | _ => None end.

Theorem debug_delegation_governed g b :
  g_generate_body cc g = ROk b ->
  g_top_delegation b = match g_fmt g with
                       | Some a => transparent_call_on_fields cc a (g_fields g)
                       | None => None
                       end.
Proof.
  unfold g_generate_body. destruct (g_fmt g) as [a|].
  - destruct (has_field_fmt (g_fields g)); [discriminate|].
    destruct (transparent_call_on_fields cc a (g_fields g)) as [[e tr]|]; intros H; inversion H; reflexivity.
  - destruct (fk (g_fields g)).
    + destruct (g_fields_from cc (g_fields g) 0 (fl (g_fields g))). intros H; inversion H; reflexivity.
    + destruct (g_fields_from cc (g_fields g) 0 (fl (g_fields g))). intros H; inversion H; reflexivity.
    + intros H; inversion H; reflexivity.
Qed.

(** ** Layer-2: what any Display-like body does with the caller's formatter configuration *)
Section Sem.
Variables (value out fspec : Type).
Variable render : trait -> value -> fspec -> out.
Variable run : fmt_attr -> list ident -> (ident -> value) -> out.
Variable text_value : out -> value.
Variable name_text : str -> out.
Variable default_fspec : fspec.
Variable eval : texpr -> (ident -> value) -> value.

Notation sem := (C07.Proofs.sem value out fspec render run text_value name_text default_fspec eval).
Notation sem_v := (C07.Proofs.sem_v value out fspec render run text_value name_text default_fspec).
Notation bind := (C07.Proofs.bind value).

(** the environment the final delegation is evaluated in *)
Fixpoint inner_env (b : body) (env : ident -> value) : ident -> value :=
  match b with
  | BMatchVariant v outer => inner_env outer (bind variant_ident (sem_v v env) env)
  | _ => env
  end.

(** pass-through: a body that ends in a delegation hands the caller's configuration to that argument *)
Theorem sem_delegation : forall b env sp e tr,
  top_delegation b = Some (e, tr) -> sem b env sp = render tr (eval e (inner_env b env)) sp.
Proof.
  induction b as [tr0 e0|a dd|s|v outer IH|]; intros env sp e tr H; try discriminate.
  - inversion H; subst. reflexivity.
  - cbn [top_delegation] in H. cbn [C07.Proofs.sem inner_env]. apply IH. exact H.
Qed.

(** inert: every other body ignores it *)
Theorem sem_inert : forall b env sp sp', top_delegation b = None -> sem b env sp = sem b env sp'.
Proof.
  induction b as [tr0 e0|a dd|s|v outer IH|]; intros env sp sp' H; try reflexivity.
  - discriminate.
  - cbn [top_delegation] in H. cbn [C07.Proofs.sem]. apply IH. exact H.
Qed.

(** both, for every struct / variant under every combination of attributes *)
Theorem flags_governed d b :
  d_generate_body cc d = ROk b ->
  match (match governing_attr d with
         | Some a => transparent_call_on_fields cc a (d_fields d)
         | None => implicit_delegation d end) with
  | Some (e, tr) => forall env sp, sem b env sp = render tr (eval e (inner_env b env)) sp
  | None => forall env sp sp', sem b env sp = sem b env sp'
  end.
Proof.
  intros Hb. rewrite <- (delegation_governed d b Hb).
  destruct (top_delegation b) as [[e tr]|] eqn:Ht.
  - intros env sp. apply sem_delegation. exact Ht.
  - intros env sp sp'. apply sem_inert. exact Ht.
Qed.

(** a bare [{_variant}] under a non-Display derive delegates to the text of the variant ([fmt::Arguments]), whose
    [Display] impl ignores the configuration (stated as the hypothesis [H_args]): the caller's flags are inert *)
Hypothesis H_args : forall o env sp sp',
  render TrDisplay (eval (TRef (EIdent variant_ident)) (bind variant_ident (text_value o) env)) sp =
  render TrDisplay (eval (TRef (EIdent variant_ident)) (bind variant_ident (text_value o) env)) sp'.

Theorem bare_variant_non_display_inert d sa b bs :
  d_shared d = Some sa ->
  transparent_call_on_fields cc sa (d_fields d) = Some (TRef (EIdent variant_ident), TrDisplay) ->
  mentions_variant sa = true -> d_trait d <> TrDisplay ->
  d_expand_variant cc d = ROk (b, bs) ->
  forall env sp sp', sem b env sp = sem b env sp'.
Proof.
  intros Hs Ht Hm Hnd He env sp sp'.
  assert (Hbare : bare_same_trait sa (d_trait d) = false).
  { unfold C07.Proofs.bare_same_trait. rewrite on_fields_eq in Ht.
    destruct (transparent_call cc sa) as [[e0 tr0]|]; [|discriminate]. inversion Ht; subst tr0.
    destruct (d_trait d); try reflexivity. exfalso. apply Hnd. reflexivity. }
  unfold d_expand_variant in He.
  destruct (negb (variant_spec_ok cc (d_shared d))); [discriminate|].
  destruct (d_fmt d) as [a|] eqn:Ha.
  - cbn [andb] in He. rewrite (C07.Proofs.wrap_own_attr cc d sa a Hs Hm Hbare Ha) in He.
    inversion He; subst b. unfold C07.Proofs.shared_body. rewrite Ht. cbn [C07.Proofs.sem C07.Proofs.sem_v]. apply H_args.
  - destruct (fl (d_fields d)) as [|f [|f2 l]] eqn:Hf.
    + (* a unit variant without a format is refused by the non-Display derives *)
      rewrite Hs in He. fold (C07.Proofs.mentions_variant cc sa) in He. rewrite Hm in He. cbn [andb] in He.
      destruct (trait_eqb (d_trait d) TrDisplay) eqn:E; [|discriminate].
      exfalso. apply Hnd. destruct (d_trait d); try discriminate. reflexivity.
    + cbn [andb] in He. rewrite (C07.Proofs.wrap_single_field cc d sa f Hs Hm Hbare Ha Hf) in He.
      inversion He; subst b. unfold C07.Proofs.shared_body. rewrite Ht. cbn [C07.Proofs.sem C07.Proofs.sem_v]. apply H_args.
    + cbn [andb] in He. rewrite (C07.Proofs.wrap_multi_field_rejected cc d sa f f2 l Hs Hm Hbare Ha Hf) in He. discriminate.
Qed.
End Sem.

End Deleg.

(** non-vacuity *)
Definition ex_lit_variant : str := [123; 95; 118; 97; 114; 105; 97; 110; 116; 125].      (* "{_variant}" *)
Definition ex_field : field := {| fname := None; fty := TyOpaque; ftid := 1; fattr := FNone |}.
Definition ex_d (tr : trait) (own : option fmt_attr) : dexpansion :=
  {| d_shared := Some {| lit := ex_lit_variant; args := [] |}; d_fmt := own; d_user_bounds := []; d_name := [65];
     d_fields := {| fk := Unnamed; fl := [ex_field] |}; d_params := []; d_trait := tr |}.

(** derive(Display): the bare [{_variant}] counts as absent, the single field delegates under Display *)
Example ex_governing_display :
  governing_attr ascii_cc (ex_d TrDisplay None) = None /\
  (exists b, d_generate_body ascii_cc (ex_d TrDisplay None) = ROk b /\
             top_delegation b = Some (TField [95; 48], TrDisplay)).
Proof. split; [reflexivity|]. eexists. split; reflexivity. Qed.

(** derive(LowerHex): the same attribute wraps; the body ends in Display::fmt(&(_variant), f) *)
Example ex_governing_lower_hex :
  governing_attr ascii_cc (ex_d TrLowerHex None) = Some {| lit := ex_lit_variant; args := [] |} /\
  (exists b bs, d_expand_variant ascii_cc (ex_d TrLowerHex None) = ROk (b, bs) /\
                top_delegation b = Some (TRef (EIdent variant_ident), TrDisplay)).
Proof. split; [reflexivity|]. eexists. eexists. split; reflexivity. Qed.
