(** C02 - the attribute reaches [write!] / [format_args!] / [Trait::fmt] unchanged under every combination of
    attributes (structs, variants, enum-level formats), also for Debug's field-level formats; a delegation passes the
    field only where that is indistinguishable from the documented binding. *)
From Verif Require Import Fmt.Model C05.Proofs C02.Proofs.
From Verif Require C07.Proofs.

Section Handover.
Variable cc : CharClass.

(** how an attribute [a] shows up in a body: handed to [write!] verbatim with the re-bindings, turned into the
    delegation [transparent_call_on_fields] computes, or handed to [format_args!] verbatim as the text bound to
    [_variant] *)
Definition carries (fs : fields) (b : body) (a : fmt_attr) : Prop :=
  b = BWrite a (additional_deref_args cc a fs)
  \/ (exists e tr, transparent_call_on_fields cc a fs = Some (e, tr) /\ b = BDelegate tr e)
  \/ (exists outer, b = BMatchVariant (VFormatArgs a (additional_deref_args cc a fs)) outer).

(** a struct's / variant's own attribute is always carried by its body, whatever the enum-level attribute is *)
Theorem own_attr_carried d a b :
  d_fmt d = Some a -> d_generate_body cc d = ROk b -> carries (d_fields d) b a.
Proof.
  intros Ha Hb. unfold d_generate_body in Hb. rewrite Ha in Hb.
  destruct (d_shared d) as [sa|] eqn:Hs.
  - destruct (shared_attr_info cc d) as [hs wr]. destruct wr.
    + inversion Hb; subst b. right. right. eexists. reflexivity.
    + destruct (transparent_call_on_fields cc a (d_fields d)) as [[e tr]|] eqn:Ht; inversion Hb; subst b.
      * right. left. exists e, tr. split; [exact Ht|reflexivity].
      * left. reflexivity.
  - rewrite (shared_info_plain cc d Hs) in Hb.
    destruct (transparent_call_on_fields cc a (d_fields d)) as [[e tr]|] eqn:Ht; inversion Hb; subst b.
    + right. left. exists e, tr. split; [exact Ht|reflexivity].
    + left. reflexivity.
Qed.

(** the enum-level attribute, when it governs a variant, is carried as the outer body the same way *)
Definition carries_outer (fs : fields) (b : body) (sa : fmt_attr) : Prop :=
  carries fs b sa \/ exists v outer, b = BMatchVariant v outer /\ carries fs outer sa.

Theorem shared_attr_carried d sa b :
  d_shared d = Some sa -> d_generate_body cc d = ROk b ->
  C07.Proofs.bare_same_trait cc sa (d_trait d) = false ->
  (C07.Proofs.mentions_variant cc sa = true \/ d_fmt d = None) ->
  carries_outer (d_fields d) b sa.
Proof.
  intros Hs Hb Hbare Hcase.
  assert (Hsb : carries (d_fields d) (C07.Proofs.shared_body cc d sa) sa).
  { unfold C07.Proofs.shared_body, carries.
    destruct (transparent_call_on_fields cc sa (d_fields d)) as [[e tr]|] eqn:Ht.
    - right. left. exists e, tr. split; reflexivity.
    - left. reflexivity. }
  destruct (C07.Proofs.mentions_variant cc sa) eqn:Hm.
  - destruct (d_fmt d) as [a|] eqn:Ha.
    + rewrite (C07.Proofs.wrap_own_attr cc d sa a Hs Hm Hbare Ha) in Hb. inversion Hb; subst b.
      right. eexists. eexists. split; [reflexivity|exact Hsb].
    + destruct (fl (d_fields d)) as [|f [|f2 l]] eqn:Hf.
      * rewrite (C07.Proofs.wrap_unit cc d sa Hs Hm Hbare Ha Hf) in Hb. inversion Hb; subst b.
        right. eexists. eexists. split; [reflexivity|exact Hsb].
      * rewrite (C07.Proofs.wrap_single_field cc d sa f Hs Hm Hbare Ha Hf) in Hb. inversion Hb; subst b.
        right. eexists. eexists. split; [reflexivity|exact Hsb].
      * rewrite (C07.Proofs.wrap_multi_field_rejected cc d sa f f2 l Hs Hm Hbare Ha Hf) in Hb. discriminate.
  - destruct Hcase as [Hc|Ha]; [discriminate|].
    rewrite (C07.Proofs.default_used cc d sa Hs Hm Ha) in Hb. inversion Hb; subst b. left. exact Hsb.
Qed.

(** a delegation passes the binding itself ([field], i.e. [&self.field] auto-dereferenced by the call) only when
    that cannot be told from the documented binding: the field named in the literal (no arguments), or - for an
    explicit argument, which is a reference - under a trait for which [&T] prints like [T] *)
Theorem delegate_field_indistinguishable a fs f tr :
  transparent_call_on_fields cc a fs = Some (TField f, tr) -> args a = [] \/ tr <> TrPointer.
Proof.
  unfold transparent_call_on_fields. destruct (transparent_call cc a) as [[e tr0]|]; [|discriminate].
  destruct (args a) as [|x l]; [left; reflexivity|]. right.
  destruct (trait_eqb tr0 TrPointer) eqn:E; [discriminate|].
  inversion H; subst tr0. intros ->. discriminate.
Qed.

Section Sem.
Variables (value out fspec : Type).
Variable render : trait -> value -> fspec -> out.
Variables (ref : value -> value).
Hypothesis H_ref : forall tr v sp, tr <> TrPointer -> render tr (ref v) sp = render tr v sp.

(** what [format!(lit, args..)] formats for the placeholder when every field is bound as documented: the field itself
    when it is named inside the literal, a reference to it when it is passed as an argument expression *)
Definition documented_binding (a : fmt_attr) (v : value) : value :=
  match args a with [] => v | _ => ref v end.

(** [Trait::fmt(field, f)] formats the field itself; that is what the documented binding prints *)
Theorem delegation_prints_documented a fs f tr v sp :
  transparent_call_on_fields cc a fs = Some (TField f, tr) ->
  render tr v sp = render tr (documented_binding a v) sp.
Proof.
  intros H. apply delegate_field_indistinguishable in H. unfold documented_binding.
  destruct (args a) as [|x l]; [reflexivity|]. destruct H as [H|H]; [discriminate|].
  symmetry. apply H_ref. exact H.
Qed.
End Sem.

(** ** Debug without a struct-/variant-level format: the builder chain *)

(** which fields are shown, in order, and how *)
Theorem debug_fields_exhaustive fs : forall l i,
  snd (g_fields_from cc fs i l) = forallb (fun f => match fattr f with FSkip => false | _ => true end) l.
Proof.
  induction l as [|f l IH]; intros i; [reflexivity|].
  cbn [g_fields_from forallb]. specialize (IH (i + 1)).
  destruct (g_fields_from cc fs (i + 1) l) as [rest ex]. cbn [snd] in IH.
  destruct (fattr f); cbn [snd]; rewrite <- IH; reflexivity.
Qed.

(** the chain has one entry per non-skipped field, in field order; a field-level format is handed to
    [format_args!] verbatim together with the re-bindings computed over ALL fields of the struct / variant *)
Fixpoint debug_chain (fs : fields) (i : N) (l : list field) : list gfield :=
  match l with
  | [] => []
  | f :: l' =>
    let nm := match fname f with Some n => Some (unraw n) | None => None end in
    match fattr f with
    | FSkip => []
    | FFmt a => [GFormat nm a (additional_deref_args cc a fs)]
    | FNone => [GValue nm (match fname f with Some n => n | None => positional_ident i end)]
    end ++ debug_chain fs (i + 1) l'
  end.

Theorem debug_fields_chain fs : forall l i, fst (g_fields_from cc fs i l) = debug_chain fs i l.
Proof.
  induction l as [|f l IH]; intros i; [reflexivity|].
  cbn [g_fields_from debug_chain]. specialize (IH (i + 1)).
  destruct (g_fields_from cc fs (i + 1) l) as [rest ex]. cbn [fst] in IH. rewrite <- IH.
  destruct (fattr f); reflexivity.
Qed.

Theorem debug_body_default g :
  g_fmt g = None ->
  g_generate_body cc g =
  ROk (match fk (g_fields g) with
       | Unit => GUnit (g_name g)
       | Unnamed => GTuple (g_name g) (debug_chain (g_fields g) 0 (fl (g_fields g)))
                           (forallb (fun f => match fattr f with FSkip => false | _ => true end) (fl (g_fields g)))
       | Named => GStruct (g_name g) (debug_chain (g_fields g) 0 (fl (g_fields g)))
                          (forallb (fun f => match fattr f with FSkip => false | _ => true end) (fl (g_fields g)))
       end).
Proof.
  intros Hf. unfold g_generate_body. rewrite Hf.
  pose proof (debug_fields_chain (g_fields g) (fl (g_fields g)) 0) as Hc.
  pose proof (debug_fields_exhaustive (g_fields g) (fl (g_fields g)) 0) as He.
  destruct (g_fields_from cc (g_fields g) 0 (fl (g_fields g))) as [l ex]. cbn [fst snd] in Hc, He. subst l ex.
  destruct (fk (g_fields g)); reflexivity.
Qed.

End Handover.

(** non-vacuity: a wrapped variant with its own attribute "{a:p}" re-binds [a] inside the text bound to [_variant] *)
Example ex_wrapped_own_attr :
  let own := {| lit := [123; 97; 58; 112; 125]; args := [] |} in
  let d := {| d_shared := Some {| lit := C07.Proofs.lit_wrap; args := [] |}; d_fmt := Some own; d_user_bounds := [];
              d_name := [65];
              d_fields := {| fk := Named; fl := [ {| fname := Some [97]; fty := TyOpaque; ftid := 1; fattr := FNone |} ] |};
              d_params := []; d_trait := TrDisplay |} in
  exists outer, d_generate_body ascii_cc d = ROk (BMatchVariant (VFormatArgs own [[97]]) outer).
Proof. eexists. vm_compute. reflexivity. Qed.

Example ex_debug_chain :
  g_generate_body ascii_cc
    {| g_fmt := None; g_user_bounds := []; g_name := [83];
       g_fields := {| fk := Unnamed;
                      fl := [ {| fname := None; fty := TyOpaque; ftid := 1; fattr := FNone |};
                              {| fname := None; fty := TyOpaque; ftid := 2; fattr := FSkip |};
                              {| fname := None; fty := TyOpaque; ftid := 3;
                                 fattr := FFmt {| lit := [123; 95; 48; 125]; args := [] |} |} ] |};
       g_params := [] |}
  = ROk (GTuple [83] [GValue None [95; 48]; GFormat None {| lit := [123; 95; 48; 125]; args := [] |} []] false).
Proof. vm_compute. reflexivity. Qed.
