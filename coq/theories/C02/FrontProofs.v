(** Facts about the front end of the formatting derives ([Fmt/Front.v]): the attribute-name table, attributes of
    other derives, what merging several attributes yields, unit names under [rename_all], Debug's refusals.
    Shared by the C02 / C04 / C05 / C07 property files. *)
From Verif Require Import Fmt.Model Fmt.Front C05.Proofs.
From Coq Require Import Lia.

(** ** the attribute-name table is injective: no derive reads another derive's attributes *)
Theorem attr_name_of_inj : forall t1 t2, attr_name_of t1 = attr_name_of t2 -> t1 = t2.
Proof. intros t1 t2. destruct t1, t2; vm_compute; intros H; try reflexivity; discriminate. Qed.

Lemma str_eqb_refl s : str_eqb s s = true.
Proof. apply str_eqb_eq. reflexivity. Qed.

Lemma str_eqb_neq a b : a <> b -> str_eqb a b = false.
Proof. intros H. destruct (str_eqb a b) eqn:E; [|reflexivity]. apply str_eqb_eq in E. contradiction. Qed.

(** removing every attribute that belongs to another name changes nothing *)
Definition only_named (name : str) (l : list raw_attr) : list raw_attr :=
  filter (fun a => str_eqb (ra_name a) name) l.

Lemma attrs_named_only name l : attrs_named name (only_named name l) = attrs_named name l.
Proof.
  unfold attrs_named, only_named. f_equal. induction l as [|a l IH]; [reflexivity|].
  cbn [filter]. destruct (str_eqb (ra_name a) name) eqn:E; cbn [filter]; [rewrite E, IH|]; auto.
Qed.

Lemma attrs_named_foreign name other c l1 l2 :
  other <> name ->
  attrs_named name (l1 ++ {| ra_name := other; ra_content := c |} :: l2) = attrs_named name (l1 ++ l2).
Proof.
  intros Hne. unfold attrs_named. rewrite !filter_app. cbn [filter ra_name].
  rewrite (str_eqb_neq other name Hne). reflexivity.
Qed.

(** ** what merging yields *)
Definition c_fmts (cs : list raw_content) : list fmt_attr :=
  flat_map (fun c => match c with RCFmt a => [a] | _ => [] end) cs.
Definition c_preds (cs : list raw_content) : list N :=
  flat_map (fun c => match c with RCBound ps => ps | _ => [] end) cs.
Definition c_renames (cs : list raw_content) : list str :=
  flat_map (fun c => match c with RCRenameAll v => [v] | _ => [] end) cs.

Lemma c_fmts_cons c cs : c_fmts (c :: cs) = match c with RCFmt a => [a] | _ => [] end ++ c_fmts cs.
Proof. reflexivity. Qed.
Lemma c_preds_cons c cs : c_preds (c :: cs) = match c with RCBound ps => ps | _ => [] end ++ c_preds cs.
Proof. reflexivity. Qed.
Lemma c_renames_cons c cs : c_renames (c :: cs) = match c with RCRenameAll v => [v] | _ => [] end ++ c_renames cs.
Proof. reflexivity. Qed.

(** contents the Display-like container parser accepts *)
Definition d_content_ok (c : raw_content) : Prop :=
  match c with
  | RCFmt _ | RCBound _ => True
  | RCRenameAll v => parse_casing v <> None
  | _ => False
  end.

(** contents the common (Debug) container parser accepts *)
Definition c_content_ok (c : raw_content) : Prop :=
  match c with RCFmt _ | RCBound _ => True | _ => False end.

Definition the_rename (cs : list raw_content) : option casing :=
  match c_renames cs with [v] => parse_casing v | _ => None end.

Lemma d_fold_inv : forall cs acc r,
  parse_attrs_from d_parse_one d_merge (Some acc) cs = ROk r ->
  exists a, r = Some a /\ Forall d_content_ok cs /\
    ca_bounds (da_common a) = ca_bounds (da_common acc) ++ c_preds cs /\
    match ca_fmt (da_common acc) with
    | Some x => c_fmts cs = [] /\ ca_fmt (da_common a) = Some x
    | None => (length (c_fmts cs) <= 1)%nat /\ ca_fmt (da_common a) = hd_error (c_fmts cs)
    end /\
    match da_rename acc with
    | Some k => c_renames cs = [] /\ da_rename a = Some k
    | None => (length (c_renames cs) <= 1)%nat /\ da_rename a = the_rename cs
    end.
Proof.
  induction cs as [|c cs IH]; intros acc r H.
  - cbn in H. inversion H; subst r. exists acc. split; [reflexivity|]. split; [constructor|].
    split; [cbn; rewrite app_nil_r; reflexivity|]. unfold the_rename. cbn.
    split; [destruct (ca_fmt (da_common acc)); split; auto|destruct (da_rename acc); split; auto].
  - cbn [parse_attrs_from] in H. unfold the_rename. rewrite c_fmts_cons, c_preds_cons, c_renames_cons.
    destruct c as [x|ps|v| | | |]; cbn [d_parse_one c_parse_one] in H; try discriminate.
    + (* a format *)
      unfold d_merge in H. cbn [da_rename da_common c_merge ca_fmt ca_bounds] in H.
      destruct (ca_fmt (da_common acc)) as [y|] eqn:Hf; [destruct (da_rename acc); discriminate|].
      assert (H' : parse_attrs_from d_parse_one d_merge
                     (Some {| da_rename := da_rename acc;
                              da_common := {| ca_fmt := Some x; ca_bounds := ca_bounds (da_common acc) ++ [] |} |}) cs = ROk r)
        by (destruct (da_rename acc); exact H).
      apply IH in H' as (a & -> & Hall & Hb & Hfmt & Hren). cbn [da_common da_rename ca_fmt ca_bounds] in *.
      exists a. split; [reflexivity|]. split; [constructor; [exact I|exact Hall]|].
      split; [rewrite Hb, app_nil_r; reflexivity|].
      destruct Hfmt as [Hnil Hfa]. cbn [app]. split.
      * rewrite Hnil. split; [cbn; lia|exact Hfa].
      * exact Hren.
    + (* bound(...) *)
      unfold d_merge in H. cbn [da_rename da_common c_merge ca_fmt ca_bounds] in H.
      assert (H' : parse_attrs_from d_parse_one d_merge
                     (Some {| da_rename := da_rename acc;
                              da_common := {| ca_fmt := ca_fmt (da_common acc); ca_bounds := ca_bounds (da_common acc) ++ ps |} |}) cs = ROk r)
        by (destruct (da_rename acc); exact H).
      apply IH in H' as (a & -> & Hall & Hb & Hfmt & Hren). cbn [da_common da_rename ca_fmt ca_bounds] in *.
      exists a. split; [reflexivity|]. split; [constructor; [exact I|exact Hall]|].
      split; [rewrite Hb, <- app_assoc; reflexivity|]. cbn [app].
      split; [exact Hfmt|exact Hren].
    + (* rename_all *)
      destruct (parse_casing v) as [k|] eqn:Hk; [|discriminate].
      unfold d_merge in H. cbn [da_rename da_common c_merge ca_fmt ca_bounds cattrs_default] in H.
      destruct (da_rename acc) as [k0|] eqn:Hr; [discriminate|].
      apply IH in H as (a & -> & Hall & Hb & Hfmt & Hren). cbn [da_common da_rename ca_fmt ca_bounds] in *.
      exists a. split; [reflexivity|].
      split; [constructor; [cbn; rewrite Hk; discriminate|exact Hall]|].
      split; [rewrite Hb, app_nil_r; reflexivity|]. cbn [app].
      split; [exact Hfmt|].
      destruct Hren as [Hnil Hra]. rewrite Hnil. split; [cbn; lia|]. rewrite Hra, Hk. reflexivity.
Qed.

(** Display-like: when the attributes of an item are accepted, every one of them is a format, a [bound(...)] or a
    valid [rename_all]; there is at most one format and at most one [rename_all]; the result carries that format,
    that casing, and ALL predicates of ALL [bound(...)] attributes in source order *)
Theorem d_parse_attrs_sound name l a :
  d_parse_attrs name l = ROk a ->
  let cs := attrs_named name l in
  Forall d_content_ok cs /\ (length (c_fmts cs) <= 1)%nat /\ (length (c_renames cs) <= 1)%nat /\
  ca_fmt (da_common a) = hd_error (c_fmts cs) /\
  ca_bounds (da_common a) = c_preds cs /\
  da_rename a = the_rename cs.
Proof.
  unfold d_parse_attrs, parse_attrs. intros H. set (cs := attrs_named name l) in *.
  destruct (parse_attrs_from d_parse_one d_merge None cs) as [o|e] eqn:E; [|discriminate].
  inversion H; subst a. clear H.
  destruct cs as [|c cs'].
  - cbn in E. inversion E; subst o. unfold the_rename. cbn. repeat split; auto; try constructor.
  - cbn [parse_attrs_from] in E. destruct (d_parse_one c) as [new|e] eqn:Hp; [|discriminate].
    apply d_fold_inv in E as (a & -> & Hall & Hb & Hfmt & Hren).
    destruct c as [x|ps|v| | | |]; cbn [d_parse_one c_parse_one] in Hp; try discriminate.
    + inversion Hp; subst new. cbn [da_common da_rename ca_fmt ca_bounds] in *.
      destruct Hfmt as [Hnil Hfa]. destruct Hren as [Hlen Hra].
      unfold the_rename in *. cbn [c_fmts c_renames c_preds flat_map app]. fold (c_fmts cs') (c_renames cs') (c_preds cs').
      rewrite Hnil. cbn. repeat split; auto. constructor; [exact I|exact Hall].
    + inversion Hp; subst new. cbn [da_common da_rename ca_fmt ca_bounds] in *.
      destruct Hfmt as [Hlen Hfa]. destruct Hren as [Hlen' Hra].
      unfold the_rename in *. cbn [c_fmts c_renames c_preds flat_map app]. fold (c_fmts cs') (c_renames cs') (c_preds cs').
      repeat split; auto. constructor; [exact I|exact Hall].
    + destruct (parse_casing v) as [k|] eqn:Hk; [|discriminate]. inversion Hp; subst new.
      cbn [da_common da_rename ca_fmt ca_bounds cattrs_default] in *.
      destruct Hfmt as [Hlen Hfa]. destruct Hren as [Hnil Hra].
      unfold the_rename. cbn [c_fmts c_renames c_preds flat_map app]. fold (c_fmts cs') (c_renames cs') (c_preds cs').
      rewrite Hnil. cbn. repeat split; auto; [constructor; [cbn; rewrite Hk; discriminate|exact Hall]|].
      rewrite Hra, Hk. reflexivity.
Qed.

(** hence: a second format, a second [rename_all], a legacy spelling, an unknown casing or any other content under
    the derive's own attribute name makes the derive fail *)
Corollary d_parse_attrs_rejects name l :
  (exists c, In c (attrs_named name l) /\ ~ d_content_ok c)
  \/ (length (c_fmts (attrs_named name l)) >= 2)%nat
  \/ (length (c_renames (attrs_named name l)) >= 2)%nat ->
  exists e, d_parse_attrs name l = RErr e.
Proof.
  intros H. destruct (d_parse_attrs name l) as [a|e] eqn:E; [|exists e; reflexivity].
  exfalso. apply d_parse_attrs_sound in E as (Hall & Hf & Hr & _).
  destruct H as [(c & Hin & Hc)|[H|H]]; [|lia|lia].
  rewrite Forall_forall in Hall. apply Hc, Hall, Hin.
Qed.

(** ... and conversely nothing else is refused: contents of the three accepted kinds, with at most one format and at
    most one [rename_all], are always accepted *)
Lemma d_fold_complete : forall cs acc,
  Forall d_content_ok cs ->
  (ca_fmt (da_common acc) <> None -> c_fmts cs = []) -> (length (c_fmts cs) <= 1)%nat ->
  (da_rename acc <> None -> c_renames cs = []) -> (length (c_renames cs) <= 1)%nat ->
  exists r, parse_attrs_from d_parse_one d_merge (Some acc) cs = ROk (Some r).
Proof.
  induction cs as [|c cs IH]; intros acc Hall Hf Hfl Hr Hrl.
  - exists acc. reflexivity.
  - inversion Hall as [|? ? Hc Hall']; subst. rewrite c_fmts_cons in Hf, Hfl. rewrite c_renames_cons in Hr, Hrl.
    cbn [parse_attrs_from].
    destruct c as [x|ps|v| | | |]; cbn [d_content_ok] in Hc; try contradiction; cbn [d_parse_one c_parse_one];
      cbn [app] in Hf, Hfl, Hr, Hrl.
    + (* a format *)
      assert (Hnone : ca_fmt (da_common acc) = None).
      { destruct (ca_fmt (da_common acc)) eqn:E; [|reflexivity]. exfalso.
        assert (H0 : x :: c_fmts cs = []) by (apply Hf; discriminate). discriminate. }
      unfold d_merge. cbn [da_rename da_common c_merge ca_fmt ca_bounds]. rewrite Hnone.
      assert (Hnil : c_fmts cs = []).
      { cbn [length] in Hfl. destruct (c_fmts cs); [reflexivity|cbn in Hfl; lia]. }
      assert (Hgoal : exists r, parse_attrs_from d_parse_one d_merge
                (Some {| da_rename := da_rename acc;
                         da_common := {| ca_fmt := Some x; ca_bounds := ca_bounds (da_common acc) ++ [] |} |}) cs = ROk (Some r)).
      { apply IH.
        - exact Hall'.
        - intros _. exact Hnil.
        - rewrite Hnil. cbn. lia.
        - exact Hr.
        - exact Hrl. }
      destruct (da_rename acc); exact Hgoal.
    + (* bound(...) *)
      unfold d_merge. cbn [da_rename da_common c_merge ca_fmt ca_bounds].
      assert (Hgoal : exists r, parse_attrs_from d_parse_one d_merge
                (Some {| da_rename := da_rename acc;
                         da_common := {| ca_fmt := ca_fmt (da_common acc); ca_bounds := ca_bounds (da_common acc) ++ ps |} |}) cs = ROk (Some r)).
      { apply IH; [exact Hall'|exact Hf|exact Hfl|exact Hr|exact Hrl]. }
      destruct (da_rename acc); exact Hgoal.
    + (* rename_all *)
      destruct (parse_casing v) as [k|] eqn:Hk; [|contradiction].
      assert (Hnone : da_rename acc = None).
      { destruct (da_rename acc) eqn:E; [|reflexivity]. exfalso.
        assert (H0 : v :: c_renames cs = []) by (apply Hr; discriminate). discriminate. }
      unfold d_merge. cbn [da_rename da_common c_merge ca_fmt ca_bounds cattrs_default]. rewrite Hnone.
      assert (Hnil : c_renames cs = []).
      { cbn [length] in Hrl. destruct (c_renames cs); [reflexivity|cbn in Hrl; lia]. }
      apply IH.
      * exact Hall'.
      * exact Hf.
      * exact Hfl.
      * intros _. exact Hnil.
      * rewrite Hnil. cbn. lia.
Qed.

Theorem d_parse_attrs_complete name l :
  let cs := attrs_named name l in
  Forall d_content_ok cs -> (length (c_fmts cs) <= 1)%nat -> (length (c_renames cs) <= 1)%nat ->
  exists a, d_parse_attrs name l = ROk a.
Proof.
  intros cs Hall Hf Hr. unfold d_parse_attrs, parse_attrs. fold cs.
  destruct cs as [|c cs'] eqn:E.
  - cbn. eexists. reflexivity.
  - inversion Hall as [|? ? Hc Hall']; subst. rewrite c_fmts_cons in Hf. rewrite c_renames_cons in Hr.
    cbn [parse_attrs_from].
    destruct c as [x|ps|v| | | |]; cbn [d_content_ok] in Hc; try contradiction; cbn [d_parse_one c_parse_one];
      cbn [app length] in Hf, Hr.
    + assert (H : exists r, parse_attrs_from d_parse_one d_merge
                    (Some {| da_rename := None; da_common := {| ca_fmt := Some x; ca_bounds := [] |} |}) cs' = ROk (Some r)).
      { apply d_fold_complete; cbn [da_common da_rename ca_fmt].
        - exact Hall'.
        - intros _. destruct (c_fmts cs'); [reflexivity|cbn in Hf; lia].
        - lia.
        - intros H. contradiction.
        - exact Hr. }
      destruct H as [r H]. rewrite H. eexists. reflexivity.
    + assert (H : exists r, parse_attrs_from d_parse_one d_merge
                    (Some {| da_rename := None; da_common := {| ca_fmt := None; ca_bounds := ps |} |}) cs' = ROk (Some r)).
      { apply d_fold_complete; cbn [da_common da_rename ca_fmt].
        - exact Hall'.
        - intros H. contradiction.
        - exact Hf.
        - intros H. contradiction.
        - exact Hr. }
      destruct H as [r H]. rewrite H. eexists. reflexivity.
    + destruct (parse_casing v) as [k|] eqn:Hk; [|contradiction].
      assert (H : exists r, parse_attrs_from d_parse_one d_merge
                    (Some {| da_rename := Some k; da_common := cattrs_default |}) cs' = ROk (Some r)).
      { apply d_fold_complete; cbn [da_common da_rename ca_fmt cattrs_default].
        - exact Hall'.
        - intros H. contradiction.
        - exact Hf.
        - intros _. destruct (c_renames cs'); [reflexivity|cbn in Hr; lia].
        - lia. }
      destruct H as [r H]. rewrite H. eexists. reflexivity.
Qed.

(** the same for the common container attributes (Debug) *)
Lemma c_fold_inv : forall cs acc r,
  parse_attrs_from c_parse_one c_merge (Some acc) cs = ROk r ->
  exists a, r = Some a /\ Forall c_content_ok cs /\
    ca_bounds a = ca_bounds acc ++ c_preds cs /\
    match ca_fmt acc with
    | Some x => c_fmts cs = [] /\ ca_fmt a = Some x
    | None => (length (c_fmts cs) <= 1)%nat /\ ca_fmt a = hd_error (c_fmts cs)
    end.
Proof.
  induction cs as [|c cs IH]; intros acc r H.
  - cbn in H. inversion H; subst r. exists acc. split; [reflexivity|]. split; [constructor|].
    split; [cbn; rewrite app_nil_r; reflexivity|]. cbn. destruct (ca_fmt acc); split; auto.
  - cbn [parse_attrs_from] in H. rewrite c_fmts_cons, c_preds_cons.
    destruct c as [x|ps|v| | | |]; cbn [c_parse_one] in H; try discriminate.
    + unfold c_merge in H. cbn [ca_fmt ca_bounds] in H.
      destruct (ca_fmt acc) as [y|] eqn:Hf; [discriminate|].
      apply IH in H as (a & -> & Hall & Hb & Hfmt). cbn [ca_fmt ca_bounds] in *.
      exists a. split; [reflexivity|]. split; [constructor; [exact I|exact Hall]|].
      split; [rewrite Hb, app_nil_r; reflexivity|].
      destruct Hfmt as [Hnil Hfa]. cbn [app]. rewrite Hnil. split; [cbn; lia|exact Hfa].
    + unfold c_merge in H. cbn [ca_fmt ca_bounds] in H.
      apply IH in H as (a & -> & Hall & Hb & Hfmt). cbn [ca_fmt ca_bounds] in *.
      exists a. split; [reflexivity|]. split; [constructor; [exact I|exact Hall]|].
      split; [rewrite Hb, <- app_assoc; reflexivity|]. cbn [app]. exact Hfmt.
Qed.

Theorem c_parse_attrs_sound name l a :
  c_parse_attrs name l = ROk a ->
  let cs := attrs_named name l in
  Forall c_content_ok cs /\ (length (c_fmts cs) <= 1)%nat /\
  ca_fmt a = hd_error (c_fmts cs) /\ ca_bounds a = c_preds cs.
Proof.
  unfold c_parse_attrs, parse_attrs. intros H. set (cs := attrs_named name l) in *.
  destruct (parse_attrs_from c_parse_one c_merge None cs) as [o|e] eqn:E; [|discriminate].
  inversion H; subst a. clear H.
  destruct cs as [|c cs'].
  - cbn in E. inversion E; subst o. cbn. repeat split; auto; try constructor.
  - cbn [parse_attrs_from] in E. destruct (c_parse_one c) as [new|e] eqn:Hp; [|discriminate].
    apply c_fold_inv in E as (a & -> & Hall & Hb & Hfmt).
    destruct c as [x|ps|v| | | |]; cbn [c_parse_one] in Hp; try discriminate.
    + inversion Hp; subst new. cbn [ca_fmt ca_bounds] in *. destruct Hfmt as [Hnil Hfa].
      cbn [c_fmts c_preds flat_map app]. fold (c_fmts cs') (c_preds cs').
      rewrite Hnil. cbn. repeat split; auto. constructor; [exact I|exact Hall].
    + inversion Hp; subst new. cbn [ca_fmt ca_bounds] in *. destruct Hfmt as [Hlen Hfa].
      cbn [c_fmts c_preds flat_map app]. fold (c_fmts cs') (c_preds cs').
      repeat split; auto. constructor; [exact I|exact Hall].
Qed.

Section Items.
Variable cc : CharClass.
Variable to_case : casing -> str -> str.

(** ** attributes of other derives are never looked at *)
Definition strip_variant (name : str) (v : rvariant) : rvariant :=
  {| rv_attrs := only_named name (rv_attrs v); rv_ident := rv_ident v; rv_fields := rv_fields v |}.
Definition strip_item (name : str) (it : ritem) : ritem :=
  {| ri_attrs := only_named name (ri_attrs it); ri_ident := ri_ident it; ri_params := ri_params it;
     ri_where := ri_where it;
     ri_data := match ri_data it with
                | REnum vs => REnum (map (strip_variant name) vs)
                | x => x
                end |}.

Lemma d_parse_attrs_only name l : d_parse_attrs name (only_named name l) = d_parse_attrs name l.
Proof. unfold d_parse_attrs, parse_attrs. rewrite attrs_named_only. reflexivity. Qed.

Theorem display_ignores_foreign_attrs tr it :
  d_expand_item cc to_case tr (strip_item (attr_name_of tr) it) = d_expand_item cc to_case tr it.
Proof.
  unfold d_expand_item, strip_item. cbn [ri_attrs ri_ident ri_params ri_data].
  rewrite d_parse_attrs_only. destruct (d_parse_attrs (attr_name_of tr) (ri_attrs it)) as [a|e]; [|reflexivity].
  destruct (ri_data it) as [fs|vs|fs]; try reflexivity.
  rewrite map_map.
  assert (Hv : forall v, d_variant_result cc to_case a (ri_params it) tr (strip_variant (attr_name_of tr) v)
                         = d_variant_result cc to_case a (ri_params it) tr v).
  { intros v. unfold d_variant_result, d_variant_expansion, strip_variant. cbn [rv_attrs rv_ident rv_fields].
    rewrite d_parse_attrs_only. reflexivity. }
  rewrite (map_ext _ _ Hv). reflexivity.
Qed.

(** ** unit names *)

(** a unit struct prints its (un-raw'd) name, converted by the struct's [rename_all] when it has one *)
Theorem unit_struct_name tr it a fs :
  d_parse_attrs (attr_name_of tr) (ri_attrs it) = ROk a ->
  ri_data it = RStruct fs -> rfl fs = [] -> ca_fmt (da_common a) = None ->
  exists bs, d_expand_item cc to_case tr it =
             ROk ([(BWriteStr (unit_name to_case (da_rename a) (ri_ident it)), bs)], bs).
Proof.
  intros Ha Hd Hf Hfmt. unfold d_expand_item. rewrite Ha, Hd. unfold d_expand_struct.
  set (d := {| d_shared := None; d_fmt := _; d_user_bounds := _; d_name := _; d_fields := _; d_params := _; d_trait := _ |}).
  assert (Hb : d_generate_body cc d = ROk (BWriteStr (unit_name to_case (da_rename a) (ri_ident it)))).
  { apply body_implicit_unit; [reflexivity|exact Hfmt|]. cbn. rewrite Hf. reflexivity. }
  rewrite Hb. eexists. reflexivity.
Qed.

(** a variant's name is converted by its own [rename_all], else by the enum's, else not at all *)
Theorem variant_name container params tr v a :
  d_parse_attrs (attr_name_of tr) (rv_attrs v) = ROk a ->
  exists d, d_variant_expansion to_case container params tr v = ROk d /\
    d_name d = unit_name to_case (match da_rename a with Some k => Some k | None => da_rename container end)
                         (rv_ident v) /\
    d_shared d = ca_fmt (da_common container) /\ d_fmt d = ca_fmt (da_common a) /\
    d_user_bounds d = ca_bounds (da_common a) /\ d_fields d = plain_fields (rv_fields v) /\ d_trait d = tr.
Proof.
  intros Ha. unfold d_variant_expansion. rewrite Ha. eexists. split; [reflexivity|]. cbn. repeat split; reflexivity.
Qed.

(** ... and a unit variant of a Display enum without any format prints exactly that *)
Theorem unit_variant_prints container params v a :
  d_parse_attrs (attr_name_of TrDisplay) (rv_attrs v) = ROk a ->
  ca_fmt (da_common container) = None -> ca_fmt (da_common a) = None -> rfl (rv_fields v) = [] ->
  exists bs, d_variant_result cc to_case container params TrDisplay v =
    ROk (BWriteStr (unit_name to_case (match da_rename a with Some k => Some k | None => da_rename container end)
                              (rv_ident v)), bs).
Proof.
  intros Ha Hc Hf Hfl. unfold d_variant_result, d_variant_expansion. rewrite Ha.
  set (d := {| d_shared := _; d_fmt := _; d_user_bounds := _; d_name := _; d_fields := _; d_params := _; d_trait := _ |}).
  unfold d_expand_variant. cbn [d_shared d_fmt d_fields d_trait d].
  rewrite Hc, Hf. cbn [variant_spec_ok negb trait_eqb andb]. rewrite Bool.andb_false_r.
  assert (Hb : d_generate_body cc d = ROk (BWriteStr (d_name d))).
  { apply body_implicit_unit; [exact Hc|exact Hf|]. cbn. rewrite Hfl. reflexivity. }
  rewrite Hb. eexists. reflexivity.
Qed.

(** ** where the user's predicates end up *)

(** struct: the where-clause additions contain exactly the predicates of all its [bound(...)] attributes *)
Theorem struct_user_bounds tr it fs arms bs id :
  ri_data it = RStruct fs -> d_expand_item cc to_case tr it = ROk (arms, bs) ->
  (In (BUser id) bs <-> In id (c_preds (attrs_named (attr_name_of tr) (ri_attrs it)))).
Proof.
  intros Hd H. unfold d_expand_item in H.
  destruct (d_parse_attrs (attr_name_of tr) (ri_attrs it)) as [a|e] eqn:Ha; [|discriminate].
  rewrite Hd in H. unfold d_expand_struct in H.
  set (d := {| d_shared := None; d_fmt := _; d_user_bounds := _; d_name := _; d_fields := _; d_params := _; d_trait := _ |}) in H.
  destruct (d_generate_body cc d) as [b|e]; [|discriminate]. inversion H; subst arms bs. clear H.
  apply d_parse_attrs_sound in Ha as (_ & _ & _ & _ & Hb & _). rewrite <- Hb.
  unfold d_generate_bounds. rewrite (shared_info_plain cc d eq_refl).
  assert (Hmap : forall l, In (BUser id) (map BUser l) <-> In id l).
  { intros l. rewrite in_map_iff. split; [intros (x & Hx & Hin); inversion Hx; subst; exact Hin|].
    intros Hin. exists id. split; [reflexivity|exact Hin]. }
  assert (Hinf : forall l, ~ In (BUser id) (inferred (d_params d) l)).
  { intros l Hin. unfold inferred in Hin. apply in_flat_map in Hin as ([f t] & _ & Hin).
    destruct (contains_generics (d_params d) (fty f)); [destruct Hin as [Hin|[]]; discriminate|destruct Hin]. }
  destruct (d_fmt d) as [fmt|]; rewrite !in_app_iff, Hmap; cbn [d_user_bounds d].
  - split; [intros [[H|H]|[]]; [exfalso; eapply Hinf; exact H|exact H]|intros H; left; right; exact H].
  - split; [|intros H; left; right; exact H].
    intros [[H|H]|[]]; [|exact H]. exfalso.
    destruct (fl (d_fields d)) as [|f l]; [destruct H|].
    destruct (contains_generics (d_params d) (fty f)); [destruct H as [H|[]]; discriminate|destruct H].
Qed.

(** ** the where clause of the impl: the type's own predicates are always kept, the bounds always added, in that order *)
Theorem impl_where_keeps_own own bounds p : In p own -> In (BUser p) (impl_where own bounds).
Proof. intros H. unfold impl_where. apply in_or_app. left. apply in_map. exact H. Qed.

Theorem impl_where_adds_bounds own bounds b : In b bounds -> In b (impl_where own bounds).
Proof. intros H. unfold impl_where. apply in_or_app. right. exact H. Qed.

Theorem impl_where_order own bounds :
  firstn (length own) (impl_where own bounds) = map BUser own /\
  skipn (length own) (impl_where own bounds) = bounds.
Proof.
  unfold impl_where. assert (Hl : length own = length (map BUser own)) by (rewrite map_length; reflexivity).
  rewrite Hl. split.
  - rewrite firstn_app, PeanoNat.Nat.sub_diag, firstn_all. cbn. apply app_nil_r.
  - rewrite skipn_app, PeanoNat.Nat.sub_diag, skipn_all. reflexivity.
Qed.

Theorem display_item_where_spec tr it w :
  d_item_where cc to_case tr it = ROk w <->
  exists arms bs, d_expand_item cc to_case tr it = ROk (arms, bs) /\ w = map BUser (ri_where it) ++ bs.
Proof.
  unfold d_item_where. destruct (d_expand_item cc to_case tr it) as [[arms bs]|e]; split.
  - intros H. inversion H. exists arms, bs. split; reflexivity.
  - intros (a & b & H & ->). inversion H. reflexivity.
  - discriminate.
  - intros (a & b & H & _). discriminate.
Qed.

Theorem debug_item_where_spec it w :
  g_item_where cc it = ROk w <->
  exists arms, g_expand_item cc it = ROk arms /\ w = map BUser (ri_where it) ++ flat_map snd arms.
Proof.
  unfold g_item_where. destruct (g_expand_item cc it) as [arms|e]; split.
  - intros H. inversion H. exists arms. split; reflexivity.
  - intros (a & H & ->). inversion H. reflexivity.
  - discriminate.
  - intros (a & H & _). discriminate.
Qed.

(** whatever the derive infers - also nothing at all - every predicate the user wrote on the type is in the impl's
    where clause, and so is every bound of the expansion *)
Corollary display_item_where_complete tr it w :
  d_item_where cc to_case tr it = ROk w ->
  (forall p, In p (ri_where it) -> In (BUser p) w) /\
  (forall arms bs b, d_expand_item cc to_case tr it = ROk (arms, bs) -> In b bs -> In b w).
Proof.
  intros H. apply display_item_where_spec in H as (arms & bs & He & ->). split.
  - intros p Hp. apply in_or_app. left. apply in_map. exact Hp.
  - intros arms' bs' b He' Hb. rewrite He in He'. inversion He'; subst. apply in_or_app. right. exact Hb.
Qed.

(** ** Debug's refusals at item level *)
Theorem debug_enum_level_format_rejected it a x vs :
  c_parse_attrs Lits.n_debug (ri_attrs it) = ROk a -> ca_fmt a = Some x -> ri_data it = REnum vs ->
  g_expand_item cc it = RErr E_debug_enum_fmt.
Proof. intros Ha Hf Hd. unfold g_expand_item. rewrite Ha, Hd, Hf. reflexivity. Qed.

Theorem debug_union_rejected it a fs :
  c_parse_attrs Lits.n_debug (ri_attrs it) = ROk a -> ri_data it = RUnion fs ->
  g_expand_item cc it = RErr E_debug_union.
Proof. intros Ha Hd. unfold g_expand_item. rewrite Ha, Hd. reflexivity. Qed.

(** a field carrying both [skip] and a format, two [skip]s or two formats is refused *)
Theorem debug_field_attrs_single l fa :
  f_parse_attrs l = ROk fa ->
  (length (attrs_named Lits.n_debug l) <= 1)%nat /\
  match attrs_named Lits.n_debug l with
  | [] => fa = FNone
  | [RCSkip] => fa = FSkip
  | [RCFmt a] => fa = FFmt a
  | _ => False
  end.
Proof.
  unfold f_parse_attrs, parse_attrs. destruct (attrs_named Lits.n_debug l) as [|c [|c2 cs]].
  - cbn. intros H. inversion H. split; [lia|reflexivity].
  - cbn. destruct c; cbn; intros H; inversion H; split; try lia; reflexivity.
  - cbn. destruct c; cbn; try discriminate; destruct c2; cbn; discriminate.
Qed.

(** Debug reads a variant's attributes as formats only: [bound(...)] there is refused *)
Theorem debug_variant_attrs_format_only container params v r :
  g_variant_result cc container params v = ROk r ->
  forall c, In c (attrs_named Lits.n_debug (rv_attrs v)) -> exists a, c = RCFmt a.
Proof.
  unfold g_variant_result, parse_attrs. intros H c Hin.
  destruct (parse_attrs_from v_parse_one v_merge None (attrs_named Lits.n_debug (rv_attrs v))) as [o|e] eqn:E; [|discriminate].
  clear H. destruct (attrs_named Lits.n_debug (rv_attrs v)) as [|c1 [|c2 cs]].
  - destruct Hin.
  - destruct Hin as [<-|[]]. cbn in E. destruct c1; try discriminate. eexists. reflexivity.
  - exfalso. cbn in E. destruct c1; try discriminate. destruct c2; discriminate.
Qed.

End Items.

(** non-vacuity: #[display("x")] #[debug(skip)] #[display(bound(P1, P2))] #[display(rename_all = "snake_case")]
    #[display(bounds(P3))] is accepted by Display: format "x", casing snake, predicates P1 P2 P3 in order *)
Example ex_merge :
  exists a,
    d_parse_attrs Lits.n_display
      [ {| ra_name := Lits.n_display; ra_content := RCFmt {| lit := [120]; args := [] |} |};
        {| ra_name := Lits.n_debug; ra_content := RCSkip |};
        {| ra_name := Lits.n_display; ra_content := RCBound [1; 2] |};
        {| ra_name := Lits.n_display; ra_content := RCRenameAll [115; 110; 97; 107; 101; 95; 99; 97; 115; 101] |};
        {| ra_name := Lits.n_display; ra_content := RCBound [3] |} ] = ROk a /\
    ca_fmt (da_common a) = Some {| lit := [120]; args := [] |} /\ ca_bounds (da_common a) = [1; 2; 3] /\
    da_rename a = Some CSnake.
Proof. eexists. split; [vm_compute; reflexivity|]. repeat split; reflexivity. Qed.

Example ex_two_formats_rejected :
  d_parse_attrs Lits.n_display
    [ {| ra_name := Lits.n_display; ra_content := RCFmt {| lit := [120]; args := [] |} |};
      {| ra_name := Lits.n_display; ra_content := RCFmt {| lit := [121]; args := [] |} |} ] = RErr E_multi_fmt.
Proof. reflexivity. Qed.

Example ex_legacy_rejected :
  d_parse_attrs Lits.n_display [ {| ra_name := Lits.n_display; ra_content := RCLegacyFmt |} ] = RErr E_legacy_fmt.
Proof. reflexivity. Qed.
