(** C02 - derived formatting prints exactly what [format!] prints for the same literal. *)
From Verif Require Import Fmt.Model C05.Proofs.
From Verif Require C03.StdParse C03.Props.

Section C02.
Variable cc : CharClass.

Lemma ident_eqb_eq a b : ident_eqb a b = true <-> a = b.
Proof. apply str_eqb_eq. Qed.

Lemma trait_eqb_eq a b : trait_eqb a b = true <-> a = b.
Proof. destruct a, b; cbn; split; intros H; try reflexivity; try discriminate. Qed.

(** a field binding is re-bound to the field itself ([x = *x]) exactly when the literal names it in a
    [Pointer] placeholder and no explicit argument is aliased to it *)
Definition named_pointer_use (a : fmt_attr) (f : ident) : Prop :=
  exists p, In p (placeholders cc (lit a)) /\ ph_arg p = Syntax.Named (unraw f) /\ ph_trait p = TrPointer.

Definition aliased (a : fmt_attr) (f : ident) : Prop :=
  exists x, In x (args a) /\ alias x = Some f.

Theorem deref_args_spec a fs f :
  In f (additional_deref_args cc a fs) <->
  In f (fmt_args_idents fs) /\ named_pointer_use a f /\ ~ aliased a f.
Proof.
  unfold additional_deref_args. rewrite filter_In. rewrite Bool.andb_true_iff.
  rewrite Bool.negb_true_iff.
  split.
  - intros (Hin & Hused & Hal). split; [exact Hin|]. split.
    + apply existsb_exists in Hused as (u & Hu & He). apply ident_eqb_eq in He. subst u.
      apply in_flat_map in Hu as (p & Hp & Hu).
      destruct (ph_arg p) as [n|n] eqn:Harg; [destruct Hu|].
      destruct (trait_eqb (ph_trait p) TrPointer) eqn:Ht; [|destruct Hu].
      destruct Hu as [Hu|[]]. subst n. apply trait_eqb_eq in Ht.
      exists p. repeat split; assumption.
    + intros (x & Hx & Hax).
      assert (existsb (fun x => match alias x with Some n => ident_eqb n f | None => false end) (args a) = true).
      { apply existsb_exists. exists x. split; [exact Hx|]. rewrite Hax. apply ident_eqb_eq. reflexivity. }
      congruence.
  - intros (Hin & (p & Hp & Harg & Ht) & Hnal). split; [exact Hin|]. split.
    + apply existsb_exists. exists (unraw f). split; [|apply ident_eqb_eq; reflexivity].
      apply in_flat_map. exists p. split; [exact Hp|]. rewrite Harg, Ht. cbn. left. reflexivity.
    + destruct (existsb _ (args a)) eqn:E; [|reflexivity].
      exfalso. apply Hnal. apply existsb_exists in E as (x & Hx & E).
      destruct (alias x) as [n|] eqn:Hax; [|discriminate]. apply ident_eqb_eq in E. subst n.
      exists x. split; assumption.
Qed.

(** ** Layer-2: what a placeholder sees.  Field bindings are references ([let x = &self.x]);
    [&T] formats like [T] under every trait except [Pointer] (a fact of [core]). *)
Section Sem.
Variables (value out fspec : Type).
Variable render : trait -> value -> fspec -> out.
Variables (ref deref : value -> value).
Hypothesis deref_ref : forall v, deref (ref v) = v.
Hypothesis H_ref : forall tr v sp, tr <> TrPointer -> render tr (ref v) sp = render tr v sp.

(** the value the binding [f] denotes inside [write!(f, lit, args.., deref..)] *)
Definition derive_binding (a : fmt_attr) (fs : fields) (f : ident) (fieldval : value) : value :=
  if existsb (ident_eqb f) (additional_deref_args cc a fs) then deref (ref fieldval) else ref fieldval.

(** a field named inside the literal prints as the field itself, under every trait *)
Theorem named_placeholder_sees_field a fs f p v sp :
  In f (fmt_args_idents fs) ->
  In p (placeholders cc (lit a)) -> ph_arg p = Syntax.Named (unraw f) ->
  ~ aliased a f ->
  render (ph_trait p) (derive_binding a fs f v) sp = render (ph_trait p) v sp.
Proof.
  intros Hf Hp Harg Hnal. unfold derive_binding.
  destruct (existsb (ident_eqb f) (additional_deref_args cc a fs)) eqn:E.
  - rewrite deref_ref. reflexivity.
  - destruct (trait_eqb (ph_trait p) TrPointer) eqn:Ht.
    + exfalso. apply trait_eqb_eq in Ht.
      assert (Hin : In f (additional_deref_args cc a fs)).
      { apply deref_args_spec. split; [exact Hf|]. split; [|exact Hnal]. exists p. repeat split; assumption. }
      assert (existsb (ident_eqb f) (additional_deref_args cc a fs) = true).
      { apply existsb_exists. exists f. split; [exact Hin|]. apply ident_eqb_eq. reflexivity. }
      congruence.
    + apply H_ref. intros Hc. apply trait_eqb_eq in Hc. congruence.
Qed.

(** inside argument expressions the binding is (and stays) a reference to the field, unless the
    literal also names the field under [Pointer] *)
Theorem argument_binding_is_reference a fs f v :
  ~ named_pointer_use a f -> derive_binding a fs f v = ref v.
Proof.
  intros Hn. unfold derive_binding.
  destruct (existsb (ident_eqb f) (additional_deref_args cc a fs)) eqn:E; [|reflexivity].
  exfalso. apply existsb_exists in E as (g & Hg & E). apply ident_eqb_eq in E. subst g.
  apply deref_args_spec in Hg as (_ & Hu & _). exact (Hn Hu).
Qed.
End Sem.

(** ** The body: the attribute is handed to [write!] verbatim (literal and arguments unchanged, in order) *)
Theorem attr_body_verbatim d a :
  plain d -> d_fmt d = Some a -> transparent_call_on_fields cc a (d_fields d) = None ->
  d_generate_body cc d = ROk (BWrite a (additional_deref_args cc a (d_fields d))).
Proof. intros Hp Ha Ht. rewrite (body_with_attr cc d a Hp Ha), Ht. reflexivity. Qed.

(** std's and derive_more's readings of which fields the literal names under [Pointer] coincide *)
Theorem named_pointer_use_std (Hcc : CC_ok cc) a f l :
  StdParse.std_parse cc (lit a) = Some l -> Props.no_empty_dot l ->
  (named_pointer_use a f <->
   exists sa, In sa l /\ StdParse.sa_pos sa = Syntax.Named (unraw f) /\
              trait_name (sp_ty (StdParse.sa_spec sa)) = TrPointer).
Proof.
  intros Hs Hd. unfold named_pointer_use.
  rewrite (Props.C03_placeholders cc Hcc (lit a) l Hs Hd).
  split.
  - intros (p & Hp & Harg & Ht). apply in_map_iff in Hp as (sa & Hsa & Hin). subst p.
    exists sa. cbn in Harg, Ht. repeat split; assumption.
  - intros (sa & Hin & Hpos & Ht). exists (StdParse.std_placeholder sa).
    split; [apply in_map; exact Hin|]. cbn. split; assumption.
Qed.

End C02.

(** non-vacuity: "{a:p} {b}" over fields a, b re-binds exactly [a] *)
Example ex_deref :
  additional_deref_args ascii_cc
    {| lit := [123; 97; 58; 112; 125; 32; 123; 98; 125]; args := [] |}
    {| fk := Named; fl := [ {| fname := Some [97]; fty := TyOpaque; ftid := 1; fattr := FNone |};
                            {| fname := Some [98]; fty := TyOpaque; ftid := 2; fattr := FNone |} ] |}
  = [[97]].
Proof. vm_compute. reflexivity. Qed.
