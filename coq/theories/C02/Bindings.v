(** C02 - every field is bound under its name ([x], [_0], [_1], ...), as a reference, in field order: the [let]s of a
    struct and the patterns of the match arms of an enum ([Fmt/Front.v]: [struct_lets], [variant_matcher]). *)
From Verif Require Import Fmt.Model Fmt.Front.
From Coq Require Import Lia.

(** the names bound are exactly [fmt_args_idents], in order *)
Lemma struct_lets_from_binders : forall l i, map fst (struct_lets_from i l) = fmt_args_idents_from i l.
Proof.
  induction l as [|f l IH]; intros i; [reflexivity|].
  cbn [struct_lets_from fmt_args_idents_from map]. rewrite IH. destruct (fname f); reflexivity.
Qed.

Theorem struct_lets_binders fs : map fst (struct_lets fs) = fmt_args_idents fs.
Proof. apply struct_lets_from_binders. Qed.

(** the k-th [let] binds the k-th field's own name to [&self.<name>], or [_k] to [&self.<k>] *)
Lemma struct_lets_from_nth : forall l i k f,
  nth_error l k = Some f ->
  nth_error (struct_lets_from i l) k =
    Some (match fname f with
          | Some n => (n, MNamed n)
          | None => (positional_ident (i + N.of_nat k), MUnnamed (i + N.of_nat k))
          end).
Proof.
  induction l as [|x l IH]; intros i k f H; [destruct k; discriminate|].
  destruct k as [|k]; cbn [nth_error struct_lets_from] in *.
  - inversion H; subst. rewrite N.add_0_r. reflexivity.
  - rewrite (IH (i + 1) k f H). replace (i + 1 + N.of_nat k) with (i + N.of_nat (S k)) by lia. reflexivity.
Qed.

Theorem struct_lets_nth fs k f :
  nth_error (fl fs) k = Some f ->
  nth_error (struct_lets fs) k =
    Some (match fname f with
          | Some n => (n, MNamed n)
          | None => (positional_ident (N.of_nat k), MUnnamed (N.of_nat k))
          end).
Proof. intros H. unfold struct_lets. rewrite (struct_lets_from_nth _ 0 k f H). reflexivity. Qed.

Theorem struct_lets_length fs : length (struct_lets fs) = length (fl fs).
Proof.
  unfold struct_lets. generalize 0. induction (fl fs) as [|f l IH]; intros i; [reflexivity|].
  cbn. rewrite IH. reflexivity.
Qed.

(** a match arm binds the same names, positionally for a tuple variant and by (shorthand) field name for a named one *)
Definition matcher_binders (m : matcher) : list ident :=
  match m with PNamed _ b | PUnnamed _ b => b | PUnit _ => [] end.

Theorem variant_matcher_binders v fs :
  (fk fs = Unit -> fl fs = []) ->
  matcher_binders (variant_matcher v fs) = fmt_args_idents fs.
Proof.
  intros Hu. unfold variant_matcher. destruct (fk fs); try reflexivity.
  unfold fmt_args_idents. rewrite (Hu eq_refl). reflexivity.
Qed.

(** in a named variant every binder is the field's own identifier, so the shorthand pattern [{ a, b }] binds each to
    its own field *)
Theorem named_binders_are_field_names fs :
  (forall f, In f (fl fs) -> fname f <> None) ->
  map Some (fmt_args_idents fs) = map fname (fl fs).
Proof.
  unfold fmt_args_idents. generalize 0. induction (fl fs) as [|f l IH]; intros i H; [reflexivity|].
  cbn [fmt_args_idents_from map]. rewrite IH by (intros g Hg; apply H; right; exact Hg).
  destruct (fname f) eqn:E; [reflexivity|]. exfalso. apply (H f); [left; reflexivity|exact E].
Qed.

(** non-vacuity *)
Example ex_lets :
  struct_lets {| fk := Unnamed; fl := [ {| fname := None; fty := TyOpaque; ftid := 1; fattr := FNone |};
                                        {| fname := None; fty := TyOpaque; ftid := 2; fattr := FNone |} ] |}
  = [([95; 48], MUnnamed 0); ([95; 49], MUnnamed 1)].
Proof. reflexivity. Qed.
