(** C02 - derived formatting prints exactly what [format!] prints for the same literal.
    Property theorems only (statements pinned here; proofs in Proofs.v / C05.Proofs). *)
From Verif Require Import Fmt.Model C05.Proofs C02.Proofs.
From Verif Require C03.StdParse C03.Props.

(** an attribute that does not delegate is handed to write! verbatim: same literal, same arguments, in order,
    plus the re-bindings of [C02_deref_args_spec] *)
Theorem C02_attr_body_verbatim : forall cc d a,
  plain d -> d_fmt d = Some a -> transparent_call_on_fields cc a (d_fields d) = None ->
  d_generate_body cc d = ROk (BWrite a (additional_deref_args cc a (d_fields d))).
Proof. exact attr_body_verbatim. Qed.
Print Assumptions C02_attr_body_verbatim.

(** exactly the fields the literal names in a Pointer placeholder (and no argument aliases) are re-bound to
    the field itself *)
Theorem C02_deref_args_spec : forall cc a fs f,
  In f (additional_deref_args cc a fs) <->
  In f (fmt_args_idents fs) /\ named_pointer_use cc a f /\ ~ aliased a f.
Proof. exact deref_args_spec. Qed.
Print Assumptions C02_deref_args_spec.

(** a field named inside the literal prints as the field itself under every trait
    (bindings are references; &T prints like T except under Pointer, where the re-binding applies) *)
Theorem C02_named_placeholder_sees_field : forall cc (value out fspec : Type)
    (render : trait -> value -> fspec -> out) (ref deref : value -> value),
  (forall v, deref (ref v) = v) ->
  (forall tr v sp, tr <> TrPointer -> render tr (ref v) sp = render tr v sp) ->
  forall a fs f p v sp,
  In f (fmt_args_idents fs) ->
  In p (placeholders cc (lit a)) -> ph_arg p = Syntax.Named (unraw f) -> ~ aliased a f ->
  render (ph_trait p) (derive_binding cc value ref deref a fs f v) sp = render (ph_trait p) v sp.
Proof. exact named_placeholder_sees_field. Qed.
Print Assumptions C02_named_placeholder_sees_field.

(** inside argument expressions a field name denotes a reference to the field *)
Theorem C02_argument_binding_is_reference : forall cc (value : Type) (ref deref : value -> value) a fs f v,
  ~ named_pointer_use cc a f -> derive_binding cc value ref deref a fs f v = ref v.
Proof. exact argument_binding_is_reference. Qed.
Print Assumptions C02_argument_binding_is_reference.

(** which fields the literal names under Pointer is the same for std and for derive_more *)
Theorem C02_named_pointer_use_std : forall cc, CC_ok cc -> forall a f l,
  StdParse.std_parse cc (lit a) = Some l -> Props.no_empty_dot l ->
  (named_pointer_use cc a f <->
   exists sa, In sa l /\ StdParse.sa_pos sa = Syntax.Named (unraw f) /\
              trait_name (sp_ty (StdParse.sa_spec sa)) = TrPointer).
Proof. exact named_pointer_use_std. Qed.
Print Assumptions C02_named_pointer_use_std.

(** without an attribute: a single field prints as the field under the derived trait, a unit prints its
    (rename_all-converted) name *)
Theorem C02_implicit_single : forall cc d f,
  plain d -> d_fmt d = None -> fl (d_fields d) = [f] ->
  d_generate_body cc d =
    ROk (BDelegate (d_trait d) (TField (match fname f with Some n => n | None => positional_ident 0 end))).
Proof. exact body_implicit_single. Qed.
Print Assumptions C02_implicit_single.

Theorem C02_implicit_unit : forall cc d,
  plain d -> d_fmt d = None -> fl (d_fields d) = [] -> d_generate_body cc d = ROk (BWriteStr (d_name d)).
Proof. exact body_implicit_unit. Qed.
Print Assumptions C02_implicit_unit.
