(** C02 - derived formatting prints exactly what [format!] prints for the same literal.
    Property theorems only (statements pinned here; proofs in Proofs.v / C05.Proofs). *)
From Verif Require Import Fmt.Model C05.Proofs C02.Proofs.
From Verif Require C03.StdParse C03.Props.

(** an attribute that does not delegate is handed to write! verbatim: same literal, same arguments, in order,
    plus the re-bindings of [C02_deref_args_spec] *)
Theorem C02_attr_body_verbatim : forall cc d a,
  plain d -> d_fmt d = Some a -> transparent_call_on_fields cc a (d_fields d) = None ->
  d_generate_body cc d = ROk (BWrite a (additional_deref_args cc a (d_fields d))).
Proof. exact attr_body_verbatim. Qed.
Print Assumptions C02_attr_body_verbatim.

(** exactly the fields the literal names in a Pointer placeholder (and no argument aliases) are re-bound to
    the field itself *)
Theorem C02_deref_args_spec : forall cc a fs f,
  In f (additional_deref_args cc a fs) <->
  In f (fmt_args_idents fs) /\ named_pointer_use cc a f /\ ~ aliased a f.
Proof. exact deref_args_spec. Qed.
Print Assumptions C02_deref_args_spec.

(** a field named inside the literal prints as the field itself under every trait
    (bindings are references; &T prints like T except under Pointer, where the re-binding applies) *)
Theorem C02_named_placeholder_sees_field : forall cc (value out fspec : Type)
    (render : trait -> value -> fspec -> out) (ref deref : value -> value),
  (forall v, deref (ref v) = v) ->
  (forall tr v sp, tr <> TrPointer -> render tr (ref v) sp = render tr v sp) ->
  forall a fs f p v sp,
  In f (fmt_args_idents fs) ->
  In p (placeholders cc (lit a)) -> ph_arg p = Syntax.Named (unraw f) -> ~ aliased a f ->
  render (ph_trait p) (derive_binding cc value ref deref a fs f v) sp = render (ph_trait p) v sp.
Proof. exact named_placeholder_sees_field. Qed.
Print Assumptions C02_named_placeholder_sees_field.

(** inside argument expressions a field name denotes a reference to the field *)
Theorem C02_argument_binding_is_reference : forall cc (value : Type) (ref deref : value -> value) a fs f v,
  ~ named_pointer_use cc a f -> derive_binding cc value ref deref a fs f v = ref v.
Proof. exact argument_binding_is_reference. Qed.
Print Assumptions C02_argument_binding_is_reference.

(** which fields the literal names under Pointer is the same for std and for derive_more *)
Theorem C02_named_pointer_use_std : forall cc, CC_ok cc -> forall a f l,
  StdParse.std_parse cc (lit a) = Some l -> Props.no_empty_dot l ->
  (named_pointer_use cc a f <->
   exists sa, In sa l /\ StdParse.sa_pos sa = Syntax.Named (unraw f) /\
              trait_name (sp_ty (StdParse.sa_spec sa)) = TrPointer).
Proof. exact named_pointer_use_std. Qed.
Print Assumptions C02_named_pointer_use_std.

(** without an attribute: a single field prints as the field under the derived trait, a unit prints its
    (rename_all-converted) name *)
Theorem C02_implicit_single : forall cc d f,
  plain d -> d_fmt d = None -> fl (d_fields d) = [f] ->
  d_generate_body cc d =
    ROk (BDelegate (d_trait d) (TField (match fname f with Some n => n | None => positional_ident 0 end))).
Proof. exact body_implicit_single. Qed.
Print Assumptions C02_implicit_single.

Theorem C02_implicit_unit : forall cc d,
  plain d -> d_fmt d = None -> fl (d_fields d) = [] -> d_generate_body cc d = ROk (BWriteStr (d_name d)).
Proof. exact body_implicit_unit. Qed.
Print Assumptions C02_implicit_unit.

(** ---- coverage-growth round: pinned below ---- *)
From Verif Require Import Fmt.Front C02.Handover C02.FrontProofs C02.Bindings.

(** under EVERY combination of attributes a struct's / variant's own attribute reaches the expansion unchanged: handed to write! verbatim with the re-bindings, or turned into the delegation, or handed to format_args! verbatim as the text bound to [_variant] *)
Theorem C02_own_attr_carried :
  forall (cc : CharClass) (d : dexpansion) (a : fmt_attr) (b : body),
  d_fmt d = Some a -> d_generate_body cc d = ROk b -> carries cc (d_fields d) b a.
Proof. exact Handover.own_attr_carried. Qed.
Print Assumptions C02_own_attr_carried.

(** the enum-level attribute, when it governs a variant, is carried the same way (as the body, or as the body of the [_variant] match) *)
Theorem C02_shared_attr_carried :
  forall (cc : CharClass) (d : dexpansion) (sa : fmt_attr) (b : body),
  d_shared d = Some sa ->
  d_generate_body cc d = ROk b ->
  Proofs.bare_same_trait cc sa (d_trait d) = false ->
  Proofs.mentions_variant cc sa = true \/ d_fmt d = None -> carries_outer cc (d_fields d) b sa.
Proof. exact Handover.shared_attr_carried. Qed.
Print Assumptions C02_shared_attr_carried.

(** a delegation passes the field binding itself only for a field named in the literal, or under a trait for which &T prints like T *)
Theorem C02_delegate_field_indistinguishable :
  forall (cc : CharClass) (a : fmt_attr) (fs : fields) (f : ident) (tr : trait),
  transparent_call_on_fields cc a fs = Some (TField f, tr) -> args a = [] \/ tr <> TrPointer.
Proof. exact Handover.delegate_field_indistinguishable. Qed.
Print Assumptions C02_delegate_field_indistinguishable.

(** ... so Trait::fmt(field, f) prints what format! prints for the documented binding (field itself in the literal, reference in an argument) *)
Theorem C02_delegation_prints_documented :
  forall (cc : CharClass) (value out fspec : Type) (render : trait -> value -> fspec -> out)
  (ref : value -> value),
  (forall (tr : trait) (v : value) (sp : fspec), tr <> TrPointer -> render tr (ref v) sp = render tr v sp) ->
  forall (a : fmt_attr) (fs : fields) (f : ident) (tr : trait) (v : value) (sp : fspec),
  transparent_call_on_fields cc a fs = Some (TField f, tr) ->
  render tr v sp = render tr (documented_binding value ref a v) sp.
Proof. exact Handover.delegation_prints_documented. Qed.
Print Assumptions C02_delegation_prints_documented.

(** Debug without struct-/variant-level format: one builder entry per non-skipped field in order, field-level formats handed to format_args! verbatim with re-bindings computed over ALL fields, finish_non_exhaustive iff a field is skipped *)
Theorem C02_debug_body_default :
  forall (cc : CharClass) (g : gexpansion),
  g_fmt g = None ->
  g_generate_body cc g =
  ROk
  match fk (g_fields g) with
  | Named =>
  GStruct (g_name g) (debug_chain cc (g_fields g) 0 (fl (g_fields g)))
  (forallb (fun f : field => match fattr f with
  | FSkip => false
  | _ => true
  end) (fl (g_fields g)))
  | Unnamed =>
  GTuple (g_name g) (debug_chain cc (g_fields g) 0 (fl (g_fields g)))
  (forallb (fun f : field => match fattr f with
  | FSkip => false
  | _ => true
  end) (fl (g_fields g)))
  | Unit => GUnit (g_name g)
  end.
Proof. exact Handover.debug_body_default. Qed.
Print Assumptions C02_debug_body_default.

(** whole-item statement: a unit struct prints its un-raw'd name converted by its rename_all (casing is an uninterpreted function) *)
Theorem C02_unit_struct_name :
  forall (cc : CharClass) (to_case : casing -> str -> str) (tr : trait) (it : ritem)
  (a : dattrs) (fs : rfields),
  d_parse_attrs (attr_name_of tr) (ri_attrs it) = ROk a ->
  ri_data it = RStruct fs ->
  rfl fs = [] ->
  ca_fmt (da_common a) = None ->
  exists bs : list bound,
  d_expand_item cc to_case tr it =
  ROk ([(BWriteStr (unit_name to_case (da_rename a) (ri_ident it)), bs)], bs).
Proof. exact FrontProofs.unit_struct_name. Qed.
Print Assumptions C02_unit_struct_name.

(** a variant's name is converted by its own rename_all, else by the enum's *)
Theorem C02_variant_name :
  forall (to_case : casing -> str -> str) (container : dattrs) (params : list ident)
  (tr : trait) (v : rvariant) (a : dattrs),
  d_parse_attrs (attr_name_of tr) (rv_attrs v) = ROk a ->
  exists d : dexpansion,
  d_variant_expansion to_case container params tr v = ROk d /\
  d_name d =
  unit_name to_case match da_rename a with
  | Some k => Some k
  | None => da_rename container
  end (rv_ident v) /\
  d_shared d = ca_fmt (da_common container) /\
  d_fmt d = ca_fmt (da_common a) /\
  d_user_bounds d = ca_bounds (da_common a) /\ d_fields d = plain_fields (rv_fields v) /\ d_trait d = tr.
Proof. exact FrontProofs.variant_name. Qed.
Print Assumptions C02_variant_name.

(** a unit variant of a Display enum without any format prints that name *)
Theorem C02_unit_variant_prints :
  forall (cc : CharClass) (to_case : casing -> str -> str) (container : dattrs) (params : list ident)
  (v : rvariant) (a : dattrs),
  d_parse_attrs (attr_name_of TrDisplay) (rv_attrs v) = ROk a ->
  ca_fmt (da_common container) = None ->
  ca_fmt (da_common a) = None ->
  rfl (rv_fields v) = [] ->
  exists bs : list bound,
  d_variant_result cc to_case container params TrDisplay v =
  ROk
  (BWriteStr
  (unit_name to_case match da_rename a with
  | Some k => Some k
  | None => da_rename container
  end (rv_ident v)), bs).
Proof. exact FrontProofs.unit_variant_prints. Qed.
Print Assumptions C02_unit_variant_prints.

(** the attribute-name table is injective *)
Theorem C02_attr_name_of_inj :
  forall t1 t2 : trait, attr_name_of t1 = attr_name_of t2 -> t1 = t2.
Proof. exact FrontProofs.attr_name_of_inj. Qed.
Print Assumptions C02_attr_name_of_inj.

(** ... so attributes written for other derives never change an expansion *)
Theorem C02_display_ignores_foreign_attrs :
  forall (cc : CharClass) (to_case : casing -> str -> str) (tr : trait) (it : ritem),
  d_expand_item cc to_case tr (strip_item (attr_name_of tr) it) = d_expand_item cc to_case tr it.
Proof. exact FrontProofs.display_ignores_foreign_attrs. Qed.
Print Assumptions C02_display_ignores_foreign_attrs.

(** several attributes on one item: at most one format, one rename_all; all bound(...) predicates kept in order; rename_all survives bound(...) and format attributes written after it *)
Theorem C02_parse_attrs_sound :
  forall (name : str) (l : list raw_attr) (a : dattrs),
  d_parse_attrs name l = ROk a ->
  let cs := attrs_named name l in
  Forall d_content_ok cs /\
  (length (c_fmts cs) <= 1)%nat /\
  (length (c_renames cs) <= 1)%nat /\
  ca_fmt (da_common a) = hd_error (c_fmts cs) /\
  ca_bounds (da_common a) = c_preds cs /\ da_rename a = the_rename cs.
Proof. exact FrontProofs.d_parse_attrs_sound. Qed.
Print Assumptions C02_parse_attrs_sound.

(** a second format / rename_all, a legacy spelling (fmt = .., bound = ".."), an unknown casing or any other content is a diagnostic *)
Theorem C02_parse_attrs_rejects :
  forall (name : str) (l : list raw_attr),
  (exists c : raw_content, In c (attrs_named name l) /\ ~ d_content_ok c) \/
  (length (c_fmts (attrs_named name l)) >= 2)%nat \/ (length (c_renames (attrs_named name l)) >= 2)%nat ->
  exists e : N, d_parse_attrs name l = RErr e.
Proof. exact FrontProofs.d_parse_attrs_rejects. Qed.
Print Assumptions C02_parse_attrs_rejects.

(** Debug field attributes: at most one of skip / format *)
Theorem C02_debug_field_attrs_single :
  forall (l : list raw_attr) (fa : field_attr),
  f_parse_attrs l = ROk fa ->
  (length (attrs_named Lits.n_debug l) <= 1)%nat /\
  match attrs_named Lits.n_debug l with
  | [] => fa = FNone
  | [RCFmt a] => fa = FFmt a
  | RCFmt a :: _ :: _ => False
  | [RCSkip] => fa = FSkip
  | _ => False
  end.
Proof. exact FrontProofs.debug_field_attrs_single. Qed.
Print Assumptions C02_debug_field_attrs_single.

(** every field of a struct is bound, in order, under the names [fmt_args_idents] gives (the field's identifier, or [_k]) *)
Theorem C02_struct_lets_binders :
  forall fs : fields, map fst (struct_lets fs) = fmt_args_idents fs.
Proof. exact Bindings.struct_lets_binders. Qed.
Print Assumptions C02_struct_lets_binders.

(** ... the k-th binding being a reference to the k-th field: [let x = &self.x] / [let _k = &self.k] *)
Theorem C02_struct_lets_nth :
  forall (fs : fields) (k : nat) (f : field),
  nth_error (fl fs) k = Some f ->
  nth_error (struct_lets fs) k =
  Some
  match fname f with
  | Some n => (n, MNamed n)
  | None => (positional_ident (N.of_nat k), MUnnamed (N.of_nat k))
  end.
Proof. exact Bindings.struct_lets_nth. Qed.
Print Assumptions C02_struct_lets_nth.

(** the pattern of a match arm binds the same names (by reference, the scrutinee being [self]) *)
Theorem C02_variant_matcher_binders :
  forall (v : ident) (fs : fields),
  (fk fs = Unit -> fl fs = []) -> matcher_binders (variant_matcher v fs) = fmt_args_idents fs.
Proof. exact Bindings.variant_matcher_binders. Qed.
Print Assumptions C02_variant_matcher_binders.

(** in a named struct / variant the binders are the fields' own identifiers, so the shorthand pattern binds each to its field *)
Theorem C02_named_binders_are_field_names :
  forall fs : fields,
  (forall f : field, In f (fl fs) -> fname f <> None) -> map Some (fmt_args_idents fs) = map fname (fl fs).
Proof. exact Bindings.named_binders_are_field_names. Qed.
Print Assumptions C02_named_binders_are_field_names.

(** conversely nothing else is refused: formats, bound(...) and valid rename_all attributes with at most one format and one rename_all are always accepted (so the acceptance condition is an iff) *)
Theorem C02_parse_attrs_complete :
  forall (name : str) (l : list raw_attr),
  let cs := attrs_named name l in
  Forall d_content_ok cs ->
  (length (c_fmts cs) <= 1)%nat ->
  (length (c_renames cs) <= 1)%nat -> exists a : dattrs, d_parse_attrs name l = ROk a.
Proof. exact FrontProofs.d_parse_attrs_complete. Qed.
Print Assumptions C02_parse_attrs_complete.
