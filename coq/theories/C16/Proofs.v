(** C16 — lemmas and proofs about the model in Model.v *)
From Verif.Base Require Import Chars.
From Verif.C16 Require Import Model.
From Coq Require Import Arith Compare_dec.
Open Scope N_scope.

(* ================================================================== 1. reference (fuel-free) scanner *)

Definition of_opt {A} (o : option A) : outcome A :=
  match o with Some x => Ok x | None => Fail end.

Definition punct_ref (p : N) (c : cursor) : option (stream * cursor) :=
  match c with t :: r => if is_p p t then Some ([t], r) else None | [] => None end.

Lemma punct_eq p c : p <> c_apos -> punct p c = of_opt (punct_ref p c).
Proof.
  intros Hp. unfold punct, cursor_punct, punct_ref, is_p.
  destruct c as [|[s|ch j|s|d g] r]; try reflexivity.
  destruct (N.eqb_spec ch c_apos) as [->|Hne].
  - destruct (N.eqb_spec c_apos p) as [E|_]; [congruence|reflexivity].
  - destruct (ch =? p); reflexivity.
Qed.

Lemma punct_ok_inv p c s r : punct p c = Ok (s, r) ->
  exists j, c = TPunct p j :: r /\ s = [TPunct p j] /\ p <> c_apos.
Proof.
  unfold punct, cursor_punct.
  destruct c as [|[x|ch j|x|d g] c']; try discriminate.
  destruct (N.eqb_spec ch c_apos); try discriminate.
  destruct (N.eqb_spec ch p); try discriminate.
  intros H; inversion H; subst. eexists; repeat split; congruence.
Qed.

Lemma punct_ws_ok_inv p b c s r : punct_with_spacing p b c = Ok (s, r) ->
  c = TPunct p b :: r /\ s = [TPunct p b].
Proof.
  unfold punct_with_spacing, cursor_punct.
  destruct c as [|[x|ch j|x|d g] c']; try discriminate.
  destruct (N.eqb_spec ch c_apos); try discriminate.
  destruct (N.eqb_spec ch p); try discriminate.
  destruct (Bool.eqb j b) eqn:E; try discriminate.
  apply Bool.eqb_prop in E. cbn [andb]. intros H; inversion H; subst. split; reflexivity.
Qed.

Lemma punct_nofuel p c : punct p c <> Fuel.
Proof.
  unfold punct, cursor_punct.
  destruct c as [|[x|ch j|x|d g] c']; try discriminate.
  destruct (ch =? c_apos); try discriminate. destruct (ch =? p); discriminate.
Qed.

Lemma punct_ws_nofuel p b c : punct_with_spacing p b c <> Fuel.
Proof.
  unfold punct_with_spacing, cursor_punct.
  destruct c as [|[x|ch j|x|d g] c']; try discriminate.
  destruct (ch =? c_apos); try discriminate. destruct ((ch =? p) && Bool.eqb j b); discriminate.
Qed.

Lemma seq2 p q c : seq [p; q] c =
  match p c with
  | Ok (s, c1) => match q c1 with Ok (s2, c2) => Ok (s ++ s2, c2) | Fail => Fail | Fuel => Fuel end
  | Fail => Fail | Fuel => Fuel end.
Proof.
  cbn. destruct (p c) as [[s c1]| |]; try reflexivity.
  destruct (q c1) as [[s2 c2]| |]; try reflexivity. now rewrite app_nil_r.
Qed.

Definition punct_ws_ref (p : N) (b : bool) (c : cursor) : option (stream * cursor) :=
  match c with
  | TPunct ch j :: r => if (ch =? p) && Bool.eqb j b then Some ([TPunct ch j], r) else None
  | _ => None
  end.

Lemma punct_ws_eq p b c : p <> c_apos -> punct_with_spacing p b c = of_opt (punct_ws_ref p b c).
Proof.
  intros Hp. unfold punct_with_spacing, cursor_punct, punct_ws_ref.
  destruct c as [|[s|ch j|s|d g] r]; try reflexivity.
  destruct (N.eqb_spec ch c_apos) as [->|Hne].
  - destruct (N.eqb_spec c_apos p) as [E|_]; [congruence|reflexivity].
  - destruct ((ch =? p) && Bool.eqb j b); reflexivity.
Qed.

Lemma ne_colon : c_colon <> c_apos. Proof. discriminate. Qed.

Lemma path_sep_eq c : path_sep c = of_opt (path_sep_ref c).
Proof.
  unfold path_sep. rewrite seq2, (punct_ws_eq _ _ _ ne_colon).
  destruct c as [|[x|c1 j1|x|d g] c']; try reflexivity.
  unfold punct_ws_ref, path_sep_ref.
  destruct (c1 =? c_colon); destruct j1; cbn [andb Bool.eqb of_opt]; try reflexivity.
  - rewrite (punct_eq _ _ ne_colon). unfold punct_ref, is_p.
    destruct c' as [|[x|c2 j2|x|d g] c'']; try reflexivity.
    destruct (c2 =? c_colon); reflexivity.
  - destruct c' as [|[x|c2 j2|x|d g] c'']; reflexivity.
Qed.

Lemma ne_minus : c_minus <> c_apos. Proof. discriminate. Qed.
Lemma ne_gt0 : c_gt <> c_apos. Proof. discriminate. Qed.

Lemma arrow_eq c : arrow c = of_opt (arrow_ref c).
Proof.
  unfold arrow. rewrite seq2, (punct_ws_eq _ _ _ ne_minus).
  destruct c as [|[x|c1 j1|x|d g] c']; try reflexivity.
  unfold punct_ws_ref, arrow_ref.
  destruct (c1 =? c_minus); destruct j1; cbn [andb Bool.eqb of_opt]; try reflexivity.
  - rewrite (punct_eq _ _ ne_gt0). unfold punct_ref, is_p.
    destruct c' as [|[x|c2 j2|x|d g] c'']; try reflexivity.
    destruct (c2 =? c_gt); reflexivity.
  - destruct c' as [|[x|c2 j2|x|d g] c'']; reflexivity.
Qed.

Lemma arrow_ref_nj t c : is_jminus t = false -> arrow_ref (t :: c) = None.
Proof.
  destruct t as [x|ch j|x|d g]; try reflexivity. cbn [is_jminus]. destruct j; [|reflexivity].
  intros H. cbn [arrow_ref]. destruct c as [|[x|c2 j2|x|d g] c]; try reflexivity. now rewrite H.
Qed.

Lemma arrow_ref_inv c s r : arrow_ref c = Some (s, r) ->
  exists j, c = TPunct c_minus true :: TPunct c_gt j :: r /\ s = [TPunct c_minus true; TPunct c_gt j].
Proof.
  destruct c as [|[x|c1 [] |x|d g] [|[x'|c2 j2|x'|d' g'] c']]; cbn; try discriminate.
  destruct (N.eqb_spec c1 c_minus) as [->|]; [|discriminate].
  destruct (N.eqb_spec c2 c_gt) as [->|]; [|discriminate].
  cbn. intros H; inversion H; subst. eauto.
Qed.

Lemma bal_zero o cl c : bal o cl 0 c = Some ([], c).
Proof. destruct c; reflexivity. Qed.

Lemma bal_arrow o cl k j c : bal o cl (S k) (TPunct c_minus true :: TPunct c_gt j :: c)
  = match bal o cl (S k) c with
    | Some (s, r) => Some (TPunct c_minus true :: TPunct c_gt j :: s, r) | None => None end.
Proof. reflexivity. Qed.

Lemma bal_noarrow o cl k t c : arrow_ref (t :: c) = None ->
  bal o cl (S k) (t :: c) =
  match bal o cl (if is_p cl t then k else if is_p o t then S (S k) else S k) c with
  | Some (s, r) => Some (t :: s, r) | None => None end.
Proof.
  intros H. cbn [bal].
  destruct t as [x|ch j|x|d g]; try reflexivity. destruct j; [|reflexivity].
  cbn [is_jminus]. destruct (N.eqb_spec ch c_minus) as [->|]; [|reflexivity].
  destruct c as [|t2 c'']; [reflexivity|].
  destruct t2 as [x|c2 j2|x|d g]; try reflexivity.
  cbn [is_p]. destruct (N.eqb_spec c2 c_gt) as [->|]; [|reflexivity]. discriminate H.
Qed.

Lemma bal_bridge o cl : o <> c_apos -> cl <> c_apos ->
  forall n c, (length c <= n)%nat -> forall f count out, (length c < f)%nat ->
    balanced_loop f (punct o) (punct cl) count out c =
    match bal o cl count c with Some (s, r) => Ok (out ++ s, r) | None => Fail end.
Proof.
  intros Ho Hcl. induction n as [|n IH]; intros c Hn f count out Hf.
  - destruct c; [|inversion Hn]. destruct f; [inversion Hf|].
    destruct count; cbn [balanced_loop bal]; [now rewrite app_nil_r|].
    rewrite arrow_eq, !punct_eq by assumption. reflexivity.
  - destruct f; [inversion Hf|].
    destruct count; [rewrite bal_zero; cbn [balanced_loop]; now rewrite app_nil_r|].
    destruct c as [|t c]; [cbn [balanced_loop bal]; rewrite arrow_eq, !punct_eq by assumption; reflexivity|].
    cbn [length] in Hn, Hf. cbn [balanced_loop]. rewrite arrow_eq.
    destruct (arrow_ref (t :: c)) as [[s1 c1]|] eqn:Ea; cbn [of_opt].
    + apply arrow_ref_inv in Ea as (j & E & ->). inversion E; subst t c. rewrite bal_arrow.
      cbn [length] in Hn, Hf. rewrite IH by lia.
      destruct (bal o cl (S count) c1) as [[s r]|]; [|reflexivity]. now rewrite <- app_assoc.
    + rewrite (bal_noarrow _ _ _ _ _ Ea). rewrite !punct_eq by assumption. cbn [punct_ref].
      destruct (is_p cl t); cbn [of_opt].
      * rewrite IH by lia. destruct (bal o cl count c) as [[s r]|]; [|reflexivity]. now rewrite <- app_assoc.
      * destruct (is_p o t); cbn [of_opt].
        -- rewrite IH by lia. destruct (bal o cl (S (S count)) c) as [[s r]|]; [|reflexivity].
           now rewrite <- app_assoc.
        -- cbn [cursor_token_tree]. rewrite IH by lia.
           destruct (bal o cl (S count) c) as [[s r]|]; [|reflexivity]. now rewrite <- app_assoc.
Qed.

Lemma bal_lossless o cl : forall n c, (length c <= n)%nat ->
  forall count s r, bal o cl count c = Some (s, r) -> c = s ++ r.
Proof.
  induction n as [|n IH]; intros c Hn count s r H.
  - destruct c; [|inversion Hn]. destruct count; cbn in H; [inversion H; reflexivity|discriminate].
  - destruct count; [rewrite bal_zero in H; inversion H; reflexivity|].
    destruct c as [|t c]; [discriminate|]. cbn [length] in Hn.
    destruct (arrow_ref (t :: c)) as [[s1 c1]|] eqn:Ea.
    + apply arrow_ref_inv in Ea as (j & E & ->). inversion E; subst t c. rewrite bal_arrow in H.
      destruct (bal o cl (S count) c1) as [[s' r']|] eqn:E2; [|discriminate].
      inversion H; subst. cbn [length] in Hn. apply IH in E2; [|lia]. subst. reflexivity.
    + rewrite (bal_noarrow _ _ _ _ _ Ea) in H.
      destruct (bal o cl _ c) as [[s' r']|] eqn:E2; [|discriminate].
      inversion H; subst. apply IH in E2; [|lia]. subst. reflexivity.
Qed.

Lemma bp_bridge o cl F c : o <> c_apos -> cl <> c_apos -> (length c <= F)%nat ->
  balanced_pair F (punct o) (punct cl) c = of_opt (balanced_pair_ref o cl c).
Proof.
  intros Ho Hcl HF. unfold balanced_pair. rewrite punct_eq by assumption.
  destruct c as [|t c]; [reflexivity|]. cbn [punct_ref balanced_pair_ref].
  destruct (is_p o t); [|reflexivity]. cbn [of_opt].
  rewrite (bal_bridge o cl Ho Hcl (length c) c (le_n _)) by (cbn in HF; lia).
  destruct (bal o cl 1 c) as [[s r]|]; reflexivity.
Qed.

Lemma bp_ref_lossless o cl c s r : balanced_pair_ref o cl c = Some (s, r) -> c = s ++ r /\ s <> [].
Proof.
  destruct c as [|t c]; cbn; [discriminate|].
  destruct (is_p o t); [|discriminate].
  destruct (bal o cl 1 c) as [[s' r']|] eqn:E; [|discriminate].
  intros H; inversion H; subst. apply (bal_lossless o cl (length c) c (le_n _)) in E. subst. split; [reflexivity|discriminate].
Qed.

Lemma path_sep_ref_lossless c s r : path_sep_ref c = Some (s, r) -> c = s ++ r /\ s <> [].
Proof.
  destruct c as [|[x|c1 [] |x|d g] [|[x'|c2 j2|x'|d' g'] c']]; cbn; try discriminate.
  destruct ((c1 =? c_colon) && (c2 =? c_colon)); [|discriminate].
  intros H; inversion H; subst. split; [reflexivity|discriminate].
Qed.

Lemma ne_lt : c_lt <> c_apos. Proof. discriminate. Qed.
Lemma ne_gt : c_gt <> c_apos. Proof. discriminate. Qed.
Lemma ne_bar : c_bar <> c_apos. Proof. discriminate. Qed.
Lemma ne_comma : c_comma <> c_apos. Proof. discriminate. Qed.

Lemma expr_alt_bridge F c : (length c < F)%nat -> expr_alt F c = of_opt (expr_alt_ref c).
Proof.
  intros HF. unfold expr_alt, expr_alt_ref. cbn [alt]. rewrite !seq2.
  unfold seq2_ref, orelse.
  (* alternative 1 *)
  rewrite path_sep_eq.
  destruct (path_sep_ref c) as [[s1 c1]|] eqn:E1; cbn [of_opt].
  - pose proof (path_sep_ref_lossless _ _ _ E1) as [Hc _].
    assert (Hl : (length c1 <= F)%nat) by (subst c; rewrite app_length in HF; lia).
    rewrite (bp_bridge c_lt c_gt F c1 ne_lt ne_gt Hl).
    destruct (balanced_pair_ref c_lt c_gt c1) as [[s2 c2]|] eqn:E2; cbn [of_opt]; [reflexivity|].
    (* path_sep succeeded, so the head is `:` and alternatives 2 and 3 fail at their first token *)
    destruct c as [|[x|ch1 j1|x|d g] c']; try discriminate.
    destruct j1; try discriminate. destruct c' as [|[x|ch2 j2|x|d g] c'']; try discriminate.
    cbn in E1. destruct (N.eqb_spec ch1 c_colon) as [->|]; [|discriminate].
    rewrite (bp_bridge c_lt c_gt F _ ne_lt ne_gt) by lia.
    rewrite (bp_bridge c_bar c_bar F _ ne_bar ne_bar) by lia. reflexivity.
  - (* alternative 2 *)
    rewrite (bp_bridge c_lt c_gt F c ne_lt ne_gt) by lia.
    destruct (balanced_pair_ref c_lt c_gt c) as [[s1 c1]|] eqn:E2; cbn [of_opt].
    + rewrite path_sep_eq. destruct (path_sep_ref c1) as [[s2 c2]|] eqn:E3; cbn [of_opt]; [reflexivity|].
      destruct c as [|t c']; [discriminate|]. cbn in E2.
      destruct t as [x|ch j|x|d g]; try discriminate. cbn in E2.
      destruct (N.eqb_spec ch c_lt) as [->|]; [|discriminate].
      rewrite (bp_bridge c_bar c_bar F _ ne_bar ne_bar) by lia. reflexivity.
    + rewrite (bp_bridge c_bar c_bar F c ne_bar ne_bar) by lia.
      destruct (balanced_pair_ref c_bar c_bar c) as [[s1 c1]|]; cbn [of_opt]; [reflexivity|].
      destruct c; reflexivity.
Qed.

Lemma expr_alt_ref_lossless c s r : expr_alt_ref c = Some (s, r) -> c = s ++ r /\ s <> [].
Proof.
  unfold expr_alt_ref, orelse, seq2_ref.
  destruct (path_sep_ref c) as [[s1 c1]|] eqn:E1.
  - apply path_sep_ref_lossless in E1 as [-> Hs1].
    destruct (balanced_pair_ref c_lt c_gt c1) as [[s2 c2]|] eqn:E2.
    + apply bp_ref_lossless in E2 as [-> _]. intros H; inversion H; subst.
      rewrite app_assoc. split; [reflexivity|]. destruct s1; [congruence|discriminate].
    + destruct (balanced_pair_ref c_lt c_gt (s1 ++ c1)) as [[s3 c3]|] eqn:E3.
      * apply bp_ref_lossless in E3 as [E3 Hs3].
        destruct (path_sep_ref c3) as [[s4 c4]|] eqn:E4.
        -- apply path_sep_ref_lossless in E4 as [-> _]. intros H; inversion H; subst.
           rewrite E3, app_assoc. split; [reflexivity|]. destruct s3; [congruence|discriminate].
        -- destruct (balanced_pair_ref c_bar c_bar (s1 ++ c1)) as [[s5 c5]|] eqn:E5.
           ++ apply bp_ref_lossless in E5. intros H; inversion H; subst. exact E5.
           ++ destruct (s1 ++ c1); cbn; [discriminate|]. intros H; inversion H; subst.
              split; [reflexivity|discriminate].
      * destruct (balanced_pair_ref c_bar c_bar (s1 ++ c1)) as [[s5 c5]|] eqn:E5.
        -- apply bp_ref_lossless in E5. intros H; inversion H; subst. exact E5.
        -- destruct (s1 ++ c1); cbn; [discriminate|]. intros H; inversion H; subst.
           split; [reflexivity|discriminate].
  - destruct (balanced_pair_ref c_lt c_gt c) as [[s3 c3]|] eqn:E3.
    + apply bp_ref_lossless in E3 as [E3 Hs3].
      destruct (path_sep_ref c3) as [[s4 c4]|] eqn:E4.
      * apply path_sep_ref_lossless in E4 as [-> _]. intros H; inversion H; subst.
        rewrite app_assoc. split; [reflexivity|]. destruct s3; [congruence|discriminate].
      * destruct (balanced_pair_ref c_bar c_bar c) as [[s5 c5]|] eqn:E5.
        -- apply bp_ref_lossless in E5. intros H; inversion H; subst. exact E5.
        -- destruct c; cbn; [discriminate|]. intros H; inversion H; subst.
           split; [reflexivity|discriminate].
    + destruct (balanced_pair_ref c_bar c_bar c) as [[s5 c5]|] eqn:E5.
      * apply bp_ref_lossless in E5. intros H; inversion H; subst. exact E5.
      * destruct c; cbn; [discriminate|]. intros H; inversion H; subst.
        split; [reflexivity|discriminate].
Qed.

(* ================================================================== 2. the loops: totality and losslessness *)

Definition stop_shape (r : cursor) : Prop := r = [] \/ exists j r', r = TPunct c_comma j :: r'.

Lemma is_p_comma_inv t : is_p c_comma t = true -> exists j, t = TPunct c_comma j.
Proof.
  destruct t as [x|ch j|x|d g]; cbn; try discriminate.
  destruct (N.eqb_spec ch c_comma); [subst; eauto|discriminate].
Qed.

Lemma stop_shape_check r : stop_shape r -> cursor_eof r || is_ok (punct c_comma r) = true.
Proof. intros [->|(j & r' & ->)]; reflexivity. Qed.

Lemma check_stop_shape r : cursor_eof r || is_ok (punct c_comma r) = true -> stop_shape r.
Proof.
  destruct r as [|t r]; [left; reflexivity|]. cbn [cursor_eof orb].
  rewrite (punct_eq _ _ ne_comma). cbn [punct_ref].
  destruct (is_p c_comma t) eqn:E; [|discriminate].
  apply is_p_comma_inv in E as [j ->]. right; eauto.
Qed.

(** take_until1 over the four alternatives: never out of fuel, consumes a prefix, stops at eof or at a comma *)
Lemma tu_spec F : forall f out parsed c, (length c < f)%nat -> (length c < F)%nat ->
  (exists s r, take_until1_loop f (expr_alt F) (punct c_comma) out parsed c = Ok (out ++ s, r)
               /\ c = s ++ r /\ (parsed = false -> s <> []) /\ stop_shape r)
  \/ take_until1_loop f (expr_alt F) (punct c_comma) out parsed c = Fail.
Proof.
  induction f as [|f IH]; intros out parsed c Hf HF; [inversion Hf|].
  cbn [take_until1_loop]. destruct c as [|t c'].
  - cbn [cursor_eof]. destruct parsed; [left|right; reflexivity].
    exists [], []. rewrite app_nil_r. repeat split; [discriminate|left; reflexivity].
  - cbn [cursor_eof]. rewrite (punct_eq _ _ ne_comma). cbn [punct_ref].
    destruct (is_p c_comma t) eqn:Ec; cbn [of_opt].
    + destruct parsed; [left|right; reflexivity].
      exists [], (t :: c'). rewrite app_nil_r. repeat split; [discriminate|].
      apply is_p_comma_inv in Ec as [j ->]. right; eauto.
    + rewrite expr_alt_bridge by assumption.
      destruct (expr_alt_ref (t :: c')) as [[s1 c1]|] eqn:Ea; cbn [of_opt]; [|right; reflexivity].
      apply expr_alt_ref_lossless in Ea as [Hc Hs1].
      assert (Hl : (length c1 < length (t :: c'))%nat).
      { rewrite Hc, app_length. destruct s1; [congruence|cbn; lia]. }
      destruct (IH (out ++ s1) true c1) as [(s & r & E & Hc1 & _ & Hr)|E]; try lia.
      * left. exists (s1 ++ s), r. rewrite E, app_assoc. repeat split; auto.
        -- rewrite Hc, Hc1. now rewrite app_assoc.
        -- intros _. destruct s1; [congruence|discriminate].
      * right. exact E.
Qed.

Definition expr_spec_ok (c : cursor) (e : expr) (r : cursor) : Prop :=
  c = expr_to_tokens e ++ r /\ expr_to_tokens e <> [] /\ stop_shape r
  /\ (is_plain_field_ref e = true <-> exists i, expr_to_tokens e = [TIdent i]).

Lemma expr_parse_spec F c : (length c < F)%nat ->
  (exists e r, expr_parse F c = Ok (e, r) /\ expr_spec_ok c e r) \/ expr_parse F c = Fail.
Proof.
  intros HF. unfold expr_parse.
  destruct (match cursor_ident c with
            | Some (s, r) => if cursor_eof r || is_ok (punct c_comma r) then Some (s, r) else None
            | None => None end) as [[s r]|] eqn:Efast.
  - left. exists (EIdent s), r. split; [reflexivity|].
    destruct c as [|[x|ch j|x|d g] c']; cbn in Efast; try discriminate.
    destruct (cursor_eof c' || is_ok (punct c_comma c')) eqn:Es; [|discriminate].
    inversion Efast; subst. repeat split; cbn; try discriminate; eauto.
    now apply check_stop_shape.
  - unfold take_until1.
    destruct (tu_spec F F [] false c HF HF) as [(s & r & E & Hc & Hs & Hr)|E]; rewrite E; [|right; reflexivity].
    left. exists (EOther s), r. split; [reflexivity|].
    repeat split; cbn; auto; try discriminate.
    intros [i Hi]. subst s. subst c. cbn in Efast.
    rewrite (stop_shape_check _ Hr) in Efast. discriminate.
Qed.

Lemma parse_punct1_inv p c r : parse_punct1 p c = Some r -> exists j, c = TPunct p j :: r.
Proof.
  unfold parse_punct1, cursor_punct. destruct c as [|[x|ch j|x|d g] c']; try discriminate.
  destruct (ch =? c_apos); try discriminate.
  destruct (N.eqb_spec ch p); [|discriminate]. intros H; inversion H; subst. eauto.
Qed.

Section Terminated.
  Context {A : Type} (p : cursor -> outcome (A * cursor)) (R : A -> stream -> Prop) (F : nat).
  Hypothesis p_spec : forall c, (length c < F)%nat ->
    (exists v r src, p c = Ok (v, r) /\ c = src ++ r /\ src <> [] /\ R v src) \/ p c = Fail.

  Lemma pt_spec : forall f c, (length c < f)%nat -> (length c < F)%nat ->
    (exists vs tr srcs, parse_terminated_loop f p c = Ok (vs, tr) /\ joined srcs tr c /\ Forall2 R vs srcs)
    \/ parse_terminated_loop f p c = Fail.
  Proof.
    induction f as [|f IH]; intros c Hf HF; [inversion Hf|].
    cbn [parse_terminated_loop]. destruct c as [|t c'].
    - left. exists [], false, []. repeat split; constructor.
    - cbn [cursor_eof].
      destruct (p_spec (t :: c') HF) as [(v & r & src & E & Hc & Hs & HR)|E]; rewrite E; [|right; reflexivity].
      destruct r as [|t1 r1].
      + cbn [cursor_eof]. left. exists [v], false, [src]. repeat split.
        * rewrite Hc, app_nil_r. constructor.
        * repeat constructor. exact HR.
      + cbn [cursor_eof].
        destruct (parse_punct1 c_comma (t1 :: r1)) as [c2|] eqn:Ep; [|right; reflexivity].
        apply parse_punct1_inv in Ep as [j Ep]. inversion Ep; subst t1 r1. clear Ep.
        assert (Hl : (length c2 < length (t :: c'))%nat).
        { rewrite Hc, app_length. cbn. destruct src; [congruence|cbn; lia]. }
        destruct (IH c2) as [(vs & tr & srcs & E2 & Hj & HF2)|E2]; try lia; rewrite E2; [|right; reflexivity].
        left. destruct vs as [|v2 vs].
        * inversion HF2; subst. inversion Hj; subst.
          exists [v], true, [src]. repeat split; [rewrite Hc; constructor|repeat constructor; exact HR].
        * exists (v :: v2 :: vs), tr, (src :: srcs). repeat split.
          -- rewrite Hc. constructor; [|exact Hj]. inversion HF2; discriminate.
          -- constructor; assumption.
  Qed.
End Terminated.

(** C18 / totality: the splitter never runs out of fuel *)
Lemma split_args_total F c : (length c < F)%nat ->
  (exists es tr, split_args_fuel F c = Ok (es, tr)) \/ split_args_fuel F c = Fail.
Proof.
  intros HF. unfold split_args_fuel.
  destruct (pt_spec (expr_parse F) (fun e src => src = expr_to_tokens e) F) with (f := F) (c := c)
    as [(vs & tr & srcs & E & _)|E]; auto.
  - intros c0 H0. destruct (expr_parse_spec F c0 H0) as [(e & r & E & Hc & Hn & _)|E]; [left|right; exact E].
    exists e, r, (expr_to_tokens e). auto.
  - left; eauto.
Qed.

Lemma split_total ts : exists r : option (list expr * bool), split_args_fuel (S (length ts)) ts = of_opt r.
Proof.
  destruct (split_args_total (S (length ts)) ts) as [(es & tr & E)|E]; [lia| |].
  - exists (Some (es, tr)). exact E.
  - exists None. exact E.
Qed.

(** fuel independence: any two adequate amounts of fuel give the same answer *)
Lemma tu_fuel_independent F1 F2 : forall f1 f2 out parsed c,
  (length c < f1)%nat -> (length c < f2)%nat -> (length c < F1)%nat -> (length c < F2)%nat ->
  take_until1_loop f1 (expr_alt F1) (punct c_comma) out parsed c =
  take_until1_loop f2 (expr_alt F2) (punct c_comma) out parsed c.
Proof.
  induction f1 as [|f1 IH]; intros f2 out parsed c H1 H2 HF1 HF2; [inversion H1|].
  destruct f2; [inversion H2|]. cbn [take_until1_loop].
  destruct (cursor_eof c); [reflexivity|].
  destruct (punct c_comma c) as [x| |]; try reflexivity.
  rewrite !expr_alt_bridge by assumption.
  destruct (expr_alt_ref c) as [[s1 c1]|] eqn:Ea; cbn [of_opt]; [|reflexivity].
  apply expr_alt_ref_lossless in Ea as [Hc Hs1].
  assert (Hl : (length c1 < length c)%nat).
  { rewrite Hc, app_length. destruct s1; [congruence|cbn; lia]. }
  apply IH; lia.
Qed.

Lemma expr_parse_fuel_independent F1 F2 c : (length c < F1)%nat -> (length c < F2)%nat ->
  expr_parse F1 c = expr_parse F2 c.
Proof.
  intros H1 H2. unfold expr_parse, take_until1.
  now rewrite (tu_fuel_independent F1 F2 F1 F2 [] false c) by assumption.
Qed.

Lemma pt_fuel_independent {A} (p1 p2 : cursor -> outcome (A * cursor)) (R : A -> stream -> Prop) F :
  (forall c, (length c < F)%nat ->
     (exists v r src, p1 c = Ok (v, r) /\ c = src ++ r /\ src <> [] /\ R v src) \/ p1 c = Fail) ->
  (forall c, (length c < F)%nat -> p1 c = p2 c) ->
  forall f1 f2 c, (length c < f1)%nat -> (length c < f2)%nat -> (length c < F)%nat ->
  parse_terminated_loop f1 p1 c = parse_terminated_loop f2 p2 c.
Proof.
  intros Hspec Heq. induction f1 as [|f1 IH]; intros f2 c H1 H2 HF; [inversion H1|].
  destruct f2; [inversion H2|]. cbn [parse_terminated_loop].
  destruct (cursor_eof c); [reflexivity|].
  rewrite <- (Heq c HF).
  destruct (Hspec c HF) as [(v & r & src & E & Hc & Hs & _)|E]; rewrite E; [|reflexivity].
  destruct (cursor_eof r); [reflexivity|].
  destruct (parse_punct1 c_comma r) as [c2|] eqn:Ep; [|reflexivity].
  apply parse_punct1_inv in Ep as [j ->].
  assert (Hl : (length c2 < length c)%nat).
  { rewrite Hc, app_length. cbn. lia. }
  rewrite (IH f2 c2) by lia. reflexivity.
Qed.

Lemma expr_parse_src_spec F c : (length c < F)%nat ->
  (exists v r src, expr_parse F c = Ok (v, r) /\ c = src ++ r /\ src <> [] /\ src = expr_to_tokens v)
  \/ expr_parse F c = Fail.
Proof.
  intros H0. destruct (expr_parse_spec F c H0) as [(e & r & E & Hc & Hn & _)|E]; [left|right; exact E].
  exists e, r, (expr_to_tokens e). auto.
Qed.

Lemma split_fuel_independent F1 F2 c : (length c < F1)%nat -> (length c < F2)%nat ->
  split_args_fuel F1 c = split_args_fuel F2 c.
Proof.
  intros H1 H2. unfold split_args_fuel.
  destruct (Compare_dec.le_ge_dec F1 F2) as [Hle|Hle].
  - apply (pt_fuel_independent _ _ (fun e src => src = expr_to_tokens e) F1); auto.
    + apply expr_parse_src_spec.
    + intros c0 H0. apply expr_parse_fuel_independent; lia.
  - symmetry. apply (pt_fuel_independent _ _ (fun e src => src = expr_to_tokens e) F2); auto.
    + apply expr_parse_src_spec.
    + intros c0 H0. apply expr_parse_fuel_independent; lia.
Qed.

(* ================================================================== 3. the attribute layer *)

Definition arg_rel (a : fmt_argument) (src : stream) : Prop := arg_src a src /\ ident_iff (fa_expr a).

Lemma head_punct_app q e r : e <> [] -> head_punct q (e ++ r) = head_punct q e.
Proof. destruct e; [congruence|reflexivity]. Qed.

Lemma peek_punct2_eq q j c2 : q <> c_apos ->
  peek_punct2 c_eq q (TPunct c_eq j :: c2) = j && head_punct q c2.
Proof.
  intros Hq. unfold peek_punct2, cursor_punct, head_punct.
  change (c_eq =? c_apos) with false. change (c_eq =? c_eq) with true. cbn [andb].
  destruct j; [|reflexivity]. cbn [andb].
  destruct c2 as [|[x|ch j2|x|d g] c2]; try reflexivity.
  destruct (N.eqb_spec ch c_apos) as [->|_]; [|reflexivity].
  destruct (N.eqb_spec c_apos q); [congruence|reflexivity].
Qed.

Lemma fmt_argument_parse_spec F c : (length c < F)%nat ->
  (exists a r src, fmt_argument_parse F c = Ok (a, r) /\ c = src ++ r /\ src <> [] /\ arg_rel a src)
  \/ fmt_argument_parse F c = Fail.
Proof.
  intros HF. unfold fmt_argument_parse.
  destruct (peek_ident c && peek2_eq c && negb (peek2_punct2 c_eq c_eq c) && negb (peek2_punct2 c_eq c_gt c)) eqn:Ep.
  - apply andb_true_iff in Ep as [Ep Ep4]. apply andb_true_iff in Ep as [Ep Ep3].
    apply andb_true_iff in Ep as [Ep1 Ep2].
    apply negb_true_iff in Ep3. apply negb_true_iff in Ep4.
    destruct c as [|[s|ch j|x|d g] c1]; try discriminate.
    unfold peek_ident in Ep1. cbn [cursor_ident] in Ep1.
    unfold parse_ident. cbn [cursor_ident]. rewrite Ep1.
    destruct (parse_punct1 c_eq c1) as [c2|] eqn:Eq; [|right; reflexivity].
    apply parse_punct1_inv in Eq as [j ->].
    unfold peek2_punct2 in Ep3, Ep4. cbn [cursor_skip] in Ep3, Ep4.
    rewrite peek_punct2_eq in Ep3 by discriminate. rewrite peek_punct2_eq in Ep4 by discriminate.
    destruct (expr_parse_spec F c2) as [(e & r & E & Hc & Hn & _ & Hi)|E]; [cbn in HF; lia| |]; rewrite E.
    + left. exists {| fa_alias := Some s; fa_expr := e |}, r, (TIdent s :: TPunct c_eq j :: expr_to_tokens e).
      repeat split; try discriminate; cbn [fa_alias fa_expr arg_src]; [cbn; now rewrite Hc| |apply Hi|apply Hi].
      exists j. split; [reflexivity|]. unfold glued.
      rewrite Hc in Ep3, Ep4. rewrite head_punct_app in Ep3, Ep4 by assumption.
      destruct j; [|reflexivity]. cbn [andb] in *. now rewrite Ep3, Ep4.
    + right; reflexivity.
  - destruct (expr_parse_spec F c HF) as [(e & r & E & Hc & Hn & _ & Hi)|E]; rewrite E.
    + left. exists {| fa_alias := None; fa_expr := e |}, r, (expr_to_tokens e).
      repeat split; cbn; auto; apply Hi.
    + right; reflexivity.
Qed.

Definition eff_comma {A} (items : list A) (cm : bool) : bool := match items with [] => false | _ => cm end.

Lemma attr_tail F x b c2 a : (length c2 < F)%nat ->
  match parse_terminated F (fmt_argument_parse F) c2 with
  | Ok args => Ok {| at_lit := x; at_comma := match p_items args with [] => false | _ => b end;
                     at_args := pop_punct args |}
  | Fail => Fail
  | Fuel => Fuel
  end = Ok a ->
  exists srcs tr, joined srcs tr c2 /\ Forall2 arg_rel (p_items (at_args a)) srcs
    /\ at_lit a = x /\ at_comma a = eff_comma (p_items (at_args a)) b /\ p_trailing (at_args a) = false.
Proof.
  intros Hl. unfold parse_terminated.
  destruct (pt_spec (fmt_argument_parse F) arg_rel F (fmt_argument_parse_spec F) F c2 Hl Hl)
    as [(vs & tr & srcs & E & Hj & HF2)|E]; rewrite E; [|discriminate].
  intros H; inversion H; subst a; clear H. cbn.
  exists srcs, tr. repeat split; auto.
Qed.

(** structure of an accepted attribute: literal, optional comma [cm], the arguments; the stored comma is the
    source comma unless there is no argument *)
Lemma parse_attr_structure ts a : parse_attr ts = Ok a ->
  exists (j0 cm : bool) srcs tr l,
    ts = TLit (at_lit a) :: (if cm then [TPunct c_comma j0] else []) ++ l
    /\ joined srcs tr l /\ Forall2 arg_rel (p_items (at_args a)) srcs
    /\ at_comma a = eff_comma (p_items (at_args a)) cm
    /\ p_trailing (at_args a) = false.
Proof.
  unfold parse_attr, fmt_attribute_parse.
  destruct (parse_lit_str ts) as [[lit c1]|] eqn:El; [|discriminate].
  unfold parse_lit_str in El. destruct ts as [|[x|ch j|x|d g] ts']; try discriminate.
  destruct (is_lit_str x); [|discriminate]. inversion El; subst lit c1. clear El.
  set (F := S (length (TLit x :: ts'))).
  destruct (peek_punct1 c_comma ts').
  - destruct (parse_punct1 c_comma ts') as [c2|] eqn:Ep.
    + apply parse_punct1_inv in Ep as [j ->]. intros H.
      apply attr_tail in H as (srcs & tr & Hj & HF & <- & Hb & Htr); [|unfold F; cbn [length]; lia].
      exists j, true, srcs, tr, c2. repeat split; auto.
    + intros H. apply attr_tail in H as (srcs & tr & Hj & HF & <- & Hb & Htr); [|unfold F; cbn [length]; lia].
      exists false, false, srcs, tr, ts'. repeat split; auto.
  - intros H. apply attr_tail in H as (srcs & tr & Hj & HF & <- & Hb & Htr); [|unfold F; cbn [length]; lia].
    exists false, false, srcs, tr, ts'. repeat split; auto.
Qed.

Lemma forget_comma j : forget (TPunct c_comma j) = comma_alone.
Proof. reflexivity. Qed.

Lemma arg_forget a src : arg_src a src -> List.map forget src = List.map forget (fmt_argument_to_tokens a).
Proof.
  unfold arg_src, fmt_argument_to_tokens. destruct (fa_alias a) as [s|].
  - intros (j & -> & _). reflexivity.
  - intros ->. reflexivity.
Qed.

Lemma joined_forget srcs tr l : joined srcs tr l -> forall items, Forall2 arg_rel items srcs ->
  List.map forget l =
  List.map forget (items_to_tokens fmt_argument_to_tokens items false) ++ opt_comma tr.
Proof.
  induction 1 as [|a|a j|a j rest tr l Hne Hj IH]; intros items HF.
  - inversion HF; subst. reflexivity.
  - inversion HF as [|x y xs ys [Hx _] Hxs]; subst. inversion Hxs; subst.
    cbn [items_to_tokens opt_comma]. rewrite !app_nil_r. now apply arg_forget.
  - inversion HF as [|x y xs ys [Hx _] Hxs]; subst. inversion Hxs; subst.
    cbn [items_to_tokens opt_comma]. rewrite app_nil_r, map_app. cbn [List.map].
    rewrite forget_comma. f_equal. now apply arg_forget.
  - inversion HF as [|x y xs ys [Hx _] Hxs]; subst.
    destruct xs as [|x2 xs]; [inversion Hxs; subst; exfalso; apply Hne; reflexivity|].
    cbn [items_to_tokens]. rewrite !map_app. cbn [List.map]. rewrite forget_comma.
    rewrite (IH _ Hxs), (arg_forget _ _ Hx), <- app_assoc. reflexivity.
Qed.

Lemma lossless_forget ts a : parse_attr ts = Ok a ->
  exists tr, List.map forget ts = List.map forget (fmt_attribute_to_tokens a) ++ opt_comma tr.
Proof.
  intros H. destruct (parse_attr_structure ts a H) as (j0 & cm & srcs & tr & l & Hts & Hj & HF & Hcm & Htr).
  subst ts. unfold fmt_attribute_to_tokens, punctuated_to_tokens. rewrite Htr, Hcm.
  destruct (p_items (at_args a)) as [|x xs] eqn:Ei.
  - (* no argument: the comma after the literal, if any, is the trailing comma that is dropped *)
    inversion HF; subst. inversion Hj; subst. exists cm. cbn [eff_comma items_to_tokens].
    destruct cm; reflexivity.
  - exists tr. cbn [eff_comma]. cbn [List.map forget]. rewrite !map_app, (joined_forget _ _ _ Hj _ HF).
    destruct cm; cbn [List.map app]; [rewrite forget_comma|]; now rewrite <- ?app_assoc.
Qed.

Lemma forget_id t : sep_alone t = true -> forget t = t.
Proof.
  destruct t as [x|ch j|x|d g]; cbn; try reflexivity.
  destruct ((ch =? c_comma) || (ch =? c_eq)); [|reflexivity]. destruct j; [discriminate|reflexivity].
Qed.

Lemma arg_exact a src : arg_src a src -> forallb sep_alone src = true -> src = fmt_argument_to_tokens a.
Proof.
  unfold arg_src, fmt_argument_to_tokens. destruct (fa_alias a) as [s|].
  - intros (j & -> & _). cbn. destruct j; [discriminate|reflexivity].
  - intros ->. reflexivity.
Qed.

Lemma joined_exact srcs tr l : joined srcs tr l -> forall items, Forall2 arg_rel items srcs ->
  forallb sep_alone l = true ->
  l = items_to_tokens fmt_argument_to_tokens items false ++ opt_comma tr.
Proof.
  induction 1 as [|a|a j|a j rest tr l Hne Hj IH]; intros items HF Hal.
  - inversion HF; subst. reflexivity.
  - inversion HF as [|x y xs ys [Hx _] Hxs]; subst. inversion Hxs; subst.
    cbn [items_to_tokens opt_comma]. rewrite !app_nil_r. now apply arg_exact.
  - inversion HF as [|x y xs ys [Hx _] Hxs]; subst. inversion Hxs; subst.
    rewrite forallb_app in Hal. apply andb_true_iff in Hal as [Ha Hc].
    cbn [items_to_tokens opt_comma]. rewrite app_nil_r. rewrite <- (arg_exact _ _ Hx Ha).
    cbn in Hc. destruct j; [discriminate|reflexivity].
  - inversion HF as [|x y xs ys [Hx _] Hxs]; subst.
    destruct xs as [|x2 xs]; [inversion Hxs; subst; exfalso; apply Hne; reflexivity|].
    rewrite forallb_app in Hal. apply andb_true_iff in Hal as [Ha Hc].
    cbn [forallb] in Hc. apply andb_true_iff in Hc as [Hc Hl].
    change (items_to_tokens fmt_argument_to_tokens (x :: x2 :: xs) false)
      with (fmt_argument_to_tokens x ++ comma_alone :: items_to_tokens fmt_argument_to_tokens (x2 :: xs) false).
    rewrite <- (arg_exact _ _ Hx Ha), <- app_assoc. f_equal.
    cbn in Hc. destruct j; [discriminate|]. cbn [app]. f_equal. now apply IH.
Qed.

Lemma lossless_exact ts a : parse_attr ts = Ok a -> forallb sep_alone ts = true ->
  exists tr, ts = fmt_attribute_to_tokens a ++ opt_comma tr.
Proof.
  intros H Hal. destruct (parse_attr_structure ts a H) as (j0 & cm & srcs & tr & l & Hts & Hj & HF & Hcm & Htr).
  subst ts. unfold fmt_attribute_to_tokens, punctuated_to_tokens. rewrite Htr, Hcm.
  cbn [forallb] in Hal. apply andb_true_iff in Hal as [_ Hal].
  rewrite forallb_app in Hal. apply andb_true_iff in Hal as [Hc Hl].
  destruct (p_items (at_args a)) as [|x xs] eqn:Ei.
  - inversion HF; subst. inversion Hj; subst. exists cm. cbn [eff_comma items_to_tokens].
    destruct cm; [|reflexivity]. cbn in Hc. destruct j0; [discriminate|reflexivity].
  - exists tr. cbn [eff_comma]. rewrite (joined_exact _ _ _ Hj _ HF Hl) at 1.
    destruct cm; cbn [app]; [|now rewrite <- ?app_assoc].
    cbn in Hc. destruct j0; [discriminate|]. now rewrite <- ?app_assoc.
Qed.

(** every argument expression is a verbatim, in-order slice of the input *)
Lemma attr_args_verbatim ts a : parse_attr ts = Ok a ->
  exists (j0 cm : bool) srcs tr l,
    ts = TLit (at_lit a) :: (if cm then [TPunct c_comma j0] else []) ++ l
    /\ joined srcs tr l /\ Forall2 arg_src (p_items (at_args a)) srcs
    /\ at_comma a = match p_items (at_args a) with [] => false | _ => cm end.
Proof.
  intros H. destruct (parse_attr_structure ts a H) as (j0 & cm & srcs & tr & l & Hts & Hj & HF & Hcm & _).
  exists j0, cm, srcs, tr, l. repeat split; auto.
  clear - HF. induction HF as [|x y xs ys [Hx _] _ IH]; constructor; auto.
Qed.

Lemma attr_ident_only ts a : parse_attr ts = Ok a ->
  Forall (fun x => ident_iff (fa_expr x)) (p_items (at_args a)).
Proof.
  intros H. destruct (parse_attr_structure ts a H) as (j0 & cm & srcs & tr & l & _ & _ & HF & _).
  clear - HF. induction HF as [|x y xs ys [_ Hx] _ IH]; constructor; auto.
Qed.

(* ---- the bare expression list *)

Lemma split_structure ts es tr : split_args ts = Ok (es, tr) ->
  joined (List.map expr_to_tokens es) tr ts /\ Forall ident_iff es.
Proof.
  unfold split_args, split_args_fuel. set (F := S (length ts)). intros H.
  destruct (pt_spec (expr_parse F) (fun e src => src = expr_to_tokens e /\ ident_iff e) F) with (f := F) (c := ts)
    as [(vs & tr' & srcs & E & Hj & HF)|E]; try (unfold F; lia).
  - intros c0 H0. destruct (expr_parse_spec F c0 H0) as [(e & r & E & Hc & Hn & _ & Hi)|E]; [left|right; exact E].
    exists e, r, (expr_to_tokens e). repeat split; auto; apply Hi.
  - rewrite E in H. inversion H; subst vs tr'. clear H E.
    assert (Hs : srcs = List.map expr_to_tokens es /\ Forall ident_iff es).
    { clear - HF. induction HF as [|x y xs ys [-> Hi] _ [-> IH]]; [split; constructor|].
      split; [reflexivity|constructor; assumption]. }
    destruct Hs as [-> Hi]. split; assumption.
  - rewrite E in H. discriminate.
Qed.

Lemma split_verbatim ts es tr : split_args ts = Ok (es, tr) -> joined (List.map expr_to_tokens es) tr ts.
Proof. intros H. exact (proj1 (split_structure ts es tr H)). Qed.

Lemma split_ident_only ts es tr : split_args ts = Ok (es, tr) ->
  Forall (fun e => is_plain_field_ref e = true <-> exists i, expr_to_tokens e = [TIdent i]) es.
Proof. intros H. exact (proj2 (split_structure ts es tr H)). Qed.

Lemma joined_in srcs tr l : joined srcs tr l -> forall t, In t l -> is_p c_comma t = false ->
  exists src, In src srcs /\ In t src.
Proof.
  induction 1 as [|a|a j|a j rest tr l Hne Hj IH]; intros t Hin Hc.
  - inversion Hin.
  - exists a. split; [left; reflexivity|assumption].
  - apply in_app_or in Hin as [Hin|[<-|[]]]; [|discriminate].
    exists a. split; [left; reflexivity|assumption].
  - apply in_app_or in Hin as [Hin|[<-|Hin]]; [|discriminate|].
    + exists a. split; [left; reflexivity|assumption].
    + destruct (IH t Hin Hc) as (src & Hs & Ht). exists src. split; [right; assumption|assumption].
Qed.

Lemma groups_atomic ts es tr : split_args ts = Ok (es, tr) ->
  forall d g, In (TGroup d g) ts -> exists e, In e es /\ In (TGroup d g) (expr_to_tokens e).
Proof.
  intros H d g Hin. apply split_structure in H as [Hj _].
  destruct (joined_in _ _ _ Hj _ Hin eq_refl) as (src & Hs & Ht).
  apply in_map_iff in Hs as (e & <- & He). eauto.
Qed.

(* ================================================================== 4. the scanner on item-structured token lists *)

Definition pre1 (t : tt) (o : option (stream * cursor)) : option (stream * cursor) :=
  match o with Some (s, r) => Some (t :: s, r) | None => None end.
Definition pre (x : list tt) (o : option (stream * cursor)) : option (stream * cursor) :=
  match o with Some (s, r) => Some (x ++ s, r) | None => None end.

Ltac lnorm := repeat first [progress cbn [app pre pre1] | rewrite <- app_assoc].

Lemma bal_other o cl k t c : is_p cl t = false -> is_p o t = false -> arrow_ref (t :: c) = None ->
  bal o cl (S k) (t :: c) = pre1 t (bal o cl (S k) c).
Proof. intros H1 H2 H3. rewrite (bal_noarrow _ _ _ _ _ H3), H1, H2. reflexivity. Qed.

Lemma bal_open o cl k t c : is_p cl t = false -> is_p o t = true -> is_jminus t = false ->
  bal o cl (S k) (t :: c) = pre1 t (bal o cl (S (S k)) c).
Proof. intros H1 H2 H3. rewrite (bal_noarrow _ _ _ _ _ (arrow_ref_nj _ _ H3)), H1, H2. reflexivity. Qed.

Lemma bal_close o cl k t c : is_p cl t = true -> is_jminus t = false ->
  bal o cl (S k) (t :: c) = pre1 t (bal o cl k c).
Proof. intros H1 H3. rewrite (bal_noarrow _ _ _ _ _ (arrow_ref_nj _ _ H3)), H1. reflexivity. Qed.

Ltac sidec := solve [ reflexivity | assumption
  | match goal with |- is_jminus (TPunct _ ?j) = false => destruct j; reflexivity end
  | apply arrow_ref_nj; first [assumption | reflexivity
      | match goal with |- is_jminus (TPunct _ ?j) = false => destruct j; reflexivity end] ].

Lemma acontent_skip x : acontent x -> forall k r,
  bal c_lt c_gt (S k) (x ++ r) = pre x (bal c_lt c_gt (S k) r).
Proof.
  induction 1 as [|t x Hlt Hgt Hjm Hx IH|j x Hx IH|j1 y j2 x Hy IHy Hx IHx]; intros k r.
  - cbn [app]. destruct (bal c_lt c_gt (S k) r) as [[s r']|]; reflexivity.
  - cbn [app]. rewrite bal_other by sidec. rewrite IH.
    destruct (bal c_lt c_gt (S k) r) as [[s r']|]; reflexivity.
  - cbn [app]. rewrite bal_arrow, IH.
    destruct (bal c_lt c_gt (S k) r) as [[s r']|]; reflexivity.
  - cbn [app]. rewrite <- app_assoc. cbn [app].
    rewrite bal_open by sidec. rewrite IHy. rewrite bal_close by sidec. rewrite IHx.
    destruct (bal c_lt c_gt (S k) r) as [[s r']|]; [|reflexivity].
    lnorm. reflexivity.
Qed.

Lemma block_skip j1 y j2 k r : acontent y ->
  bal c_lt c_gt (S k) (TPunct c_lt j1 :: y ++ TPunct c_gt j2 :: r)
  = pre (TPunct c_lt j1 :: y ++ [TPunct c_gt j2]) (bal c_lt c_gt (S k) r).
Proof.
  intros Hy. rewrite bal_open by sidec. rewrite (acontent_skip y Hy).
  rewrite bal_close by sidec.
  destruct (bal c_lt c_gt (S k) r) as [[s r']|]; [|reflexivity].
  lnorm. reflexivity.
Qed.

Lemma block_ref j1 y j2 r : acontent y ->
  balanced_pair_ref c_lt c_gt (TPunct c_lt j1 :: y ++ TPunct c_gt j2 :: r)
  = Some (TPunct c_lt j1 :: y ++ [TPunct c_gt j2], r).
Proof.
  intros Hy. unfold balanced_pair_ref. change (is_p c_lt (TPunct c_lt j1)) with true. cbn match.
  rewrite (acontent_skip y Hy). rewrite bal_close by sidec. rewrite bal_zero. reflexivity.
Qed.

(** scanning for the closing `|` through angle-balanced, bar-free tokens *)
Lemma bars_skip x : acontent x -> nobar x -> forall r,
  bal c_bar c_bar 1 (x ++ r) = pre x (bal c_bar c_bar 1 r).
Proof.
  induction 1 as [|t x Hlt Hgt Hjm Hx IH|j x Hx IH|j1 y j2 x Hy IHy Hx IHx]; intros Hnb r.
  - cbn [app]. destruct (bal c_bar c_bar 1 r) as [[s r']|]; reflexivity.
  - inversion Hnb; subst. cbn [app]. rewrite bal_other by sidec. rewrite IH by assumption.
    destruct (bal c_bar c_bar 1 r) as [[s r']|]; reflexivity.
  - inversion Hnb as [|? ? _ Hnb2]; subst. inversion Hnb2; subst. cbn [app]. rewrite bal_arrow, IH by assumption.
    destruct (bal c_bar c_bar 1 r) as [[s r']|]; reflexivity.
  - inversion Hnb as [|? ? _ Hnb2]; subst. apply Forall_app in Hnb2 as [Hny Hnx].
    inversion Hnx as [|? ? _ Hnx2]; subst.
    cbn [app]. rewrite <- app_assoc. cbn [app].
    rewrite bal_other by sidec. rewrite IHy by assumption.
    rewrite bal_other by sidec. rewrite IHx by assumption.
    destruct (bal c_bar c_bar 1 r) as [[s r']|]; [|reflexivity].
    lnorm. reflexivity.
Qed.

Lemma bars_bal x j2 r : acontent x -> nobar x ->
  bal c_bar c_bar 1 (x ++ TPunct c_bar j2 :: r) = Some (x ++ [TPunct c_bar j2], r).
Proof.
  intros Hx Hn. rewrite (bars_skip x Hx Hn). rewrite bal_close by sidec. rewrite bal_zero. reflexivity.
Qed.

Lemma bars_ref j1 x j2 r : acontent x -> nobar x ->
  balanced_pair_ref c_bar c_bar (TPunct c_bar j1 :: x ++ TPunct c_bar j2 :: r)
  = Some (TPunct c_bar j1 :: x ++ [TPunct c_bar j2], r).
Proof.
  intros Hx Hn. unfold balanced_pair_ref. change (is_p c_bar (TPunct c_bar j1)) with true. cbn match.
  rewrite (bars_bal x j2 r Hx Hn). reflexivity.
Qed.

Definition okB (o : option (stream * cursor)) : Prop :=
  match o with None => True | Some (_, rest) => starts_pathsep rest = false end.

Lemma okB_pre1 t o : okB (pre1 t o) <-> okB o.
Proof. destruct o as [[s r]|]; reflexivity. Qed.
Lemma okB_pre x o : okB (pre x o) <-> okB o.
Proof. destruct o as [[s r]|]; reflexivity. Qed.

Lemma plain_ok_bar cm t r : plain_ok cm t r = true -> is_p c_bar t = false.
Proof.
  destruct t as [x|ch j|x|d g]; cbn; try reflexivity.
  destruct (ch =? c_bar); [discriminate|reflexivity].
Qed.

Lemma tl_gt_inv cm j r : tl cm (TPunct c_gt j :: r) -> tl cm r.
Proof. intros H. inversion H; subst; assumption. Qed.

(** claim B: started after a lone `<`, the `<`/`>` counter never comes back to zero in front of a `::` *)
Lemma lone_lt_fails_n : forall n r, (length r <= n)%nat -> tl true r -> forall k, okB (bal c_lt c_gt (S k) r).
Proof.
  induction n as [|n IH]; intros r Hn Htl k.
  - destruct r; [exact I|inversion Hn].
  - destruct Htl as [|j j1 y j2 r Hy Hr|j1 y j2 j r Hy Hr|j1 x j2 r Hx Hnb Hr|t r Hp Hr].
    + exact I.
    + rewrite bal_other by sidec. rewrite bal_other by sidec.
      rewrite block_skip by assumption. rewrite !okB_pre1, okB_pre. apply IH; [|assumption].
      cbn [length] in Hn. rewrite app_length in Hn. cbn [length] in Hn. lia.
    + rewrite block_skip by assumption. rewrite okB_pre.
      rewrite bal_other by sidec. rewrite bal_other by sidec.
      rewrite !okB_pre1. apply IH; [|assumption].
      cbn [length] in Hn. rewrite app_length in Hn. cbn [length] in Hn. lia.
    + rewrite bal_other by sidec. rewrite (acontent_skip x Hx).
      rewrite okB_pre1, okB_pre. rewrite bal_other by sidec. rewrite okB_pre1. apply IH; [|assumption].
      cbn [length] in Hn. rewrite app_length in Hn. cbn [length] in Hn. lia.
    + cbn [length] in Hn.
      destruct (arrow_ref (t :: r)) as [[s1 c1]|] eqn:Ea.
      * apply arrow_ref_inv in Ea as (j & E & ->). inversion E; subst t r. rewrite bal_arrow.
        apply tl_gt_inv in Hr. cbn [length] in Hn.
        pose proof (IH c1 ltac:(lia) Hr k) as HB.
        destruct (bal c_lt c_gt (S k) c1) as [[s r']|]; exact HB.
      * destruct (is_p c_gt t) eqn:Egt.
        -- rewrite (bal_noarrow _ _ _ _ _ Ea), Egt. fold (pre1 t (bal c_lt c_gt k r)). rewrite okB_pre1.
           destruct k as [|k]; [|apply IH; [lia|assumption]].
           rewrite bal_zero. cbn [okB]. destruct r as [|t0 r]; [reflexivity|].
           destruct t as [x|ch j|x|d g]; try discriminate. cbn in Egt.
           apply N.eqb_eq in Egt. subst ch. cbn in Hp. apply negb_true_iff in Hp. exact Hp.
        -- destruct (is_p c_lt t) eqn:Elt.
           ++ rewrite (bal_noarrow _ _ _ _ _ Ea), Egt, Elt. fold (pre1 t (bal c_lt c_gt (S (S k)) r)).
              rewrite okB_pre1. apply IH; [lia|assumption].
           ++ rewrite bal_other by sidec. rewrite okB_pre1. apply IH; [lia|assumption].
Qed.

Lemma lone_lt_fails r : tl true r -> forall k, okB (bal c_lt c_gt (S k) r).
Proof. intros H. exact (lone_lt_fails_n (length r) r (le_n _) H). Qed.

Lemma path_sep_ref_head t c : is_p c_colon t = false -> path_sep_ref (t :: c) = None.
Proof.
  destruct t as [x|ch j|x|d g]; try reflexivity. cbn [is_p]. intros H.
  destruct j; [|reflexivity]. destruct c as [|[x|c2 j2|x|d g] c]; try reflexivity.
  cbn [path_sep_ref]. rewrite H. reflexivity.
Qed.

Lemma path_sep_ref_none c : starts_pathsep c = false -> path_sep_ref c = None.
Proof.
  destruct c as [|[x|c1 [] |x|d g] [|[x'|c2 j2|x'|d' g'] c']]; cbn; try reflexivity.
  intros ->. reflexivity.
Qed.

Lemma bp_ref_head o cl t c : is_p o t = false -> balanced_pair_ref o cl (t :: c) = None.
Proof. intros H. unfold balanced_pair_ref. rewrite H. reflexivity. Qed.

(* ---- what expr_alt does on each kind of item *)

Lemma item_turbofish j j1 y j2 r : acontent y ->
  expr_alt_ref (TPunct c_colon true :: TPunct c_colon j :: TPunct c_lt j1 :: y ++ TPunct c_gt j2 :: r)
  = Some (TPunct c_colon true :: TPunct c_colon j :: TPunct c_lt j1 :: y ++ [TPunct c_gt j2], r).
Proof.
  intros Hy. unfold expr_alt_ref, seq2_ref.
  change (path_sep_ref (TPunct c_colon true :: TPunct c_colon j :: ?c))
    with (Some ([TPunct c_colon true; TPunct c_colon j], c)).
  cbn match. rewrite (block_ref j1 y j2 r Hy). reflexivity.
Qed.

Lemma item_qpath j1 y j2 j r : acontent y ->
  expr_alt_ref (TPunct c_lt j1 :: y ++ TPunct c_gt j2 :: TPunct c_colon true :: TPunct c_colon j :: r)
  = Some (TPunct c_lt j1 :: y ++ [TPunct c_gt j2; TPunct c_colon true; TPunct c_colon j], r).
Proof.
  intros Hy. unfold expr_alt_ref, seq2_ref.
  rewrite path_sep_ref_head by reflexivity. cbn [orelse].
  rewrite (block_ref j1 y j2 _ Hy).
  change (path_sep_ref (TPunct c_colon true :: TPunct c_colon j :: r))
    with (Some ([TPunct c_colon true; TPunct c_colon j], r)).
  cbn [orelse]. cbn [app]. rewrite <- app_assoc. reflexivity.
Qed.

Lemma item_bars j1 x j2 r : acontent x -> nobar x ->
  expr_alt_ref (TPunct c_bar j1 :: x ++ TPunct c_bar j2 :: r)
  = Some (TPunct c_bar j1 :: x ++ [TPunct c_bar j2], r).
Proof.
  intros Hx Hn. unfold expr_alt_ref, seq2_ref.
  rewrite path_sep_ref_head by reflexivity.
  rewrite (bp_ref_head c_lt c_gt) by reflexivity. cbn [orelse].
  rewrite (bars_ref j1 x j2 r Hx Hn). reflexivity.
Qed.

Lemma item_plain t r : plain_ok true t r = true -> tl true r ->
  expr_alt_ref (t :: r) = Some ([t], r).
Proof.
  intros Hp Hr. unfold expr_alt_ref.
  (* alternative 1 *)
  assert (H1 : seq2_ref path_sep_ref (balanced_pair_ref c_lt c_gt) (t :: r) = None).
  { unfold seq2_ref. destruct t as [x|ch j|x|d g]; try reflexivity.
    destruct j; [|reflexivity]. destruct r as [|[x|c2 j2|x|d g] r']; try reflexivity.
    cbn [path_sep_ref]. destruct (N.eqb_spec ch c_colon) as [->|]; [|reflexivity].
    destruct (N.eqb_spec c2 c_colon) as [->|]; [|reflexivity]. cbn [andb].
    cbn in Hp. apply negb_true_iff in Hp.
    destruct r' as [|[x|c3 j3|x|d g] r'']; try reflexivity.
    rewrite bp_ref_head; [reflexivity|]. cbn. cbn in Hp. exact Hp. }
  rewrite H1. cbn [orelse].
  (* alternative 2 *)
  assert (H2 : seq2_ref (balanced_pair_ref c_lt c_gt) path_sep_ref (t :: r) = None).
  { unfold seq2_ref, balanced_pair_ref. destruct (is_p c_lt t); [|reflexivity].
    pose proof (lone_lt_fails r Hr 0) as HB.
    destruct (bal c_lt c_gt 1 r) as [[s rest]|]; [|reflexivity].
    cbn [okB] in HB. rewrite (path_sep_ref_none _ HB). reflexivity. }
  rewrite H2. cbn [orelse].
  rewrite bp_ref_head by (eapply plain_ok_bar; eassumption). reflexivity.
Qed.

(* ---- extending one argument by the rest of the list *)

Lemma sp_app a r : stop_shape r -> starts_pathsep (a ++ r) = starts_pathsep a.
Proof.
  intros Hr. destruct a as [|x [|y a]]; [| |reflexivity].
  - destruct Hr as [->|(j & r' & ->)]; [reflexivity|].
    cbn [app]. destruct j; [|reflexivity]. destruct r' as [|[x|c2 j2|x|d g] r']; reflexivity.
  - destruct Hr as [->|(j & r' & ->)]; [reflexivity|].
    cbn [app]. destruct x as [x|c1 j1|x|d g]; try reflexivity. destruct j1; [|reflexivity].
    cbn. now rewrite andb_false_r.
Qed.

Lemma cl_app a r : stop_shape r -> colon_lt_next (a ++ r) = colon_lt_next a.
Proof.
  intros Hr. destruct a as [|x [|y a]]; [| |reflexivity].
  - destruct Hr as [->|(j & r' & ->)]; [reflexivity|].
    cbn [app]. destruct r' as [|[x|c2 j2|x|d g] r']; reflexivity.
  - destruct Hr as [->|(j & r' & ->)]; [reflexivity|].
    cbn [app]. destruct x as [x|c1 j1|x|d g]; try reflexivity.
    cbn. now rewrite andb_false_r.
Qed.

Lemma plain_ok_extend t a r : plain_ok false t a = true -> stop_shape r -> plain_ok true t (a ++ r) = true.
Proof.
  intros H Hr. destruct t as [x|ch j|x|d g]; try reflexivity.
  unfold plain_ok in *. destruct (ch =? c_bar); [discriminate|].
  destruct (ch =? c_comma); [discriminate|].
  destruct (ch =? c_gt); [now rewrite sp_app|].
  destruct ((ch =? c_colon) && j); [now rewrite cl_app|reflexivity].
Qed.

Lemma plain_ok_nocomma t r : plain_ok false t r = true -> is_p c_comma t = false.
Proof.
  destruct t as [x|ch j|x|d g]; try reflexivity. unfold plain_ok, is_p.
  destruct (ch =? c_bar); [discriminate|]. destruct (ch =? c_comma); [discriminate|reflexivity].
Qed.

Lemma tl_extend a : tl false a -> forall r, stop_shape r -> tl true r -> tl true (a ++ r).
Proof.
  induction 1 as [|j j1 y j2 a Hy Ha IH|j1 y j2 j a Hy Ha IH|j1 x j2 a Hx Hnb Ha IH|t a Hp Ha IH];
    intros r Hs Hr.
  - exact Hr.
  - cbn [app]. rewrite <- app_assoc. cbn [app]. constructor; auto.
  - cbn [app]. rewrite <- app_assoc. cbn [app]. constructor; auto.
  - cbn [app]. rewrite <- app_assoc. cbn [app]. constructor; auto.
  - cbn [app]. constructor; auto. now apply plain_ok_extend.
Qed.

Lemma tl_head_nocomma a : tl false a -> match a with [] => True | t :: _ => is_p c_comma t = false end.
Proof.
  destruct 1; try exact I; try reflexivity. eapply plain_ok_nocomma; eassumption.
Qed.

Ltac len := cbn [length app] in *; rewrite ?app_length in *; cbn [length] in *;
            rewrite ?app_length in *; cbn [length] in *; lia.

Lemma scan_step F f out parsed t c item rest :
  (length (t :: c) < F)%nat -> is_p c_comma t = false -> expr_alt_ref (t :: c) = Some (item, rest) ->
  take_until1_loop (S f) (expr_alt F) (punct c_comma) out parsed (t :: c)
  = take_until1_loop f (expr_alt F) (punct c_comma) (out ++ item) true rest.
Proof.
  intros HF Hc He. cbn [take_until1_loop cursor_eof].
  rewrite (punct_eq _ _ ne_comma). cbn [punct_ref]. rewrite Hc. cbn [of_opt].
  rewrite expr_alt_bridge by assumption. rewrite He. reflexivity.
Qed.

(** the scanner consumes exactly one item-structured argument *)
Lemma scan_items F a : tl false a -> forall r f out parsed,
  stop_shape r -> tl true r -> (length (a ++ r) < f)%nat -> (length (a ++ r) < F)%nat ->
  (a <> [] \/ parsed = true) ->
  take_until1_loop f (expr_alt F) (punct c_comma) out parsed (a ++ r) = Ok (out ++ a, r).
Proof.
  induction 1 as [|j j1 y j2 a Hy Ha IH|j1 y j2 j a Hy Ha IH|j1 x j2 a Hx Hnb Ha IH|t a Hp Ha IH];
    intros r f out parsed Hs Hr Hf HF Hne.
  - destruct Hne as [Hne| ->]; [congruence|]. cbn [app] in *. rewrite app_nil_r.
    destruct f; [inversion Hf|]. cbn [take_until1_loop].
    destruct Hs as [->|(j & r' & ->)]; [reflexivity|].
    cbn [cursor_eof]. rewrite (punct_eq _ _ ne_comma). reflexivity.
  - destruct f; [inversion Hf|].
    cbn [app] in *. rewrite <- app_assoc in *. cbn [app] in *.
    erewrite scan_step; [|assumption|reflexivity|apply item_turbofish; assumption].
    rewrite IH; auto.
    + f_equal. f_equal. lnorm. reflexivity.
    + len.
    + len.
  - destruct f; [inversion Hf|].
    cbn [app] in *. rewrite <- app_assoc in *. cbn [app] in *.
    erewrite scan_step; [|assumption|reflexivity|apply item_qpath; assumption].
    rewrite IH; auto.
    + f_equal. f_equal. lnorm. reflexivity.
    + len.
    + len.
  - destruct f; [inversion Hf|].
    cbn [app] in *. rewrite <- app_assoc in *. cbn [app] in *.
    erewrite scan_step; [|assumption|reflexivity|apply item_bars; assumption].
    rewrite IH; auto.
    + f_equal. f_equal. lnorm. reflexivity.
    + len.
    + len.
  - destruct f; [inversion Hf|]. cbn [app] in *.
    erewrite scan_step; [|assumption|eapply plain_ok_nocomma; eassumption|
                          apply item_plain; [now apply plain_ok_extend|now apply tl_extend]].
    rewrite IH; auto.
    + f_equal. f_equal. lnorm. reflexivity.
    + len.
    + len.
Qed.

Lemma tl_false_tail s a : tl false (TIdent s :: a) -> tl false a.
Proof. intros H. inversion H; subst; assumption. Qed.

Lemma expr_parse_garg F a r : garg a -> stop_shape r -> tl true r -> (length (a ++ r) < F)%nat ->
  expr_parse F (a ++ r) = Ok (mk_expr a, r).
Proof.
  intros [Hne Ha] Hs Hr HF.
  assert (Hslow : take_until1 F (expr_alt F) (punct c_comma) (a ++ r) = Ok (a, r)).
  { unfold take_until1. rewrite (scan_items F a Ha r F [] false); auto. }
  unfold expr_parse.
  destruct a as [|t a']; [congruence|].
  destruct t as [s|ch j|x|d g]; cbn [app cursor_ident] in *; try (rewrite Hslow; reflexivity).
  destruct a' as [|t2 a''].
  - cbn [app]. rewrite (stop_shape_check _ Hs). reflexivity.
  - apply tl_false_tail in Ha. apply tl_head_nocomma in Ha.
    cbn [app cursor_eof orb]. rewrite (punct_eq _ _ ne_comma). cbn [punct_ref]. rewrite Ha.
    cbn [of_opt is_ok]. cbn [app] in Hslow. rewrite Hslow. reflexivity.
Qed.

Lemma tl_comma j l : tl true l -> tl true (TPunct c_comma j :: l).
Proof. intros H. apply tl_plain; [reflexivity|exact H]. Qed.

Lemma joined_tl args tr l : joined args tr l -> Forall garg args -> tl true l.
Proof.
  induction 1 as [|a|a j|a j rest tr l Hne Hj IH]; intros HF.
  - constructor.
  - inversion HF as [|x xs [_ Ha] _]; subst. rewrite <- (app_nil_r a).
    apply tl_extend; [assumption|left; reflexivity|constructor].
  - inversion HF as [|x xs [_ Ha] _]; subst.
    apply tl_extend; [assumption|right; eauto|apply tl_comma; constructor].
  - inversion HF as [|x xs [_ Ha] Hrest]; subst.
    apply tl_extend; [assumption|right; eauto|apply tl_comma; auto].
Qed.

(** token-level fragment theorem: item-structured arguments are split exactly *)
Lemma split_joined F args tr l : joined args tr l -> Forall garg args ->
  forall f, (length l < f)%nat -> (length l < F)%nat ->
  parse_terminated_loop f (expr_parse F) l = Ok (List.map mk_expr args, tr).
Proof.
  induction 1 as [|a|a j|a j rest tr l Hne Hj IH]; intros HF f Hf HFl.
  - destruct f; [inversion Hf|]. reflexivity.
  - inversion HF as [|x xs Ha _]; subst.
    destruct f; [inversion Hf|]. cbn [parse_terminated_loop].
    destruct a as [|t a']; [destruct Ha; congruence|]. cbn [cursor_eof].
    assert (E : expr_parse F ((t :: a') ++ []) = Ok (mk_expr (t :: a'), [])).
    { apply expr_parse_garg; auto; [left; reflexivity|constructor|now rewrite app_nil_r]. }
    rewrite app_nil_r in E. rewrite E. reflexivity.
  - inversion HF as [|x xs Ha _]; subst.
    destruct f; [inversion Hf|]. cbn [parse_terminated_loop].
    destruct a as [|t a']; [destruct Ha; congruence|]. cbn [app cursor_eof].
    change (t :: a' ++ [TPunct c_comma j]) with ((t :: a') ++ [TPunct c_comma j]).
    rewrite expr_parse_garg; auto; [|right; eauto|apply tl_comma; constructor].
    cbn [cursor_eof]. change (parse_punct1 c_comma [TPunct c_comma j]) with (Some (@nil tt)).
    cbv iota. destruct f; [cbn [length] in Hf; rewrite app_length in Hf; cbn in Hf; lia|]. reflexivity.
  - inversion HF as [|x xs Ha Hrest]; subst.
    destruct f; [inversion Hf|]. cbn [parse_terminated_loop].
    destruct a as [|t a']; [destruct Ha; congruence|]. cbn [app cursor_eof].
    change (t :: a' ++ TPunct c_comma j :: l) with ((t :: a') ++ TPunct c_comma j :: l).
    rewrite expr_parse_garg; auto;
      [|right; eauto|apply tl_comma; eapply joined_tl; eassumption].
    cbn [cursor_eof]. change (parse_punct1 c_comma (TPunct c_comma j :: l)) with (Some l).
    rewrite app_length in Hf, HFl. cbn [length] in Hf, HFl.
    cbv iota. rewrite (IH Hrest f) by lia.
    destruct rest as [|r1 rest]; [congruence|]. reflexivity.
Qed.

Lemma fragment_tokens args tr l : joined args tr l -> Forall garg args ->
  split_args l = Ok (List.map mk_expr args, tr).
Proof.
  intros Hj HF. unfold split_args, split_args_fuel. eapply split_joined; eauto.
Qed.

Lemma joined_join_comma args : args <> [] -> joined args false (join_comma args).
Proof.
  induction args as [|a rest IH]; [congruence|]. intros _.
  destruct rest as [|b rest].
  - cbn. rewrite app_nil_r. constructor.
  - change (join_comma (a :: b :: rest)) with (a ++ comma_alone :: join_comma (b :: rest)).
    constructor; [discriminate|]. apply IH. discriminate.
Qed.

Lemma joined_join_comma_trailing args : args <> [] -> joined args true (join_comma args ++ [comma_alone]).
Proof.
  induction args as [|a rest IH]; [congruence|]. intros _.
  destruct rest as [|b rest].
  - cbn. rewrite app_nil_r. constructor.
  - change (join_comma (a :: b :: rest)) with (a ++ comma_alone :: join_comma (b :: rest)).
    rewrite <- app_assoc. cbn [app]. constructor; [discriminate|]. apply IH. discriminate.
Qed.

(* ================================================================== 5. the expression fragment G *)

Definition nocolon_head (k : list tt) : Prop :=
  match k with t :: _ => is_p c_colon t = false | [] => True end.

Definition Q (k : list tt) : Prop := tl false k /\ nocolon_head k.

Lemma Q_nil : Q [].
Proof. split; [constructor|exact I]. Qed.

Lemma nocolon_sp k : nocolon_head k -> starts_pathsep k = false.
Proof.
  destruct k as [|[x|ch j|x|d g] k]; try reflexivity. cbn. intros H.
  destruct j; [|reflexivity]. destruct k as [|[x|c2 j2|x|d g] k]; try reflexivity. now rewrite H.
Qed.

Lemma simple_nocolon t : simple t = true -> is_p c_colon t = false.
Proof.
  destruct t as [x|ch j|x|d g]; try reflexivity. cbn. intros H.
  apply negb_true_iff in H. apply orb_false_iff in H as [_ H]. exact H.
Qed.

Lemma Q_simple t k : simple t = true -> Q k -> Q (t :: k).
Proof.
  intros Hs [Hk Hh]. split; [|now apply simple_nocolon].
  apply tl_plain; [|exact Hk].
  destruct t as [x|ch j|x|d g]; try reflexivity. cbn in Hs |- *.
  apply negb_true_iff in Hs. apply orb_false_iff in Hs as [Hs Hc].
  apply orb_false_iff in Hs as [Hcm Hb]. rewrite Hb, Hcm, Hc. cbn [andb].
  destruct (ch =? c_gt); [|reflexivity]. now rewrite nocolon_sp.
Qed.

Lemma Q_simples ts k : simple_toks ts -> Q k -> Q (ts ++ k).
Proof. induction 1; intros HQ; cbn [app]; [assumption|]. apply Q_simple; auto. Qed.

Lemma simple_idents kws : simple_toks (List.map TIdent kws).
Proof. induction kws; constructor; auto. Qed.

Lemma pieces_tl ps k : Forall wf_piece ps -> Q k -> tl false (List.concat (List.map print_piece ps) ++ k).
Proof.
  induction 1 as [|p ps Hp Hps IH]; intros HQ; [exact (proj1 HQ)|].
  cbn [List.map List.concat]. rewrite <- app_assoc. destruct p as [s|args]; cbn [print_piece path_sep_tokens app].
  - apply tl_plain; [reflexivity|]. apply tl_plain; [reflexivity|]. apply tl_plain; [reflexivity|]. auto.
  - rewrite <- app_assoc. cbn [app]. apply tl_turbofish; auto.
Qed.

Lemma ident_pieces_Q s ps k : Forall wf_piece ps -> Q k ->
  Q (TIdent s :: List.concat (List.map print_piece ps) ++ k).
Proof.
  intros Hps HQ. split; [|reflexivity]. apply tl_plain; [reflexivity|]. now apply pieces_tl.
Qed.

Lemma path_Q p k : wf_path p -> Q k -> Q (print_path p ++ k).
Proof. intros Hp HQ. unfold print_path. cbn [app]. now apply ident_pieces_Q. Qed.

Lemma Q_bars j1 x j2 k : acontent x -> nobar x -> Q k -> Q (TPunct c_bar j1 :: x ++ TPunct c_bar j2 :: k).
Proof. intros Hx Hn [Hk _]. split; [|reflexivity]. now apply tl_bars. Qed.

Lemma print_Q e : wf e -> forall k, Q k -> Q (print e ++ k).
Proof.
  induction e as
    [s|p|q s rest|d ts|kws body|k0|k0 e IH|p d ts|p fields|f IH args|r IH name tf args|e IH m|e IH idx
    |e IH|e IH|op e IH|l IHl op r IHr|l IHl r IHr|e IH ty|op|lo IH op|op hi IH|lo IHl op hi IHh
    |kws params body IH|c IHc th|c IHc th el IHe|sc IH arms|c IH body];
    cbn [wf print]; intros Hwf k HQ.
  - now apply Q_simple.
  - now apply path_Q.
  - destruct Hwf as [Hq Hrest]. cbn [app path_sep_tokens]. rewrite <- app_assoc. cbn [app].
    split; [|reflexivity]. apply tl_qpath; [assumption|].
    apply ident_pieces_Q; auto.
  - now apply Q_simple.
  - rewrite <- app_assoc. apply Q_simples; [apply simple_idents|]. now apply Q_simple.
  - now apply Q_simple.
  - cbn [app]. apply Q_simple; [reflexivity|]. apply IH; auto.
  - rewrite <- app_assoc. apply path_Q; [assumption|]. cbn [app]. repeat apply Q_simple; auto.
  - rewrite <- app_assoc. apply path_Q; [assumption|]. cbn [app]. now apply Q_simple.
  - rewrite <- app_assoc. apply IH; [assumption|]. cbn [app]. now apply Q_simple.
  - destruct Hwf as [Hr Htf]. rewrite <- app_assoc. apply IH; [assumption|]. cbn [app].
    apply Q_simple; [reflexivity|]. rewrite <- app_assoc.
    destruct tf as [a|]; cbn [print_opt].
    + replace (print_piece (PArgs a) ++ [TGroup Paren args] ++ k)
        with (List.concat (List.map print_piece [PArgs a]) ++ TGroup Paren args :: k)
        by (cbn [List.map List.concat]; now rewrite app_nil_r).
      apply ident_pieces_Q; [repeat constructor; exact Htf|]. now apply Q_simple.
    + cbn [app]. apply Q_simple; [reflexivity|]. now apply Q_simple.
  - destruct Hwf as [He Hm]. rewrite <- app_assoc. apply IH; [assumption|]. cbn [app].
    repeat apply Q_simple; auto.
  - rewrite <- app_assoc. apply IH; [assumption|]. cbn [app]. now apply Q_simple.
  - rewrite <- app_assoc. apply IH; [assumption|]. cbn [app]. now apply Q_simple.
  - rewrite <- app_assoc. apply IH; [assumption|]. cbn [app]. repeat apply Q_simple; auto.
  - destruct Hwf as [Hop He]. rewrite <- app_assoc. apply Q_simples; auto.
  - destruct Hwf as (Hl & Hop & Hr). rewrite <- !app_assoc. apply IHl; [assumption|].
    apply Q_simples; auto.
  - destruct Hwf as [Hl Hr]. rewrite <- app_assoc. apply IHl; [assumption|]. cbn [app].
    change (TPunct c_bar true :: TPunct c_bar false :: print r ++ k)
      with (TPunct c_bar true :: [] ++ TPunct c_bar false :: print r ++ k).
    apply Q_bars; [constructor|constructor|]. now apply IHr.
  - destruct Hwf as [He Hty]. rewrite <- app_assoc. apply IH; [assumption|]. cbn [app].
    apply Q_simple; [reflexivity|]. now apply path_Q.
  - destruct Hwf as [Hop _]. now apply Q_simples.
  - destruct Hwf as [Hlo Hop]. rewrite <- app_assoc. apply IH; [assumption|]. now apply Q_simples.
  - destruct Hwf as [Hop Hhi]. rewrite <- app_assoc. apply Q_simples; auto.
  - destruct Hwf as (Hl & Hop & Hh). rewrite <- !app_assoc. apply IHl; [assumption|].
    apply Q_simples; auto.
  - destruct Hwf as (Hp & Hn & Hb). rewrite <- app_assoc. apply Q_simples; [apply simple_idents|].
    cbn [app]. rewrite <- app_assoc. cbn [app]. apply Q_bars; auto.
  - cbn [app]. apply Q_simple; [reflexivity|]. rewrite <- app_assoc.
    apply IHc; [assumption|]. cbn [app]. now apply Q_simple.
  - destruct Hwf as [Hc Hel]. cbn [app]. apply Q_simple; [reflexivity|]. rewrite <- app_assoc.
    apply IHc; [assumption|]. cbn [app]. apply Q_simple; [reflexivity|].
    apply Q_simple; [reflexivity|]. now apply IHe.
  - cbn [app]. apply Q_simple; [reflexivity|]. rewrite <- app_assoc. apply IH; [assumption|].
    cbn [app]. now apply Q_simple.
  - cbn [app]. apply Q_simple; [reflexivity|]. rewrite <- app_assoc. apply IH; [assumption|].
    cbn [app]. now apply Q_simple.
Qed.

Lemma app_ne_l {A} (a b : list A) : a <> [] -> a ++ b <> [].
Proof. destruct a; [congruence|discriminate]. Qed.
Lemma app_ne_r {A} (a b : list A) : b <> [] -> a ++ b <> [].
Proof. destruct a; [trivial|discriminate]. Qed.

Lemma print_nonempty e : wf e -> print e <> [].
Proof.
  induction e; cbn [wf print]; intros Hwf; try discriminate;
    try (apply app_ne_r; discriminate).
  - apply app_ne_r. apply IHe. tauto.
  - apply app_ne_r. apply app_ne_r. apply IHe2. tauto.
  - tauto.
  - apply app_ne_l. apply IHe. tauto.
  - apply app_ne_r. apply IHe. tauto.
  - apply app_ne_l. apply IHe1. tauto.
Qed.

Lemma print_garg e : wf e -> garg (print e).
Proof.
  intros Hwf. split; [now apply print_nonempty|].
  rewrite <- (app_nil_r (print e)). apply (print_Q e Hwf [] Q_nil).
Qed.

Lemma fragment_G (es : list gexpr) : es <> [] -> Forall wf es ->
  split_args (join_comma (List.map print es)) = Ok (List.map (fun e => mk_expr (print e)) es, false)
  /\ split_args (join_comma (List.map print es) ++ [comma_alone])
     = Ok (List.map (fun e => mk_expr (print e)) es, true).
Proof.
  intros Hne Hwf.
  assert (Hg : Forall garg (List.map print es)).
  { clear Hne. induction Hwf; constructor; auto using print_garg. }
  assert (Hne' : List.map print es <> []) by (destruct es; [congruence|discriminate]).
  rewrite <- (map_map print mk_expr).
  split; apply fragment_tokens with (args := List.map print es); auto.
  - now apply joined_join_comma.
  - now apply joined_join_comma_trailing.
Qed.

(* ================================================================== 5b. characterisation: scanner = grammar-level splitter
   on every token list without a limit-class step *)

Lemma ea_turbo c x : turbofish_ref c = Some x -> expr_alt_ref c = Some x.
Proof. unfold expr_alt_ref, turbofish_ref. intros ->. reflexivity. Qed.

Lemma ea_qpath c x : turbofish_ref c = None -> qpath_ref c = Some x -> expr_alt_ref c = Some x.
Proof. unfold expr_alt_ref, turbofish_ref, qpath_ref. intros -> ->. reflexivity. Qed.

Lemma ea_bars c x : turbofish_ref c = None -> qpath_ref c = None -> bars_ref_ c = Some x -> expr_alt_ref c = Some x.
Proof. unfold expr_alt_ref, turbofish_ref, qpath_ref, bars_ref_. intros -> -> ->. reflexivity. Qed.

Lemma ea_plain t r : turbofish_ref (t :: r) = None -> qpath_ref (t :: r) = None -> bars_ref_ (t :: r) = None ->
  expr_alt_ref (t :: r) = Some ([t], r).
Proof. unfold expr_alt_ref, turbofish_ref, qpath_ref, bars_ref_. intros -> -> ->. reflexivity. Qed.

Lemma qpath_head t r : is_p c_lt t = false -> qpath_ref (t :: r) = None.
Proof. intros H. unfold qpath_ref, seq2_ref. now rewrite bp_ref_head. Qed.

Lemma bars_head t r : is_p c_bar t = false -> bars_ref_ (t :: r) = None.
Proof. intros H. unfold bars_ref_. now rewrite bp_ref_head. Qed.

Lemma is_p_excl a b t : is_p a t = true -> a <> b -> is_p b t = false.
Proof.
  destruct t as [x|ch j|x|d g]; cbn; try discriminate. intros H Hab.
  apply N.eqb_eq in H. subst ch. now apply N.eqb_neq.
Qed.

Lemma type_tok_nobar t : type_tok t = true -> is_p c_bar t = false.
Proof.
  destruct t as [x|ch j|x|d g]; cbn; try reflexivity.
  destruct (N.eqb_spec ch c_bar) as [->|]; [discriminate|reflexivity].
Qed.

Lemma lt_ne_bar : c_lt <> c_bar. Proof. discriminate. Qed.
Lemma gt_ne_bar : c_gt <> c_bar. Proof. discriminate. Qed.
Lemma gt_ne_lt : c_gt <> c_lt. Proof. discriminate. Qed.
Lemma bar_ne_lt : c_bar <> c_lt. Proof. discriminate. Qed.

Lemma oror_unit j t2 r2 : is_p c_bar t2 = true ->
  bars_ref_ (TPunct c_bar j :: t2 :: r2) = Some ([TPunct c_bar j; t2], r2).
Proof.
  intros H. unfold bars_ref_, balanced_pair_ref. change (is_p c_bar (TPunct c_bar j)) with true. cbn match.
  rewrite bal_close; [rewrite bal_zero; reflexivity|assumption|].
  destruct t2 as [x|ch j2|x|d g]; try reflexivity. cbn in H. apply N.eqb_eq in H. subst ch.
  destruct j2; reflexivity.
Qed.

Lemma op_agree sec t r u r' st' : turbofish_ref (t :: r) = None ->
  operator_step sec t r = (u, r', st', true) -> expr_alt_ref (t :: r) = Some (u, r').
Proof.
  intros Ht. unfold operator_step.
  destruct (is_p c_lt t) eqn:Elt.
  - destruct (qpath_ref (t :: r)) eqn:Eq; cbn [is_some negb]; intros H; inversion H; subst.
    apply ea_plain; auto. apply bars_head. eapply is_p_excl; [eassumption|exact lt_ne_bar].
  - destruct (is_p c_bar t) eqn:Ebar.
    + assert (Hq : qpath_ref (t :: r) = None) by (now apply qpath_head).
      assert (Hplain : ([t], r, POperand, negb (is_some (bars_ref_ (t :: r)))) = (u, r', st', true) ->
                       expr_alt_ref (t :: r) = Some (u, r')).
      { destruct (bars_ref_ (t :: r)) eqn:Eb; cbn [is_some negb]; intros H; inversion H; subst.
        now apply ea_plain. }
      destruct t as [x|ch j|x|d g]; try discriminate. destruct j.
      * destruct r as [|t2 r2]; [exact Hplain|].
        destruct (is_p c_bar t2) eqn:E2; [|exact Hplain].
        intros H; inversion H; subst. cbn in Ebar. apply N.eqb_eq in Ebar. subst ch.
        apply ea_bars; auto. now apply oror_unit.
      * exact Hplain.
    + intros H; inversion H; subst. apply ea_plain; auto using qpath_head, bars_head.
Qed.

Lemma step_agree st c u r' st' : spec_step st c = Some (u, r', st', true) -> expr_alt_ref c = Some (u, r').
Proof.
  unfold spec_step. destruct c as [|t r]; [discriminate|].
  destruct (turbofish_ref (t :: r)) as [[u0 r0]|] eqn:Et.
  - intros H; inversion H; subst. now apply ea_turbo.
  - destruct (is_type_pos st) eqn:Ety.
    + destruct (is_p c_lt t) eqn:Elt.
      * destruct (balanced_pair_ref c_lt c_gt (t :: r)) as [[u1 r1]|] eqn:Eb; [discriminate|].
        intros H; inversion H; subst. apply ea_plain; auto.
        -- unfold qpath_ref, seq2_ref. now rewrite Eb.
        -- apply bars_head. eapply is_p_excl; [eassumption|exact lt_ne_bar].
      * destruct (match st with PTMinus => is_p c_gt t | _ => false end) eqn:Egt.
        -- intros H; inversion H; subst. apply ea_plain; auto using qpath_head.
           apply bars_head. destruct st; try discriminate. eapply is_p_excl; [eassumption|exact gt_ne_bar].
        -- destruct (type_tok t) eqn:Ett.
           ++ intros H; inversion H; subst. apply ea_plain; auto using qpath_head, bars_head, type_tok_nobar.
           ++ intros H; inversion H as [H1]. eapply op_agree; eassumption.
    + assert (Hop : forall sec, Some (operator_step sec t r) = Some (u, r', st', true) -> expr_alt_ref (t :: r) = Some (u, r')).
      { intros sec H; inversion H as [H1]. eapply op_agree; eassumption. }
      assert (Hrest :
        (if is_p c_lt t
         then match qpath_ref (t :: r) with Some (u, r') => Some (u, r', POperand, true) | None => Some ([t], r, POperand, true) end
         else if is_p c_bar t
              then match bars_ref_ (t :: r) with Some (u, r') => Some (u, r', POperand, true) | None => Some ([t], r, POperand, true) end
              else match t, balanced_pair_ref c_lt c_gt r with
                   | TIdent s, Some (u, r') =>
                       if str_eqb s kw_for then Some (t :: u, r', POperand, false) else Some ([t], r, after_tok t, true)
                   | _, _ => Some ([t], r, after_tok t, true)
                   end) = Some (u, r', st', true) -> expr_alt_ref (t :: r) = Some (u, r')).
      { destruct (is_p c_lt t) eqn:Elt.
        - destruct (qpath_ref (t :: r)) as [[u1 r1]|] eqn:Eq; intros H; inversion H; subst.
          + now apply ea_qpath.
          + apply ea_plain; auto. apply bars_head. eapply is_p_excl; [eassumption|exact lt_ne_bar].
        - destruct (is_p c_bar t) eqn:Ebar.
          + destruct (bars_ref_ (t :: r)) as [[u1 r1]|] eqn:Eb; intros H; inversion H; subst.
            * apply ea_bars; auto using qpath_head.
            * apply ea_plain; auto using qpath_head.
          + assert (Hp : Some ([t], r, after_tok t, true) = Some (u, r', st', true) -> expr_alt_ref (t :: r) = Some (u, r')).
            { intros H; inversion H; subst. apply ea_plain; auto using qpath_head, bars_head. }
            destruct t as [x|ch j|x|d g]; try exact Hp.
            destruct (balanced_pair_ref c_lt c_gt r) as [[u1 r1]|]; [|exact Hp].
            destruct (str_eqb x kw_for); [discriminate|exact Hp]. }
      assert (Hplain : Some ([t], r, POperand, true) = Some (u, r', st', true) ->
                       is_p c_lt t = false -> is_p c_bar t = false -> expr_alt_ref (t :: r) = Some (u, r')).
      { intros H H1 H2; inversion H; subst. apply ea_plain; auto using qpath_head, bars_head. }
      destruct st; try discriminate Ety; try exact (Hop _).
      * (* POperand *) exact Hrest.
      * (* PMinus *)
        destruct (is_p c_gt t) eqn:Egt; [|exact Hrest].
        intros H; inversion H; subst. apply ea_plain; auto.
        -- apply qpath_head. eapply is_p_excl; [eassumption|exact gt_ne_lt].
        -- apply bars_head. eapply is_p_excl; [eassumption|exact gt_ne_bar].
      * (* PHash *)
        destruct t as [x|ch j|x|d g]; try exact Hrest. intros H. now apply Hplain.
      * (* PTick *)
        destruct t as [x|ch j|x|d g]; try exact Hrest. intros H. now apply Hplain.
Qed.

Lemma spec_step_some st t r : spec_step st (t :: r) <> None.
Proof.
  unfold spec_step.
  destruct (turbofish_ref (t :: r)) as [[u0 r0]|]; [discriminate|].
  destruct (is_type_pos st).
  - destruct (is_p c_lt t); [destruct (balanced_pair_ref c_lt c_gt (t :: r)) as [[? ?]|]; discriminate|].
    destruct (match st with PTMinus => is_p c_gt t | _ => false end); [discriminate|].
    destruct (type_tok t); discriminate.
  - assert (Hrest : forall X Y : option (stream * cursor * pos * bool),
             X <> None -> Y <> None -> forall b : bool, (if b then X else Y) <> None) by (intros X Y ? ? []; assumption).
    assert (H1 : (if is_p c_lt t
         then match qpath_ref (t :: r) with Some (u, r') => Some (u, r', POperand, true) | None => Some ([t], r, POperand, true) end
         else if is_p c_bar t
              then match bars_ref_ (t :: r) with Some (u, r') => Some (u, r', POperand, true) | None => Some ([t], r, POperand, true) end
              else match t, balanced_pair_ref c_lt c_gt r with
                   | TIdent s, Some (u, r') =>
                       if str_eqb s kw_for then Some (t :: u, r', POperand, false) else Some ([t], r, after_tok t, true)
                   | _, _ => Some ([t], r, after_tok t, true)
                   end) <> None).
    { destruct (is_p c_lt t); [destruct (qpath_ref (t :: r)) as [[? ?]|]; discriminate|].
      destruct (is_p c_bar t); [destruct (bars_ref_ (t :: r)) as [[? ?]|]; discriminate|].
      destruct t; try discriminate. destruct (balanced_pair_ref c_lt c_gt r) as [[? ?]|]; [|discriminate].
      destruct (str_eqb s kw_for); discriminate. }
    destruct st; try discriminate; try exact H1.
    + destruct (is_p c_gt t); [discriminate|exact H1].
    + destruct t; try exact H1; discriminate.
    + destruct t; try exact H1; discriminate.
Qed.

Lemma arg_agree F : forall f st out parsed c, (length c < F)%nat ->
  match spec_arg_loop f st out parsed c with
  | SOk (s, r) true => take_until1_loop f (expr_alt F) (punct c_comma) out parsed c = Ok (s, r)
  | SFail true => take_until1_loop f (expr_alt F) (punct c_comma) out parsed c = Fail
  | _ => True
  end.
Proof.
  induction f as [|f IH]; intros st out parsed c HF; [exact I|].
  cbn [spec_arg_loop take_until1_loop]. destruct c as [|t r].
  - cbn [cursor_eof]. destruct parsed; reflexivity.
  - cbn [cursor_eof]. rewrite (punct_eq _ _ ne_comma). cbn [punct_ref].
    destruct (is_p c_comma t) eqn:Ec; cbn [of_opt]; [destruct parsed; reflexivity|].
    destruct (spec_step st (t :: r)) as [[[[u r1] st'] ok]|] eqn:Es; [|now apply spec_step_some in Es].
    destruct ok.
    + apply step_agree in Es. rewrite expr_alt_bridge by assumption. rewrite Es. cbn [of_opt].
      pose proof (expr_alt_ref_lossless _ _ _ Es) as [Hc Hu].
      assert (Hl : (length r1 < F)%nat).
      { rewrite Hc, app_length in HF. lia. }
      specialize (IH st' (out ++ u) true r1 Hl). cbn [andb].
      destruct (spec_arg_loop f st' (out ++ u) true r1) as [[s r2] [|]|[|]|]; auto.
    + cbn [andb]. destruct (spec_arg_loop f st' (out ++ u) true r1) as [[s r2] ok2|ok2|]; exact I.
Qed.

Lemma fast_tu F s r : stop_shape r -> (length (TIdent s :: r) < F)%nat ->
  take_until1 F (expr_alt F) (punct c_comma) (TIdent s :: r) = Ok ([TIdent s], r).
Proof.
  intros Hr HF. unfold take_until1. destruct F as [|[|F]]; [inversion HF|cbn in HF; lia|].
  assert (He : expr_alt_ref (TIdent s :: r) = Some ([TIdent s], r)).
  { apply ea_plain; [|now apply qpath_head|now apply bars_head].
    unfold turbofish_ref, seq2_ref. now rewrite path_sep_ref_head. }
  rewrite (scan_step (S (S F)) (S F) [] false (TIdent s) r [TIdent s] r HF eq_refl He).
  cbn [app take_until1_loop]. destruct Hr as [->|(j & r' & ->)]; [reflexivity|].
  cbn [cursor_eof]. rewrite (punct_eq _ _ ne_comma). reflexivity.
Qed.

Lemma expr_parse_of_slow F c a r : (length c < F)%nat ->
  take_until1 F (expr_alt F) (punct c_comma) c = Ok (a, r) -> expr_parse F c = Ok (mk_expr a, r).
Proof.
  intros HF Hs. unfold expr_parse.
  destruct (match cursor_ident c with
            | Some (s, r0) => if cursor_eof r0 || is_ok (punct c_comma r0) then Some (s, r0) else None
            | None => None end) as [[s r0]|] eqn:Efast.
  - destruct c as [|[x|ch j|x|d g] c']; cbn [cursor_ident] in Efast; try discriminate.
    destruct (cursor_eof c' || is_ok (punct c_comma c')) eqn:Ef; [|discriminate].
    inversion Efast; subst x c'. apply check_stop_shape in Ef.
    rewrite (fast_tu F s r0 Ef HF) in Hs. inversion Hs; subst. reflexivity.
  - rewrite Hs. destruct a as [|t0 a']; [reflexivity|]. destruct t0 as [s0|ch j|x|d g]; try reflexivity.
    destruct a' as [|t1 a']; [|reflexivity].
    exfalso. unfold take_until1 in Hs.
    destruct (tu_spec F F [] false c HF HF) as [(s1 & r1 & E & Hc & _ & Hr)|E]; rewrite E in Hs; [|discriminate].
    cbn [app] in Hs. inversion Hs; subst s1 r1. subst c. cbn [app cursor_ident] in Efast.
    rewrite (stop_shape_check _ Hr) in Efast. discriminate.
Qed.

Lemma expr_parse_of_slow_fail F c : (length c < F)%nat ->
  take_until1 F (expr_alt F) (punct c_comma) c = Fail -> expr_parse F c = Fail.
Proof.
  intros HF Hs. unfold expr_parse.
  destruct (match cursor_ident c with
            | Some (s, r0) => if cursor_eof r0 || is_ok (punct c_comma r0) then Some (s, r0) else None
            | None => None end) as [[s r0]|] eqn:Efast; [|now rewrite Hs].
  destruct c as [|[x|ch j|x|d g] c']; cbn [cursor_ident] in Efast; try discriminate.
  destruct (cursor_eof c' || is_ok (punct c_comma c')) eqn:Ef; [|discriminate].
  apply check_stop_shape in Ef. rewrite (fast_tu F x c' Ef HF) in Hs. discriminate.
Qed.

Lemma split_agree F : forall f c, (length c < f)%nat -> (length c < F)%nat ->
  match spec_split_loop f c with
  | SOk (args, tr) true => parse_terminated_loop f (expr_parse F) c = Ok (List.map mk_expr args, tr)
  | SFail true => parse_terminated_loop f (expr_parse F) c = Fail
  | _ => True
  end.
Proof.
  induction f as [|f IH]; intros c Hf HF; [inversion Hf|].
  cbn [spec_split_loop parse_terminated_loop]. destruct c as [|t c']; [reflexivity|].
  cbn [cursor_eof].
  pose proof (arg_agree F (S f) POperand [] false (t :: c') HF) as Ha.
  destruct (spec_arg_loop (S f) POperand [] false (t :: c')) as [[a c1] ok|ok|]; [| |exact I].
  - destruct ok.
    2:{ destruct c1 as [|t1 c1']; [exact I|]. destruct (parse_punct1 c_comma (t1 :: c1')) as [c2|]; [|exact I].
        cbn [andb]. destruct (spec_split_loop f c2) as [[vs tr] ok2|ok2|]; exact I. }
    rewrite (tu_fuel_independent F F (S f) F [] false (t :: c')) in Ha by assumption.
    pose proof Ha as Ha2. unfold take_until1 in *.
    destruct (tu_spec F F [] false (t :: c') HF HF) as [(s0 & r0 & E & Hc & _ & Hr)|E]; rewrite E in Ha2; [|discriminate].
    cbn [app] in Ha2. inversion Ha2; subst s0 r0. clear Ha2 E.
    rewrite (expr_parse_of_slow F (t :: c') a c1 HF Ha).
    destruct c1 as [|t1 c1']; [reflexivity|]. cbn [cursor_eof].
    destruct (parse_punct1 c_comma (t1 :: c1')) as [c2|] eqn:Ep; [|reflexivity].
    apply parse_punct1_inv in Ep as [j Ep]. inversion Ep; subst t1 c1'.
    assert (Hl : (length c2 < length (t :: c'))%nat).
    { rewrite Hc, app_length. cbn [length]. lia. }
    specialize (IH c2 ltac:(lia) ltac:(lia)). cbn [andb].
    destruct (spec_split_loop f c2) as [[vs tr] [|]|[|]|]; auto.
    + rewrite IH. destruct vs; reflexivity.
    + rewrite IH. reflexivity.
  - destruct ok; [|exact I].
    rewrite (tu_fuel_independent F F (S f) F [] false (t :: c')) in Ha by assumption.
    now rewrite (expr_parse_of_slow_fail F (t :: c') HF Ha).
Qed.

(** the characterisation theorem *)
Lemma characterisation ts : limit_free ts = true -> split_args ts = spec_result ts.
Proof.
  unfold limit_free, spec_result, split_args, split_args_fuel, spec_split. intros H.
  pose proof (split_agree (S (length ts)) (S (length ts)) ts (Nat.lt_succ_diag_r _) (Nat.lt_succ_diag_r _)) as Ha.
  destruct (spec_split_loop (S (length ts)) ts) as [[args tr] ok|ok|]; subst; try discriminate; exact Ha.
Qed.

(* ---- the spec splitter is total *)

Lemma op_lossless sec t r u r' st' ok : operator_step sec t r = (u, r', st', ok) -> t :: r = u ++ r' /\ u <> [].
Proof.
  unfold operator_step. destruct (is_p c_lt t); [intros H; inversion H; subst; split; [reflexivity|discriminate]|].
  destruct (is_p c_bar t).
  - destruct t as [x|ch j|x|d g]; try (intros H; inversion H; subst; split; [reflexivity|discriminate]).
    destruct j; [|intros H; inversion H; subst; split; [reflexivity|discriminate]].
    destruct r as [|t2 r2]; [intros H; inversion H; subst; split; [reflexivity|discriminate]|].
    destruct (is_p c_bar t2); intros H; inversion H; subst; split; try reflexivity; discriminate.
  - intros H; inversion H; subst; split; [reflexivity|discriminate].
Qed.

Lemma spec_step_lossless st c u r' st' ok : spec_step st c = Some (u, r', st', ok) -> c = u ++ r' /\ u <> [].
Proof.
  destruct ok; [intros H; apply step_agree in H; now apply expr_alt_ref_lossless|].
  unfold spec_step. destruct c as [|t r]; [discriminate|].
  destruct (turbofish_ref (t :: r)) as [[u0 r0]|] eqn:Et; [discriminate|].
  assert (Hop : forall sec, Some (operator_step sec t r) = Some (u, r', st', false) -> t :: r = u ++ r' /\ u <> []).
  { intros sec H; inversion H as [H1]. eapply op_lossless; eassumption. }
  destruct (is_type_pos st).
  - destruct (is_p c_lt t).
    + destruct (balanced_pair_ref c_lt c_gt (t :: r)) as [[u1 r1]|] eqn:Eb; [|discriminate].
      intros H; inversion H; subst. now apply bp_ref_lossless in Eb.
    + destruct (match st with PTMinus => is_p c_gt t | _ => false end); [discriminate|].
      destruct (type_tok t); [discriminate|exact (Hop _)].
  - assert (Hrest :
        (if is_p c_lt t
         then match qpath_ref (t :: r) with Some (u, r') => Some (u, r', POperand, true) | None => Some ([t], r, POperand, true) end
         else if is_p c_bar t
              then match bars_ref_ (t :: r) with Some (u, r') => Some (u, r', POperand, true) | None => Some ([t], r, POperand, true) end
              else match t, balanced_pair_ref c_lt c_gt r with
                   | TIdent s, Some (u, r') =>
                       if str_eqb s kw_for then Some (t :: u, r', POperand, false) else Some ([t], r, after_tok t, true)
                   | _, _ => Some ([t], r, after_tok t, true)
                   end) = Some (u, r', st', false) -> t :: r = u ++ r' /\ u <> []).
    { destruct (is_p c_lt t); [destruct (qpath_ref (t :: r)) as [[? ?]|]; discriminate|].
      destruct (is_p c_bar t); [destruct (bars_ref_ (t :: r)) as [[? ?]|]; discriminate|].
      destruct t as [x|ch j|x|d g]; try discriminate.
      destruct (balanced_pair_ref c_lt c_gt r) as [[u1 r1]|] eqn:Eb; [|discriminate].
      destruct (str_eqb x kw_for); [|discriminate].
      intros H; inversion H; subst. apply bp_ref_lossless in Eb as [-> _]. split; [reflexivity|discriminate]. }
    destruct st; try discriminate; try exact (Hop _); try exact Hrest.
    + destruct (is_p c_gt t); [discriminate|exact Hrest].
    + destruct t; try exact Hrest; discriminate.
    + destruct t; try exact Hrest; discriminate.
Qed.

Lemma spec_arg_total : forall f st out parsed c, (length c < f)%nat ->
  spec_arg_loop f st out parsed c <> SFuel /\
  forall s r ok, spec_arg_loop f st out parsed c = SOk (s, r) ok ->
    (length r <= length c)%nat /\ (parsed = false -> (length r < length c)%nat).
Proof.
  induction f as [|f IH]; intros st out parsed c Hf; [inversion Hf|].
  cbn [spec_arg_loop]. destruct c as [|t r0].
  - destruct parsed; split; try discriminate; intros s r ok H; inversion H; subst; split; [lia|discriminate].
  - destruct (is_p c_comma t).
    + destruct parsed; split; try discriminate; intros s r ok H; inversion H; subst; split; [lia|discriminate].
    + destruct (spec_step st (t :: r0)) as [[[[u r1] st'] ok1]|] eqn:Es; [|split; [discriminate|intros ? ? ? H; discriminate]].
      apply spec_step_lossless in Es as [Hc Hu].
      assert (Hl : (length r1 < length (t :: r0))%nat).
      { rewrite Hc, app_length. destruct u; [congruence|cbn; lia]. }
      destruct (IH st' (out ++ u) true r1) as [Hnf Hle]; [cbn [length] in *; lia|].
      destruct (spec_arg_loop f st' (out ++ u) true r1) as [[s2 r2] ok2|ok2|] eqn:Er; [| |congruence].
      * split; [discriminate|]. intros s r ok H; inversion H; subst.
        destruct (Hle s r ok2 eq_refl) as [Hle1 _]. split; intros; lia.
      * split; [discriminate|]. intros ? ? ? H; discriminate.
Qed.

Lemma spec_split_total : forall f c, (length c < f)%nat -> spec_split_loop f c <> SFuel.
Proof.
  induction f as [|f IH]; intros c Hf; [inversion Hf|].
  cbn [spec_split_loop]. destruct c as [|t c']; [discriminate|].
  destruct (spec_arg_total (S f) POperand [] false (t :: c') Hf) as [Hnf Hle].
  destruct (spec_arg_loop (S f) POperand [] false (t :: c')) as [[a c1] ok|ok|]; [|discriminate|congruence].
  destruct (Hle a c1 ok eq_refl) as [_ Hlt]. specialize (Hlt eq_refl).
  destruct c1 as [|t1 c1']; [discriminate|].
  destruct (parse_punct1 c_comma (t1 :: c1')) as [c2|] eqn:Ep; [|discriminate].
  apply parse_punct1_inv in Ep as [j Ep]. inversion Ep; subst.
  specialize (IH c2). destruct (spec_split_loop f c2) as [[vs tr] ok2|ok2|]; try discriminate.
  exfalso. apply IH; [cbn [length] in *; lia|reflexivity].
Qed.

Lemma spec_total ts : spec_split ts <> SFuel.
Proof. apply spec_split_total. lia. Qed.

(* ---- statelessness: after the first argument the rest is split as if it were the whole input *)

Lemma split_stateless ts e j l : expr_parse (S (length ts)) ts = Ok (e, TPunct c_comma j :: l) ->
  split_args ts =
  match split_args l with
  | Ok (es, tr) => Ok (e :: es, match es with [] => true | _ => tr end)
  | Fail => Fail
  | Fuel => Fuel
  end.
Proof.
  intros H. unfold split_args, split_args_fuel.
  set (F := S (length ts)) in *.
  assert (HF : (length ts < F)%nat) by (unfold F; lia).
  destruct (expr_parse_spec F ts HF) as [(e' & r & E & Hc & _)|E]; rewrite E in H; [|discriminate].
  inversion H; subst e' r. clear H.
  assert (Hl : (length l < length ts)%nat).
  { rewrite Hc, app_length. cbn [length]. lia. }
  destruct ts as [|t ts']; [cbn [length] in Hl; lia|].
  unfold F at 1. cbn [parse_terminated_loop cursor_eof]. fold F. rewrite E. cbn [cursor_eof].
  change (parse_punct1 c_comma (TPunct c_comma j :: l)) with (Some l). cbv iota.
  rewrite (pt_fuel_independent (expr_parse F) (expr_parse (S (length l))) (fun e src => src = expr_to_tokens e)
             (S (length l))) with (f2 := S (length l)); try lia.
  all: try reflexivity.
  all: try (intros c0 H0; apply expr_parse_src_spec; unfold F; cbn [length] in *; lia).
  all: try (intros c0 H0; apply expr_parse_fuel_independent; [unfold F; cbn [length] in *; lia|assumption]).
  all: try (cbn [length] in *; lia).
Qed.

(* ---- the `name =` decision *)

Lemma alias_condition c :
  peek_ident c && peek2_eq c && negb (peek2_punct2 c_eq c_eq c) && negb (peek2_punct2 c_eq c_gt c)
  = match alias_shape c with Some _ => true | None => false end.
Proof.
  unfold alias_shape. destruct c as [|[s|ch j|x|d g] c1]; try reflexivity.
  unfold peek_ident. cbn [cursor_ident].
  destruct c1 as [|[x|ch j|x|d g] c2]; try (destruct (accept_as_ident s); reflexivity).
  unfold peek2_eq, peek2_punct2. cbn [cursor_skip].
  destruct (N.eqb_spec ch c_eq) as [->|Hne].
  - rewrite !peek_punct2_eq by discriminate. unfold peek_punct1, cursor_punct.
    change (c_eq =? c_apos) with false. change (c_eq =? c_eq) with true.
    unfold glued. destruct (accept_as_ident s); cbn [andb]; [|reflexivity].
    destruct j; cbn [andb negb]; [|reflexivity].
    destruct (head_punct c_eq c2), (head_punct c_gt c2); reflexivity.
  - unfold peek_punct1, cursor_punct. rewrite !andb_false_r.
    destruct (ch =? c_apos); [now rewrite !andb_false_r|].
    apply N.eqb_neq in Hne. rewrite Hne. now rewrite !andb_false_r.
Qed.

Lemma alias_decision F c a r : fmt_argument_parse F c = Ok (a, r) -> fa_alias a = alias_shape c.
Proof.
  unfold fmt_argument_parse. rewrite alias_condition.
  destruct (alias_shape c) as [s|] eqn:Ea.
  - unfold alias_shape in Ea. destruct c as [|[s0|ch0 j0|x0|d0 g0] [|[x|ch j|x|d g] c2]]; try discriminate.
    destruct (accept_as_ident s0) eqn:Eacc; [|discriminate]. cbn [andb] in Ea.
    destruct ((ch =? c_eq) && negb (glued j c2)); [|discriminate]. inversion Ea; subst s0.
    unfold parse_ident. cbn [cursor_ident]. rewrite Eacc.
    destruct (parse_punct1 c_eq (TPunct ch j :: c2)) as [c3|]; [|discriminate].
    destruct (expr_parse F c3) as [[e r0]| |]; try discriminate. intros H; inversion H; reflexivity.
  - destruct (expr_parse F c) as [[e r0]| |]; try discriminate. intros H; inversion H; reflexivity.
Qed.

(* ---- which argument an index / a name denotes *)

Lemma index_denotes_slice ts a : parse_attr ts = Ok a ->
  exists (j0 cm : bool) srcs tr l,
    ts = TLit (at_lit a) :: (if cm then [TPunct c_comma j0] else []) ++ l /\ joined srcs tr l
    /\ length srcs = length (p_items (at_args a))
    /\ forall i x, arg_by_index a i = Some x -> exists src, nth_error srcs i = Some src /\ arg_src x src.
Proof.
  intros H. destruct (attr_args_verbatim ts a H) as (j0 & cm & srcs & tr & l & Hts & Hj & HF & _).
  exists j0, cm, srcs, tr, l. repeat split; auto.
  - clear - HF. induction HF; cbn; congruence.
  - unfold arg_by_index. clear - HF. induction HF as [|x y xs ys Hx _ IH]; intros i z Hi.
    + destruct i; discriminate.
    + destruct i as [|i]; cbn in Hi |- *; [inversion Hi; subst; eauto|eauto].
Qed.

Lemma find_alias_spec n items : forall k,
  match find_alias n items k with
  | Some i => exists x, nth_error items (i - k) = Some x /\ (k <= i)%nat
                         /\ List.find (fun x => match fa_alias x with Some al => str_eqb al n | None => false end) items = Some x
  | None => List.find (fun x => match fa_alias x with Some al => str_eqb al n | None => false end) items = None
  end.
Proof.
  induction items as [|x rest IH]; intros k; cbn [find_alias List.find]; [reflexivity|].
  destruct (fa_alias x) as [al|].
  - destruct (str_eqb al n).
    + exists x. rewrite Nat.sub_diag. repeat split; auto.
    + specialize (IH (S k)). destruct (find_alias n rest (S k)) as [i|]; [|exact IH].
      destruct IH as (y & Hn & Hk & Hf). exists y. repeat split; auto; [|lia].
      replace (i - k)%nat with (S (i - S k)) by lia. exact Hn.
  - specialize (IH (S k)). destruct (find_alias n rest (S k)) as [i|]; [|exact IH].
    destruct IH as (y & Hn & Hk & Hf). exists y. repeat split; auto; [|lia].
    replace (i - k)%nat with (S (i - S k)) by lia. exact Hn.
Qed.

(** the derive's lookups are format_args!'s rule *)
Lemma lookup_is_denoted a : 
  (forall i, fa_denotes (PhIndex i) (p_items (at_args a)) = DArg i <-> arg_by_index a i <> None) /\
  (forall n, match fa_denotes (PhName n) (p_items (at_args a)) with
             | DArg i => arg_by_name a n = arg_by_index a i /\ arg_by_name a n <> None
             | DCapture m => m = n /\ arg_by_name a n = None
             | DInvalid => False
             end).
Proof.
  split.
  - intros i. unfold fa_denotes, arg_by_index. destruct (Nat.ltb_spec i (length (p_items (at_args a)))) as [Hlt|Hge].
    + split; [intros _|reflexivity]. now apply nth_error_Some.
    + split; [discriminate|]. intros H. apply nth_error_Some in H. lia.
  - intros n. unfold fa_denotes, arg_by_name, arg_by_index.
    pose proof (find_alias_spec n (p_items (at_args a)) 0) as H.
    destruct (find_alias n (p_items (at_args a)) 0) as [i|].
    + destruct H as (x & Hn & _ & Hf). rewrite Nat.sub_0_r in Hn. rewrite Hf, Hn. split; [reflexivity|discriminate].
    + split; [reflexivity|exact H].
Qed.

Ltac pd := repeat match goal with
  | H : _ \/ _ |- _ => destruct H
  | H : exists _, _ |- _ => destruct H
  | H : _ /\ _ |- _ => destruct H
  | H : Some _ = Some _ |- _ => inversion H; clear H; subst
  | H : _ :: _ = _ :: _ |- _ => inversion H; clear H; subst
  | H : PhName _ = PhName _ |- _ => inversion H; clear H; subst
  end; try discriminate; try congruence.

(** pass-through selects exactly the argument format_args! would format, and only when it is the sole one *)
Lemma passthrough_denotes ph a e : transparent_expr ph a = Some e <->
  (exists x, p_items (at_args a) = [x] /\ fa_denotes ph [x] = DArg 0 /\ e = fa_expr x)
  \/ (exists n, p_items (at_args a) = [] /\ ph = PhName n /\ e = EIdent n).
Proof.
  unfold transparent_expr. destruct (p_items (at_args a)) as [|x [|y rest]].
  - destruct ph as [|[|i]|n]; split; intros H0; pd;
      try solve [right; eexists; auto | reflexivity].
  - destruct ph as [|[|i]|n]; unfold fa_denotes; cbn [find_alias length Nat.ltb Nat.leb];
      try (destruct (fa_alias x) as [al|] eqn:Eal; [destruct (str_eqb al n) eqn:E|]);
      split; intros H0; pd;
      try solve [left; exists x; rewrite ?Eal, ?E; auto | reflexivity
                | rewrite ?Eal, ?E in *; discriminate].
  - destruct ph as [|[|i]|n]; split; intros H0; pd.
Qed.

(* ---- a trailing comma changes nothing but the flag *)

Definition snoc_res (x : tt) (o : option (stream * cursor)) : option (stream * cursor) :=
  match o with Some (s, r) => Some (s, r ++ [x]) | None => None end.

Lemma arrow_ref_snoc j c : arrow_ref (c ++ [TPunct c_comma j]) = snoc_res (TPunct c_comma j) (arrow_ref c).
Proof.
  destruct c as [|t [|t2 c']].
  - destruct j; reflexivity.
  - destruct t as [x|c1 [] |x|d g]; try reflexivity. cbn. now rewrite andb_false_r.
  - destruct t as [x|c1 [] |x|d g]; try reflexivity. destruct t2 as [x|c2 j2|x|d g]; try reflexivity.
    cbn. destruct ((c1 =? c_minus) && (c2 =? c_gt)); reflexivity.
Qed.

Lemma path_sep_ref_snoc j c : path_sep_ref (c ++ [TPunct c_comma j]) = snoc_res (TPunct c_comma j) (path_sep_ref c).
Proof.
  destruct c as [|t [|t2 c']].
  - destruct j; reflexivity.
  - destruct t as [x|c1 [] |x|d g]; try reflexivity. cbn. now rewrite andb_false_r.
  - destruct t as [x|c1 [] |x|d g]; try reflexivity. destruct t2 as [x|c2 j2|x|d g]; try reflexivity.
    cbn. destruct ((c1 =? c_colon) && (c2 =? c_colon)); reflexivity.
Qed.

Lemma bal_snoc o cl j : o <> c_comma -> cl <> c_comma -> forall n c, (length c <= n)%nat -> forall k,
  bal o cl (S k) (c ++ [TPunct c_comma j]) = snoc_res (TPunct c_comma j) (bal o cl (S k) c).
Proof.
  intros Ho Hcl. induction n as [|n IH]; intros c Hn k.
  - destruct c; [|inversion Hn]. cbn [app]. rewrite bal_noarrow by (destruct j; reflexivity).
    assert (H1 : is_p cl (TPunct c_comma j) = false) by (unfold is_p; apply N.eqb_neq; intros E; apply Hcl; now rewrite E).
    assert (H2 : is_p o (TPunct c_comma j) = false) by (unfold is_p; apply N.eqb_neq; intros E; apply Ho; now rewrite E).
    rewrite H1, H2. reflexivity.
  - destruct c as [|t c']; [apply (IH [] (Nat.le_0_l _))|]. cbn [length] in Hn.
    destruct (arrow_ref (t :: c')) as [[s1 c1]|] eqn:Ea.
    + apply arrow_ref_inv in Ea as (j2 & E & ->). inversion E; subst t c'. cbn [app]. rewrite !bal_arrow.
      cbn [length] in Hn. rewrite IH by lia. destruct (bal o cl (S k) c1) as [[s r]|]; reflexivity.
    + assert (Ea2 : arrow_ref ((t :: c') ++ [TPunct c_comma j]) = None) by (rewrite arrow_ref_snoc, Ea; reflexivity).
      cbn [app] in Ea2 |- *. rewrite (bal_noarrow _ _ _ _ _ Ea), (bal_noarrow _ _ _ _ _ Ea2).
      destruct (is_p cl t).
      * destruct k as [|k]; [rewrite !bal_zero; reflexivity|].
        rewrite IH by lia. destruct (bal o cl (S k) c') as [[s r]|]; reflexivity.
      * destruct (is_p o t); rewrite IH by lia; [destruct (bal o cl (S (S k)) c') as [[s r]|]|destruct (bal o cl (S k) c') as [[s r]|]]; reflexivity.
Qed.

Lemma bp_ref_snoc o cl j c : o <> c_comma -> cl <> c_comma ->
  balanced_pair_ref o cl (c ++ [TPunct c_comma j]) = snoc_res (TPunct c_comma j) (balanced_pair_ref o cl c).
Proof.
  intros Ho Hcl. destruct c as [|t c'].
  - cbn [app balanced_pair_ref snoc_res]. unfold is_p.
    assert (E : (c_comma =? o) = false) by (apply N.eqb_neq; intros E; apply Ho; now rewrite E). now rewrite E.
  - cbn [app balanced_pair_ref]. destruct (is_p o t); [|reflexivity].
    rewrite (bal_snoc o cl j Ho Hcl (length c') c' (le_n _)). destruct (bal o cl 1 c') as [[s r]|]; reflexivity.
Qed.

Lemma seq2_ref_snoc p q x : (forall c, p (c ++ [x]) = snoc_res x (p c)) -> (forall c, q (c ++ [x]) = snoc_res x (q c)) ->
  forall c, seq2_ref p q (c ++ [x]) = snoc_res x (seq2_ref p q c).
Proof.
  intros Hp Hq c. unfold seq2_ref. rewrite Hp. destruct (p c) as [[s1 c1]|]; [|reflexivity]. cbn [snoc_res].
  rewrite Hq. destruct (q c1) as [[s2 c2]|]; reflexivity.
Qed.

Lemma lt_ne_comma : c_lt <> c_comma. Proof. discriminate. Qed.
Lemma gt_ne_comma : c_gt <> c_comma. Proof. discriminate. Qed.
Lemma bar_ne_comma : c_bar <> c_comma. Proof. discriminate. Qed.

Lemma expr_alt_ref_snoc j c : c <> [] ->
  expr_alt_ref (c ++ [TPunct c_comma j]) = snoc_res (TPunct c_comma j) (expr_alt_ref c).
Proof.
  intros Hc. unfold expr_alt_ref.
  rewrite (seq2_ref_snoc path_sep_ref (balanced_pair_ref c_lt c_gt) _ (path_sep_ref_snoc j)
             (fun c => bp_ref_snoc c_lt c_gt j c lt_ne_comma gt_ne_comma)).
  destruct (seq2_ref path_sep_ref (balanced_pair_ref c_lt c_gt) c) as [[s r]|]; [reflexivity|]. cbn [snoc_res orelse].
  rewrite (seq2_ref_snoc (balanced_pair_ref c_lt c_gt) path_sep_ref _
             (fun c => bp_ref_snoc c_lt c_gt j c lt_ne_comma gt_ne_comma) (path_sep_ref_snoc j)).
  destruct (seq2_ref (balanced_pair_ref c_lt c_gt) path_sep_ref c) as [[s r]|]; [reflexivity|]. cbn [snoc_res orelse].
  rewrite (bp_ref_snoc c_bar c_bar j c bar_ne_comma bar_ne_comma).
  destruct (balanced_pair_ref c_bar c_bar c) as [[s r]|]; [reflexivity|]. cbn [snoc_res orelse].
  destruct c; [congruence|reflexivity].
Qed.

Definition snoc_out {A} (x : tt) (o : outcome (A * cursor)) : outcome (A * cursor) :=
  match o with Ok (s, r) => Ok (s, r ++ [x]) | Fail => Fail | Fuel => Fuel end.

Lemma tu_snoc F j : forall f out parsed c, (S (length c) < f)%nat -> (S (length c) < F)%nat ->
  take_until1_loop f (expr_alt F) (punct c_comma) out parsed (c ++ [TPunct c_comma j])
  = snoc_out (TPunct c_comma j) (take_until1_loop f (expr_alt F) (punct c_comma) out parsed c).
Proof.
  induction f as [|f IH]; intros out parsed c Hf HF; [inversion Hf|].
  cbn [take_until1_loop]. destruct c as [|t c'].
  - cbn [app cursor_eof]. rewrite (punct_eq _ _ ne_comma). cbn. destruct parsed; reflexivity.
  - cbn [app cursor_eof]. rewrite !(punct_eq _ _ ne_comma). cbn [punct_ref].
    destruct (is_p c_comma t); cbn [of_opt]; [destruct parsed; reflexivity|].
    rewrite !expr_alt_bridge by (cbn [length] in *; rewrite ?app_length; cbn [length]; lia).
    change (t :: c' ++ [TPunct c_comma j]) with ((t :: c') ++ [TPunct c_comma j]).
    rewrite expr_alt_ref_snoc by discriminate.
    destruct (expr_alt_ref (t :: c')) as [[s1 c1]|] eqn:Ea; cbn [snoc_res of_opt]; [|reflexivity].
    apply expr_alt_ref_lossless in Ea as [Hc Hs].
    assert (Hl : (length c1 < length (t :: c'))%nat).
    { rewrite Hc, app_length. destruct s1; [congruence|cbn; lia]. }
    apply IH; cbn [length] in *; lia.
Qed.

Lemma expr_parse_snoc F j c : (S (length c) < F)%nat ->
  expr_parse F (c ++ [TPunct c_comma j]) = snoc_out (TPunct c_comma j) (expr_parse F c).
Proof.
  intros HF. unfold expr_parse, take_until1. rewrite tu_snoc by assumption.
  destruct c as [|[s|ch j0|x|d g] c']; cbn [app cursor_ident];
    try (destruct (take_until1_loop F (expr_alt F) (punct c_comma) [] false _) as [[s0 r0]| |]; reflexivity).
  assert (E : cursor_eof (c' ++ [TPunct c_comma j]) || is_ok (punct c_comma (c' ++ [TPunct c_comma j]))
              = cursor_eof c' || is_ok (punct c_comma c')).
  { destruct c' as [|t1 c'']; [reflexivity|]. cbn [app cursor_eof orb].
    rewrite !(punct_eq _ _ ne_comma). cbn [punct_ref]. destruct (is_p c_comma t1); reflexivity. }
  rewrite E. destruct (cursor_eof c' || is_ok (punct c_comma c')); [reflexivity|].
  destruct (take_until1_loop F (expr_alt F) (punct c_comma) [] false (TIdent s :: c')) as [[s0 r0]| |]; reflexivity.
Qed.

Lemma pt_snoc F j : forall f c es, (S (length c) < f)%nat -> (S (length c) < F)%nat ->
  parse_terminated_loop f (expr_parse F) c = Ok (es, false) -> es <> [] ->
  parse_terminated_loop f (expr_parse F) (c ++ [TPunct c_comma j]) = Ok (es, true).
Proof.
  induction f as [|f IH]; intros c es Hf HF H Hne; [inversion Hf|].
  cbn [parse_terminated_loop] in H |- *. destruct c as [|t c'].
  - cbn [cursor_eof] in H. inversion H; subst. congruence.
  - cbn [cursor_eof app] in H |- *.
    change (t :: c' ++ [TPunct c_comma j]) with ((t :: c') ++ [TPunct c_comma j]).
    rewrite expr_parse_snoc by assumption.
    destruct (expr_parse_spec F (t :: c')) as [(e & r & E & Hc & _)|E]; [lia| |]; rewrite E in H |- *; [|discriminate].
    cbn [snoc_out]. destruct r as [|t1 r1].
    + cbn [cursor_eof] in H. inversion H; subst. cbn [app cursor_eof].
      change (parse_punct1 c_comma [TPunct c_comma j]) with (Some (@nil tt)). cbv iota.
      destruct f; [cbn [length] in Hf; lia|]. reflexivity.
    + cbn [cursor_eof app] in H |- *.
      destruct (parse_punct1 c_comma (t1 :: r1)) as [c2|] eqn:Ep; [|discriminate].
      pose proof Ep as Ep2. apply parse_punct1_inv in Ep2 as [j2 Ep2]. inversion Ep2; subst t1 r1.
      change (parse_punct1 c_comma (TPunct c_comma j2 :: c2 ++ [TPunct c_comma j])) with (Some (c2 ++ [TPunct c_comma j])).
      cbv iota.
      assert (Hl : (length c2 < length (t :: c'))%nat).
      { rewrite Hc, app_length. cbn [length]. lia. }
      destruct (parse_terminated_loop f (expr_parse F) c2) as [[vs tr]| |] eqn:E2; try discriminate.
      inversion H; subst es. destruct vs as [|v vs]; [discriminate|]. subst tr.
      rewrite (IH c2 (v :: vs)); auto; try (cbn [length] in *; lia). discriminate.
Qed.

Lemma trailing_comma ts es j : split_args ts = Ok (es, false) -> es <> [] ->
  split_args (ts ++ [TPunct c_comma j]) = Ok (es, true).
Proof.
  unfold split_args. intros H Hne. rewrite app_length. cbn [length].
  rewrite (split_fuel_independent (S (length ts)) (S (length ts + 1)) ts) in H by lia.
  unfold split_args_fuel in *. apply pt_snoc; auto; lia.
Qed.

(* ================================================================== 6. witnesses: hypotheses are satisfiable, excluded shapes are mis-split *)

From Coq Require Import String.

(** `A, B` is angle-bracket content; so is `T<[u8; 2], <X as Y>::Z>` *)
Example acontent_ex1 : acontent [id_ "A"; pa c_comma; id_ "B"].
Proof. repeat (apply ac_tok; [reflexivity|reflexivity|reflexivity|]). constructor. Qed.

(** a well-formed G list:  x.f::<A, B>(1) < y,  <A as T<B, C>>::X >> 2,  |p, q| p || q,  a..=b,  v as M::<K, V> *)
Definition ex_AB := [id_ "A"; pa c_comma; id_ "B"].
Definition ex_e1 := GBinary (GMethod (GPath {| gp_head := s2l "x"; gp_rest := [] |}) (s2l "f") (Some ex_AB) [num "1"])
                            [pa c_lt] (GPath {| gp_head := s2l "y"; gp_rest := [] |}).
Definition ex_q := [id_ "A"; id_ "as"; id_ "T"; pa c_lt; id_ "B"; pa c_comma; id_ "C"; pa c_gt].
Definition ex_e2 := GBinary (GQPath ex_q (s2l "X") []) [pj c_gt; pa c_gt] (GLit (s2l "2")).
Definition ex_e3 := GClosure [] [id_ "p"; pa c_comma; id_ "q"]
                      (GOrOr (GPath {| gp_head := s2l "p"; gp_rest := [] |}) (GPath {| gp_head := s2l "q"; gp_rest := [] |})).
Definition ex_e4 := GRange (GPath {| gp_head := s2l "a"; gp_rest := [] |}) [pj c_dot; pj c_dot; pa c_eq]
                      (GPath {| gp_head := s2l "b"; gp_rest := [] |}).
Definition ex_e5 := GCast (GPath {| gp_head := s2l "v"; gp_rest := [] |})
                      {| gp_head := s2l "M"; gp_rest := [PArgs [id_ "K"; pa c_comma; id_ "V"]] |}.

Lemma ac_simple_list x :
  Forall (fun t => is_p c_lt t = false /\ is_p c_gt t = false /\ is_jminus t = false) x -> acontent x.
Proof. induction 1 as [|t x (H1 & H2 & H3) _ IH]; constructor; auto. Qed.

Ltac solve_wf := repeat match goal with
  | |- _ /\ _ => split
  | |- True => exact I
  | |- Forall _ [] => constructor
  | |- Forall _ (_ :: _) => constructor
  | |- simple_toks _ => unfold simple_toks
  | |- nobar _ => unfold nobar
  | |- wf_path _ => unfold wf_path; cbn [gp_rest]
  | |- wf_piece _ => cbn [wf_piece]
  | |- _ = _ => reflexivity
  | |- _ <> _ => discriminate
  end.

Example ex_q_acontent : acontent ex_q.
Proof.
  apply (ac_tok (id_ "A")); [reflexivity|reflexivity|reflexivity|].
  apply (ac_tok (id_ "as")); [reflexivity|reflexivity|reflexivity|].
  apply (ac_tok (id_ "T")); [reflexivity|reflexivity|reflexivity|].
  apply (ac_blk false [id_ "B"; pa c_comma; id_ "C"] false []); [|constructor].
  apply ac_simple_list. solve_wf.
Qed.

Example wf_examples : Forall wf [ex_e1; ex_e2; ex_e3; ex_e4; ex_e5].
Proof.
  repeat apply Forall_cons; try apply Forall_nil; cbn [wf ex_e1 ex_e2 ex_e3 ex_e4 ex_e5]; solve_wf;
    try exact ex_q_acontent; unfold ex_AB; try solve [apply ac_simple_list; solve_wf].
Qed.

(** the theorem applied (also a regression check of the model by computation) *)
Example fragment_example :
  split_args (join_comma (List.map print [ex_e1; ex_e2; ex_e3; ex_e4; ex_e5]))
  = Ok (List.map (fun e => mk_expr (print e)) [ex_e1; ex_e2; ex_e3; ex_e4; ex_e5], false).
Proof. apply fragment_G; [discriminate|apply wf_examples]. Qed.

(** excluded shapes: the scanner of the model mis-splits them *)

(* a | 1, b | 2, c   — two arguments instead of three *)
Lemma bitor_refuted :
  let a := [id_ "a"; pa c_bar; num "1"] in let b := [id_ "b"; pa c_bar; num "2"] in let c := [id_ "c"] in
  split_args (join_comma [a; b; c]) = Ok ([EOther (a ++ comma_alone :: b); EIdent (s2l "c")], false).
Proof. vm_compute. reflexivity. Qed.

(* x as M<K, V>, y   — three arguments instead of two *)
Lemma cast_generic_refuted :
  let a := [id_ "x"; id_ "as"; id_ "M"; pa c_lt; id_ "K"; pa c_comma; id_ "V"; pa c_gt] in let b := [id_ "y"] in
  split_args (join_comma [a; b])
  = Ok ([EOther [id_ "x"; id_ "as"; id_ "M"; pa c_lt; id_ "K"]; EOther [id_ "V"; pa c_gt]; EIdent (s2l "y")], false).
Proof. vm_compute. reflexivity. Qed.

(* a < b, c > ::d   — one argument instead of two *)
Lemma lt_gt_refuted :
  let a := [id_ "a"; pa c_lt; id_ "b"] in let b := [id_ "c"; pa c_gt; pj c_colon; pa c_colon; id_ "d"] in
  split_args (join_comma [a; b]) = Ok ([EOther (a ++ comma_alone :: b)], false).
Proof. vm_compute. reflexivity. Qed.

(* f::<fn() -> A, B>(), y   — repaired: the `>` of `->` no longer closes the generic list *)
Lemma arrow_in_generics_repaired :
  let a := [id_ "f"; pj c_colon; pj c_colon; pa c_lt; id_ "fn"; TGroup Paren []; pj c_minus; pa c_gt; id_ "A";
            pa c_comma; id_ "B"; pa c_gt; TGroup Paren []] in
  let b := [id_ "y"] in
  split_args (join_comma [a; b]) = Ok ([EOther a; EIdent (s2l "y")], false).
Proof. vm_compute. reflexivity. Qed.

(** `fn() -> A, B` is angle-bracket content *)
Example acontent_arrow : acontent [id_ "fn"; TGroup Paren []; pj c_minus; pa c_gt; id_ "A"; pa c_comma; id_ "B"].
Proof.
  apply ac_tok; [reflexivity|reflexivity|reflexivity|]. apply ac_tok; [reflexivity|reflexivity|reflexivity|].
  apply ac_arrow. repeat (apply ac_tok; [reflexivity|reflexivity|reflexivity|]). constructor.
Qed.

(* |x| -> M<K, V> { x }   — closure return type: two arguments instead of one *)
Lemma closure_ret_generic_refuted :
  let a := [pa c_bar; id_ "x"; pa c_bar; pj c_minus; pa c_gt; id_ "M"; pa c_lt; id_ "K"; pa c_comma; id_ "V"; pa c_gt;
            TGroup Brace [id_ "x"]] in
  split_args a
  = Ok ([EOther [pa c_bar; id_ "x"; pa c_bar; pj c_minus; pa c_gt; id_ "M"; pa c_lt; id_ "K"];
         EOther [id_ "V"; pa c_gt; TGroup Brace [id_ "x"]]], false).
Proof. vm_compute. reflexivity. Qed.

(* "" , a == b   — repaired by 1bb8f7d: no alias, one argument `a == b`, re-emitted token for token *)
Lemma alias_eqeq_repaired :
  let ts := [TLit (s2l """"""); pa c_comma; id_ "a"; pj c_eq; pa c_eq; id_ "b"] in
  exists a, parse_attr ts = Ok a
    /\ List.map fa_alias (p_items (at_args a)) = [None]
    /\ fmt_attribute_to_tokens a = ts.
Proof. eexists. split; [vm_compute; reflexivity|]. split; reflexivity. Qed.

(* "lit",   — repaired by 10a9ec3: the comma after a lone literal is not re-emitted *)
Lemma lone_literal_comma :
  exists a, parse_attr [TLit (s2l """"""); pa c_comma] = Ok a /\ fmt_attribute_to_tokens a = [TLit (s2l """""")].
Proof. eexists. split; [vm_compute; reflexivity|reflexivity]. Qed.

(* ---- the characterisation at work *)

(* x < y, <A as T<B, C>>::X, |p, q| p, f::<A, B>(), a | 1   — no limit-class step; five arguments *)
Definition ex_free : list tt :=
  [id_ "x"; pa c_lt; id_ "y"; pa c_comma;
   pa c_lt; id_ "A"; id_ "as"; id_ "T"; pa c_lt; id_ "B"; pa c_comma; id_ "C"; pj c_gt; pj c_gt; pj c_colon; pa c_colon; id_ "X"; pa c_comma;
   pa c_bar; id_ "p"; pa c_comma; id_ "q"; pa c_bar; id_ "p"; pa c_comma;
   id_ "f"; pj c_colon; pj c_colon; pa c_lt; id_ "A"; pa c_comma; id_ "B"; pa c_gt; TGroup Paren []; pa c_comma;
   id_ "a"; pa c_bar; num "1"].

Example limit_free_example :
  limit_free ex_free = true /\ exists args, spec_split ex_free = SOk (args, false) true /\ List.length args = 5%nat.
Proof. split; [vm_compute; reflexivity|]. eexists. split; [vm_compute; reflexivity|reflexivity]. Qed.

Example characterisation_example : exists es, split_args ex_free = Ok (es, false) /\ List.length es = 5%nat.
Proof.
  rewrite (characterisation ex_free (proj1 limit_free_example)).
  eexists. split; [vm_compute; reflexivity|reflexivity].
Qed.

(* the recorded design limits are exactly where [limit_free] is false, and there the grammar-level splitter still
   gives Rust's answer:  a | 1, b | 2, c  (3)   x as M<K, V>, y  (2)   a < b, c > ::d  (2)   |x| -> M<K, V> { x }  (1) *)
Example limit_classes_flagged :
  let bitor := join_comma [[id_ "a"; pa c_bar; num "1"]; [id_ "b"; pa c_bar; num "2"]; [id_ "c"]] in
  let cast := join_comma [[id_ "x"; id_ "as"; id_ "M"; pa c_lt; id_ "K"; pa c_comma; id_ "V"; pa c_gt]; [id_ "y"]] in
  let ltgt := join_comma [[id_ "a"; pa c_lt; id_ "b"]; [id_ "c"; pa c_gt; pj c_colon; pa c_colon; id_ "d"]] in
  let clos := [pa c_bar; id_ "x"; pa c_bar; pj c_minus; pa c_gt; id_ "M"; pa c_lt; id_ "K"; pa c_comma; id_ "V"; pa c_gt;
               TGroup Brace [id_ "x"]] in
  (limit_free bitor = false /\ view_spec bitor = SOk ([3; 3; 1]%nat, false) false)
  /\ (limit_free cast = false /\ view_spec cast = SOk ([8; 1]%nat, false) false)
  /\ (limit_free ltgt = false /\ view_spec ltgt = SOk ([3; 5]%nat, false) false)
  /\ (limit_free clos = false /\ view_spec clos = SOk ([12]%nat, false) false).
Proof. vm_compute. repeat split. Qed.
