(** C16 — property theorems (statements only; proofs are in Proofs.v) *)
From Coq Require Import String.
From Verif.Base Require Import Chars.
From Verif.C16 Require Import Model.
From Verif.C16 Require Proofs.
Open Scope N_scope.

(** Totality of the scanner: with the fuel the entry point supplies it never runs out of fuel,
    for every token list (used by C18). *)
Theorem C16_split_total : forall ts : list tt,
  exists r : option (list expr * bool),
    split_args_fuel (S (List.length ts)) ts = match r with Some x => Ok x | None => Fail end.
Proof. exact Proofs.split_total. Qed.
Print Assumptions C16_split_total.

Theorem C18_split_total : forall ts : list tt,
  exists r : option (list expr * bool),
    split_args_fuel (S (List.length ts)) ts = match r with Some x => Ok x | None => Fail end.
Proof. exact Proofs.split_total. Qed.
Print Assumptions C18_split_total.

(** ... and the answer does not depend on how much fuel is supplied beyond that. *)
Theorem C16_split_fuel_independent : forall (F1 F2 : nat) (ts : list tt),
  (List.length ts < F1)%nat -> (List.length ts < F2)%nat -> split_args_fuel F1 ts = split_args_fuel F2 ts.
Proof. exact Proofs.split_fuel_independent. Qed.
Print Assumptions C16_split_fuel_independent.

(** Every argument the splitter returns is a verbatim, in-order slice of the input: the input is exactly the
    returned token sequences separated by single commas (plus the optional trailing comma). All token lists. *)
Theorem C16_split_verbatim : forall ts es tr,
  split_args ts = Ok (es, tr) -> joined (List.map expr_to_tokens es) tr ts.
Proof. exact Proofs.split_verbatim. Qed.
Print Assumptions C16_split_verbatim.

(** The attribute layer: literal, optional comma, then the arguments; every argument is `alias =`? followed
    by its expression tokens verbatim and in order; an alias `=` is never the first half of `==` / `=>`
    ([arg_src] includes [glued j expr = false]); the comma after a lone literal is not kept. *)
Theorem C16_attr_args_verbatim : forall ts a, parse_attr ts = Ok a ->
  exists (j0 cm : bool) srcs tr l,
    ts = TLit (at_lit a) :: (if cm then [TPunct c_comma j0] else []) ++ l
    /\ joined srcs tr l /\ Forall2 arg_src (p_items (at_args a)) srcs
    /\ at_comma a = match p_items (at_args a) with [] => false | _ => cm end.
Proof. exact Proofs.attr_args_verbatim. Qed.
Print Assumptions C16_attr_args_verbatim.

(** Losslessness of re-emission: `to_tokens` gives back the input minus a trailing comma, token for token and
    in order.  The only thing [forget] disregards is the Spacing flag of the separator commas and of the alias
    `=`, which syn does not keep for the tokens it parsed as Token![,] / Token![=] and prints Alone; that flag
    is inert: rustc glues nothing onto a `,`, and by C16_attr_args_verbatim an alias `=` is never followed
    jointly by `=` or `>` (since commit 1bb8f7d; before it `a == b` was re-emitted as `a = = b`). *)
Theorem C16_lossless : forall ts a, parse_attr ts = Ok a ->
  exists tr, List.map forget ts = List.map forget (fmt_attribute_to_tokens a) ++ opt_comma tr.
Proof. exact Proofs.lossless_forget. Qed.
Print Assumptions C16_lossless.

(** ... and with the flags too, when every top-level `,` and `=` of the input is spaced Alone. *)
Theorem C16_lossless_alone : forall ts a, parse_attr ts = Ok a -> forallb sep_alone ts = true ->
  exists tr, ts = fmt_attribute_to_tokens a ++ opt_comma tr.
Proof. exact Proofs.lossless_exact. Qed.
Print Assumptions C16_lossless_alone.

(** Regressions of the two repaired defects: `"", a == b` is one unaliased argument re-emitted exactly;
    `"",` re-emits the literal alone. *)
Theorem C16_alias_eqeq_repaired :
  let ts := [TLit (s2l """"""); pa c_comma; id_ "a"; pj c_eq; pa c_eq; id_ "b"] in
  exists a, parse_attr ts = Ok a
    /\ List.map fa_alias (p_items (at_args a)) = [None]
    /\ fmt_attribute_to_tokens a = ts.
Proof. exact Proofs.alias_eqeq_repaired. Qed.
Print Assumptions C16_alias_eqeq_repaired.

Theorem C16_lone_literal_comma :
  exists a, parse_attr [TLit (s2l """"""); pa c_comma] = Ok a /\ fmt_attribute_to_tokens a = [TLit (s2l """""")].
Proof. exact Proofs.lone_literal_comma. Qed.
Print Assumptions C16_lone_literal_comma.

(** An argument counts as a plain field reference iff it is a single identifier token. *)
Theorem C16_ident_only : forall ts es tr, split_args ts = Ok (es, tr) ->
  Forall (fun e => is_plain_field_ref e = true <-> exists i, expr_to_tokens e = [TIdent i]) es.
Proof. exact Proofs.split_ident_only. Qed.
Print Assumptions C16_ident_only.

Theorem C16_attr_ident_only : forall ts a, parse_attr ts = Ok a ->
  Forall (fun x => is_plain_field_ref (fa_expr x) = true <-> exists i, expr_to_tokens (fa_expr x) = [TIdent i])
         (p_items (at_args a)).
Proof. exact Proofs.attr_ident_only. Qed.
Print Assumptions C16_attr_ident_only.

(** Commas inside ( ) [ ] { } never split: every group of the input lies, whole, inside one argument. *)
Theorem C16_groups_atomic : forall ts es tr, split_args ts = Ok (es, tr) ->
  forall d g, In (TGroup d g) ts -> exists e, In e es /\ In (TGroup d g) (expr_to_tokens e).
Proof. exact Proofs.groups_atomic. Qed.
Print Assumptions C16_groups_atomic.

(** Fragment correctness, token level: arguments that decompose into turbofish `::<..>`, qualified-path heads
    `<..>::`, bar pairs `|..|` and plain tokens ([garg]) are split exactly, whatever the spacing of the commas. *)
Theorem C16_fragment_tokens : forall args tr l, joined args tr l -> Forall garg args ->
  split_args l = Ok (List.map mk_expr args, tr).
Proof. exact Proofs.fragment_tokens. Qed.
Print Assumptions C16_fragment_tokens.

(** Fragment correctness, expression level (PARTIAL: the property quantifies over all Rust expressions; G is
    the fragment defined in Model.v.  Not in G: `as` casts to generic types written without turbofish
    `x as M<K, V>`, `|` and `|=` as binary operators, or-patterns outside groups, a generic return type after a closure
    header, a `>` directly followed by `::`, closure lifetime binders). *)
Theorem C16_fragment_partial : forall es : list gexpr, es <> [] -> Forall wf es ->
  split_args (join_comma (List.map print es)) = Ok (List.map (fun e => mk_expr (print e)) es, false)
  /\ split_args (join_comma (List.map print es) ++ [comma_alone])
     = Ok (List.map (fun e => mk_expr (print e)) es, true).
Proof. exact Proofs.fragment_G. Qed.
Print Assumptions C16_fragment_partial.

(** Characterisation: [spec_split] (Model.v, Part 3) reads the tokens the way Rust's expression grammar does
    (operand / operator / type position; `::<..>`, qualified paths and closure parameter lists only where the
    grammar has them) without looking at the scanner; [limit_free ts] says that no step of that reading is one of
    the situations in which the scanner of parsing.rs is known to read differently (an operator-position `<` or
    `|` from which its `<..>::` / `|..|` alternative would succeed, generic arguments in type position after
    `as` / `->`, a closure binder `for<..>`).  On EVERY other token list the scanner's split is the grammar-level one.
    (That [spec_split] is Rust's grammar is not a theorem: the check measures it against syn's full expression
    parser on every run, including on the limit-class inputs.) *)
Theorem C16_characterisation : forall ts : list tt, limit_free ts = true -> split_args ts = spec_result ts.
Proof. exact Proofs.characterisation. Qed.
Print Assumptions C16_characterisation.

Theorem C16_spec_total : forall ts : list tt, spec_split ts <> SFuel.
Proof. exact Proofs.spec_total. Qed.
Print Assumptions C16_spec_total.

Theorem C16_characterisation_example :
  limit_free Proofs.ex_free = true /\
  exists args, spec_split Proofs.ex_free = SOk (args, false) true /\ List.length args = 5%nat.
Proof. exact Proofs.limit_free_example. Qed.
Print Assumptions C16_characterisation_example.

(** the recorded design limits are flagged, and the grammar-level splitter gives Rust's split on them *)
Theorem C16_limit_classes_flagged :
  let bitor := join_comma [[id_ "a"; pa c_bar; num "1"]; [id_ "b"; pa c_bar; num "2"]; [id_ "c"]] in
  let cast := join_comma [[id_ "x"; id_ "as"; id_ "M"; pa c_lt; id_ "K"; pa c_comma; id_ "V"; pa c_gt]; [id_ "y"]] in
  let ltgt := join_comma [[id_ "a"; pa c_lt; id_ "b"]; [id_ "c"; pa c_gt; pj c_colon; pa c_colon; id_ "d"]] in
  let clos := [pa c_bar; id_ "x"; pa c_bar; pj c_minus; pa c_gt; id_ "M"; pa c_lt; id_ "K"; pa c_comma; id_ "V"; pa c_gt;
               TGroup Brace [id_ "x"]] in
  (limit_free bitor = false /\ view_spec bitor = SOk ([3; 3; 1]%nat, false) false)
  /\ (limit_free cast = false /\ view_spec cast = SOk ([8; 1]%nat, false) false)
  /\ (limit_free ltgt = false /\ view_spec ltgt = SOk ([3; 5]%nat, false) false)
  /\ (limit_free clos = false /\ view_spec clos = SOk ([12]%nat, false) false).
Proof. exact Proofs.limit_classes_flagged. Qed.
Print Assumptions C16_limit_classes_flagged.

(** Statelessness across arguments: once the first argument has been read, the rest of the list is split exactly
    as if it were the whole input (no scanner state survives an argument). *)
Theorem C16_stateless : forall ts e j l,
  expr_parse (S (List.length ts)) ts = Ok (e, TPunct c_comma j :: l) ->
  split_args ts =
  match split_args l with
  | Ok (es, tr) => Ok (e :: es, match es with [] => true | _ => tr end)
  | Fail => Fail
  | Fuel => Fuel
  end.
Proof. exact Proofs.split_stateless. Qed.
Print Assumptions C16_stateless.

(** A trailing comma changes nothing but the flag (lists are accepted with and without it, with the same arguments). *)
Theorem C16_trailing_comma : forall ts es j, split_args ts = Ok (es, false) -> es <> [] ->
  split_args (ts ++ [TPunct c_comma j]) = Ok (es, true).
Proof. exact Proofs.trailing_comma. Qed.
Print Assumptions C16_trailing_comma.

(** `name =` is an alias exactly when the argument starts with a non-keyword identifier and an `=` that is not the
    first half of `==` / `=>` ([alias_shape]). *)
Theorem C16_alias_decision : forall F c a r, fmt_argument_parse F c = Ok (a, r) -> fa_alias a = alias_shape c.
Proof. exact Proofs.alias_decision. Qed.
Print Assumptions C16_alias_decision.

(** Positional indices: the i-th argument the derive looks up is the i-th verbatim slice of the input. *)
Theorem C16_index_denotes_slice : forall ts a, parse_attr ts = Ok a ->
  exists (j0 cm : bool) srcs tr l,
    ts = TLit (at_lit a) :: (if cm then [TPunct c_comma j0] else []) ++ l /\ joined srcs tr l
    /\ List.length srcs = List.length (p_items (at_args a))
    /\ forall i x, arg_by_index a i = Some x -> exists src, nth_error srcs i = Some src /\ arg_src x src.
Proof. exact Proofs.index_denotes_slice. Qed.
Print Assumptions C16_index_denotes_slice.

(** The derive's lookups (by index whether aliased or not; by alias, else implicit capture) are format_args!'s rule. *)
Theorem C16_lookup_is_denoted : forall a,
  (forall i, fa_denotes (PhIndex i) (p_items (at_args a)) = DArg i <-> arg_by_index a i <> None) /\
  (forall n, match fa_denotes (PhName n) (p_items (at_args a)) with
             | DArg i => arg_by_name a n = arg_by_index a i /\ arg_by_name a n <> None
             | DCapture m => m = n /\ arg_by_name a n = None
             | DInvalid => False
             end).
Proof. exact Proofs.lookup_is_denoted. Qed.
Print Assumptions C16_lookup_is_denoted.

(** Pass-through delegates to exactly the argument the sole placeholder denotes for format_args!, and only when
    that argument is the only one (or, for a name, when there is none and the name is captured). *)
Theorem C16_passthrough_denotes : forall ph a e, transparent_expr ph a = Some e <->
  (exists x, p_items (at_args a) = [x] /\ fa_denotes ph [x] = DArg 0 /\ e = fa_expr x)
  \/ (exists n, p_items (at_args a) = [] /\ ph = PhName n /\ e = EIdent n).
Proof. exact Proofs.passthrough_denotes. Qed.
Print Assumptions C16_passthrough_denotes.

(** Excluded shapes: witnesses where the scanner of the model mis-splits. *)

(* a | 1, b | 2, c *)
Theorem C16_bitor_refuted :
  let a := [id_ "a"; pa c_bar; num "1"] in let b := [id_ "b"; pa c_bar; num "2"] in let c := [id_ "c"] in
  split_args (join_comma [a; b; c]) = Ok ([EOther (a ++ comma_alone :: b); EIdent (s2l "c")], false).
Proof. exact Proofs.bitor_refuted. Qed.
Print Assumptions C16_bitor_refuted.

(* x as M<K, V>, y *)
Theorem C16_cast_generic_refuted :
  let a := [id_ "x"; id_ "as"; id_ "M"; pa c_lt; id_ "K"; pa c_comma; id_ "V"; pa c_gt] in let b := [id_ "y"] in
  split_args (join_comma [a; b])
  = Ok ([EOther [id_ "x"; id_ "as"; id_ "M"; pa c_lt; id_ "K"]; EOther [id_ "V"; pa c_gt]; EIdent (s2l "y")], false).
Proof. exact Proofs.cast_generic_refuted. Qed.
Print Assumptions C16_cast_generic_refuted.

(* a < b, c > ::d *)
Theorem C16_lt_gt_refuted :
  let a := [id_ "a"; pa c_lt; id_ "b"] in let b := [id_ "c"; pa c_gt; pj c_colon; pa c_colon; id_ "d"] in
  split_args (join_comma [a; b]) = Ok ([EOther (a ++ comma_alone :: b)], false).
Proof. exact Proofs.lt_gt_refuted. Qed.
Print Assumptions C16_lt_gt_refuted.

(* f::<fn() -> A, B>(), y  — repaired: `->` inside a generic argument list is stepped over *)
Theorem C16_arrow_in_generics_repaired :
  let a := [id_ "f"; pj c_colon; pj c_colon; pa c_lt; id_ "fn"; TGroup Paren []; pj c_minus; pa c_gt; id_ "A";
            pa c_comma; id_ "B"; pa c_gt; TGroup Paren []] in
  let b := [id_ "y"] in
  split_args (join_comma [a; b]) = Ok ([EOther a; EIdent (s2l "y")], false).
Proof. exact Proofs.arrow_in_generics_repaired. Qed.
Print Assumptions C16_arrow_in_generics_repaired.

(* |x| -> M<K, V> { x } *)
Theorem C16_closure_ret_generic_refuted :
  let a := [pa c_bar; id_ "x"; pa c_bar; pj c_minus; pa c_gt; id_ "M"; pa c_lt; id_ "K"; pa c_comma; id_ "V"; pa c_gt;
            TGroup Brace [id_ "x"]] in
  split_args a
  = Ok ([EOther [pa c_bar; id_ "x"; pa c_bar; pj c_minus; pa c_gt; id_ "M"; pa c_lt; id_ "K"];
         EOther [id_ "V"; pa c_gt; TGroup Brace [id_ "x"]]], false).
Proof. exact Proofs.closure_ret_generic_refuted. Qed.
Print Assumptions C16_closure_ret_generic_refuted.
