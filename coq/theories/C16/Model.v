(** C16 — executable model of the format-argument splitter.

    Part 1 mirrors, function by function,
      /repo/impl/src/parsing.rs            (Expr::parse, path_sep, punct, punct_with_spacing, token_tree,
                                            balanced_pair, seq, alt, take_until1)
      /repo/impl/src/fmt/mod.rs:114-143    (FmtAttribute::parse / to_tokens)
      /repo/impl/src/fmt/mod.rs:416-439    (FmtArgument::parse / to_tokens)
    and the pieces of syn 2.x they call (Cursor::{ident,punct,token_tree,eof,skip}, Token![,]/Token![=]
    peek and parse, Ident peek/parse with its keyword table, LitStr parse, Punctuated::parse_terminated,
    pop_punct, Punctuated::to_tokens).

    Part 2 is specification vocabulary used by the theorems (no proofs here): the token-level item
    structure [tl], the expression fragment G ([gexpr], printer, well-formedness).

    NOT modelled: `Delimiter::None` groups (they are produced only by macro_rules fragment substitution,
    never by the lexer; syn's Cursor::ident/punct look *through* them, Cursor::token_tree does not);
    spans and diagnostics; FmtAttribute::check_legacy_fmt (mod.rs:340-378: it can only turn an input that
    starts with the path `fmt` followed by `=` into an error, and such an input is an error anyway because
    a string literal must come first — verdict unchanged); the `i32` width of balanced_pair's counter
    (an unbounded [nat] here). *)
From Coq Require Import String Ascii.
From Verif.Base Require Import Chars.
Open Scope N_scope.

(* ------------------------------------------------------------------ tokens (proc_macro2::TokenTree) *)

Inductive delim := Paren | Bracket | Brace.

Inductive tt :=
| TIdent (s : str)                    (* Ident, as printed by to_string (raw identifiers keep `r#`) *)
| TPunct (c : N) (joint : bool)       (* Punct: char, Spacing::Joint? *)
| TLit (s : str)                      (* Literal, as printed *)
| TGroup (d : delim) (ts : list tt).  (* Group with delimiter ( ) [ ] { } *)

Definition c_comma := 44.
Definition c_bar := 124.
Definition c_eq := 61.
Definition c_apos := 39.
Definition c_dquote := 34.

Definition stream := list tt.   (* proc_macro2::TokenStream *)
Definition cursor := list tt.   (* syn::buffer::Cursor: the token trees that remain in the current scope *)

(** Rust `Option`/`Result` plus the model artefact [Fuel] (a loop ran out of fuel; the totality
    theorem shows it never happens with the fuel the entry points supply). *)
Inductive outcome (A : Type) : Type := Ok (a : A) | Fail | Fuel.
Arguments Ok {A} a.
Arguments Fail {A}.
Arguments Fuel {A}.

Definition presult := outcome (stream * cursor).   (* parsing.rs:90 ParsingResult *)
Definition parser := cursor -> presult.

Definition is_ok {A} (o : outcome A) : bool := match o with Ok _ => true | _ => false end.

(* ------------------------------------------------------------------ syn::buffer::Cursor *)

(* buffer.rs Cursor::eof *)
Definition cursor_eof (c : cursor) : bool := match c with [] => true | _ => false end.

(* buffer.rs Cursor::ident — every Ident token, keywords and `_` included *)
Definition cursor_ident (c : cursor) : option (str * cursor) :=
  match c with TIdent s :: r => Some (s, r) | _ => None end.

(* buffer.rs Cursor::punct — refuses the apostrophe of a lifetime *)
Definition cursor_punct (c : cursor) : option (N * bool * cursor) :=
  match c with
  | TPunct ch j :: r => if ch =? c_apos then None else Some (ch, j, r)
  | _ => None
  end.

(* buffer.rs Cursor::token_tree *)
Definition cursor_token_tree (c : cursor) : option (tt * cursor) :=
  match c with t :: r => Some (t, r) | [] => None end.

(* buffer.rs Cursor::skip — a lifetime `'a` counts as one tree *)
Definition cursor_skip (c : cursor) : option cursor :=
  match c with
  | [] => None
  | TPunct ch j :: r =>
      if (ch =? c_apos) && j then match r with TIdent _ :: r' => Some r' | _ => Some r end
      else Some r
  | _ :: r => Some r
  end.

(* ------------------------------------------------------------------ parsing.rs combinators *)

(* parsing.rs:103-113 punct_with_spacing *)
Definition punct_with_spacing (p : N) (joint : bool) : parser := fun c =>
  match cursor_punct c with
  | Some (ch, j, r) => if (ch =? p) && Bool.eqb j joint then Ok ([TPunct ch j], r) else Fail
  | None => Fail
  end.

(* parsing.rs:118-124 punct — spacing is not looked at *)
Definition punct (p : N) : parser := fun c =>
  match cursor_punct c with
  | Some (ch, j, r) => if ch =? p then Ok ([TPunct ch j], r) else Fail
  | None => Fail
  end.

(* parsing.rs:129-131 token_tree *)
Definition token_tree : parser := fun c =>
  match cursor_token_tree c with Some (t, r) => Ok ([t], r) | None => Fail end.

(* parsing.rs:164-178 seq — try_fold over the parsers, streams concatenated in order *)
Fixpoint seq (ps : list parser) (c : cursor) : presult :=
  match ps with
  | [] => Ok ([], c)
  | p :: ps' =>
      match p c with
      | Ok (s, c1) =>
          match seq ps' c1 with
          | Ok (s2, c2) => Ok (s ++ s2, c2)
          | Fail => Fail
          | Fuel => Fuel
          end
      | Fail => Fail
      | Fuel => Fuel
      end
  end.

(* parsing.rs:181-185 alt — first parser that succeeds *)
Fixpoint alt (ps : list parser) (c : cursor) : presult :=
  match ps with
  | [] => Fail
  | p :: ps' =>
      match p c with
      | Ok r => Ok r
      | Fail => alt ps' c
      | Fuel => Fuel
      end
  end.

(* parsing.rs:95-100 path_sep — a Joint `:` then any `:` *)
Definition path_sep : parser := seq [punct_with_spacing c_colon true; punct c_colon].

(* parsing.rs: the `->` that balanced_pair steps over (a Joint `-` then any `>`) *)
Definition arrow : parser := seq [punct_with_spacing c_minus true; punct c_gt].

(* parsing.rs:144-164 the `while count != 0` loop of balanced_pair:
   a `->` is stepped over first (its `>` closes nothing), then `close` is tried, then `open`, else any
   token tree; end of input fails *)
Fixpoint balanced_loop (fuel : nat) (open close : parser) (count : nat) (out : stream) (c : cursor)
  {struct fuel} : presult :=
  match count with
  | O => Ok (out, c)
  | S count' =>
      match fuel with
      | O => Fuel
      | S fuel' =>
          match arrow c with
          | Ok (s, c') => balanced_loop fuel' open close count (out ++ s) c'
          | Fuel => Fuel
          | Fail =>
          match close c with
          | Ok (s, c') => balanced_loop fuel' open close count' (out ++ s) c'
          | Fuel => Fuel
          | Fail =>
              match open c with
              | Ok (s, c') => balanced_loop fuel' open close (S count) (out ++ s) c'
              | Fuel => Fuel
              | Fail =>
                  match cursor_token_tree c with
                  | Some (t, c') => balanced_loop fuel' open close count (out ++ [t]) c'
                  | None => Fail
                  end
              end
          end
          end
      end
  end.

(* parsing.rs:136-168 balanced_pair *)
Definition balanced_pair (fuel : nat) (open close : parser) : parser := fun c =>
  match open c with
  | Ok (out, c1) => balanced_loop fuel open close 1 out c1
  | Fail => Fail
  | Fuel => Fuel
  end.

(* parsing.rs:202-211 the `loop` of take_until1 *)
Fixpoint take_until1_loop (fuel : nat) (p until : parser) (out : stream) (parsed : bool) (c : cursor)
  {struct fuel} : presult :=
  match fuel with
  | O => Fuel
  | S fuel' =>
      let finish := if parsed then Ok (out, c) else Fail in
      if cursor_eof c then finish
      else match until c with
           | Ok _ => finish
           | Fuel => Fuel
           | Fail =>
               match p c with
               | Ok (s, c') => take_until1_loop fuel' p until (out ++ s) true c'
               | Fail => Fail
               | Fuel => Fuel
               end
           end
  end.

(* parsing.rs:190-213 take_until1 *)
Definition take_until1 (fuel : nat) (p until : parser) : parser := fun c =>
  take_until1_loop fuel p until [] false c.

(* ------------------------------------------------------------------ parsing.rs Expr *)

(* parsing.rs:16-22 *)
Inductive expr := EIdent (s : str) | EOther (ts : stream).

(* parsing.rs:28-33 Expr::ident *)
Definition expr_ident (e : expr) : option str :=
  match e with EIdent s => Some s | EOther _ => None end.

(* "counts as a plain field reference": every consumer asks `expr.ident()` (fmt/mod.rs:245,249,...) *)
Definition is_plain_field_ref (e : expr) : bool :=
  match expr_ident e with Some _ => true | None => false end.

(* parsing.rs:80-87 ToTokens for Expr *)
Definition expr_to_tokens (e : expr) : stream :=
  match e with EIdent s => [TIdent s] | EOther ts => ts end.

(* parsing.rs:53-64 the `alt([...])` handed to take_until1 *)
Definition expr_alt (fuel : nat) : parser :=
  alt [ seq [path_sep; balanced_pair fuel (punct c_lt) (punct c_gt)];
        seq [balanced_pair fuel (punct c_lt) (punct c_gt); path_sep];
        balanced_pair fuel (punct c_bar) (punct c_bar);
        token_tree ].

(* parsing.rs:42-72 Expr::parse *)
Definition expr_parse (fuel : nat) (c : cursor) : outcome (expr * cursor) :=
  let fast :=
    match cursor_ident c with
    | Some (s, r) => if cursor_eof r || is_ok (punct c_comma r) then Some (s, r) else None
    | None => None
    end in
  match fast with
  | Some (s, r) => Ok (EIdent s, r)
  | None =>
      match take_until1 fuel (expr_alt fuel) (punct c_comma) c with
      | Ok (s, r) => Ok (EOther s, r)
      | Fail => Fail
      | Fuel => Fuel
      end
  end.

(* ------------------------------------------------------------------ syn: tokens, Punctuated *)

(* token.rs peek_punct for a one-character token: the spacing is not looked at *)
Definition peek_punct1 (p : N) (c : cursor) : bool :=
  match cursor_punct c with Some (ch, _, _) => ch =? p | None => false end.

(* token.rs punct_helper for a one-character token *)
Definition parse_punct1 (p : N) (c : cursor) : option cursor :=
  match cursor_punct c with Some (ch, _, r) => if ch =? p then Some r else None | None => None end.

Definition s2l (s : string) : str := List.map N_of_ascii (list_ascii_of_string s).

(* ident.rs accept_as_ident *)
Definition keywords : list str := Eval vm_compute in List.map s2l
  ["_"; "abstract"; "as"; "async"; "await"; "become"; "box"; "break"; "const"; "continue"; "crate";
   "do"; "dyn"; "else"; "enum"; "extern"; "false"; "final"; "fn"; "for"; "if"; "impl"; "in"; "let";
   "loop"; "macro"; "match"; "mod"; "move"; "mut"; "override"; "priv"; "pub"; "ref"; "return"; "Self";
   "self"; "static"; "struct"; "super"; "trait"; "true"; "try"; "type"; "typeof"; "unsafe"; "unsized";
   "use"; "virtual"; "where"; "while"; "yield"]%string.

Definition accept_as_ident (s : str) : bool := negb (existsb (str_eqb s) keywords).

(* ident.rs `impl Token for Ident`: peek *)
Definition peek_ident (c : cursor) : bool :=
  match cursor_ident c with Some (s, _) => accept_as_ident s | None => false end.

(* ident.rs `impl Parse for Ident` *)
Definition parse_ident (c : cursor) : option (str * cursor) :=
  match cursor_ident c with
  | Some (s, r) => if accept_as_ident s then Some (s, r) else None
  | None => None
  end.

(* parse.rs ParseBuffer::peek2 with Token![=] *)
Definition peek2_eq (c : cursor) : bool :=
  match cursor_skip c with Some c' => peek_punct1 c_eq c' | None => false end.

(* token.rs peek_punct for a two-character token (`==`, `=>`): first char, spaced Joint, then the second char *)
Definition peek_punct2 (p q : N) (c : cursor) : bool :=
  match cursor_punct c with
  | Some (ch, j, r) =>
      (ch =? p) && j && match cursor_punct r with Some (ch2, _, _) => ch2 =? q | None => false end
  | None => false
  end.

(* parse.rs ParseBuffer::peek2 with Token![==] / Token![=>] *)
Definition peek2_punct2 (p q : N) (c : cursor) : bool :=
  match cursor_skip c with Some c' => peek_punct2 p q c' | None => false end.

(* punctuated.rs: the items and whether a trailing punct is present *)
Record punctuated (A : Type) := { p_items : list A; p_trailing : bool }.
Arguments p_items {A} _.
Arguments p_trailing {A} _.

(* punctuated.rs:311-334 parse_terminated_with (P = Token![,]); the iterative loop, unrolled:
   value, then either end of input or a comma, then again *)
Fixpoint parse_terminated_loop {A : Type} (fuel : nat) (p : cursor -> outcome (A * cursor)) (c : cursor)
  {struct fuel} : outcome (list A * bool) :=
  match fuel with
  | O => Fuel
  | S fuel' =>
      if cursor_eof c then Ok ([], false)
      else match p c with
           | Ok (v, c1) =>
               if cursor_eof c1 then Ok ([v], false)
               else match parse_punct1 c_comma c1 with
                    | Some c2 =>
                        match parse_terminated_loop fuel' p c2 with
                        | Ok (vs, tr) => Ok (v :: vs, match vs with [] => true | _ => tr end)
                        | Fail => Fail
                        | Fuel => Fuel
                        end
                    | None => Fail
                    end
           | Fail => Fail
           | Fuel => Fuel
           end
  end.

Definition parse_terminated {A : Type} (fuel : nat) (p : cursor -> outcome (A * cursor)) (c : cursor)
  : outcome (punctuated A) :=
  match parse_terminated_loop fuel p c with
  | Ok (vs, tr) => Ok {| p_items := vs; p_trailing := tr |}
  | Fail => Fail
  | Fuel => Fuel
  end.

(* punctuated.rs:219-227 pop_punct *)
Definition pop_punct {A} (p : punctuated A) : punctuated A :=
  {| p_items := p_items p; p_trailing := false |}.

Definition comma_alone : tt := TPunct c_comma false.   (* token.rs printing::punct: last char is Alone *)

(* punctuated.rs ToTokens for Punctuated: pairs, value then punct *)
Fixpoint items_to_tokens {A} (f : A -> stream) (items : list A) (trailing : bool) : stream :=
  match items with
  | [] => []
  | x :: rest =>
      f x ++ match rest with
             | [] => if trailing then [comma_alone] else []
             | _ => comma_alone :: items_to_tokens f rest trailing
             end
  end.

Definition punctuated_to_tokens {A} (f : A -> stream) (p : punctuated A) : stream :=
  items_to_tokens f (p_items p) (p_trailing p).

(* ------------------------------------------------------------------ fmt/mod.rs FmtArgument, FmtAttribute *)

(* fmt/mod.rs:397-405 *)
Record fmt_argument := { fa_alias : option str; fa_expr : expr }.

(* fmt/mod.rs:416-429 FmtArgument::parse: `ident =` but neither `ident ==` nor `ident =>` *)
Definition fmt_argument_parse (fuel : nat) (c : cursor) : outcome (fmt_argument * cursor) :=
  if peek_ident c && peek2_eq c && negb (peek2_punct2 c_eq c_eq c) && negb (peek2_punct2 c_eq c_gt c) then
    match parse_ident c with
    | Some (s, c1) =>
        match parse_punct1 c_eq c1 with
        | Some c2 =>
            match expr_parse fuel c2 with
            | Ok (e, r) => Ok ({| fa_alias := Some s; fa_expr := e |}, r)
            | Fail => Fail
            | Fuel => Fuel
            end
        | None => Fail
        end
    | None => Fail
    end
  else
    match expr_parse fuel c with
    | Ok (e, r) => Ok ({| fa_alias := None; fa_expr := e |}, r)
    | Fail => Fail
    | Fuel => Fuel
    end.

(* fmt/mod.rs:431-439 ToTokens for FmtArgument *)
Definition fmt_argument_to_tokens (a : fmt_argument) : stream :=
  match fa_alias a with
  | Some s => [TIdent s; TPunct c_eq false]
  | None => []
  end ++ expr_to_tokens (fa_expr a).

(* fmt/mod.rs:99-112 *)
Record fmt_attribute := { at_lit : str; at_comma : bool; at_args : punctuated fmt_argument }.

(* syn lit.rs: LitStr::parse accepts a Literal whose text starts with a double quote or `r` *)
Definition is_lit_str (s : str) : bool :=
  match s with ch :: _ => (ch =? c_dquote) || (ch =? c_r) | [] => false end.

Definition parse_lit_str (c : cursor) : option (str * cursor) :=
  match c with TLit s :: r => if is_lit_str s then Some (s, r) else None | _ => None end.

(* fmt/mod.rs:114-133 FmtAttribute::parse *)
Definition fmt_attribute_parse (fuel : nat) (c : cursor) : outcome fmt_attribute :=
  match parse_lit_str c with
  | None => Fail
  | Some (lit, c1) =>
      let '(comma, c2) :=
        if peek_punct1 c_comma c1
        then match parse_punct1 c_comma c1 with Some c2 => (true, c2) | None => (false, c1) end
        else (false, c1) in
      match parse_terminated fuel (fmt_argument_parse fuel) c2 with
      | Ok args =>
          (* `parsed.args.pop_punct(); if parsed.args.is_empty() { parsed.comma = None; }` *)
          Ok {| at_lit := lit;
                at_comma := match p_items args with [] => false | _ => comma end;
                at_args := pop_punct args |}
      | Fail => Fail
      | Fuel => Fuel
      end
  end.

(* fmt/mod.rs:137-143 ToTokens for FmtAttribute *)
Definition fmt_attribute_to_tokens (a : fmt_attribute) : stream :=
  TLit (at_lit a) :: (if at_comma a then [comma_alone] else [])
    ++ punctuated_to_tokens fmt_argument_to_tokens (at_args a).

(* ------------------------------------------------------------------ entry points (fuel supplied here) *)

(* `Punctuated::<Expr, Token![,]>::parse_terminated` — the unit tests' and the harness' `split_exprs` *)
Definition split_args_fuel (fuel : nat) (c : cursor) : outcome (list expr * bool) :=
  parse_terminated_loop fuel (expr_parse fuel) c.

Definition split_args (c : cursor) : outcome (list expr * bool) := split_args_fuel (S (length c)) c.

(* `syn::parse2::<FmtAttribute>` *)
Definition parse_attr (c : cursor) : outcome fmt_attribute := fmt_attribute_parse (S (length c)) c.

(* ------------------------------------------------------------------ compact views (for the tie) *)

Definition view_expr (e : expr) : nat * bool := (length (expr_to_tokens e), is_plain_field_ref e).

Definition view_split (c : cursor) : outcome (list (nat * bool) * bool) :=
  match split_args c with
  | Ok (es, tr) => Ok (List.map view_expr es, tr)
  | Fail => Fail
  | Fuel => Fuel
  end.

Definition view_arg (a : fmt_argument) : option str * nat * bool :=
  (fa_alias a, length (expr_to_tokens (fa_expr a)), is_plain_field_ref (fa_expr a)).

Definition view_attr (c : cursor) : outcome (list (option str * nat * bool) * stream) :=
  match parse_attr c with
  | Ok a => Ok (List.map view_arg (p_items (at_args a)), fmt_attribute_to_tokens a)
  | Fail => Fail
  | Fuel => Fuel
  end.

(* ================================================================== Part 2: specification vocabulary *)

Definition is_p (p : N) (t : tt) : bool :=
  match t with TPunct ch _ => ch =? p | _ => false end.

(** what the caller of an argument list means by "the i-th argument": the token sequence itself *)
Definition mk_expr (a : list tt) : expr :=
  match a with [TIdent s] => EIdent s | _ => EOther a end.

(** [joined args trailing l]: [l] is the arguments separated by one comma each (any spacing), with an
    optional trailing comma *)
Inductive joined : list (list tt) -> bool -> list tt -> Prop :=
| j_nil : joined [] false []
| j_one a : joined [a] false a
| j_trail a j : joined [a] true (a ++ [TPunct c_comma j])
| j_cons a j rest tr l : rest <> [] -> joined rest tr l -> joined (a :: rest) tr (a ++ TPunct c_comma j :: l).

Fixpoint join_comma (args : list (list tt)) : list tt :=
  match args with
  | [] => []
  | a :: rest => a ++ match rest with [] => [] | _ => comma_alone :: join_comma rest end
  end.

Definition is_jminus (t : tt) : bool :=
  match t with TPunct ch true => ch =? c_minus | _ => false end.

(** angle-bracket content: `<` and `>` occur only as matching pairs or as the `>` of `->` (no comparison);
    a Joint `-` occurs only in `->` *)
Inductive acontent : list tt -> Prop :=
| ac_nil : acontent []
| ac_tok t x : is_p c_lt t = false -> is_p c_gt t = false -> is_jminus t = false -> acontent x -> acontent (t :: x)
| ac_arrow j x : acontent x -> acontent (TPunct c_minus true :: TPunct c_gt j :: x)
| ac_blk j1 y j2 x : acontent y -> acontent x ->
    acontent (TPunct c_lt j1 :: y ++ TPunct c_gt j2 :: x).

Definition nobar (x : list tt) : Prop := Forall (fun t => is_p c_bar t = false) x.

Definition starts_pathsep (c : cursor) : bool :=
  match c with
  | TPunct c1 true :: TPunct c2 _ :: _ => (c1 =? c_colon) && (c2 =? c_colon)
  | _ => false
  end.

Definition colon_lt_next (r : cursor) : bool :=
  match r with
  | TPunct c2 _ :: TPunct c3 _ :: _ => (c2 =? c_colon) && (c3 =? c_lt)
  | _ => false
  end.

(** a token that stands for itself: not `|`; a comma only where commas are allowed ([cm]);
    `>` not directly followed by `::`; a Joint `:` not followed by `:` `<` *)
Definition plain_ok (cm : bool) (t : tt) (r : cursor) : bool :=
  match t with
  | TPunct ch j =>
      if ch =? c_bar then false
      else if ch =? c_comma then cm
      else if ch =? c_gt then negb (starts_pathsep r)
      else if (ch =? c_colon) && j then negb (colon_lt_next r)
      else true
  | _ => true
  end.

(** item structure of a token list: turbofish `::<..>`, qualified-path head `<..>::`, bar pair `|..|`
    (closure parameter list or `||`), plain tokens.  [tl false] = one argument (no plain comma),
    [tl true] = a whole list. *)
Inductive tl (cm : bool) : list tt -> Prop :=
| tl_nil : tl cm []
| tl_turbofish j j1 y j2 r : acontent y -> tl cm r ->
    tl cm (TPunct c_colon true :: TPunct c_colon j :: TPunct c_lt j1 :: y ++ TPunct c_gt j2 :: r)
| tl_qpath j1 y j2 j r : acontent y -> tl cm r ->
    tl cm (TPunct c_lt j1 :: y ++ TPunct c_gt j2 :: TPunct c_colon true :: TPunct c_colon j :: r)
| tl_bars j1 x j2 r : acontent x -> nobar x -> tl cm r ->
    tl cm (TPunct c_bar j1 :: x ++ TPunct c_bar j2 :: r)
| tl_plain t r : plain_ok cm t r = true -> tl cm r -> tl cm (t :: r).

(** a well-formed argument at token level *)
Definition garg (a : list tt) : Prop := a <> [] /\ tl false a.

(* ------------------------------------------------------------------ the expression fragment G *)

(** a token that needs no care: anything but `,` `|` `:` *)
Definition simple (t : tt) : bool :=
  match t with
  | TPunct ch _ => negb ((ch =? c_comma) || (ch =? c_bar) || (ch =? c_colon))
  | _ => true
  end.

(** path continuation: `::name` or turbofish `::<args>` (args are raw tokens) *)
Inductive gpiece := PSeg (s : str) | PArgs (args : list tt).

Record gpath := { gp_head : str; gp_rest : list gpiece }.

Inductive gexpr :=
| GLit (s : str)                                              (* any literal token *)
| GPath (p : gpath)                                           (* x, a::b, f::<A, B>, Vec::<T>::new *)
| GQPath (qself : list tt) (s : str) (rest : list gpiece)     (* <A as T<B, C>>::X::... *)
| GGroup (d : delim) (ts : list tt)                           (* (e) (a, b) [a, b] [x; N] { block } *)
| GKwBlock (kws : list str) (body : list tt)                  (* unsafe {..} loop {..} async move {..} const {..} *)
| GKw (kw : str)                                              (* return, break, continue *)
| GKwPrefix (kw : str) (e : gexpr)                            (* return e, break e, yield e *)
| GMacro (p : gpath) (d : delim) (ts : list tt)               (* path!(..) path![..] path!{..} *)
| GStruct (p : gpath) (fields : list tt)                      (* S { a: 1, ..d } *)
| GCall (f : gexpr) (args : list tt)                          (* f(a, b) *)
| GMethod (recv : gexpr) (name : str) (turbofish : option (list tt)) (args : list tt)  (* r.m::<A, B>(a, b) *)
| GField (e : gexpr) (member : tt)                            (* e.name, e.0 *)
| GIndex (e : gexpr) (idx : list tt)                          (* e[i] *)
| GTry (e : gexpr)                                            (* e? *)
| GAwait (e : gexpr)                                          (* e.await *)
| GUnary (op : list tt) (e : gexpr)                           (* -e !e *e &e &mut e &raw const e *)
| GBinary (l : gexpr) (op : list tt) (r : gexpr)              (* any operator spelled without , | : —
                                                                 + - * / % ^ & && << >> < > <= >= == != = += ... *)
| GOrOr (l r : gexpr)                                         (* l || r *)
| GCast (e : gexpr) (ty : gpath)                              (* e as a::B, e as M::<K, V>  (NOT e as M<K, V>) *)
| GRangeFull (op : list tt)                                   (* .. *)
| GRangeFrom (lo : gexpr) (op : list tt)                      (* a.. *)
| GRangeTo (op : list tt) (hi : gexpr)                        (* ..b ..=b *)
| GRange (lo : gexpr) (op : list tt) (hi : gexpr)             (* a..b a..=b *)
| GClosure (kws : list str) (params : list tt) (body : gexpr) (* |p, q| body, move |x: T<A, B>| body, || body *)
| GIf (c : gexpr) (then_ : list tt)                           (* if c {..} *)
| GIfElse (c : gexpr) (then_ : list tt) (else_ : gexpr)       (* if c {..} else <block or if> *)
| GMatch (scrut : gexpr) (arms : list tt)                     (* match s { arms } *)
| GWhile (c : gexpr) (body : list tt).                        (* while c {..} *)

Definition path_sep_tokens (second_joint : bool) : list tt :=
  [TPunct c_colon true; TPunct c_colon second_joint].

Definition print_piece (p : gpiece) : list tt :=
  match p with
  | PSeg s => path_sep_tokens false ++ [TIdent s]
  | PArgs args => path_sep_tokens true ++ TPunct c_lt false :: args ++ [TPunct c_gt false]
  end.

Definition print_path (p : gpath) : list tt :=
  TIdent (gp_head p) :: List.concat (List.map print_piece (gp_rest p)).

Definition print_opt {A} (f : A -> list tt) (o : option A) : list tt :=
  match o with Some x => f x | None => [] end.

Definition kw (s : string) : tt := TIdent (s2l s).
Definition c_bang := 33.

Fixpoint print (e : gexpr) : list tt :=
  match e with
  | GLit s => [TLit s]
  | GPath p => print_path p
  | GQPath q s rest =>
      TPunct c_lt false :: q ++ TPunct c_gt false :: path_sep_tokens false
        ++ TIdent s :: List.concat (List.map print_piece rest)
  | GGroup d ts => [TGroup d ts]
  | GKwBlock kws body => List.map TIdent kws ++ [TGroup Brace body]
  | GKw k => [TIdent k]
  | GKwPrefix k e => TIdent k :: print e
  | GMacro p d ts => print_path p ++ [TPunct c_bang false; TGroup d ts]
  | GStruct p fields => print_path p ++ [TGroup Brace fields]
  | GCall f args => print f ++ [TGroup Paren args]
  | GMethod r name tf args =>
      print r ++ TPunct c_dot false :: TIdent name
        :: print_opt (fun a => print_piece (PArgs a)) tf ++ [TGroup Paren args]
  | GField e m => print e ++ [TPunct c_dot false; m]
  | GIndex e idx => print e ++ [TGroup Bracket idx]
  | GTry e => print e ++ [TPunct c_quest false]
  | GAwait e => print e ++ [TPunct c_dot false; kw "await"]
  | GUnary op e => op ++ print e
  | GBinary l op r => print l ++ op ++ print r
  | GOrOr l r => print l ++ TPunct c_bar true :: TPunct c_bar false :: print r
  | GCast e ty => print e ++ kw "as" :: print_path ty
  | GRangeFull op => op
  | GRangeFrom lo op => print lo ++ op
  | GRangeTo op hi => op ++ print hi
  | GRange lo op hi => print lo ++ op ++ print hi
  | GClosure kws params body =>
      List.map TIdent kws ++ TPunct c_bar false :: params ++ TPunct c_bar false :: print body
  | GIf c th => kw "if" :: print c ++ [TGroup Brace th]
  | GIfElse c th el => kw "if" :: print c ++ TGroup Brace th :: kw "else" :: print el
  | GMatch s arms => kw "match" :: print s ++ [TGroup Brace arms]
  | GWhile c body => kw "while" :: print c ++ [TGroup Brace body]
  end.

Definition wf_piece (p : gpiece) : Prop :=
  match p with PSeg _ => True | PArgs args => acontent args end.

Definition wf_path (p : gpath) : Prop := Forall wf_piece (gp_rest p).

Definition simple_toks (ts : list tt) : Prop := Forall (fun t => simple t = true) ts.

(** side conditions: raw token parameters that sit at the top level of the printed expression are
    angle-balanced (generic arguments, qualified self type, closure parameters — the latter also
    free of `|`), operators are non-empty and spelled with simple tokens, a field member is a simple token *)
Fixpoint wf (e : gexpr) : Prop :=
  match e with
  | GLit _ | GGroup _ _ | GKwBlock _ _ | GKw _ => True
  | GPath p | GMacro p _ _ | GStruct p _ => wf_path p
  | GQPath q _ rest => acontent q /\ Forall wf_piece rest
  | GKwPrefix _ e => wf e
  | GCall f _ => wf f
  | GMethod r _ tf _ => wf r /\ match tf with Some a => acontent a | None => True end
  | GField e m => wf e /\ simple m = true
  | GIndex e _ | GTry e | GAwait e => wf e
  | GUnary op e => simple_toks op /\ wf e
  | GBinary l op r => wf l /\ simple_toks op /\ wf r
  | GOrOr l r => wf l /\ wf r
  | GCast e ty => wf e /\ wf_path ty
  | GRangeFull op => simple_toks op /\ op <> []
  | GRangeFrom lo op => wf lo /\ simple_toks op
  | GRangeTo op hi => simple_toks op /\ wf hi
  | GRange lo op hi => wf lo /\ simple_toks op /\ wf hi
  | GClosure _ params body => acontent params /\ nobar params /\ wf body
  | GIf c _ => wf c
  | GIfElse c _ el => wf c /\ wf el
  | GMatch s _ => wf s
  | GWhile c _ => wf c
  end.

(* ------------------------------------------------------------------ vocabulary of the losslessness theorems *)

(** the spacing flag of a top-level `,` or `=` is the only thing re-emission may change
    (syn keeps no spacing for the tokens it parses as Token![,] / Token![=] and prints them Alone) *)
Definition forget (t : tt) : tt :=
  match t with
  | TPunct ch j => if (ch =? c_comma) || (ch =? c_eq) then TPunct ch false else t
  | _ => t
  end.

Definition sep_alone (t : tt) : bool :=
  match t with
  | TPunct ch j => if (ch =? c_comma) || (ch =? c_eq) then negb j else true
  | _ => true
  end.

Definition head_punct (q : N) (c : list tt) : bool :=
  match c with TPunct ch _ :: _ => ch =? q | _ => false end.

(** an `=` spaced [j] in front of [rest] is part of `==` or `=>` (the only tokens rustc glues a leading `=` into) *)
Definition glued (j : bool) (rest : list tt) : bool :=
  j && (head_punct c_eq rest || head_punct c_gt rest).

(** the source tokens of one parsed argument: `alias =` then the expression, verbatim; the `=` may have any spacing
    but is never the first half of `==` / `=>` (so erasing its spacing flag changes nothing for rustc) *)
Definition arg_src (a : fmt_argument) (src : list tt) : Prop :=
  match fa_alias a with
  | None => src = expr_to_tokens (fa_expr a)
  | Some s => exists j, src = TIdent s :: TPunct c_eq j :: expr_to_tokens (fa_expr a)
                        /\ glued j (expr_to_tokens (fa_expr a)) = false
  end.

Definition ident_iff (e : expr) : Prop :=
  is_plain_field_ref e = true <-> exists i, expr_to_tokens e = [TIdent i].

Definition opt_comma (b : bool) : list tt := if b then [comma_alone] else [].

(* ================================================================== Part 3: reference scanner and grammar-level spec *)

(** fuel-free reference versions of the combinators (proved equal to the model functions in Proofs.v) *)
Definition path_sep_ref (c : cursor) : option (stream * cursor) :=
  match c with
  | TPunct c1 true :: TPunct c2 j :: r =>
      if (c1 =? c_colon) && (c2 =? c_colon) then Some ([TPunct c1 true; TPunct c2 j], r) else None
  | _ => None
  end.


Definition arrow_ref (c : cursor) : option (stream * cursor) :=
  match c with
  | TPunct c1 true :: TPunct c2 j :: r =>
      if (c1 =? c_minus) && (c2 =? c_gt) then Some ([TPunct c1 true; TPunct c2 j], r) else None
  | _ => None
  end.


(** the counting loop of balanced_pair for two punctuation characters, by structural recursion on the
    cursor; returns the consumed prefix.  A `->` is stepped over. *)
Fixpoint bal (o cl : N) (count : nat) (c : cursor) {struct c} : option (stream * cursor) :=
  match count with
  | O => Some ([], c)
  | S k =>
      match c with
      | [] => None
      | t :: c' =>
          match (if is_jminus t then match c' with
                                     | t2 :: c'' => if is_p c_gt t2 then Some (t2, bal o cl count c'') else None
                                     | [] => None end
                 else None) with
          | Some (t2, res) =>
              match res with Some (s, r) => Some (t :: t2 :: s, r) | None => None end
          | None =>
              match bal o cl (if is_p cl t then k else if is_p o t then S count else count) c' with
              | Some (s, r) => Some (t :: s, r)
              | None => None
              end
          end
      end
  end.


Definition balanced_pair_ref (o cl : N) (c : cursor) : option (stream * cursor) :=
  match c with
  | t :: c' =>
      if is_p o t then match bal o cl 1 c' with Some (s, r) => Some (t :: s, r) | None => None end
      else None
  | [] => None
  end.


Definition seq2_ref (p q : cursor -> option (stream * cursor)) (c : cursor) : option (stream * cursor) :=
  match p c with
  | Some (s1, c1) => match q c1 with Some (s2, c2) => Some (s1 ++ s2, c2) | None => None end
  | None => None
  end.

Definition orelse {A} (a b : option A) : option A := match a with Some x => Some x | None => b end.

Definition token_tree_ref (c : cursor) : option (stream * cursor) :=
  match c with t :: r => Some ([t], r) | [] => None end.

Definition expr_alt_ref (c : cursor) : option (stream * cursor) :=
  orelse (seq2_ref path_sep_ref (balanced_pair_ref c_lt c_gt) c)
 (orelse (seq2_ref (balanced_pair_ref c_lt c_gt) path_sep_ref c)
 (orelse (balanced_pair_ref c_bar c_bar c)
         (token_tree_ref c))).


(* ------------------------------------------------------------------ the grammar-level splitter (specification)

   A position-aware reading of an argument's tokens, the way Rust's expression grammar reads them: it knows
   whether an operand or an operator is expected, so `<` and `|` after an operand are binary operators, `<` and
   `|` where an operand is expected open a qualified path / a closure parameter list, `::<` opens generic
   arguments, and after `as` / `->` a type is read, whose `<` opens generic arguments.  It never looks at what
   the scanner of parsing.rs does.  Every step also says whether it is one of the situations in which that
   scanner is known to read the tokens differently ([ok] = false):
     - an operator-position `<` from which the scanner's `<..>::` alternative would nevertheless succeed,
     - an operator-position `|` (not `||`) from which the scanner's `|..|` alternative would succeed,
     - generic arguments in type position (`x as M<K, V>`, `|x| -> M<K, V> {..}`), a closure binder `for<..>`.
   The characterisation theorem says that on every token list without such a step the scanner's split IS this one;
   the check measures this splitter against syn's full expression parser on every run. *)

Inductive pos :=
| POperand      (* an operand is expected *)
| POperator     (* an operand has just ended *)
| PType         (* inside a type (after `as`, `->`) *)
| PMinus        (* operand expected, previous token was a Joint `-` *)
| PTMinus       (* inside a type, previous token was a Joint `-` *)
| PShift        (* after the first `<` of `<<` / `<<=` *)
| PHash         (* after `#`: the attribute's bracket group follows *)
| PTick.        (* after `'`: a label / lifetime name follows *)

Definition kw_operand_next : list str := Eval vm_compute in List.map s2l
  ["return"; "break"; "continue"; "yield"; "move"; "async"; "unsafe"; "if"; "else"; "match"; "while"; "for"; "in";
   "loop"; "let"; "mut"; "ref"; "const"; "static"; "dyn"; "impl"; "box"; "where"; "raw"]%string.

Definition c_hash_ := 35.
Definition kw_as : str := Eval vm_compute in s2l "as".
Definition kw_for : str := Eval vm_compute in s2l "for".

Definition after_tok (t : tt) : pos :=
  match t with
  | TIdent s =>
      if str_eqb s kw_as then PType
      else if existsb (str_eqb s) kw_operand_next then POperand else POperator
  | TLit _ | TGroup _ _ => POperator
  | TPunct ch j =>
      if ch =? c_quest then POperator
      else if ch =? c_hash_ then PHash
      else if ch =? c_apos then PTick
      else if (ch =? c_minus) && j then PMinus
      else POperand
  end.

Definition type_tok (t : tt) : bool :=
  match t with
  | TIdent s => negb (str_eqb s kw_as)
  | TLit _ => false
  | TGroup d _ => match d with Brace => false | _ => true end
  | TPunct ch _ => existsb (N.eqb ch) [38; 42; c_apos; c_colon; 33; c_quest; c_minus]      (* & * ' : ! ? - *)
  end.

Definition is_type_pos (st : pos) : bool := match st with PType | PTMinus => true | _ => false end.
Definition is_some {A} (o : option A) : bool := match o with Some _ => true | None => false end.

Definition turbofish_ref : cursor -> option (stream * cursor) := seq2_ref path_sep_ref (balanced_pair_ref c_lt c_gt).
Definition qpath_ref : cursor -> option (stream * cursor) := seq2_ref (balanced_pair_ref c_lt c_gt) path_sep_ref.
Definition bars_ref_ : cursor -> option (stream * cursor) := balanced_pair_ref c_bar c_bar.

(** one unit read where an operator is expected ([second]: the previous token was the first `<` of `<<`) *)
Definition operator_step (second : bool) (t : tt) (r : cursor) : stream * cursor * pos * bool :=
  if is_p c_lt t then
    (* Rust's lexer is greedy: a Joint `<` followed by `=` is `<=`, followed by `<` it is `<<`, whose second `<`
       may in turn be followed by `=` (`<<=`); then the operator is over *)
    let j := match t with TPunct _ j => j | _ => false end in
    ([t], r,
     (if j && head_punct c_eq r then POperator
      else if negb second && j && head_punct c_lt r then PShift
      else POperand),
     negb (is_some (qpath_ref (t :: r))))
  else if is_p c_bar t then
    match t, r with
    | TPunct _ true, t2 :: r2 =>
        if is_p c_bar t2 then ([t; t2], r2, POperand, true)                       (* `||` *)
        else ([t], r, POperand, negb (is_some (bars_ref_ (t :: r))))
    | _, _ => ([t], r, POperand, negb (is_some (bars_ref_ (t :: r))))
    end
  else ([t], r, after_tok t, true).

Definition spec_step (st : pos) (c : cursor) : option (stream * cursor * pos * bool) :=
  match c with
  | [] => None
  | t :: r =>
      match turbofish_ref c with
      | Some (u, r') => Some (u, r', if is_type_pos st then PType else POperator, true)
      | None =>
          if is_type_pos st then
            if is_p c_lt t then
              match balanced_pair_ref c_lt c_gt c with
              | Some (u, r') => Some (u, r', PType, false)                        (* generic arguments of a type *)
              | None => Some ([t], r, POperand, true)
              end
            else if match st with PTMinus => is_p c_gt t | _ => false end then Some ([t], r, PType, true)
            else if type_tok t then Some ([t], r, if is_jminus t then PTMinus else PType, true)
            else Some (operator_step false t r)
          else match st with
          | POperator => Some (operator_step false t r)
          | PShift => Some (operator_step true t r)
          | _ =>
              if match st with PMinus => is_p c_gt t | _ => false end then Some ([t], r, PType, true)   (* `->` *)
              else if match st, t with PHash, TGroup _ _ => true | PTick, TIdent _ => true | _, _ => false end
              then Some ([t], r, POperand, true)
              else if is_p c_lt t then
                match qpath_ref c with
                | Some (u, r') => Some (u, r', POperand, true)                    (* `<T as Tr<A, B>>::` *)
                | None => Some ([t], r, POperand, true)
                end
              else if is_p c_bar t then
                match bars_ref_ c with
                | Some (u, r') => Some (u, r', POperand, true)                    (* closure parameters *)
                | None => Some ([t], r, POperand, true)
                end
              else match t, balanced_pair_ref c_lt c_gt r with
                   | TIdent s, Some (u, r') =>
                       if str_eqb s kw_for then Some (t :: u, r', POperand, false)   (* closure binder *)
                       else Some ([t], r, after_tok t, true)
                   | _, _ => Some ([t], r, after_tok t, true)
                   end
          end
      end
  end.

Inductive sres (A : Type) : Type := SOk (a : A) (ok : bool) | SFail (ok : bool) | SFuel.
Arguments SOk {A} a ok.
Arguments SFail {A} ok.
Arguments SFuel {A}.

(** one argument: units up to the first top-level comma *)
Fixpoint spec_arg_loop (fuel : nat) (st : pos) (out : stream) (parsed : bool) (c : cursor) {struct fuel}
  : sres (stream * cursor) :=
  match fuel with
  | O => SFuel
  | S fuel' =>
      let finish := if parsed then SOk (out, c) true else SFail true in
      match c with
      | [] => finish
      | t :: _ =>
          if is_p c_comma t then finish
          else match spec_step st c with
               | Some (u, r, st', ok) =>
                   match spec_arg_loop fuel' st' (out ++ u) true r with
                   | SOk x ok2 => SOk x (ok && ok2)
                   | SFail ok2 => SFail (ok && ok2)
                   | SFuel => SFuel
                   end
               | None => SFail true
               end
      end
  end.

(** the list: argument, comma, argument, ... with an optional trailing comma; every argument starts in [POperand] *)
Fixpoint spec_split_loop (fuel : nat) (c : cursor) {struct fuel} : sres (list stream * bool) :=
  match fuel with
  | O => SFuel
  | S fuel' =>
      match c with
      | [] => SOk ([], false) true
      | _ =>
          match spec_arg_loop fuel POperand [] false c with
          | SOk (a, c1) ok =>
              match c1 with
              | [] => SOk ([a], false) ok
              | _ =>
                  match parse_punct1 c_comma c1 with
                  | Some c2 =>
                      match spec_split_loop fuel' c2 with
                      | SOk (vs, tr) ok2 => SOk (a :: vs, match vs with [] => true | _ => tr end) (ok && ok2)
                      | SFail ok2 => SFail (ok && ok2)
                      | SFuel => SFuel
                      end
                  | None => SFail ok
                  end
              end
          | SFail ok => SFail ok
          | SFuel => SFuel
          end
      end
  end.

Definition spec_split (ts : list tt) : sres (list stream * bool) := spec_split_loop (S (length ts)) ts.

(** the token list contains none of the situations listed above *)
Definition limit_free (ts : list tt) : bool :=
  match spec_split ts with SOk _ ok => ok | SFail ok => ok | SFuel => false end.

(** what the grammar-level splitter says, in the vocabulary of the scanner's result *)
Definition spec_result (ts : list tt) : outcome (list expr * bool) :=
  match spec_split ts with
  | SOk (args, tr) _ => Ok (List.map mk_expr args, tr)
  | SFail _ => Fail
  | SFuel => Fuel
  end.

Definition view_spec (ts : list tt) : sres (list nat * bool) :=
  match spec_split ts with
  | SOk (args, tr) ok => SOk (List.map (@length tt) args, tr) ok
  | SFail ok => SFail ok
  | SFuel => SFuel
  end.

(* ------------------------------------------------------------------ which argument a placeholder denotes

   fmt/mod.rs:153-203 FmtAttribute::transparent_call, the part that selects the argument (cases (3)-(5)); the
   placeholder itself ([parsing::format] of the literal, no modifiers) is an input here (property C03/C05). *)
Inductive ph_arg := PhNone | PhIndex (n : nat) | PhName (s : str).   (* `{}` / `{N}` / `{name}` *)

Definition transparent_expr (ph : ph_arg) (a : fmt_attribute) : option expr :=
  let items := p_items (at_args a) in
  match ph with
  | PhNone | PhIndex O =>                                   (* (3) exactly one argument, aliased or not *)
      match items with [x] => Some (fa_expr x) | _ => None end
  | PhIndex (S _) => None                                   (* left for format_args! to report *)
  | PhName n =>
      match items with
      | [] => Some (EIdent n)                               (* (4) an outer binding *)
      | [x] =>                                              (* (5) the one argument named so *)
          match fa_alias x with
          | Some al => if str_eqb al n then Some (fa_expr x) else None
          | None => None
          end
      | _ => None
      end
  end.

(* fmt/mod.rs:248-263 bounded_types: the argument a placeholder refers to *)
Definition arg_by_index (a : fmt_attribute) (i : nat) : option fmt_argument := nth_error (p_items (at_args a)) i.
Definition arg_by_name (a : fmt_attribute) (n : str) : option fmt_argument :=
  List.find (fun x => match fa_alias x with Some al => str_eqb al n | None => false end) (p_items (at_args a)).

(** format_args!'s own rule: an index is a position in the argument list whether the argument is aliased or not;
    a name is the argument with that alias, otherwise an implicit capture of the name *)
Inductive denoted := DArg (i : nat) | DCapture (n : str) | DInvalid.

Fixpoint find_alias (n : str) (items : list fmt_argument) (i : nat) : option nat :=
  match items with
  | [] => None
  | x :: rest =>
      match fa_alias x with
      | Some al => if str_eqb al n then Some i else find_alias n rest (S i)
      | None => find_alias n rest (S i)
      end
  end.

Definition fa_denotes (ph : ph_arg) (items : list fmt_argument) : denoted :=
  match ph with
  | PhNone => if Nat.ltb 0 (length items) then DArg 0 else DInvalid
  | PhIndex i => if Nat.ltb i (length items) then DArg i else DInvalid
  | PhName n => match find_alias n items 0 with Some i => DArg i | None => DCapture n end
  end.

(** the `name =` decision of FmtArgument::parse as a function of the tokens *)
Definition alias_shape (c : cursor) : option str :=
  match c with
  | TIdent s :: TPunct ch j :: rest =>
      if accept_as_ident s && (ch =? c_eq) && negb (glued j rest) then Some s else None
  | _ => None
  end.

Definition view_transparent (ph : ph_arg) (c : cursor) : outcome (option stream) :=
  match parse_attr c with
  | Ok a => Ok (match transparent_expr ph a with Some e => Some (expr_to_tokens e) | None => None end)
  | Fail => Fail
  | Fuel => Fuel
  end.

(* ------------------------------------------------------------------ shorthand for writing token lists in statements *)
Definition id_ (s : string) : tt := TIdent (s2l s).      (* identifier or keyword *)
Definition pa (c : N) : tt := TPunct c false.            (* punct, Spacing::Alone *)
Definition pj (c : N) : tt := TPunct c true.             (* punct, Spacing::Joint *)
Definition num (s : string) : tt := TLit (s2l s).        (* literal *)
