(** C08 - lemmas and proofs about the model of From / Into / Constructor. *)
From Coq Require Import List NArith Bool Arith Lia.
Import ListNotations.
Require Import Verif.C08.Model.

(* ------------------------------------------------------------------ generic list facts *)

Lemma nth_error_ext_eq {A} (l1 l2 : list A) :
  (forall i, nth_error l1 i = nth_error l2 i) -> l1 = l2.
Proof.
  revert l2; induction l1 as [|x l1 IH]; intros [|y l2] H; try reflexivity.
  - specialize (H 0); discriminate.
  - specialize (H 0); discriminate.
  - f_equal.
    + specialize (H 0); cbn in H; congruence.
    + apply IH; intros i; exact (H (S i)).
Qed.

Lemma mapi_from_length {A B} (f : nat -> A -> B) k l : length (mapi_from f k l) = length l.
Proof. revert k; induction l as [|x l IH]; intros k; cbn; [reflexivity | now rewrite IH]. Qed.

Lemma mapi_from_nth {A B} (f : nat -> A -> B) k l i :
  nth_error (mapi_from f k l) i = option_map (f (k + i)) (nth_error l i).
Proof.
  revert k i; induction l as [|x l IH]; intros k [|i]; cbn; try reflexivity.
  - now rewrite Nat.add_0_r.
  - rewrite IH. now replace (S k + i) with (k + S i) by lia.
Qed.

Lemma mapi_nth {A B} (f : nat -> A -> B) l i :
  nth_error (mapi f l) i = option_map (f i) (nth_error l i).
Proof. unfold mapi. now rewrite mapi_from_nth. Qed.

Lemma mapi_length {A B} (f : nat -> A -> B) l : length (mapi f l) = length l.
Proof. apply mapi_from_length. Qed.

Lemma mapi_from_map {A B C} (g : B -> C) (f : nat -> A -> B) k l :
  map g (mapi_from f k l) = mapi_from (fun i x => g (f i x)) k l.
Proof. revert k; induction l as [|x l IH]; intros k; cbn; [reflexivity | now rewrite IH]. Qed.

Lemma mapi_from_seq {A B} (g : nat -> B) k (l : list A) :
  mapi_from (fun i _ => g i) k l = map g (seq k (length l)).
Proof. revert k; induction l as [|x l IH]; intros k; cbn; [reflexivity | now rewrite IH]. Qed.

Lemma mapi_from_id {A} k (l : list A) : mapi_from (fun _ x => x) k l = l.
Proof. revert k; induction l as [|x l IH]; intros k; cbn; [reflexivity | now rewrite IH]. Qed.

Lemma omap_map {A B C} (f : B -> option C) (g : A -> B) l :
  omap f (map g l) = omap (fun x => f (g x)) l.
Proof. induction l as [|x l IH]; cbn; [reflexivity | now rewrite IH]. Qed.

Lemma omap_total {A B} (f : A -> option B) (g : A -> B) l :
  (forall x, In x l -> f x = Some (g x)) -> omap f l = Some (map g l).
Proof.
  induction l as [|x l IH]; intros H; cbn; [reflexivity|].
  rewrite (H x (or_introl eq_refl)), IH; [reflexivity|].
  intros y Hy; apply H; now right.
Qed.

Lemma omap_nth_seq {A} (l : list A) : omap (fun k => nth_error l k) (seq 0 (length l)) = Some l.
Proof.
  induction l as [|x l IH]; [reflexivity|].
  cbn [length seq omap nth_error]. rewrite <- seq_shift, omap_map. cbn [nth_error].
  now rewrite IH.
Qed.

Lemma combine_nth_error {A B} (l1 : list A) (l2 : list B) i :
  nth_error (combine l1 l2) i =
  match nth_error l1 i, nth_error l2 i with Some a, Some b => Some (a, b) | _, _ => None end.
Proof.
  revert l2 i; induction l1 as [|a l1 IH]; intros [|b l2] [|i]; cbn; try reflexivity.
  - now destruct (nth_error l1 i).
  - apply IH.
Qed.

(* ------------------------------------------------------------------ validate_type *)

Definition comps (t : ty) : list ty := match t with TTuple l => l | o => [o] end.

Lemma validate_type_comps n t c : validate_type n t = Some c -> c = comps t.
Proof.
  unfold validate_type; destruct t as [a|k|l]; cbn [comps];
    destruct (1 <? n); try discriminate; try (intros H; now inversion H).
  - destruct (n =? length l); [intros H; now inversion H | discriminate].
  - destruct ((n =? 1) && is_nil l); [discriminate | intros H; now inversion H].
Qed.

Lemma validate_type_len n t c : 2 <= n -> validate_type n t = Some c -> length c = n.
Proof.
  intros Hn. unfold validate_type.
  assert (H1 : (1 <? n) = true) by (apply Nat.ltb_lt; lia).
  destruct t as [a|k|l]; rewrite H1; try discriminate.
  destruct (Nat.eqb_spec n (length l)); [intros H; inversion H; subst; congruence | discriminate].
Qed.

(* with at least one field the accepted type has at least one component (since 04051df: the empty
   tuple is refused for a single field) *)
Lemma validate_type_len1 n t c : 1 <= n -> validate_type n t = Some c -> n <= length c \/ n = 1 /\ 1 <= length c.
Proof.
  intros Hn H. destruct (le_lt_dec 2 n) as [H2|H2].
  - left. rewrite (validate_type_len n t c H2 H). lia.
  - right. assert (n = 1) by lia. subst n. split; [reflexivity|].
    unfold validate_type in H. destruct t as [a|k|l]; cbn in H; try (inversion H; cbn; lia).
    destruct l; cbn in H; [discriminate | inversion H; cbn; lia].
Qed.

Lemma validate_type_components n t c :
  validate_type n t = Some c -> c = comps t /\ (2 <= n -> length c = n) /\ (1 <= n -> 1 <= length c).
Proof.
  intros H. split; [exact (validate_type_comps n t c H)|]. split.
  - intros Hn; exact (validate_type_len n t c Hn H).
  - intros Hn. destruct (validate_type_len1 n t c Hn H) as [H1|[_ H1]]; lia.
Qed.

(* the arity check: a listed type is accepted iff it is a tuple with exactly as many elements as
   there are fields, or there is at most one field and it is not the empty tuple offered for one *)
Lemma validate_type_ok_iff n t :
  (exists c, validate_type n t = Some c) <->
  ((n <= 1 /\ (n = 1 -> t <> TTuple [])) \/ exists l, t = TTuple l /\ length l = n).
Proof.
  unfold validate_type. split.
  - intros [c H]. destruct (Nat.ltb_spec 1 n) as [Hn|Hn].
    + right. destruct t as [a|k|l]; try discriminate.
      destruct (Nat.eqb_spec n (length l)); [| discriminate]. exists l; split; congruence.
    + left. split; [lia|]. intros -> ->. cbn in H. discriminate.
  - intros [[Hn Hne] | [l [-> Hl]]].
    + assert (H1 : (1 <? n) = false) by (apply Nat.ltb_ge; lia).
      rewrite H1. destruct t as [a|k|l]; try (eexists; reflexivity).
      destruct (Nat.eqb_spec n 1) as [E|E]; cbn [andb]; [|eexists; reflexivity].
      destruct l; cbn [is_nil]; [exfalso; now apply Hne | eexists; reflexivity].
    + destruct (1 <? n); [rewrite <- Hl, Nat.eqb_refl; eexists; reflexivity|].
      destruct l; cbn in Hl; subst n; cbn [is_nil]; [| rewrite andb_false_r]; eexists; reflexivity.
Qed.

(* the rejection added by 04051df *)
Lemma validate_type_unit_single : validate_type 1 (TTuple []) = None.
Proof. reflexivity. Qed.

Lemma validate_type_own n (l : list ty) : length l = n -> validate_type n (TTuple l) = Some l.
Proof.
  intros <-. unfold validate_type. destruct (1 <? length l); [now rewrite Nat.eqb_refl|].
  destruct l; cbn [is_nil]; [reflexivity | now rewrite andb_false_r].
Qed.

(* ------------------------------------------------------------------ projs / pack *)

Lemma projs_length ftys : length (projs ftys) = length ftys.
Proof.
  destruct ftys as [|a [|b r]]; try reflexivity.
  unfold projs. now rewrite mapi_length.
Qed.

Lemma projs_nth ftys i p :
  nth_error (projs ftys) i = Some p ->
  i < length ftys /\ p = (if length ftys =? 1 then None else Some i).
Proof.
  intros H.
  assert (Hi : i < length ftys).
  { rewrite <- projs_length. apply nth_error_Some. congruence. }
  split; [exact Hi|].
  destruct ftys as [|a [|b r]].
  - cbn in Hi; lia.
  - destruct i; [cbn in H |- *; congruence | cbn in Hi; lia].
  - unfold projs in H. rewrite mapi_nth in H.
    destruct (nth_error (a :: b :: r) i); cbn in H; [|discriminate].
    cbn [length Nat.eqb]. congruence.
Qed.

Lemma proj_pack ftys (cs : list value) i p :
  length cs = length ftys -> nth_error (projs ftys) i = Some p ->
  proj (pack cs) p = nth_error cs i.
Proof.
  intros Hl H. apply projs_nth in H as [Hi ->].
  destruct (Nat.eqb_spec (length ftys) 1) as [H1|H1].
  - destruct cs as [|c [|c' cs]]; cbn in Hl; try lia.
    assert (i = 0) by lia. subst. reflexivity.
  - assert (Hp : pack cs = VTuple cs).
    { destruct cs as [|c [|c' cs]]; try reflexivity. cbn in Hl; lia. }
    rewrite Hp. reflexivity.
Qed.

(* ------------------------------------------------------------------ from_fields *)

Lemma from_fields_spec conv inits : forall ftys v,
  length inits = length ftys ->
  (forall i init, nth_error inits i = Some init -> exists x, proj v (fi_proj init) = Some x) ->
  exists fields,
    from_fields conv inits ftys v = Some fields /\ length fields = length ftys /\
    forall i init fty x, nth_error inits i = Some init -> nth_error ftys i = Some fty ->
                         proj v (fi_proj init) = Some x ->
                         nth_error fields i = Some (apply_fconv conv (fi_conv init) fty x).
Proof.
  induction inits as [|a inits IH]; intros [|t ftys] v Hl Hp; try discriminate.
  - exists []. repeat split. intros [|i]; discriminate.
  - destruct (Hp 0 a eq_refl) as [x Hx].
    destruct (IH ftys v) as [r [Hr [Hlen Hnth]]].
    + cbn in Hl; lia.
    + intros i init Hi. exact (Hp (S i) init Hi).
    + exists (apply_fconv conv (fi_conv a) t x :: r). cbn [from_fields]. rewrite Hx, Hr.
      split; [reflexivity|]. split; [cbn; lia|].
      intros [|i] init fty y Hi Hf Hy; cbn in *.
      * inversion Hi; inversion Hf; subst. congruence.
      * eapply Hnth; eassumption.
Qed.

(* ------------------------------------------------------------------ shape of the From impls *)

(* case split on `skip_variant` wherever the compiled match of [expand_one] still inspects it *)
Ltac split_skip H :=
  try match type of H with
      | context [match (?a || ?b) with _ => _ end] => destruct (a || b)
      end.


(* what the model guarantees of every emitted impl that builds a struct/variant with fields [ftys] *)
Definition wf_impl (ftys : list ty) (d : from_impl) : Prop :=
  map fi_proj (fd_inits d) = projs ftys /\
  ( (* direct tuple form *)
    (map fi_conv (fd_inits d) = map (fun _ => Direct) ftys /\ fd_src d = paren_list ftys /\ fd_ngen d = 0)
    \/ (* #[from(Ty, ...)] *)
    (exists from_tys, validate_type (length ftys) (fd_src d) = Some from_tys /\
                      length ftys <= length from_tys /\
                      map fi_conv (fd_inits d) = map ViaFrom (firstn (length ftys) from_tys) /\
                      fd_ngen d = 0)
    \/ (* #[from(forward)] *)
    (map fi_conv (fd_inits d) = map ViaFrom (gen_tys (length ftys)) /\
     fd_src d = paren_list (gen_tys (length ftys)) /\ fd_ngen d = length ftys) ).

Lemma typed_inits_spec ps : forall from_tys inits,
  typed_inits ps from_tys = Some inits ->
  map fi_proj inits = ps /\ length ps <= length from_tys /\
  map fi_conv inits = map ViaFrom (firstn (length ps) from_tys).
Proof.
  induction ps as [|p ps IH]; intros from_tys inits H; cbn in H.
  - inversion H; subst. cbn. repeat split. lia.
  - destruct from_tys as [|t ts]; [discriminate|].
    destruct (typed_inits ps ts) as [r|] eqn:E; [|discriminate].
    inversion H; subst. destruct (IH _ _ E) as [H1 [H2 H3]].
    cbn. rewrite H1, H3. repeat split. lia.
Qed.

Lemma typed_inits_none ps from_tys :
  typed_inits ps from_tys = None <-> length from_tys < length ps.
Proof.
  revert from_tys; induction ps as [|p ps IH]; intros from_tys; cbn.
  - split; [discriminate | lia].
  - destruct from_tys as [|t ts]; cbn.
    + split; [lia | reflexivity].
    + specialize (IH ts). destruct (typed_inits ps ts).
      * split; [discriminate|]. intros H. assert (H' : length ts < length ps) by lia.
        apply IH in H'. discriminate.
      * split; [|reflexivity]. intros _. assert (H' : length ts < length ps) by now apply IH.
        lia.
Qed.

Lemma rcollect_ok {A B} (f : A -> res (list B)) l ds :
  rcollect f l = ROk ds ->
  exists dss, ds = concat dss /\ length dss = length l /\
              forall i x, nth_error l i = Some x -> exists dx, nth_error dss i = Some dx /\ f x = ROk dx.
Proof.
  revert ds; induction l as [|x l IH]; intros ds H; cbn in H.
  - inversion H; subst. exists []. repeat split. intros [|i]; discriminate.
  - destruct (f x) as [a| |] eqn:Ef; cbn in H; try discriminate.
    destruct (rcollect f l) as [b| |] eqn:Er; cbn in H; try discriminate.
    inversion H; subst. destruct (IH b eq_refl) as [dss [Hc [Hl Hn]]].
    exists (a :: dss). split; [cbn; congruence|]. split; [cbn; congruence|].
    intros [|i] y Hy; cbn in *.
    + inversion Hy; subst. eauto.
    + eauto.
Qed.

Lemma in_concat_nth {A} (dss : list (list A)) d :
  In d (concat dss) -> exists i dx, nth_error dss i = Some dx /\ In d dx.
Proof.
  induction dss as [|a dss IH]; cbn; [tauto|].
  intros H. apply in_app_or in H as [H|H].
  - exists 0, a. auto.
  - destruct (IH H) as [i [dx [H1 H2]]]. exists (S i), dx. auto.
Qed.

Lemma map_const_length {A B C} (l : list A) (l' : list B) (c : C) :
  length l = length l' -> map (fun _ => c) l = map (fun _ => c) l'.
Proof.
  revert l'; induction l as [|x l IH]; intros [|y l'] H; try discriminate; [reflexivity|].
  cbn. f_equal. apply IH. cbn in H; lia.
Qed.

Lemma expand_one_wf a variant ftys he ds :
  expand_one a variant ftys he = ROk ds ->
  forall d, In d ds -> fd_variant d = variant /\ wf_impl ftys d.
Proof.
  unfold expand_one. intros H d Hd.
  assert (Hdirect : forall dd,
     dd = {| fd_variant := variant; fd_src := paren_list ftys; fd_ngen := 0;
             fd_inits := map (fun p => {| fi_proj := p; fi_conv := Direct |}) (projs ftys) |} ->
     fd_variant dd = variant /\ wf_impl ftys dd).
  { intros dd ->. split; [reflexivity|]. split; cbn [fd_inits].
    - rewrite map_map. cbn. apply map_id.
    - left. cbn. repeat split. rewrite map_map. cbn.
      apply map_const_length. apply projs_length. }
  destruct a as [[| | |tys]|].
  - (* Empty *)
    split_skip H; inversion H; subst; destruct Hd as [<-|[]]; now apply Hdirect.
  - (* Skip *)
    split_skip H; inversion H; subst; destruct Hd.
  - (* Forward *)
    assert (ds = [ {| fd_variant := variant; fd_src := paren_list (gen_tys (length ftys));
               fd_ngen := length ftys;
               fd_inits := mapi (fun i p => {| fi_proj := p; fi_conv := ViaFrom (TGen i) |}) (projs ftys) |} ])
      by (split_skip H; now inversion H).
    subst ds. destruct Hd as [<-|[]]. split; [reflexivity|]. split; cbn [fd_inits].
    + unfold mapi. rewrite mapi_from_map. cbn. apply mapi_from_id.
    + right; right. cbn. repeat split.
      unfold mapi. rewrite mapi_from_map. cbn [fi_conv].
      rewrite (mapi_from_seq (fun i => ViaFrom (TGen i))). rewrite projs_length.
      unfold gen_tys. now rewrite map_map.
  - (* Types *)
    assert (Hc : rcollect (fun t =>
        match validate_type (length ftys) t with
        | None => RErr
        | Some from_tys =>
            match typed_inits (projs ftys) from_tys with
            | None => RPanic
            | Some inits => ROk [ {| fd_variant := variant; fd_src := t; fd_ngen := 0; fd_inits := inits |} ]
            end
        end) tys = ROk ds) by (split_skip H; exact H).
    clear H. apply rcollect_ok in Hc as [dss [-> [Hl Hn]]].
    apply in_concat_nth in Hd as [i [dx [Hi Hin]]].
    assert (Hx : exists t, nth_error tys i = Some t).
    { destruct (nth_error tys i) eqn:E; [eauto|]. apply nth_error_None in E.
      assert (i < length dss) by (apply nth_error_Some; congruence). lia. }
    destruct Hx as [t Ht]. destruct (Hn i t Ht) as [dx' [Hi' Hf]].
    rewrite Hi in Hi'; inversion Hi'; subst dx'.
    destruct (validate_type (length ftys) t) as [from_tys|] eqn:Ev; [|discriminate].
    destruct (typed_inits (projs ftys) from_tys) as [inits|] eqn:Et; [|discriminate].
    inversion Hf; subst dx. destruct Hin as [<-|[]].
    apply typed_inits_spec in Et as [H1 [H2 H3]]. rewrite projs_length in *.
    split; [reflexivity|]. split; [exact H1|]. right; left. exists from_tys. cbn. auto.
  - (* no attribute *)
    destruct (he || _); inversion H; subst; [destruct Hd|].
    destruct Hd as [<-|[]]. now apply Hdirect.
Qed.

Lemma expand_variants_wf he : forall vs attrs k ds,
  expand_variants he k vs attrs = ROk ds ->
  forall d, In d ds ->
    exists j v, nth_error vs j = Some v /\ fd_variant d = Some (k + j) /\ wf_impl (v_fields v) d.
Proof.
  induction vs as [|v vs IH]; intros [|a attrs] k ds H d Hd; cbn in H;
    try (inversion H; subst; destruct Hd; fail).
  destruct (expand_one a (Some k) (v_fields v) he) as [x| |] eqn:E1; cbn in H; try discriminate.
  destruct (expand_variants he (S k) vs attrs) as [y| |] eqn:E2; cbn in H; try discriminate.
  inversion H; subst. apply in_app_or in Hd as [Hd|Hd].
  - destruct (expand_one_wf _ _ _ _ _ E1 d Hd) as [Hv Hw].
    exists 0, v. rewrite Nat.add_0_r. auto.
  - destruct (IH _ _ _ E2 d Hd) as [j [v' [H1 [H2 H3]]]].
    exists (S j), v'. replace (k + S j) with (S k + j) by lia. auto.
Qed.

Lemma from_expand_wf it ds d :
  from_expand it = ROk ds -> In d ds ->
  exists ftys, fields_of it d = Some ftys /\ wf_impl ftys d.
Proof.
  destruct it as [attrs ftys|vs]; cbn [from_expand]; intros H Hd.
  - destruct (parse_attrs parse_struct_attr None attrs) as [a|]; [|discriminate].
    destruct (expand_one_wf _ _ _ _ _ H d Hd) as [Hv Hw].
    exists ftys. cbn. now rewrite Hv.
  - destruct (parse_all vs) as [attrs|]; [|discriminate].
    destruct (expand_variants_wf _ _ _ _ _ H d Hd) as [j [v [H1 [H2 H3]]]].
    exists (v_fields v). cbn in *. now rewrite H2, H1.
Qed.

(* ------------------------------------------------------------------ From: positions *)

Theorem from_positions (conv : kind -> ty -> ty -> value -> value) it ds d ftys cs :
  from_expand it = ROk ds -> In d ds -> fields_of it d = Some ftys -> length cs = length ftys ->
  exists fields,
    from_sem conv ftys d (pack cs) = Some fields /\ length fields = length ftys /\
    forall i c fty, nth_error cs i = Some c -> nth_error ftys i = Some fty ->
      exists init, nth_error (fd_inits d) i = Some init /\
                   nth_error fields i = Some (apply_fconv conv (fi_conv init) fty c).
Proof.
  intros He Hd Hf Hl.
  destruct (from_expand_wf _ _ _ He Hd) as [ftys' [Hf' [Hp _]]].
  rewrite Hf in Hf'; inversion Hf'; subst ftys'.
  assert (Hlen : length (fd_inits d) = length ftys).
  { rewrite <- (map_length fi_proj), Hp. apply projs_length. }
  assert (Hproj : forall i init, nth_error (fd_inits d) i = Some init ->
                                 proj (pack cs) (fi_proj init) = nth_error cs i).
  { intros i init Hi. apply (proj_pack ftys); [exact Hl|].
    rewrite <- Hp. rewrite nth_error_map, Hi. reflexivity. }
  destruct (from_fields_spec conv (fd_inits d) ftys (pack cs) Hlen) as [fields [H1 [H2 H3]]].
  - intros i init Hi. rewrite (Hproj i init Hi).
    destruct (nth_error cs i) eqn:E; [eauto|].
    apply nth_error_None in E. assert (i < length (fd_inits d)) by (apply nth_error_Some; congruence). lia.
  - exists fields. split; [exact H1|]. split; [exact H2|].
    intros i c fty Hc Hfty.
    destruct (nth_error (fd_inits d) i) as [init|] eqn:Hi.
    + exists init. split; [reflexivity|]. eapply H3; eauto. rewrite (Hproj i init Hi). exact Hc.
    + apply nth_error_None in Hi. assert (i < length ftys) by (apply nth_error_Some; congruence). lia.
Qed.

(* ------------------------------------------------------------------ From: which conversions, how many *)

Lemma from_trace_aux_direct inits : forall ftys,
  map fi_conv inits = map (fun _ => Direct) ftys -> from_trace_aux inits ftys = [].
Proof.
  induction inits as [|a inits IH]; intros [|t ftys] H; try reflexivity; try discriminate.
  cbn in H. injection H as H1 H2. cbn. rewrite H1. apply IH. exact H2.
Qed.

Lemma from_trace_aux_via inits : forall ftys l,
  length l = length ftys -> map fi_conv inits = map ViaFrom l ->
  from_trace_aux inits ftys = combine l ftys.
Proof.
  induction inits as [|a inits IH]; intros [|t ftys] [|x l] Hl H; try reflexivity; try discriminate.
  cbn in H. injection H as H1 H2. cbn. rewrite H1. f_equal. apply IH; [cbn in Hl; lia | exact H2].
Qed.

(* direct form: no From call at all; typed form: one From call per field, argument type = the
   corresponding element of the listed type; forward: one per field from the fresh parameter *)
Theorem from_conversions it ds d ftys :
  from_expand it = ROk ds -> In d ds -> fields_of it d = Some ftys ->
  (fd_src d = paren_list ftys /\ fd_ngen d = 0 /\ from_trace ftys d = [] /\
   forall init, In init (fd_inits d) -> fi_conv init = Direct)
  \/
  (exists from_tys, validate_type (length ftys) (fd_src d) = Some from_tys /\ fd_ngen d = 0 /\
     from_trace ftys d = combine (firstn (length ftys) from_tys) ftys /\
     length (from_trace ftys d) = length ftys)
  \/
  (fd_src d = paren_list (gen_tys (length ftys)) /\ fd_ngen d = length ftys /\
   from_trace ftys d = combine (gen_tys (length ftys)) ftys /\
   length (from_trace ftys d) = length ftys).
Proof.
  intros He Hd Hf.
  destruct (from_expand_wf _ _ _ He Hd) as [ftys' [Hf' [Hp Hk]]].
  rewrite Hf in Hf'; inversion Hf'; subst ftys'. unfold from_trace.
  destruct Hk as [[H1 [H2 H3]] | [[from_tys [H1 [H2 [H3 H4]]]] | [H1 [H2 H3]]]].
  - left. repeat split; auto.
    + now apply from_trace_aux_direct.
    + intros init Hi. apply (in_map fi_conv) in Hi. rewrite H1 in Hi.
      apply in_map_iff in Hi as [_ [Hi _]]. congruence.
  - right; left. exists from_tys.
    assert (Hl : length (firstn (length ftys) from_tys) = length ftys) by (rewrite firstn_length; lia).
    rewrite (from_trace_aux_via _ _ _ Hl H3). repeat split; auto.
    rewrite combine_length. lia.
  - right; right.
    assert (Hl : length (gen_tys (length ftys)) = length ftys)
      by (unfold gen_tys; now rewrite map_length, seq_length).
    rewrite (from_trace_aux_via _ _ _ Hl H1). repeat split; auto.
    rewrite combine_length. lia.
Qed.

(* ------------------------------------------------------------------ From: the set of impls *)

(* The documented set (impl/doc/from.md), as source types of `From<..>` for one struct / variant:
   skip -> none; listed types -> one per type; forward -> one blanket impl; `#[from]` -> the tuple
   of field types; no attribute -> the tuple of field types, except that an enum variant gets none
   when it has no fields or when any variant of the enum carries `#[from]`/types/forward. *)
Definition documented_from (explicit is_variant : bool) (a : option fattr) (ftys : list ty) : list ty :=
  match a with
  | Some FSkip => []
  | Some (FTypes tys) => tys
  | Some FForward => [paren_list (gen_tys (length ftys))]
  | Some FEmpty => [paren_list ftys]
  | None => if explicit then [] else if is_variant && is_nil ftys then [] else [paren_list ftys]
  end.

Lemma rcollect_singletons {A B} (g : A -> res B) l ds :
  rcollect (fun x => match g x with ROk b => ROk [b] | RErr => RErr | RPanic => RPanic end) l = ROk ds ->
  omap (fun x => match g x with ROk b => Some b | _ => None end) l = Some ds.
Proof.
  revert ds; induction l as [|x l IH]; intros ds H; cbn in *.
  - now inversion H.
  - destruct (g x); cbn in H; try discriminate.
    destruct (rcollect _ l) eqn:E; cbn in H; try discriminate.
    inversion H; subst. now rewrite (IH _ eq_refl).
Qed.

Lemma expand_one_srcs a variant ftys he ds :
  expand_one a variant ftys he = ROk ds ->
  map fd_src ds = documented_from he (is_some variant) a ftys.
Proof.
  unfold expand_one, documented_from. intros H.
  destruct a as [[| | |tys]|].
  - split_skip H; now inversion H.
  - split_skip H; now inversion H.
  - split_skip H; now inversion H.
  - assert (Hc : rcollect (fun t =>
        match validate_type (length ftys) t with
        | None => RErr
        | Some from_tys =>
            match typed_inits (projs ftys) from_tys with
            | None => RPanic
            | Some inits => ROk [ {| fd_variant := variant; fd_src := t; fd_ngen := 0; fd_inits := inits |} ]
            end
        end) tys = ROk ds) by (split_skip H; exact H).
    clear H. revert ds Hc. induction tys as [|t tys IH]; intros ds Hc; cbn in Hc.
    + now inversion Hc.
    + destruct (validate_type (length ftys) t); cbn in Hc; [|discriminate].
      destruct (typed_inits (projs ftys) l); cbn in Hc; [|discriminate].
      destruct (rcollect _ tys) eqn:E; cbn in Hc; try discriminate.
      inversion Hc; subst. cbn. f_equal. now apply IH.
  - destruct he; cbn [orb] in H.
    + now inversion H.
    + destruct (is_some variant && is_nil ftys); now inversion H.
Qed.

Lemma parse_all_nth vs attrs :
  parse_all vs = Some attrs ->
  length attrs = length vs /\
  forall k v, nth_error vs k = Some v ->
    exists a, nth_error attrs k = Some a /\ parse_attrs parse_variant_attr None (v_attrs v) = Some a.
Proof.
  revert attrs; induction vs as [|v vs IH]; intros attrs H; cbn in H.
  - inversion H; subst. split; [reflexivity|]. intros [|k]; discriminate.
  - destruct (parse_attrs parse_variant_attr None (v_attrs v)) as [a|] eqn:Ea; [|discriminate].
    destruct (parse_all vs) as [l|]; [|discriminate]. inversion H; subst.
    destruct (IH l eq_refl) as [Hl Hn]. split; [cbn; congruence|].
    intros [|k] w Hw; cbn in *.
    + inversion Hw; subst. eauto.
    + eauto.
Qed.

Lemma expand_variants_set he : forall vs attrs k ds,
  length attrs = length vs ->
  expand_variants he k vs attrs = ROk ds ->
  exists dss, ds = concat dss /\ length dss = length vs /\
    forall j v a ds_j, nth_error vs j = Some v -> nth_error attrs j = Some a -> nth_error dss j = Some ds_j ->
      map fd_src ds_j = documented_from he true a (v_fields v) /\
      (forall d, In d ds_j -> fd_variant d = Some (k + j)).
Proof.
  induction vs as [|v vs IH]; intros [|a attrs] k ds Hl H; cbn in H; try discriminate.
  - inversion H; subst. exists []. split; [reflexivity|]. split; [reflexivity|]. intros [|j]; discriminate.
  - destruct (expand_one a (Some k) (v_fields v) he) as [x| |] eqn:E1; cbn in H; try discriminate.
    destruct (expand_variants he (S k) vs attrs) as [y| |] eqn:E2; cbn in H; try discriminate.
    inversion H; subst. destruct (IH attrs (S k) y) as [dss [Hc [Hlen Hn]]]; [cbn in Hl; lia | exact E2 |].
    exists (x :: dss). split; [cbn; congruence|]. split; [cbn; congruence|].
    intros [|j'] w b ds_j Hw Hb Hd; cbn in *.
    + inversion Hw; inversion Hb; inversion Hd; subst. split.
      * apply (expand_one_srcs _ _ _ _ _ E1).
      * intros d Hin. rewrite Nat.add_0_r. apply (expand_one_wf _ _ _ _ _ E1 d Hin).
    + replace (k + S j') with (S k + j') by lia. eauto.
Qed.

(* enum: the emitted impls are, variant by variant and in declaration order, exactly the documented ones *)
Theorem from_impl_set_enum vs ds :
  from_expand (IEnum vs) = ROk ds ->
  exists attrs dss,
    parse_all vs = Some attrs /\ ds = concat dss /\ length dss = length vs /\ length attrs = length vs /\
    forall k v, nth_error vs k = Some v ->
      exists a ds_k,
        parse_attrs parse_variant_attr None (v_attrs v) = Some a /\ nth_error attrs k = Some a /\
        nth_error dss k = Some ds_k /\
        map fd_src ds_k = documented_from (existsb is_explicit attrs) true a (v_fields v) /\
        (forall d, In d ds_k -> fd_variant d = Some k).
Proof.
  cbn [from_expand]. intros H.
  destruct (parse_all vs) as [attrs|] eqn:Ep; [|discriminate].
  destruct (parse_all_nth _ _ Ep) as [Hl Hn].
  destruct (expand_variants_set _ _ _ _ _ Hl H) as [dss [Hc [Hlen Hs]]].
  exists attrs, dss. repeat split; auto.
  intros k v Hv. destruct (Hn k v Hv) as [a [Ha Hpa]].
  destruct (nth_error dss k) as [ds_k|] eqn:Ed.
  - exists a, ds_k. destruct (Hs k v a ds_k Hv Ha Ed) as [H1 H2]. repeat split; auto.
  - apply nth_error_None in Ed. assert (k < length vs) by (apply nth_error_Some; congruence). lia.
Qed.

Theorem from_impl_set_struct attrs ftys ds :
  from_expand (IStruct attrs ftys) = ROk ds ->
  exists a, parse_attrs parse_struct_attr None attrs = Some a /\
            map fd_src ds = documented_from false false a ftys /\
            (forall d, In d ds -> fd_variant d = None).
Proof.
  cbn [from_expand]. intros H.
  destruct (parse_attrs parse_struct_attr None attrs) as [a|]; [|discriminate].
  exists a. split; [reflexivity|]. split.
  - apply (expand_one_srcs _ _ _ _ _ H).
  - intros d Hd. apply (expand_one_wf _ _ _ _ _ H d Hd).
Qed.

(* readable consequence: no impl builds a skipped variant, a field-less variant without attribute,
   or an un-annotated variant of an enum in which some variant is annotated *)
Theorem from_no_impl_for vs ds k v a attrs :
  from_expand (IEnum vs) = ROk ds -> parse_all vs = Some attrs ->
  nth_error vs k = Some v -> nth_error attrs k = Some a ->
  (a = Some FSkip \/ (a = None /\ (v_fields v = [] \/ existsb is_explicit attrs = true))) ->
  forall d, In d ds -> fd_variant d <> Some k.
Proof.
  intros He Hp Hv Ha Hcase d Hd Hk.
  destruct (from_impl_set_enum _ _ He) as [attrs' [dss [Hp' [Hc [Hl [Hla Hn]]]]]].
  rewrite Hp in Hp'; inversion Hp'; subst attrs'. subst ds.
  apply in_concat_nth in Hd as [j [dx [Hj Hin]]].
  assert (Hvj : exists w, nth_error vs j = Some w).
  { destruct (nth_error vs j) eqn:E; [eauto|]. apply nth_error_None in E.
    assert (j < length dss) by (apply nth_error_Some; congruence). lia. }
  destruct Hvj as [w Hw]. destruct (Hn j w Hw) as [b [ds_j [_ [_ [Hdj [_ Hvar]]]]]].
  rewrite Hj in Hdj; inversion Hdj; subst ds_j.
  rewrite (Hvar d Hin) in Hk. inversion Hk; subst j.
  destruct (Hn k v Hv) as [a' [ds_k [_ [Ha' [Hdk [Hsrc _]]]]]].
  rewrite Ha in Ha'; inversion Ha'; subst a'. rewrite Hj in Hdk; inversion Hdk; subst ds_k.
  assert (Hnil : documented_from (existsb is_explicit attrs) true a (v_fields v) = []).
  { destruct Hcase as [-> | [-> [Hf | Hex]]]; cbn.
    - reflexivity.
    - rewrite Hf. now destruct (existsb is_explicit attrs).
    - now rewrite Hex. }
  rewrite Hnil in Hsrc. destruct dx; [destruct Hin | discriminate].
Qed.

(* ------------------------------------------------------------------ From: no panic *)

Lemma rcollect_panic {A B} (f : A -> res (list B)) l :
  rcollect f l = RPanic -> exists x, In x l /\ f x = RPanic.
Proof.
  induction l as [|x l IH]; cbn; [discriminate|].
  destruct (f x) eqn:E; cbn; try discriminate.
  - destruct (rcollect f l); cbn; try discriminate.
    intros _. destruct (IH eq_refl) as [y [H1 H2]]. exists y; auto.
  - intros _. exists x; auto.
Qed.

Lemma expand_one_no_panic a variant ftys he : expand_one a variant ftys he <> RPanic.
Proof.
  unfold expand_one. intros H.
  destruct a as [[| | |tys]|]; try (split_skip H; discriminate).
  assert (Hc : rcollect (fun t =>
        match validate_type (length ftys) t with
        | None => RErr
        | Some from_tys =>
            match typed_inits (projs ftys) from_tys with
            | None => RPanic
            | Some inits => ROk [ {| fd_variant := variant; fd_src := t; fd_ngen := 0; fd_inits := inits |} ]
            end
        end) tys = RPanic) by (split_skip H; exact H).
  clear H. apply rcollect_panic in Hc as [t [Hin Ht]].
  destruct (validate_type (length ftys) t) as [from_tys|] eqn:Ev; [|discriminate].
  destruct (typed_inits (projs ftys) from_tys) eqn:Et; [discriminate|].
  apply typed_inits_none in Et. rewrite projs_length in Et.
  destruct (validate_type_components _ _ _ Ev) as [_ [H2 H1]].
  destruct (le_lt_dec 2 (length ftys)) as [Hn|Hn]; [specialize (H2 Hn); lia|].
  destruct (le_lt_dec 1 (length ftys)) as [Hm|Hm]; [specialize (H1 Hm); lia | lia].
Qed.

Lemma expand_variants_no_panic he : forall vs attrs k, expand_variants he k vs attrs <> RPanic.
Proof.
  induction vs as [|v vs IH]; intros [|a attrs] k H; cbn in H; try discriminate.
  destruct (expand_one a (Some k) (v_fields v) he) as [x| |] eqn:E1; cbn in H; try discriminate.
  - destruct (expand_variants he (S k) vs attrs) as [y| |] eqn:E2; cbn in H; try discriminate.
    exact (IH _ _ E2).
  - exact (expand_one_no_panic _ _ _ _ E1).
Qed.

(* the `unreachable!()` of from.rs:166 is unreachable: the arity check guarantees one listed
   component per field *)
Theorem from_never_panics it : from_expand it <> RPanic.
Proof.
  destruct it as [attrs ftys|vs]; cbn [from_expand]; intros H.
  - destruct (parse_attrs parse_struct_attr None attrs) as [a|]; [|discriminate].
    exact (expand_one_no_panic _ _ _ _ H).
  - destruct (parse_all vs) as [attrs|]; [|discriminate].
    exact (expand_variants_no_panic _ _ _ _ H).
Qed.

Lemma rcollect_err_in {A B} (f : A -> res (list B)) l x :
  In x l -> f x = RErr -> (forall y, f y <> RPanic) -> rcollect f l = RErr.
Proof.
  intros Hin Hx Hnp. induction l as [|y l IH]; [destruct Hin|].
  cbn. destruct (f y) eqn:E; cbn; try reflexivity.
  - destruct Hin as [->|Hin]; [congruence|]. now rewrite (IH Hin).
  - exfalso. exact (Hnp y E).
Qed.

(* `#[from(.., (), ..)]` on a struct / variant with exactly one field is rejected with a diagnostic *)
Theorem from_unit_tuple_single_field_rejected variant fty tys he :
  In (TTuple []) tys -> expand_one (Some (FTypes tys)) variant [fty] he = RErr.
Proof.
  intros Hin. unfold expand_one.
  assert (H : rcollect (fun t =>
        match validate_type (length [fty]) t with
        | None => RErr
        | Some from_tys =>
            match typed_inits (projs [fty]) from_tys with
            | None => RPanic
            | Some inits => ROk [ {| fd_variant := variant; fd_src := t; fd_ngen := 0; fd_inits := inits |} ]
            end
        end) tys = RErr).
  { apply (rcollect_err_in _ _ (TTuple [])); [exact Hin | reflexivity |].
    intros y Hy. cbn [length] in Hy.
    destruct (validate_type 1 y) as [from_tys|] eqn:Ev; [|discriminate].
    destruct (typed_inits (projs [fty]) from_tys) eqn:Et; [discriminate|].
    apply typed_inits_none in Et. cbn in Et.
    destruct (validate_type_components _ _ _ Ev) as [_ [_ H1]]. specialize (H1 (le_n 1)). lia. }
  first [exact H | destruct (he || _); exact H].
Qed.

Theorem from_unit_tuple_struct_rejected attrs fty tys :
  parse_attrs parse_struct_attr None attrs = Some (Some (FTypes tys)) -> In (TTuple []) tys ->
  from_expand (IStruct attrs [fty]) = RErr.
Proof.
  intros Hp Hin. cbn [from_expand]. rewrite Hp. now apply from_unit_tuple_single_field_rejected.
Qed.

(* ================================================================== Into *)

Lemma ocollect_in {A B} (f : A -> option (list B)) l ds d :
  ocollect f l = Some ds -> In d ds -> exists x dx, In x l /\ f x = Some dx /\ In d dx.
Proof.
  revert ds; induction l as [|x l IH]; intros ds H Hd; cbn in H.
  - inversion H; subst. destruct Hd.
  - destruct (f x) as [a|] eqn:Ef; [|discriminate].
    destruct (ocollect f l) as [b|] eqn:Eo; [|discriminate].
    inversion H; subst. apply in_app_or in Hd as [Hd|Hd].
    + exists x, a. cbn; auto.
    + destruct (IH b eq_refl Hd) as [y [dy [H1 [H2 H3]]]]. exists y, dy. cbn; auto.
Qed.

Lemma ocollect_map {A B C} (f : A -> option (list B)) (h : B -> C) (g : A -> list C) l ds :
  (forall x dx, In x l -> f x = Some dx -> map h dx = g x) ->
  ocollect f l = Some ds -> map h ds = flat_map g l.
Proof.
  revert ds; induction l as [|x l IH]; intros ds Hg H; cbn in H.
  - now inversion H.
  - destruct (f x) as [a|] eqn:Ef; [|discriminate].
    destruct (ocollect f l) as [b|] eqn:Eo; [|discriminate].
    inversion H; subst. cbn. rewrite map_app. f_equal.
    + apply Hg; cbn; auto.
    + apply IH; [|reflexivity]. intros y dy Hy. apply Hg. cbn; auto.
Qed.

Lemma flat_map_singleton {A B} (f : A -> B) l : flat_map (fun x => [f x]) l = map f l.
Proof. induction l as [|x l IH]; cbn; [reflexivity | now rewrite IH]. Qed.

(* the target types asked for one reference kind: the tuple of the converted fields' own types when
   the kind is named bare (or by default), then the listed types in the order written *)
Definition requested (src : list (nat * ty)) (c : cattr) (k : kind) : list ty :=
  (if c_consider (ca_get k c) then [TTuple (map snd src)] else []) ++ c_tys (ca_get k c).

Lemma expansion_in src c ds d :
  expansion src c = Some ds -> In d ds ->
  exists out_ty, In out_ty (requested src c (id_kind d)) /\
                 validate_type (length src) out_ty = Some (id_tys d) /\
                 id_inits d = combine src (id_tys d).
Proof.
  unfold expansion. intros H Hd.
  destruct (ocollect_in _ _ _ _ H Hd) as [k [dx [_ [Hk Hin]]]].
  destruct (c_consider (ca_get k c) || negb (is_nil (c_tys (ca_get k c)))).
  - destruct (ocollect_in _ _ _ _ Hk Hin) as [out_ty [dy [Ho [Hv Hin']]]].
    destruct (validate_type (length src) out_ty) as [tys|] eqn:Ev; [|discriminate].
    inversion Hv; subst dy. destruct Hin' as [<-|[]]. cbn. exists out_ty. auto.
  - inversion Hk; subst. destruct Hin.
Qed.

Lemma expansion_headers src c ds :
  expansion src c = Some ds ->
  map (fun d => (id_kind d, id_tys d)) ds =
  flat_map (fun k => map (fun t => (k, comps t)) (requested src c k)) kinds.
Proof.
  unfold expansion. apply ocollect_map. intros k dx _ Hk.
  unfold requested.
  destruct (c_consider (ca_get k c)) eqn:Ec; cbn [orb] in Hk.
  - rewrite <- (flat_map_singleton (fun t : ty => (k, comps t))). revert Hk. apply ocollect_map.
    intros out_ty dy _ Hv.
    destruct (validate_type (length src) out_ty) as [tys|] eqn:Ev; [|discriminate].
    inversion Hv; subst. cbn. now rewrite (validate_type_comps _ _ _ Ev).
  - destruct (c_tys (ca_get k c)) as [|t0 tys0] eqn:Et; cbn [is_nil negb] in Hk.
    + now inversion Hk.
    + rewrite <- (flat_map_singleton (fun t : ty => (k, comps t))). revert Hk. apply ocollect_map.
      intros out_ty dy _ Hv.
      destruct (validate_type (length src) out_ty) as [tys|] eqn:Ev; [|discriminate].
      inversion Hv; subst. cbn. now rewrite (validate_type_comps _ _ _ Ev).
Qed.

Lemma parse_ifields_spec : forall fs k fds,
  parse_ifields k fs = Some fds ->
  map if_idx fds = seq k (length fs) /\ map if_ty fds = map fst fs.
Proof.
  induction fs as [|[t attrs] fs IH]; intros k fds H; cbn in H.
  - inversion H; subst. auto.
  - destruct (parse_ifattrs None attrs) as [fa|]; [|discriminate].
    destruct (parse_ifields (S k) fs) as [l|] eqn:E; [|discriminate].
    inversion H; subst. destruct (IH _ _ E) as [H1 H2]. cbn. now rewrite H1, H2.
Qed.

(* the struct-level conversions: the struct attribute if there is one, otherwise the default
   (owned, own types) provided no field carries a conversion attribute (into.rs:75-81) *)
Definition struct_convs (sa : option sattr) (fds : list ifield) : option cattr :=
  match sa with
  | Some a => Some (sattr_convs a)
  | None => if forallb (fun f => negb (is_some (if_convs f))) fds then Some cattr_default else None
  end.

(* every emitted impl reads either one field that carries its own conversion attribute, or the
   non-skipped fields in declaration order; its target is one of the requested types, of the right
   arity; element j of the body converts the j-th of these fields into the j-th target component *)
Theorem into_positions sattrs fields ds d :
  into_expand sattrs fields = Some ds -> In d ds ->
  exists sa fds src c out_ty,
    parse_sattrs None sattrs = Some sa /\ parse_ifields 0 fields = Some fds /\
    map if_idx fds = seq 0 (length fields) /\ map if_ty fds = map fst fields /\
    ( (exists f, In f fds /\ if_convs f = Some c /\ src = [(if_idx f, if_ty f)])
      \/ (struct_convs sa fds = Some c /\ src = nonskipped fds) ) /\
    In out_ty (requested src c (id_kind d)) /\
    validate_type (length src) out_ty = Some (id_tys d) /\
    id_inits d = combine src (id_tys d).
Proof.
  unfold into_expand. intros H Hd.
  destruct (parse_sattrs None sattrs) as [sa|]; [|discriminate].
  destruct (parse_ifields 0 fields) as [fds|] eqn:Ef; [|discriminate].
  destruct (parse_ifields_spec _ _ _ Ef) as [Hi Ht].
  destruct (ocollect_in _ _ _ _ H Hd) as [[src c] [dx [He [Hx Hin]]]]. cbn [fst snd] in Hx.
  destruct (expansion_in _ _ _ _ Hx Hin) as [out_ty [H1 [H2 H3]]].
  exists sa, fds, src, c, out_ty. repeat split; auto.
  apply in_app_or in He as [He|He].
  - left. apply in_flat_map in He as [f [Hf Hc]].
    destruct (if_convs f) as [c'|] eqn:Ec; [|destruct Hc].
    destruct Hc as [Hc|[]]. inversion Hc; subst. exists f. auto.
  - right. unfold struct_convs. destruct sa as [a|].
    + destruct He as [He|[]]. inversion He; subst. auto.
    + destruct (forallb _ fds); [|destruct He].
      destruct He as [He|[]]. inversion He; subst. auto.
Qed.

(* the set of emitted impls (reference kind, target components), in order *)
Theorem into_impl_set sattrs fields ds :
  into_expand sattrs fields = Some ds ->
  exists sa fds,
    parse_sattrs None sattrs = Some sa /\ parse_ifields 0 fields = Some fds /\
    map (fun d => (id_kind d, id_tys d)) ds =
    flat_map (fun e => flat_map (fun k => map (fun t => (k, comps t)) (requested (fst e) (snd e) k)) kinds)
      (flat_map (fun f => match if_convs f with
                          | Some c => [([(if_idx f, if_ty f)], c)]
                          | None => []
                          end) fds
       ++ match struct_convs sa fds with Some c => [(nonskipped fds, c)] | None => [] end).
Proof.
  unfold into_expand. intros H.
  destruct (parse_sattrs None sattrs) as [sa|]; [|discriminate].
  destruct (parse_ifields 0 fields) as [fds|] eqn:Ef; [|discriminate].
  exists sa, fds. split; [reflexivity|]. split; [reflexivity|].
  assert (Hs : match struct_convs sa fds with Some c => [(nonskipped fds, c)] | None => [] end =
               match (match sa with
                      | Some a => Some a
                      | None => if forallb (fun f => negb (is_some (if_convs f))) fds
                                then Some (SConvs cattr_default) else None
                      end) with
               | Some a => [(nonskipped fds, sattr_convs a)]
               | None => []
               end).
  { unfold struct_convs. destruct sa; [reflexivity|]. now destruct (forallb _ fds). }
  rewrite Hs. revert H. apply ocollect_map.
  intros [src c] dx _ Hx. cbn [fst snd] in *. now apply expansion_headers.
Qed.

(* ------------------------------------------------------------------ Into: values *)

Definition acc (k : kind) (s : list value) (i : nat) : value :=
  match k with
  | KOwned => nth i s (VLeaf 0)
  | KRef => VAddr false i
  | KRefMut => VAddr true i
  end.

Lemma access_acc k s i : i < length s -> access k s i = Some (acc k s i).
Proof.
  intros Hi. destruct k; unfold access, acc.
  - now apply nth_error_nth'.
  - apply Nat.ltb_lt in Hi. now rewrite Hi.
  - apply Nat.ltb_lt in Hi. now rewrite Hi.
Qed.

Lemma into_sem_spec conv d s :
  (forall e, In e (id_inits d) -> fst (fst e) < length s) ->
  into_sem conv d s =
  Some (pack (map (fun e => conv (id_kind d) (snd (fst e)) (snd e) (acc (id_kind d) s (fst (fst e))))
                  (id_inits d))).
Proof.
  intros H. unfold into_sem.
  rewrite (omap_total _ (fun e => conv (id_kind d) (snd (fst e)) (snd e) (acc (id_kind d) s (fst (fst e))))).
  - reflexivity.
  - intros e He. now rewrite (access_acc _ _ _ (H e He)).
Qed.

Lemma combine_map_snd {A B} (l : list (A * B)) : combine l (map snd l) = map (fun e => (e, snd e)) l.
Proof. induction l as [|x l IH]; cbn; [reflexivity | now rewrite IH]. Qed.

(* an impl whose target components are the converted fields' own types returns exactly these
   fields, in order: by value for `owned`, and for `ref` / `ref_mut` the addresses of those very
   fields.  [Hrefl] is core's `impl<T> From<T> for T` (the identity). *)
Theorem into_own_types conv (Hrefl : forall k t v, conv k t t v = v) d src s :
  id_tys d = map snd src -> id_inits d = combine src (id_tys d) ->
  (forall e, In e src -> fst e < length s) ->
  into_sem conv d s = Some (pack (map (fun e => acc (id_kind d) s (fst e)) src)).
Proof.
  intros Ht Hi Hr. rewrite Ht, combine_map_snd in Hi.
  rewrite into_sem_spec.
  - rewrite Hi, map_map. cbn. f_equal. f_equal. apply map_ext. intros e. apply Hrefl.
  - rewrite Hi. intros e He. apply in_map_iff in He as [x [<- Hx]]. cbn. now apply Hr.
Qed.

(* ------------------------------------------------------------------ Into: closed forms *)

(* a struct whose fields carry at most `#[into(skip)]`: (type, skipped?) *)
Definition mk_field (tb : ty * bool) : ty * list into_raw :=
  (fst tb, if snd tb then [IArgs [CType (TAtom W_SKIP)]] else []).

(* (index, type) of the fields not skipped, in declaration order; indices start at k *)
Definition kept_from (k : nat) (fs : list (ty * bool)) : list (nat * ty) :=
  map (fun x => (fst x, fst (snd x)))
      (filter (fun x => negb (snd (snd x))) (combine (seq k (length fs)) fs)).
Definition kept := kept_from 0.

Definition mk_ifield (i : nat) (tb : ty * bool) : ifield :=
  {| if_idx := i; if_ty := fst tb; if_skip := snd tb; if_convs := None |}.

Lemma parse_ifields_mk : forall fs k,
  parse_ifields k (map mk_field fs) = Some (mapi_from mk_ifield k fs).
Proof.
  induction fs as [|[t b] fs IH]; intros k; [reflexivity|].
  cbn [map mk_field fst snd parse_ifields mapi_from]. rewrite IH.
  destruct b; reflexivity.
Qed.

Lemma nonskipped_mk : forall fs k, nonskipped (mapi_from mk_ifield k fs) = kept_from k fs.
Proof.
  unfold nonskipped, kept_from.
  induction fs as [|[t b] fs IH]; intros k; [reflexivity|].
  cbn [mapi_from length seq combine filter mk_ifield if_skip snd fst].
  destruct b; cbn [negb map]; rewrite IH; reflexivity.
Qed.

Lemma no_convs_mk : forall fs k,
  forallb (fun f => negb (is_some (if_convs f))) (mapi_from mk_ifield k fs) = true /\
  flat_map (fun f => match if_convs f with
                     | Some c => [([(if_idx f, if_ty f)], c)]
                     | None => []
                     end) (mapi_from mk_ifield k fs) = [].
Proof.
  induction fs as [|tb fs IH]; intros k; cbn; [auto|]. destruct (IH (S k)) as [H1 H2]. now rewrite H1, H2.
Qed.

Lemma into_expand_struct_level sattrs sa fs :
  parse_sattrs None sattrs = Some sa ->
  into_expand sattrs (map mk_field fs) =
  match expansion (kept fs) (match sa with Some a => sattr_convs a | None => cattr_default end) with
  | Some a => Some (a ++ [])
  | None => None
  end.
Proof.
  intros Hs. unfold into_expand. rewrite Hs, parse_ifields_mk.
  destruct (no_convs_mk fs 0) as [H1 H2]. rewrite H1, H2, nonskipped_mk.
  destruct sa; reflexivity.
Qed.

Definition own_impl (src : list (nat * ty)) (k : kind) : into_impl :=
  {| id_kind := k; id_tys := map snd src; id_inits := combine src (map snd src) |}.

Lemma validate_own_src (src : list (nat * ty)) :
  validate_type (length src) (TTuple (map snd src)) = Some (map snd src).
Proof. apply validate_type_own. apply map_length. Qed.

(* no attribute at all except field skips: one impl, owned, the non-skipped fields *)
Theorem into_default fs : into_expand [] (map mk_field fs) = Some [own_impl (kept fs) KOwned].
Proof.
  rewrite (into_expand_struct_level [] None fs eq_refl).
  unfold expansion, kinds. cbn [ocollect ca_get cattr_default ca_owned ca_ref ca_ref_mut convs_none
                                 c_consider c_tys orb negb is_nil app].
  rewrite validate_own_src. reflexivity.
Qed.

(* `#[into(owned, ref, ref_mut)]`: one impl per reference kind, in this order *)
Theorem into_all_kinds fs :
  into_expand [IArgs [CKind KOwned None; CKind KRef None; CKind KRefMut None]] (map mk_field fs) =
  Some (map (own_impl (kept fs)) kinds).
Proof.
  rewrite (into_expand_struct_level
             [IArgs [CKind KOwned None; CKind KRef None; CKind KRefMut None]]
             (Some (SConvs
     {| ca_owned := {| c_consider := true; c_tys := [] |};
        ca_ref := {| c_consider := true; c_tys := [] |};
        ca_ref_mut := {| c_consider := true; c_tys := [] |} |})) fs eq_refl).
  unfold expansion, kinds. cbn [ocollect ca_get sattr_convs ca_owned ca_ref ca_ref_mut
                                 c_consider c_tys orb negb is_nil app].
  rewrite validate_own_src. reflexivity.
Qed.

Lemma kept_from_range : forall fs k e, In e (kept_from k fs) -> k <= fst e < k + length fs.
Proof.
  unfold kept_from. intros fs k e He.
  apply in_map_iff in He as [[i tb] [<- Hx]]. apply filter_In in Hx as [Hx _].
  apply in_combine_l in Hx. apply in_seq in Hx. cbn. lia.
Qed.

(* what these impls return: the non-skipped fields in declaration order, as values (owned) or as the
   addresses of those very fields (ref, ref_mut) *)
Theorem into_extracts conv (Hrefl : forall k t v, conv k t t v = v) fs k s :
  length s = length fs ->
  into_sem conv (own_impl (kept fs) k) s = Some (pack (map (fun e => acc k s (fst e)) (kept fs))).
Proof.
  intros Hl. apply (into_own_types conv Hrefl (own_impl (kept fs) k) (kept fs) s); try reflexivity.
  intros e He. apply kept_from_range in He. lia.
Qed.

(* ------------------------------------------------------------------ round trips *)

Lemma map_nth_seq {A} (s : list A) d : map (fun i => nth i s d) (seq 0 (length s)) = s.
Proof.
  induction s as [|x s IH]; [reflexivity|].
  cbn [length seq map nth]. rewrite <- seq_shift, map_map. cbn [nth]. now rewrite IH.
Qed.

Lemma kept_none_skipped : forall (ftys : list ty) k,
  kept_from k (map (fun t => (t, false)) ftys) = combine (seq k (length ftys)) ftys.
Proof.
  unfold kept_from. induction ftys as [|t ftys IH]; intros k; [reflexivity|].
  cbn [map length seq combine filter snd negb fst]. f_equal. apply IH.
Qed.

Lemma map_fst_combine {A B C} (g : A -> C) (l1 : list A) (l2 : list B) :
  length l1 = length l2 -> map (fun e => g (fst e)) (combine l1 l2) = map g l1.
Proof.
  revert l2; induction l1 as [|a l1 IH]; intros [|b l2] H; try discriminate; [reflexivity|].
  cbn. f_equal. apply IH. cbn in H; lia.
Qed.

Definition plain (ftys : list ty) : list (ty * list into_raw) := map (fun t => (t, [])) ftys.

Lemma plain_mk ftys : plain ftys = map mk_field (map (fun t => (t, false)) ftys).
Proof. unfold plain. rewrite map_map. reflexivity. Qed.

Definition direct_impl (ftys : list ty) : from_impl :=
  {| fd_variant := None; fd_src := paren_list ftys; fd_ngen := 0;
     fd_inits := map (fun p => {| fi_proj := p; fi_conv := Direct |}) (projs ftys) |}.

Lemma from_expand_plain ftys : from_expand (IStruct [] ftys) = ROk [direct_impl ftys].
Proof. reflexivity. Qed.

Lemma from_direct_id conv ftys cs :
  length cs = length ftys -> from_sem conv ftys (direct_impl ftys) (pack cs) = Some cs.
Proof.
  intros Hl.
  destruct (from_positions conv (IStruct [] ftys) _ (direct_impl ftys) ftys cs
              (from_expand_plain ftys) (or_introl eq_refl) eq_refl Hl) as [fields [H1 [H2 H3]]].
  rewrite H1. f_equal. apply nth_error_ext_eq. intros i.
  destruct (nth_error cs i) as [c|] eqn:Ec.
  - destruct (nth_error ftys i) as [fty|] eqn:Et.
    + destruct (H3 i c fty Ec Et) as [init [Hi Hf]]. rewrite Hf.
      cbn [direct_impl fd_inits] in Hi. rewrite nth_error_map in Hi.
      destruct (nth_error (projs ftys) i); cbn in Hi; [|discriminate].
      inversion Hi; subst. reflexivity.
    + apply nth_error_None in Et. assert (i < length cs) by (apply nth_error_Some; congruence). lia.
  - apply nth_error_None in Ec. apply nth_error_None. lia.
Qed.

Lemma into_plain_id conv (Hrefl : forall k t v, conv k t t v = v) ftys s :
  length s = length ftys ->
  into_sem conv (own_impl (kept (map (fun t => (t, false)) ftys)) KOwned) s = Some (pack s).
Proof.
  intros Hl. rewrite (into_extracts conv Hrefl); [|now rewrite map_length].
  unfold kept. rewrite kept_none_skipped. cbn [acc].
  rewrite (map_fst_combine (fun i => nth i s (VLeaf 0))); [|now rewrite seq_length].
  now rewrite <- Hl, map_nth_seq.
Qed.

(* `From` (no attribute) and `Into` (no attribute, nothing skipped) on the same struct invert each
   other, for every number of fields *)
Theorem roundtrip conv (Hrefl : forall k t v, conv k t t v = v) ftys :
  exists df di,
    from_expand (IStruct [] ftys) = ROk [df] /\
    into_expand [] (plain ftys) = Some [di] /\
    (forall cs, length cs = length ftys ->
       exists s, from_sem conv ftys df (pack cs) = Some s /\ into_sem conv di s = Some (pack cs)) /\
    (forall s, length s = length ftys ->
       exists t, into_sem conv di s = Some t /\ from_sem conv ftys df t = Some s).
Proof.
  exists (direct_impl ftys), (own_impl (kept (map (fun t => (t, false)) ftys)) KOwned).
  split; [apply from_expand_plain|]. split; [rewrite plain_mk; apply into_default|]. split.
  - intros cs Hl. exists cs. split; [now apply from_direct_id | now apply into_plain_id].
  - intros s Hl. exists (pack s). split; [now apply into_plain_id | now apply from_direct_id].
Qed.

(* ================================================================== Constructor *)

Theorem constructor_positions ftys args :
  length args = length ftys ->
  ctor_sem (constructor_expand ftys) args = Some args /\
  map snd (ct_params (constructor_expand ftys)) = ftys /\
  map fst (ct_params (constructor_expand ftys)) = seq 0 (length ftys).
Proof.
  intros Hl. unfold ctor_sem, constructor_expand. cbn [ct_inits ct_params]. repeat split.
  - rewrite <- Hl. apply omap_nth_seq.
  - unfold mapi. rewrite mapi_from_map. cbn [snd]. apply mapi_from_id.
  - unfold mapi. rewrite mapi_from_map. cbn [fst]. now rewrite (mapi_from_seq (fun i => i)), map_id.
Qed.

(* `new` followed by the derived `Into` returns the arguments; `Into` followed by `new` (arguments =
   the tuple's components) rebuilds the struct *)
Theorem constructor_roundtrip conv (Hrefl : forall k t v, conv k t t v = v) ftys args :
  length args = length ftys ->
  exists di s, into_expand [] (plain ftys) = Some [di] /\
               ctor_sem (constructor_expand ftys) args = Some s /\
               into_sem conv di s = Some (pack args) /\ s = args.
Proof.
  intros Hl. exists (own_impl (kept (map (fun t => (t, false)) ftys)) KOwned), args.
  split; [rewrite plain_mk; apply into_default|].
  split; [now apply constructor_positions|]. split; [now apply into_plain_id | reflexivity].
Qed.

(* ================================================================== non-vacuity *)

Definition F (i : N) : ty := TAtom (10 + i).
Definition P (i : N) : ty := TAtom (20 + i).

(* enum E { A(F0,F1), #[from] B(F2), C, #[from(skip)] D(F3), #[from(forward)] G{x:F4,y:F5},
            #[from((P0,P1),(P2,P3))] H(F6,F7) } *)
Definition ex_enum : item :=
  IEnum [ {| v_attrs := []; v_fields := [F 0; F 1] |};
          {| v_attrs := [APath]; v_fields := [F 2] |};
          {| v_attrs := []; v_fields := [] |};
          {| v_attrs := [AArgs [TAtom W_SKIP]]; v_fields := [F 3] |};
          {| v_attrs := [AArgs [TAtom W_FORWARD]]; v_fields := [F 4; F 5] |};
          {| v_attrs := [AArgs [TTuple [P 0; P 1]; TTuple [P 2; P 3]]]; v_fields := [F 6; F 7] |} ].

Example ex_enum_impls :
  match from_expand ex_enum with
  | ROk ds => map (fun d => (fd_variant d, fd_src d)) ds
  | _ => []
  end =
  [ (Some 1, F 2); (Some 4, TTuple [TGen 0; TGen 1]);
    (Some 5, TTuple [P 0; P 1]); (Some 5, TTuple [P 2; P 3]) ].
Proof. vm_compute. reflexivity. Qed.

(* the typed impl of H puts component i through From<P_i> into field i *)
Example ex_enum_typed_sem :
  match from_report ex_enum with
  | ROk l => nth_error (map (fun x => (snd (fst x), snd x)) l) 2
  | _ => None
  end =
  Some (Some [VFrom KOwned (P 0) (F 6) (VLeaf 10); VFrom KOwned (P 1) (F 7) (VLeaf 11)],
        [(P 0, F 6); (P 1, F 7)]).
Proof. vm_compute. reflexivity. Qed.

Example ex_arity_rejected : from_expand (IStruct [AArgs [TTuple [P 0]]] [F 0; F 1]) = RErr.
Proof. reflexivity. Qed.

Example ex_arity_accepted : exists ds, from_expand (IStruct [AArgs [TTuple [P 0; P 1]]] [F 0; F 1]) = ROk ds.
Proof. eexists. reflexivity. Qed.

Example ex_unit_tuple_rejected : from_expand (IStruct [AArgs [TTuple []]] [F 0]) = RErr.
Proof. reflexivity. Qed.

Example ex_into_unit_tuple_rejected : into_expand [IArgs [CType (TTuple [])]] [(F 0, [])] = None.
Proof. reflexivity. Qed.

(* #[into(owned, ref(Q), ref_mut)] struct S { #[into(owned(R), ref)] a: F0, b: F1, #[into(skip)] c: F2 } *)
Example ex_into :
  match into_expand [IArgs [CKind KOwned None; CKind KRef (Some [TTuple [P 0; P 1]]); CKind KRefMut None]]
                    [ (F 0, [IArgs [CKind KOwned (Some [P 5]); CKind KRef None]]);
                      (F 1, []);
                      (F 2, [IArgs [CType (TAtom W_SKIP)]]) ] with
  | Some ds => map (fun d => (id_kind d, id_tys d, map (fun e => fst (fst e)) (id_inits d))) ds
  | None => []
  end =
  [ (KOwned, [P 5], [0]); (KRef, [F 0], [0]);
    (KOwned, [F 0; F 1], [0; 1]); (KRef, [P 0; P 1], [0; 1]); (KRefMut, [F 0; F 1], [0; 1]) ].
Proof. vm_compute. reflexivity. Qed.

(* the hypothesis of the Into / round-trip theorems is satisfiable (e.g. by the identity) *)
Example ex_conv_refl_sat : exists conv : kind -> ty -> ty -> value -> value, forall k t v, conv k t t v = v.
Proof. exists (fun _ _ _ v => v). reflexivity. Qed.

Example ex_skip_refs :
  into_sem (fun _ _ _ v => v) (own_impl (kept [(F 0, false); (F 1, true); (F 2, false)]) KRefMut)
           [VLeaf 10; VLeaf 11; VLeaf 12] = Some (VTuple [VAddr true 0; VAddr true 2]).
Proof. reflexivity. Qed.

Example ex_ctor : ctor_report [F 0; F 1; F 2] =
  ({| ct_params := [(0, F 0); (1, F 1); (2, F 2)]; ct_inits := [0; 1; 2] |},
   Some [VLeaf 10; VLeaf 11; VLeaf 12]).
Proof. reflexivity. Qed.

(* ================================================================== growth round: diagnostics *)

Ltac iff_opt :=
  first [ split; [discriminate | let X := fresh in intros X; exfalso; apply X; reflexivity]
        | split; [intros _; discriminate | reflexivity] ].

Lemma validate_diag_none_iff n t : validate_type n t = None <-> validate_diag n t <> None.
Proof.
  unfold validate_type, validate_diag.
  destruct t as [a|k|l]; destruct (1 <? n) eqn:E1; try iff_opt.
  - destruct (Nat.eqb_spec n (length l)) as [->|Hne].
    + rewrite Nat.compare_refl. iff_opt.
    + destruct (Nat.compare_spec n (length l)); try lia; iff_opt.
  - destruct ((n =? 1) && is_nil l); iff_opt.
Qed.

(* what each diagnostic says about the input *)
Lemma validate_diag_cases n t d :
  validate_diag n t = Some d ->
  match d with
  | DAddMore e f => e = n /\ 2 <= n /\ f < n /\ exists l, t = TTuple l /\ length l = f
  | DRemoveLast e f => e = n /\ 2 <= n /\ n < f /\ exists l, t = TTuple l /\ length l = f
  | DUnitForOne => n = 1 /\ t = TTuple []
  | DExpectedTuple e => e = n /\ 2 <= n /\ forall l, t <> TTuple l
  end.
Proof.
  unfold validate_diag. destruct t as [a|k|l]; destruct (Nat.ltb_spec 1 n) as [Hn|Hn]; try discriminate.
  - intros H; inversion H; subst. split; [reflexivity|]. split; [lia|]. intros l; discriminate.
  - intros H; inversion H; subst. split; [reflexivity|]. split; [lia|]. intros l; discriminate.
  - destruct (Nat.compare_spec n (length l)) as [Hc|Hc|Hc]; intros H; inversion H; subst;
      (split; [reflexivity|]); (split; [lia|]); (split; [lia|]); eauto.
  - destruct (Nat.eqb_spec n 1); cbn [andb]; [|discriminate].
    destruct l; cbn [is_nil]; [|discriminate]. intros H; inversion H; subst. auto.
Qed.

Lemma first_some_none {A B} (f : A -> option B) l :
  first_some f l = None <-> forall x, In x l -> f x = None.
Proof.
  induction l as [|x l IH]; cbn; [split; [intros _ y [] | reflexivity]|].
  destruct (f x) eqn:E.
  - split; [discriminate|]. intros H. specialize (H x (or_introl eq_refl)). congruence.
  - rewrite IH. split.
    + intros H y [<-|Hy]; auto.
    + intros H y Hy. apply H. now right.
Qed.

Lemma ocollect_none_first {A B C} (f : A -> option (list B)) (g : A -> option C) l :
  (forall x, In x l -> (f x = None <-> g x <> None)) ->
  (ocollect f l = None <-> first_some g l <> None).
Proof.
  induction l as [|x l IH]; intros H; cbn.
  - split; [discriminate | intros E; now contradiction E].
  - assert (Hx := H x (or_introl eq_refl)).
    assert (IH' : ocollect f l = None <-> first_some g l <> None)
      by (apply IH; intros y Hy; apply H; now right).
    destruct (f x) eqn:Ef; destruct (g x) eqn:Eg.
    + exfalso. assert (Some l0 = None) by (apply Hx; discriminate). discriminate.
    + destruct (ocollect f l); [|tauto]. split; [discriminate|]. intros E. apply IH' in E. discriminate.
    + split; [discriminate | reflexivity].
    + exfalso. destruct Hx as [Hx _]. now apply Hx.
Qed.

Lemma rcollect_err_first {A B C} (f : A -> res (list B)) (g : A -> option C) l :
  (forall x, In x l -> f x <> RPanic) ->
  (forall x, In x l -> (f x = RErr <-> g x <> None)) ->
  (rcollect f l = RErr <-> first_some g l <> None).
Proof.
  induction l as [|x l IH]; intros Hp H; cbn.
  - split; [discriminate | intros E; now contradiction E].
  - assert (Hx := H x (or_introl eq_refl)). assert (Hpx := Hp x (or_introl eq_refl)).
    assert (IH' : rcollect f l = RErr <-> first_some g l <> None).
    { apply IH; intros y Hy; [apply Hp | apply H]; now right. }
    destruct (f x) eqn:Ef; destruct (g x) eqn:Eg; cbn.
    + exfalso. assert (ROk a = RErr) by (apply Hx; discriminate). discriminate.
    + destruct (rcollect f l); cbn; [split; [discriminate|] | tauto |].
      * intros E. apply IH' in E. discriminate.
      * split; [discriminate|]. intros E. apply IH' in E. discriminate.
    + split; [discriminate | reflexivity].
    + exfalso. destruct Hx as [Hx _]. now apply Hx.
    + now contradiction Hpx.
    + now contradiction Hpx.
Qed.

Lemma expand_one_err_iff a variant ftys he :
  expand_one a variant ftys he = RErr <-> expand_one_diag a ftys <> None.
Proof.
  unfold expand_one, expand_one_diag.
  destruct a as [[| | |tys]|];
    try (split; [intros H; split_skip H; discriminate | intros H; now contradiction H]).
  - (* Types *)
    set (g := fun t : ty =>
        match validate_type (length ftys) t with
        | None => RErr
        | Some from_tys =>
            match typed_inits (projs ftys) from_tys with
            | None => RPanic
            | Some inits => ROk [ {| fd_variant := variant; fd_src := t; fd_ngen := 0; fd_inits := inits |} ]
            end
        end).
    assert (Hg : forall t, g t <> RPanic /\ (g t = RErr <-> validate_diag (length ftys) t <> None)).
    { intros t. unfold g. destruct (validate_type (length ftys) t) as [from_tys|] eqn:Ev.
      - assert (Hd : validate_diag (length ftys) t = None).
        { destruct (validate_diag (length ftys) t) eqn:Ed; [|reflexivity].
          assert (validate_type (length ftys) t = None) by (apply validate_diag_none_iff; congruence). congruence. }
        destruct (typed_inits (projs ftys) from_tys) eqn:Et.
        + split; [discriminate|]. rewrite Hd. split; [discriminate | intros H; now contradiction H].
        + exfalso. apply typed_inits_none in Et. rewrite projs_length in Et.
          destruct (validate_type_components _ _ _ Ev) as [_ [H2 H1]].
          destruct (le_lt_dec 2 (length ftys)) as [Hn|Hn]; [specialize (H2 Hn); lia|].
          destruct (le_lt_dec 1 (length ftys)) as [Hm|Hm]; [specialize (H1 Hm); lia | lia].
      - split; [discriminate|]. split; [intros _; now apply validate_diag_none_iff | reflexivity]. }
    assert (Hc : rcollect g tys = RErr <-> first_some (validate_diag (length ftys)) tys <> None).
    { apply rcollect_err_first; intros t _; apply Hg. }
    exact Hc.
Qed.

Lemma expand_variants_err_iff he : forall vs attrs k,
  length attrs = length vs ->
  (expand_variants he k vs attrs = RErr <->
   first_some (fun va => expand_one_diag (snd va) (v_fields (fst va))) (combine vs attrs) <> None).
Proof.
  induction vs as [|v vs IH]; intros [|a attrs] k Hl; cbn; try discriminate.
  - split; [discriminate | intros H; now contradiction H].
  - assert (H1 := expand_one_err_iff a (Some k) (v_fields v) he).
    assert (Hnp := expand_one_no_panic a (Some k) (v_fields v) he).
    assert (IH' := IH attrs (S k) ltac:(cbn in Hl; lia)).
    assert (Hnp' := expand_variants_no_panic he vs attrs (S k)).
    destruct (expand_one a (Some k) (v_fields v) he) eqn:E1; cbn.
    + destruct (expand_one_diag a (v_fields v)) eqn:Ed.
      * exfalso. assert (ROk a0 = RErr) by (apply H1; discriminate). discriminate.
      * destruct (expand_variants he (S k) vs attrs) eqn:E2; cbn.
        -- split; [discriminate|]. intros E. apply IH' in E. discriminate.
        -- tauto.
        -- now contradiction Hnp'.
    + destruct (expand_one_diag a (v_fields v)) eqn:Ed.
      * split; [discriminate | reflexivity].
      * exfalso. destruct H1 as [H1 _]. now apply H1.
    + now contradiction Hnp.
Qed.

(* when does `derive(From)` answer with a diagnostic: an attribute that does not parse, or a listed
   type that validate_type refuses - and [from_diag] is then the first such refusal *)
Theorem from_err_iff it :
  from_expand it = RErr <->
  (match it with
   | IStruct attrs _ => parse_attrs parse_struct_attr None attrs = None
   | IEnum vs => parse_all vs = None
   end \/ from_diag it <> None).
Proof.
  destruct it as [attrs ftys|vs]; cbn [from_expand from_diag].
  - destruct (parse_attrs parse_struct_attr None attrs) as [a|].
    + rewrite expand_one_err_iff. split; [auto | intros [H|H]; [discriminate | exact H]].
    + split; [auto | reflexivity].
  - destruct (parse_all vs) as [attrs|] eqn:Ep.
    + destruct (parse_all_nth _ _ Ep) as [Hl _].
      rewrite (expand_variants_err_iff _ vs attrs 0 Hl).
      split; [auto | intros [H|H]; [discriminate | exact H]].
    + split; [auto | reflexivity].
Qed.

Lemma expansion_none_iff src c : expansion src c = None <-> expansion_diag src c <> None.
Proof.
  unfold expansion, expansion_diag. apply ocollect_none_first. intros k _.
  destruct (c_consider (ca_get k c) || negb (is_nil (c_tys (ca_get k c)))).
  - apply ocollect_none_first. intros t _.
    destruct (validate_type (length src) t) eqn:Ev.
    + split; [discriminate|]. intros H. apply validate_diag_none_iff in H. congruence.
    + split; [intros _; now apply validate_diag_none_iff | reflexivity].
  - split; [discriminate | intros H; now contradiction H].
Qed.

Lemma into_expand_via_expansions sattrs fields :
  into_expand sattrs fields =
  match into_expansions sattrs fields with
  | None => None
  | Some es => ocollect (fun e => expansion (fst e) (snd e)) es
  end.
Proof.
  unfold into_expand, into_expansions.
  destruct (parse_sattrs None sattrs); [|reflexivity].
  destruct (parse_ifields 0 fields); reflexivity.
Qed.

(* when does `derive(Into)` answer with a diagnostic *)
Theorem into_err_iff sattrs fields :
  into_expand sattrs fields = None <->
  (into_expansions sattrs fields = None \/ into_diag sattrs fields <> None).
Proof.
  rewrite into_expand_via_expansions. unfold into_diag.
  destruct (into_expansions sattrs fields) as [es|].
  - assert (H : ocollect (fun e => expansion (fst e) (snd e)) es = None <->
                first_some (fun e => expansion_diag (fst e) (snd e)) es <> None).
    { apply ocollect_none_first. intros e _. apply expansion_none_iff. }
    rewrite H. split; [auto | intros [E|E]; [discriminate | exact E]].
  - split; [auto | reflexivity].
Qed.

(* ================================================================== growth round: the attribute grammar *)

Definition kind_eqb (a b : kind) : bool :=
  match a, b with KOwned, KOwned | KRef, KRef | KRefMut, KRefMut => true | _, _ => false end.

(* the types one argument list asks for under kind k, in the order written: the groups `k(..)` of that
   kind, and for `owned` also the top-level types *)
Definition tys_of (k : kind) (l : list citem) : list ty :=
  flat_map (fun it => match it with
                      | CType t => if kind_eqb k KOwned then [t] else []
                      | CKind k' (Some tys) => if kind_eqb k k' then tys else []
                      | CKind _ None => []
                      end) l.
(* is kind k named bare *)
Definition bare_of (k : kind) (l : list citem) : bool :=
  existsb (fun it => match it with CKind k' None => kind_eqb k k' | _ => false end) l.
Definition has_kind (l : list citem) : bool :=
  existsb (fun it => match it with CKind _ _ => true | _ => false end) l.
Definition has_type (l : list citem) : bool :=
  existsb (fun it => match it with CType _ => true | _ => false end) l.

Lemma ca_get_set_same k x c : ca_get k (ca_set k x c) = x.
Proof. destruct k; reflexivity. Qed.
Lemma ca_get_set_other k k' x c : kind_eqb k k' = false -> ca_get k (ca_set k' x c) = ca_get k c.
Proof. destruct k, k'; cbn; intros H; try reflexivity; discriminate. Qed.
Lemma kind_eqb_refl k : kind_eqb k k = true.
Proof. destruct k; reflexivity. Qed.
Lemma kind_eqb_eq a b : kind_eqb a b = true -> a = b.
Proof. destruct a, b; cbn; intros H; try reflexivity; discriminate. Qed.

Lemma parse_citems_spec l : forall out w t,
  let r := parse_citems l out w t in
  (forall k, c_tys (ca_get k (fst (fst r))) = c_tys (ca_get k out) ++ tys_of k l /\
             c_consider (ca_get k (fst (fst r))) = c_consider (ca_get k out) || bare_of k l) /\
  snd (fst r) = w || has_kind l /\ snd r = t || has_type l.
Proof.
  induction l as [|it l IH]; intros out w t; cbn [parse_citems].
  - cbn. split; [|now rewrite !orb_false_r]. intros k. now rewrite app_nil_r, orb_false_r.
  - destruct it as [ty0|k0 [tys0|]].
    + (* top-level type *)
      specialize (IH (ca_set KOwned {| c_consider := c_consider (ca_owned out); c_tys := c_tys (ca_owned out) ++ [ty0] |} out) w true).
      cbn zeta in IH. destruct IH as [IHk [IHw IHt]]. split; [|split].
      * intros k. destruct (IHk k) as [H1 H2]. rewrite H1, H2. cbn [tys_of flat_map bare_of existsb orb].
        destruct k; cbn [kind_eqb ca_get ca_set ca_owned ca_ref ca_ref_mut c_tys c_consider app];
          try rewrite <- app_assoc; auto.
      * rewrite IHw. reflexivity.
      * rewrite IHt. cbn. now rewrite orb_true_r.
    + (* k0(types) *)
      specialize (IH (ca_set k0 {| c_consider := c_consider (ca_get k0 out); c_tys := c_tys (ca_get k0 out) ++ tys0 |} out) true t).
      cbn zeta in IH. destruct IH as [IHk [IHw IHt]]. split; [|split].
      * intros k. destruct (IHk k) as [H1 H2]. rewrite H1, H2. cbn [tys_of flat_map bare_of existsb orb].
        destruct (kind_eqb k k0) eqn:E.
        -- apply kind_eqb_eq in E; subst k0. rewrite ca_get_set_same. cbn. now rewrite <- app_assoc.
        -- rewrite (ca_get_set_other _ _ _ _ E). auto.
      * rewrite IHw. cbn. now rewrite orb_true_r.
      * rewrite IHt. reflexivity.
    + (* bare k0 *)
      specialize (IH (ca_set k0 {| c_consider := true; c_tys := c_tys (ca_get k0 out) |} out) true t).
      cbn zeta in IH. destruct IH as [IHk [IHw IHt]]. split; [|split].
      * intros k. destruct (IHk k) as [H1 H2]. rewrite H1, H2. cbn [tys_of flat_map bare_of existsb app].
        destruct (kind_eqb k k0) eqn:E.
        -- apply kind_eqb_eq in E; subst k0. rewrite ca_get_set_same. cbn. now rewrite orb_true_r.
        -- rewrite (ca_get_set_other _ _ _ _ E). auto.
      * rewrite IHw. cbn. now rewrite orb_true_r.
      * rewrite IHt. reflexivity.
Qed.

(* ConversionsAttribute::parse refuses exactly the lists that mix top-level types with wrappers *)
Theorem parse_cattr_rejects_iff l :
  parse_cattr l = None <-> (has_kind l = true /\ has_type l = true).
Proof.
  unfold parse_cattr. pose proof (parse_citems_spec l cattr_none false false) as Hs. cbn zeta in Hs.
  destruct Hs as [_ [Hw Ht]].
  destruct (parse_citems l cattr_none false false) as [[c w] t]. cbn in Hw, Ht. subst w t.
  destruct (has_kind l), (has_type l); cbn; intuition congruence.
Qed.

(* ... and otherwise collects, kind by kind, every group of that kind in the order written (types of a
   kind named several times accumulate; a bare kind asks for the fields' own types) *)
Theorem parse_cattr_spec l c :
  parse_cattr l = Some c ->
  forall k, c_tys (ca_get k c) = tys_of k l /\ c_consider (ca_get k c) = bare_of k l.
Proof.
  unfold parse_cattr. pose proof (parse_citems_spec l cattr_none false false) as Hs. cbn zeta in Hs.
  destruct Hs as [Hk _].
  destruct (parse_citems l cattr_none false false) as [[c' w] t]. cbn in Hk.
  destruct (w && t); [discriminate|]. intros H; inversion H; subst c'. intros k.
  destruct (Hk k) as [H1 H2]. rewrite H1, H2. destruct k; auto.
Qed.

Lemma tys_of_app k l1 l2 : tys_of k (l1 ++ l2) = tys_of k l1 ++ tys_of k l2.
Proof. unfold tys_of. apply flat_map_app. Qed.
Lemma bare_of_app k l1 l2 : bare_of k (l1 ++ l2) = bare_of k l1 || bare_of k l2.
Proof. unfold bare_of. apply existsb_app. Qed.

Lemma ca_get_merge k a b : ca_get k (merge_cattr a b) = merge_convs (ca_get k a) (ca_get k b).
Proof. destruct k; reflexivity. Qed.

(* several `#[into(..)]` attributes (each accepted on its own) mean what one attribute with the
   concatenated argument list means *)
Theorem merge_cattr_is_concat l1 l2 c1 c2 :
  parse_cattr l1 = Some c1 -> parse_cattr l2 = Some c2 ->
  forall k, c_tys (ca_get k (merge_cattr c1 c2)) = tys_of k (l1 ++ l2) /\
            c_consider (ca_get k (merge_cattr c1 c2)) = bare_of k (l1 ++ l2).
Proof.
  intros H1 H2 k. destruct (parse_cattr_spec _ _ H1 k) as [A1 B1]. destruct (parse_cattr_spec _ _ H2 k) as [A2 B2].
  rewrite ca_get_merge, tys_of_app, bare_of_app. cbn. now rewrite A1, A2, B1, B2.
Qed.

(* the keyword rule of into.rs:383-391 *)
Theorem classify_arg_spec a :
  (ra_pathsep a = true -> classify_arg a = CType (ra_ty a)) /\
  (ra_pathsep a = false -> ra_head a = HOther -> classify_arg a = CType (ra_ty a)) /\
  (ra_pathsep a = false -> ra_head a <> HOther -> exists k, classify_arg a = CKind k (ra_group a)).
Proof.
  unfold classify_arg. destruct (ra_pathsep a), (ra_head a); repeat split; intros; try discriminate;
    try reflexivity; try congruence; eauto.
Qed.

(* ---- #[from(..)]: repeated attributes *)

Lemma parse_attrs_types_acc p ls : forall acc,
  (forall l, In l ls -> p (AArgs l) = Some (FTypes l)) ->
  parse_attrs p (Some (FTypes acc)) (map AArgs ls) = Some (Some (FTypes (acc ++ concat ls))).
Proof.
  induction ls as [|l ls IH]; intros acc H; cbn.
  - now rewrite app_nil_r.
  - rewrite (H l (or_introl eq_refl)). cbn. rewrite IH; [now rewrite app_assoc|].
    intros l' Hl'. apply H. now right.
Qed.

(* repeated `#[from(types..)]` attributes are one list, in the order written *)
Theorem from_repeated_types_concat p l ls :
  (forall x, In x (l :: ls) -> p (AArgs x) = Some (FTypes x)) ->
  parse_attrs p None (map AArgs (l :: ls)) = Some (Some (FTypes (concat (l :: ls)))).
Proof.
  intros H. cbn [map parse_attrs]. rewrite (H l (or_introl eq_refl)).
  apply parse_attrs_types_acc. intros x Hx. apply H. now right.
Qed.

(* and nothing else may be repeated: two attributes are accepted only if both are type lists *)
Theorem from_two_attrs_need_types p a b r x :
  parse_attrs p None (a :: b :: r) = Some x ->
  (exists ta, p a = Some (FTypes ta)) /\ (exists tb, p b = Some (FTypes tb)).
Proof.
  cbn [parse_attrs]. destruct (p a) as [fa|]; [|discriminate]. destruct (p b) as [fb|]; [|discriminate].
  destruct fa, fb; cbn [merge_fattr]; try discriminate. eauto.
Qed.

(* ---- the legacy word *)

Lemma legacy_not_word l : legacy_types l = true -> parse_skip l = false /\ parse_forward l = false.
Proof.
  destruct l as [|t [|t' r]]; cbn; try discriminate; try (intros _; split; reflexivity).
  destruct t as [n| |]; cbn; try discriminate. intros H. apply N.eqb_eq in H. subst n. split; reflexivity.
Qed.

(* an argument list that starts with the bare identifier `types` is refused, on structs and variants *)
Theorem from_legacy_types_rejected l :
  legacy_types l = true ->
  parse_variant_attr (AArgs l) = None /\ parse_struct_attr (AArgs l) = None /\
  (forall ftys, from_expand (IStruct [AArgs l] ftys) = RErr).
Proof.
  intros H. destruct (legacy_not_word l H) as [H1 H2]. unfold parse_variant_attr, parse_struct_attr.
  rewrite H1, H2, H. repeat split. intros ftys. cbn. now rewrite H2, H.
Qed.

(* ================================================================== growth round: documented unless known *)

(* the documented components of a listed type for n fields: the type itself for one field, its
   elements for a tuple of several *)
Definition doc_comps (n : nat) (t : ty) : list ty := if n =? 1 then [t] else comps t.

(* the input class of the two known findings: a TUPLE type offered for exactly one participating field
   (validate_type splits it: `listed-tuple-for-single-field-split`; with one element it is silently the
   element: `into-listed-one-tuple-flattened`) *)
Definition known_split (n : nat) (t : ty) : Prop := n = 1 /\ exists l, t = TTuple l.

Lemma validate_documented n t c :
  validate_type n t = Some c -> ~ known_split n t -> c = doc_comps n t /\ n <= length c \/ n = 0 /\ c = doc_comps n t.
Proof.
  intros H Hk. destruct (validate_type_components _ _ _ H) as [Hc [H2 H1]]. unfold doc_comps.
  destruct n as [|[|n]].
  - right. auto.
  - left. cbn. destruct t as [a|g|l]; cbn in Hc; subst c; cbn; auto.
    exfalso. apply Hk. split; eauto.
  - left. cbn [Nat.eqb]. split; [exact Hc|]. rewrite H2; lia.
Qed.

Lemma map_fst_combine_le {A B} (l1 : list A) (l2 : list B) :
  length l1 <= length l2 -> map fst (combine l1 l2) = l1.
Proof.
  revert l2; induction l1 as [|a l1 IH]; intros [|b l2] H; cbn in *; try reflexivity; try lia.
  f_equal. apply IH. lia.
Qed.

(* From, listed types: outside the known class every field is converted from the documented component
   of the listed type, one From::from per field *)
Theorem from_documented_unless_known it ds d ftys from_tys :
  from_expand it = ROk ds -> In d ds -> fields_of it d = Some ftys ->
  validate_type (length ftys) (fd_src d) = Some from_tys ->
  from_trace ftys d = combine (firstn (length ftys) from_tys) ftys ->
  ~ known_split (length ftys) (fd_src d) ->
  from_trace ftys d = combine (doc_comps (length ftys) (fd_src d)) ftys /\
  (1 <= length ftys -> length (doc_comps (length ftys) (fd_src d)) = length ftys).
Proof.
  intros _ _ _ Hv Ht Hk. rewrite Ht. clear Ht.
  assert (Hnil : forall (l : list ty), combine l (@nil ty) = []) by (intros l; now destruct l).
  destruct (validate_documented _ _ _ Hv Hk) as [[Hd Hl] | [H0 Hd]].
  - subst from_tys. destruct (le_lt_dec 2 (length ftys)) as [Hn|Hn].
    + assert (Hlen := validate_type_len _ _ _ Hn Hv).
      rewrite firstn_all2 by lia. split; [reflexivity | intros _; exact Hlen].
    + destruct ftys as [|f [|f' r]]; cbn [length] in *; try lia.
      * rewrite !Hnil. split; [reflexivity | intros; lia].
      * unfold doc_comps. cbn. split; reflexivity.
  - destruct ftys; [|discriminate]. rewrite !Hnil. split; [reflexivity | cbn; intros; lia].
Qed.

(* witness of the known class on the From side: `#[from((A, B))] struct S(X);` converts the field from A *)
Theorem from_known_split_refuted :
  exists it d ftys,
    from_expand it = ROk [d] /\ fields_of it d = Some ftys /\ known_split (length ftys) (fd_src d) /\
    from_trace ftys d <> combine (doc_comps (length ftys) (fd_src d)) ftys.
Proof.
  exists (IStruct [AArgs [TTuple [TAtom 20; TAtom 21]]] [TAtom 10]).
  eexists. exists [TAtom 10]. split; [reflexivity|]. split; [reflexivity|]. split.
  - split; [reflexivity|]. eexists; reflexivity.
  - cbn. intros H. inversion H.
Qed.

(* Into: every emitted impl, with the (fields, conversions, requested type) it comes from *)
Theorem into_documented_unless_known sattrs fields ds d :
  into_expand sattrs fields = Some ds -> In d ds ->
  exists src out_ty,
    validate_type (length src) out_ty = Some (id_tys d) /\ id_inits d = combine src (id_tys d) /\
    (* the fields' own types: always as documented *)
    (out_ty = TTuple (map snd src) -> id_tys d = map snd src /\ map fst (into_trace d) = src) /\
    (* a listed type outside the known class: as documented, one From::from per converted field *)
    (~ known_split (length src) out_ty ->
       id_tys d = doc_comps (length src) out_ty /\ map fst (into_trace d) = src).
Proof.
  intros He Hd.
  destruct (into_positions _ _ _ _ He Hd) as [sa [fds [src [c [out_ty [_ [_ [_ [_ [_ [_ [Hv Hi]]]]]]]]]]]].
  exists src, out_ty. split; [exact Hv|]. split; [exact Hi|]. unfold into_trace. split.
  - intros ->. rewrite validate_own_src in Hv. injection Hv as Ht.
    split; [symmetry; exact Ht|]. rewrite Hi, <- Ht. apply map_fst_combine_le. now rewrite map_length.
  - intros Hk. destruct (validate_documented _ _ _ Hv Hk) as [[Hc Hl] | [H0 Hc]].
    + split; [exact Hc|]. rewrite Hi. now apply map_fst_combine_le.
    + split; [exact Hc|]. rewrite Hi. destruct src; [reflexivity | discriminate].
Qed.

(* witnesses of the known class on the Into side *)
Theorem into_known_one_tuple_refuted :
  exists sattrs fields d (src : list (nat * ty)) out_ty,
    into_expand sattrs fields = Some [d] /\ validate_type (length src) out_ty = Some (id_tys d) /\
    known_split (length src) out_ty /\ id_tys d <> doc_comps (length src) out_ty.
Proof.
  exists [IArgs [CType (TTuple [TAtom 40])]], [(TAtom 10, [])].
  eexists. exists [(0, TAtom 10)], (TTuple [TAtom 40]).
  split; [reflexivity|]. split; [reflexivity|]. split.
  - split; [reflexivity|]. eexists; reflexivity.
  - cbn. intros H. inversion H.
Qed.

Theorem into_known_split_refuted :
  exists sattrs fields d (src : list (nat * ty)) out_ty,
    into_expand sattrs fields = Some [d] /\ validate_type (length src) out_ty = Some (id_tys d) /\
    known_split (length src) out_ty /\ length (id_tys d) <> length src /\ length (into_trace d) = 1.
Proof.
  exists [IArgs [CType (TTuple [TAtom 90; TAtom 91])]], [(TTuple [TAtom 90; TAtom 91], [])].
  eexists. exists [(0, TTuple [TAtom 90; TAtom 91])], (TTuple [TAtom 90; TAtom 91]).
  split; [reflexivity|]. split; [reflexivity|]. split.
  - split; [reflexivity|]. eexists; reflexivity.
  - cbn. split; [lia | reflexivity].
Qed.

(* ================================================================== growth round: round trips with skipped fields *)

Fixpoint select {A} (skip : list bool) (l : list A) : list A :=
  match skip, l with
  | b :: skip', x :: l' => if b then select skip' l' else x :: select skip' l'
  | _, _ => []
  end.

Lemma kept_from_cons k t b fs :
  kept_from k ((t, b) :: fs) = (if b then [] else [(k, t)]) ++ kept_from (S k) fs.
Proof. unfold kept_from. cbn [length seq combine filter snd fst]. destruct b; reflexivity. Qed.

Lemma kept_select {A} (d : A) : forall fs cs pre,
  length cs = length fs ->
  map (fun e => nth (fst e) (pre ++ cs) d) (kept_from (length pre) fs) = select (map snd fs) cs.
Proof.
  induction fs as [|[t b] fs IH]; intros [|c cs] pre Hl; try discriminate; [reflexivity|].
  rewrite kept_from_cons. cbn [map snd select]. rewrite map_app.
  assert (Hrest : map (fun e => nth (fst e) (pre ++ c :: cs) d) (kept_from (S (length pre)) fs) = select (map snd fs) cs).
  { specialize (IH cs (pre ++ [c]) ltac:(cbn in Hl; lia)).
    rewrite app_length in IH. cbn [length] in IH. rewrite Nat.add_1_r in IH.
    rewrite <- app_assoc in IH. exact IH. }
  rewrite Hrest. destruct b; cbn [map app fst]; [reflexivity|].
  rewrite app_nth2 by lia. rewrite Nat.sub_diag. reflexivity.
Qed.

(* From (all fields) followed by Into (the non-skipped ones), for every skip set: the components at
   the non-skipped positions come back, in order; by reference, the addresses of those positions *)
Theorem roundtrip_skips conv (Hrefl : forall k t v, conv k t t v = v) fs cs :
  length cs = length fs ->
  from_expand (IStruct [] (map fst fs)) = ROk [direct_impl (map fst fs)] /\
  into_expand [] (map mk_field fs) = Some [own_impl (kept fs) KOwned] /\
  from_sem conv (map fst fs) (direct_impl (map fst fs)) (pack cs) = Some cs /\
  into_sem conv (own_impl (kept fs) KOwned) cs = Some (pack (select (map snd fs) cs)) /\
  into_sem conv (own_impl (kept fs) KRef) cs = Some (pack (map (fun e => VAddr false (fst e)) (kept fs))) /\
  into_sem conv (own_impl (kept fs) KRefMut) cs = Some (pack (map (fun e => VAddr true (fst e)) (kept fs))).
Proof.
  intros Hl. split; [apply from_expand_plain|]. split; [apply into_default|]. split.
  - apply from_direct_id. now rewrite map_length.
  - rewrite !(into_extracts conv Hrefl) by exact Hl. cbn [acc]. repeat split.
    f_equal. f_equal. exact (kept_select (VLeaf 0) fs cs [] Hl).
Qed.

(* the other direction: Into followed by From rebuilds the struct when nothing is skipped; with skipped
   fields the tuple is shorter than the field list and From does not accept it *)
Lemma select_none_skipped {A} (ftys : list ty) (cs : list A) :
  length cs = length ftys -> select (map snd (map (fun t => (t, false)) ftys)) cs = cs.
Proof.
  revert cs; induction ftys as [|t ftys IH]; intros [|c cs] H; try discriminate; [reflexivity|].
  cbn. f_equal. apply IH. cbn in H; lia.
Qed.

Lemma select_length {A} : forall (skip : list bool) (l : list A),
  length l = length skip -> length (select skip l) = length (filter negb skip).
Proof.
  induction skip as [|b skip IH]; intros [|x l] H; try discriminate; [reflexivity|].
  cbn. destruct b; cbn; rewrite IH; auto; cbn in H; lia.
Qed.

(* ================================================================== growth round: Into impl set as an iff *)

(* the (fields, conversions) pairs an Into derive expands (into.rs:83-105) *)
Definition into_requests (sa : option sattr) (fds : list ifield) : list (list (nat * ty) * cattr) :=
  flat_map (fun f => match if_convs f with
                     | Some c => [([(if_idx f, if_ty f)], c)]
                     | None => []
                     end) fds
  ++ match struct_convs sa fds with Some c => [(nonskipped fds, c)] | None => [] end.

(* an impl (kind, components) is emitted iff some requested type of that kind has these components:
   none missing, none extra *)
Theorem into_impl_set_iff sattrs fields ds :
  into_expand sattrs fields = Some ds ->
  exists sa fds,
    parse_sattrs None sattrs = Some sa /\ parse_ifields 0 fields = Some fds /\
    forall k cs,
      In (k, cs) (map (fun d => (id_kind d, id_tys d)) ds) <->
      exists e t, In e (into_requests sa fds) /\ In t (requested (fst e) (snd e) k) /\ cs = comps t.
Proof.
  intros H. destruct (into_impl_set _ _ _ H) as [sa [fds [H1 [H2 H3]]]].
  exists sa, fds. split; [exact H1|]. split; [exact H2|]. intros k cs. rewrite H3. unfold into_requests.
  rewrite in_flat_map. split.
  - intros [e [He Hin]]. apply in_flat_map in Hin as [k' [_ Hin]].
    apply in_map_iff in Hin as [t [Heq Ht]]. inversion Heq; subst. exists e, t. auto.
  - intros [e [t [He [Ht ->]]]]. exists e. split; [exact He|]. apply in_flat_map. exists k. split.
    + destruct k; cbn; auto.
    + apply in_map_iff. exists t. auto.
Qed.

(* and as many impls as requested types, counted with multiplicity *)
Theorem into_impl_count sattrs fields ds :
  into_expand sattrs fields = Some ds ->
  exists sa fds,
    parse_sattrs None sattrs = Some sa /\ parse_ifields 0 fields = Some fds /\
    length ds = length (flat_map (fun e => flat_map (fun k => requested (fst e) (snd e) k) kinds)
                                 (into_requests sa fds)).
Proof.
  intros H. destruct (into_impl_set _ _ _ H) as [sa [fds [H1 [H2 H3]]]].
  exists sa, fds. split; [exact H1|]. split; [exact H2|].
  rewrite <- (map_length (fun d => (id_kind d, id_tys d))), H3. unfold into_requests.
  generalize (flat_map (fun f => match if_convs f with
                     | Some c => [([(if_idx f, if_ty f)], c)]
                     | None => []
                     end) fds
  ++ match struct_convs sa fds with Some c => [(nonskipped fds, c)] | None => [] end).
  intros l. induction l as [|e l IH]; [reflexivity|].
  cbn [flat_map]. rewrite !app_length, IH. f_equal.
  unfold kinds. cbn [flat_map]. rewrite !app_length, !map_length. reflexivity.
Qed.

(* ================================================================== growth round: non-vacuity *)

(* #[into(owned(A), ref(B), owned, owned(C, D), ref)]: groups of one kind accumulate in order *)
Example ex_parse_cattr_repeated :
  option_map (fun c => (c_tys (ca_owned c), c_consider (ca_owned c), c_tys (ca_ref c), c_consider (ca_ref c),
                        c_tys (ca_ref_mut c)))
    (parse_cattr [CKind KOwned (Some [P 0]); CKind KRef (Some [P 1]); CKind KOwned None;
                  CKind KOwned (Some [P 2; P 3]); CKind KRef None]) =
  Some ([P 0; P 2; P 3], true, [P 1], true, []).
Proof. reflexivity. Qed.

Example ex_parse_cattr_mixing_rejected :
  parse_cattr [CKind KRef None; CType (P 0)] = None /\ parse_cattr [CType (P 0); CType (P 1)] <> None.
Proof. split; [reflexivity | discriminate]. Qed.

Example ex_classify_path :
  classify_arg {| ra_head := HOwned; ra_pathsep := true; ra_group := None; ra_ty := P 0 |} = CType (P 0) /\
  classify_arg {| ra_head := HOwned; ra_pathsep := false; ra_group := Some [P 1]; ra_ty := P 0 |} = CKind KOwned (Some [P 1]).
Proof. split; reflexivity. Qed.

Example ex_from_diag :
  from_diag (IStruct [AArgs [TTuple [P 0; P 1]; TTuple [P 0; P 1; P 2]]] [F 0; F 1]) = Some (DRemoveLast 2 3) /\
  from_diag (IEnum [ {| v_attrs := []; v_fields := [F 0] |};
                     {| v_attrs := [AArgs [P 0]]; v_fields := [F 1; F 2; F 3] |} ]) = Some (DExpectedTuple 3) /\
  from_diag (IStruct [AArgs [TTuple []]] [F 0]) = Some DUnitForOne /\
  from_diag (IStruct [AArgs [TTuple [P 0]]] [F 0; F 1; F 2]) = Some (DAddMore 3 1).
Proof. repeat split. Qed.

Example ex_into_diag :
  into_diag [IArgs [CKind KRef (Some [TTuple [P 0; P 1; P 2]])]] [(F 0, []); (F 1, [])] = Some (DRemoveLast 2 3).
Proof. reflexivity. Qed.

Example ex_legacy : from_expand (IStruct [AArgs [TAtom W_TYPES; P 0]] [F 0]) = RErr /\
                    exists ds, from_expand (IStruct [AArgs [P 0; TAtom W_TYPES]] [F 0]) = ROk ds.
Proof. split; [reflexivity | eexists; reflexivity]. Qed.

Example ex_repeated_from :
  parse_attrs parse_variant_attr None [AArgs [P 0]; AArgs [P 1; P 2]; AArgs [P 3]] =
  Some (Some (FTypes [P 0; P 1; P 2; P 3])) /\
  parse_attrs parse_variant_attr None [AArgs [P 0]; AArgs [TAtom W_FORWARD]] = None.
Proof. split; reflexivity. Qed.

(* struct S(F0, #[into(skip)] F1, F2, #[into(skip)] F3): from (a,b,c,d) then into gives (a,c) *)
Example ex_roundtrip_skips :
  into_sem (fun _ _ _ v => v)
           (own_impl (kept [(F 0, false); (F 1, true); (F 2, false); (F 3, true)]) KOwned)
           [VLeaf 10; VLeaf 11; VLeaf 12; VLeaf 13] = Some (VTuple [VLeaf 10; VLeaf 12]) /\
  select [false; true; false; true] [VLeaf 10; VLeaf 11; VLeaf 12; VLeaf 13] = [VLeaf 10; VLeaf 12].
Proof. split; reflexivity. Qed.
