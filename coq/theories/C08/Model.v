(** C08 - executable model of the decision logic of [#[derive(From)]], [#[derive(Into)]] and
    [#[derive(Constructor)]]  (impl/src/from.rs, impl/src/into.rs, impl/src/constructor.rs,
    [FieldsExt::validate_type] and the [attr::*] merge rules of impl/src/utils.rs).

    No proofs in this file.  One definition per Rust function it mirrors.

    Input language (what the Python renderer turns into Rust source and back):
    - a type is an atom (any non-tuple [syn::Type], named by a number), a tuple type, or one of the
      fresh parameters [__FromT<k>] the macro invents;
    - atoms 0, 1, 2 print as the identifiers [skip], [ignore], [forward]: whether an attribute
      argument *is* one of these words is decided by the model exactly like the code decides it
      ([syn::Path::is_ident] on the parsed argument), not by the generator;
    - an attribute is [#[from]] / [#[into]] (a bare path) or [#[from(args)]] / [#[into(args)]].

    Output: a list of impl descriptors (what `From<..> for ..` headers are emitted, and for each the
    per-field initialisers: which component of the argument, through which conversion), plus a
    value semantics of the emitted bodies over an uninterpreted user conversion [conv]. *)
From Coq Require Import List NArith Bool Arith.
Import ListNotations.

(* ------------------------------------------------------------------ types, outcomes *)

Inductive ty : Type :=
| TAtom (n : N)            (* any non-tuple type; 0/1/2 = the words skip / ignore / forward *)
| TGen (k : nat)           (* __FromT<k>, from.rs:216 *)
| TTuple (l : list ty).    (* syn::Type::Tuple *)

Definition W_SKIP : N := 0%N.
Definition W_IGNORE : N := 1%N.
Definition W_FORWARD : N := 2%N.
Definition W_TYPES : N := 3%N.     (* the identifier `types` of the legacy syntax `#[from(types(..))]` *)

(* syn::Path::is_ident on an argument that was parsed as a path *)
Definition is_word (t : ty) (w : N) : bool :=
  match t with TAtom n => N.eqb n w | _ => false end.

(* outcome of an expansion: tokens, a syn::Error (diagnostic), or an internal panic *)
Inductive res (A : Type) : Type :=
| ROk (a : A)
| RErr
| RPanic.
Arguments ROk {A} a.
Arguments RErr {A}.
Arguments RPanic {A}.

Definition rbind {A B} (r : res A) (f : A -> res B) : res B :=
  match r with ROk a => f a | RErr => RErr | RPanic => RPanic end.

(* `iter.map(f).collect::<syn::Result<TokenStream>>()`: left to right, stops at the first failure,
   concatenates the token streams *)
Fixpoint rcollect {A B} (f : A -> res (list B)) (l : list A) : res (list B) :=
  match l with
  | [] => ROk []
  | x :: r => rbind (f x) (fun a => rbind (rcollect f r) (fun b => ROk (a ++ b)))
  end.

Fixpoint ocollect {A B} (f : A -> option (list B)) (l : list A) : option (list B) :=
  match l with
  | [] => Some []
  | x :: r => match f x with
              | None => None
              | Some a => match ocollect f r with None => None | Some b => Some (a ++ b) end
              end
  end.

Fixpoint mapi_from {A B} (f : nat -> A -> B) (k : nat) (l : list A) : list B :=
  match l with
  | [] => []
  | x :: r => f k x :: mapi_from f (S k) r
  end.
Definition mapi {A B} (f : nat -> A -> B) (l : list A) : list B := mapi_from f 0 l.

Definition is_nil {A} (l : list A) : bool := match l with [] => true | _ => false end.
Definition is_some {A} (o : option A) : bool := match o with Some _ => true | None => false end.

(* `( #( #tys ),* )` as quote! prints it: one element gives a parenthesised type (the element
   itself), anything else a tuple.  from.rs:201,247  into.rs:185 *)
Definition paren_list (l : list ty) : ty :=
  match l with [x] => x | _ => TTuple l end.

(* ------------------------------------------------------------------ utils.rs:2202-2284 *)

(* FieldsExt::validate_type: `n` = self.len().  None = Err(..) (wrong tuple length / expected
   tuple); Some = the iterator it returns (tuple elements, or the type itself once).
   Arms in source order: a tuple for more than one field must have the same length
   (utils.rs:2209-2262); the empty tuple for exactly one field is refused (utils.rs:2263-2272);
   a non-tuple for more than one field is refused (utils.rs:2273-2285); everything else passes. *)
Definition validate_type (n : nat) (t : ty) : option (list ty) :=
  match t with
  | TTuple elems =>
      if 1 <? n then (if n =? length elems then Some elems else None)
      else if (n =? 1) && is_nil elems then None
      else Some elems
  | other => if 1 <? n then None else Some [other]
  end.

(* The diagnostic validate_type reports (utils.rs:2211-2285), without its rendering of the types:
   "wrong tuple length: expected E, found F. Consider adding E-F more type(s)",
   "... Consider removing last F-E type(s)", the single-field `()` message, "expected tuple: `(T, _, ..)`" *)
Inductive vdiag : Type :=
| DAddMore (expected found : nat)
| DRemoveLast (expected found : nat)
| DUnitForOne
| DExpectedTuple (expected : nat).

Definition validate_diag (n : nat) (t : ty) : option vdiag :=
  match t with
  | TTuple elems =>
      if 1 <? n then
        match Nat.compare n (length elems) with
        | Gt => Some (DAddMore n (length elems))
        | Lt => Some (DRemoveLast n (length elems))
        | Eq => None
        end
      else if (n =? 1) && is_nil elems then Some DUnitForOne
      else None
  | _ => if 1 <? n then Some (DExpectedTuple n) else None
  end.

Fixpoint first_some {A B} (f : A -> option B) (l : list A) : option B :=
  match l with
  | [] => None
  | x :: r => match f x with Some b => Some b | None => first_some f r end
  end.

(* ================================================================== From *)

(* one `#[from...]` attribute as written *)
Inductive raw_attr : Type :=
| APath                      (* #[from] *)
| AArgs (l : list ty).       (* #[from(a, b, ...)] *)

(* attr::FieldConversion (utils.rs:2023); attr::Conversion is its Forward/Types half *)
Inductive fattr : Type :=
| FEmpty
| FSkip
| FForward
| FTypes (l : list ty).

(* attr::Skip::parse (utils.rs:1856) under parse_args_with: exactly one path, `skip` or `ignore` *)
Definition parse_skip (l : list ty) : bool :=
  match l with [t] => is_word t W_SKIP || is_word t W_IGNORE | _ => false end.

(* attr::Forward::parse (utils.rs:1726) *)
Definition parse_forward (l : list ty) : bool :=
  match l with [t] => is_word t W_FORWARD | _ => false end.

(* <ConsiderLegacySyntax as attr::Parser>::parse (from.rs:329-341): when the Types alternative is tried
   and the argument list starts with a path that is exactly the identifier `types`, the attribute is the
   legacy `types(..)` form (or malformed) and is always refused (legacy_error, from.rs:344-403);
   a longer path such as `types::T` is an ordinary type *)
Definition legacy_types (l : list ty) : bool :=
  match l with t :: _ => is_word t W_TYPES | [] => false end.

(* Either<Empty, Either<Skip, Either<Forward, Types>>>::parse_attr_with (utils.rs:1614, 2081):
   first alternative that parses wins; Types::parse accepts any list of types *)
Definition parse_variant_attr (a : raw_attr) : option fattr :=
  match a with
  | APath => Some FEmpty
  | AArgs l => if parse_skip l then Some FSkip else if parse_forward l then Some FForward
               else if legacy_types l then None else Some (FTypes l)
  end.

(* Either<Forward, Types>::parse_attr_with (utils.rs:1981): a bare `#[from]` on a struct has no
   argument list, both alternatives fail *)
Definition parse_struct_attr (a : raw_attr) : option fattr :=
  match a with
  | APath => None
  | AArgs l => if parse_forward l then Some FForward else if legacy_types l then None else Some (FTypes l)
  end.

(* Either::merge_attrs (utils.rs:1624) over Empty/Skip/Forward (all refuse a second attribute,
   utils.rs:1696, 1877, 1548) and Types (concatenates, utils.rs:1919) *)
Definition merge_fattr (p n : fattr) : option fattr :=
  match p, n with
  | FTypes a, FTypes b => Some (FTypes (a ++ b))
  | _, _ => None
  end.

(* ParseMultiple::parse_attrs_with (utils.rs:1580): try_fold over the attributes named `from`.
   None = Err *)
Fixpoint parse_attrs (parse1 : raw_attr -> option fattr) (acc : option fattr) (l : list raw_attr)
  : option (option fattr) :=
  match l with
  | [] => Some acc
  | a :: r =>
      match parse1 a with
      | None => None
      | Some x =>
          match acc with
          | None => parse_attrs parse1 (Some x) r
          | Some p => match merge_fattr p x with
                      | None => None
                      | Some m => parse_attrs parse1 (Some m) r
                      end
          end
      end
  end.

(* how one field is initialised in the emitted constructor expression *)
Inductive fconv : Type :=
| Direct                   (* `value.i`                                   from.rs:194 *)
| ViaFrom (from : ty).     (* `<FieldTy as From<from>>::from(value.i)`    from.rs:168, 218 *)

Record finit := { fi_proj : option nat;   (* Some i = `value.i`, None = `value` *)
                  fi_conv : fconv }.

(* one emitted `impl From<fd_src> for Item` constructing variant fd_variant *)
Record from_impl := {
  fd_variant : option nat;   (* index of the variant built; None for a struct *)
  fd_src : ty;               (* the type argument of From<..> and of `value` *)
  fd_ngen : nat;             (* number of added `__FromT<k>` parameters (with `FieldTy_k: From<__FromT<k>>`) *)
  fd_inits : list finit      (* field initialisers, in the order they are written *)
}.

(* Expansion::expand_fields (from.rs:268-319): the `index` handed to `wrap`, per field, in
   field order: None when there is exactly one field, Some(i) otherwise *)
Definition projs (ftys : list ty) : list (option nat) :=
  match ftys with
  | [_] => [None]
  | _ => mapi (fun i _ => Some i) ftys
  end.

(* the `wrap` closure of the Types arm (from.rs:163-172): takes the next element of
   `from_tys` for every field; `unreachable!()` when the iterator is exhausted (None here, RPanic in
   [expand_one]) - Proofs.from_never_panics shows validate_type rules that out *)
Fixpoint typed_inits (ps : list (option nat)) (from_tys : list ty) : option (list finit) :=
  match ps with
  | [] => Some []
  | p :: ps' =>
      match from_tys with
      | [] => None
      | t :: ts =>
          match typed_inits ps' ts with
          | None => None
          | Some r => Some ({| fi_proj := p; fi_conv := ViaFrom t |} :: r)
          end
      end
  end.

Definition gen_tys (n : nat) : list ty := map TGen (seq 0 n).

(* Expansion::expand (from.rs:148-260) *)
Definition expand_one (attr : option fattr) (variant : option nat) (ftys : list ty)
           (has_explicit_from : bool) : res (list from_impl) :=
  let skip_variant := has_explicit_from || (is_some variant && is_nil ftys) in
  match attr, skip_variant with
  | Some (FTypes tys), _ =>
      rcollect (fun t =>
        match validate_type (length ftys) t with
        | None => RErr
        | Some from_tys =>
            match typed_inits (projs ftys) from_tys with
            | None => RPanic
            | Some inits => ROk [ {| fd_variant := variant; fd_src := t; fd_ngen := 0; fd_inits := inits |} ]
            end
        end) tys
  | Some FEmpty, _ | None, false =>
      ROk [ {| fd_variant := variant; fd_src := paren_list ftys; fd_ngen := 0;
               fd_inits := map (fun p => {| fi_proj := p; fi_conv := Direct |}) (projs ftys) |} ]
  | Some FForward, _ =>
      ROk [ {| fd_variant := variant; fd_src := paren_list (gen_tys (length ftys));
               fd_ngen := length ftys;
               fd_inits := mapi (fun i p => {| fi_proj := p; fi_conv := ViaFrom (TGen i) |}) (projs ftys) |} ]
  | Some FSkip, _ | None, true => ROk []
  end.

Record variant := { v_attrs : list raw_attr; v_fields : list ty }.

Inductive item : Type :=
| IStruct (attrs : list raw_attr) (fields : list ty)
| IEnum (vs : list variant).

(* from.rs:58-67 *)
Definition is_explicit (a : option fattr) : bool :=
  match a with
  | Some FEmpty | Some (FTypes _) | Some FForward => true
  | _ => false
  end.

(* from.rs:46-70: attributes of every variant, first Err wins *)
Fixpoint parse_all (vs : list variant) : option (list (option fattr)) :=
  match vs with
  | [] => Some []
  | v :: r =>
      match parse_attrs parse_variant_attr None (v_attrs v) with
      | None => None
      | Some a => match parse_all r with None => None | Some l => Some (a :: l) end
      end
  end.

(* from.rs:72-86 *)
Fixpoint expand_variants (he : bool) (k : nat) (vs : list variant) (attrs : list (option fattr))
  : res (list from_impl) :=
  match vs, attrs with
  | v :: vs', a :: attrs' =>
      rbind (expand_one a (Some k) (v_fields v) he)
            (fun x => rbind (expand_variants he (S k) vs' attrs') (fun y => ROk (x ++ y)))
  | _, _ => ROk []
  end.

(* from.rs::expand (from.rs:23-93), unions excluded *)
Definition from_expand (it : item) : res (list from_impl) :=
  match it with
  | IStruct attrs ftys =>
      match parse_attrs parse_struct_attr None attrs with
      | None => RErr
      | Some a => expand_one a None ftys false
      end
  | IEnum vs =>
      match parse_all vs with
      | None => RErr
      | Some attrs => expand_variants (existsb is_explicit attrs) 0 vs attrs
      end
  end.

(* the diagnostic of the first listed type that validate_type refuses (None when the expansion fails for
   another reason - an attribute that does not parse - or does not fail) *)
Definition expand_one_diag (attr : option fattr) (ftys : list ty) : option vdiag :=
  match attr with
  | Some (FTypes tys) => first_some (validate_diag (length ftys)) tys
  | _ => None
  end.

Definition from_diag (it : item) : option vdiag :=
  match it with
  | IStruct attrs ftys =>
      match parse_attrs parse_struct_attr None attrs with
      | None => None
      | Some a => expand_one_diag a ftys
      end
  | IEnum vs =>
      match parse_all vs with
      | None => None
      | Some attrs => first_some (fun va => expand_one_diag (snd va) (v_fields (fst va))) (combine vs attrs)
      end
  end.

(* ================================================================== Into *)

Inductive kind := KOwned | KRef | KRefMut.

(* one comma separated argument of `#[into(...)]` as ConversionsAttribute::parse sees it *)
Inductive citem : Type :=
| CType (t : ty)                              (* a type at top level *)
| CKind (k : kind) (tys : option (list ty)).  (* owned / ref / ref_mut, with or without `( types )` *)

Inductive into_raw : Type :=
| IPath                        (* #[into] *)
| IArgs (l : list citem).      (* #[into(...)] *)

(* One argument as the token-level front of ConversionsAttribute::parse sees it (into.rs:373-392): its
   leading identifier, whether `::` follows it, the parenthesised type list that may follow a keyword,
   and the type the tokens spell when they are read as a type *)
Inductive head := HOwned | HRef | HRefMut | HOther.
Record raw_arg := { ra_head : head; ra_pathsep : bool; ra_group : option (list ty); ra_ty : ty }.

(* into.rs:383-391 (ce243e7): `owned` / `ref` / `ref_mut` is the wrapper keyword only when it is not
   followed by `::`; everything else is parsed as a type *)
Definition classify_arg (a : raw_arg) : citem :=
  if ra_pathsep a then CType (ra_ty a)
  else match ra_head a with
       | HOwned => CKind KOwned (ra_group a)
       | HRef => CKind KRef (ra_group a)
       | HRefMut => CKind KRefMut (ra_group a)
       | HOther => CType (ra_ty a)
       end.

Inductive into_tok : Type :=
| TPath
| TArgs (l : list raw_arg).

Definition lex_into (a : into_tok) : into_raw :=
  match a with TPath => IPath | TArgs l => IArgs (map classify_arg l) end.

(* into.rs:297 Conversions *)
Record convs := { c_consider : bool; c_tys : list ty }.
(* into.rs:312 ConversionsAttribute *)
Record cattr := { ca_owned : convs; ca_ref : convs; ca_ref_mut : convs }.

Definition convs_none : convs := {| c_consider := false; c_tys := [] |}.
Definition cattr_none : cattr := {| ca_owned := convs_none; ca_ref := convs_none; ca_ref_mut := convs_none |}.
(* into.rs:323 Default *)
Definition cattr_default : cattr :=
  {| ca_owned := {| c_consider := true; c_tys := [] |}; ca_ref := convs_none; ca_ref_mut := convs_none |}.

Definition ca_get (k : kind) (c : cattr) : convs :=
  match k with KOwned => ca_owned c | KRef => ca_ref c | KRefMut => ca_ref_mut c end.
Definition ca_set (k : kind) (x : convs) (c : cattr) : cattr :=
  match k with
  | KOwned => {| ca_owned := x; ca_ref := ca_ref c; ca_ref_mut := ca_ref_mut c |}
  | KRef => {| ca_owned := ca_owned c; ca_ref := x; ca_ref_mut := ca_ref_mut c |}
  | KRefMut => {| ca_owned := ca_owned c; ca_ref := ca_ref c; ca_ref_mut := x |}
  end.

(* the `while` loop of ConversionsAttribute::parse (into.rs:373-403);
   state = (out, has_wrapped_type, top_level_type.is_some()).
   Which argument is a wrapper ([CKind]) and which a type ([CType]) is decided by the leading identifier
   AND the token after it (into.rs:383-391, since ce243e7): `owned` / `ref` / `ref_mut` followed by `::`
   starts a type path (`owned::Ty` is a [CType]), otherwise it is the wrapper keyword.  The renderer of the
   check emits both spellings; the in-process tie compares them with the real parser. *)
Fixpoint parse_citems (l : list citem) (out : cattr) (wrapped top : bool) : cattr * bool * bool :=
  match l with
  | [] => (out, wrapped, top)
  | CType t :: r =>
      let o := ca_owned out in
      parse_citems r (ca_set KOwned {| c_consider := c_consider o; c_tys := c_tys o ++ [t] |} out) wrapped true
  | CKind k None :: r =>
      let o := ca_get k out in
      parse_citems r (ca_set k {| c_consider := true; c_tys := c_tys o |} out) true top
  | CKind k (Some tys) :: r =>
      let o := ca_get k out in
      parse_citems r (ca_set k {| c_consider := c_consider o; c_tys := c_tys o ++ tys |} out) true top
  end.

(* ConversionsAttribute::parse (into.rs:336-418); None = the "mixing regular types with wrapped" error *)
Definition parse_cattr (l : list citem) : option cattr :=
  match parse_citems l cattr_none false false with
  | (c, wrapped, top) => if wrapped && top then None else Some c
  end.

Definition merge_convs (p n : convs) : convs :=
  {| c_consider := c_consider p || c_consider n; c_tys := c_tys p ++ c_tys n |}.
(* ConversionsAttribute::merge_attrs (into.rs:420-446) *)
Definition merge_cattr (p n : cattr) : cattr :=
  {| ca_owned := merge_convs (ca_owned p) (ca_owned n);
     ca_ref := merge_convs (ca_ref p) (ca_ref n);
     ca_ref_mut := merge_convs (ca_ref_mut p) (ca_ref_mut n) |}.

(* into.rs:211 StructAttribute = Either<attr::Empty, ConversionsAttribute> *)
Inductive sattr := SEmpty | SConvs (c : cattr).

Definition parse_sattr1 (a : into_raw) : option sattr :=
  match a with
  | IPath => Some SEmpty
  | IArgs l => match parse_cattr l with None => None | Some c => Some (SConvs c) end
  end.

(* Either::merge_attrs: Empty+Empty refused (utils.rs:1696), mixed kinds refused (utils.rs:1638) *)
Definition merge_sattr (p n : sattr) : option sattr :=
  match p, n with
  | SConvs a, SConvs b => Some (SConvs (merge_cattr a b))
  | _, _ => None
  end.

Fixpoint parse_sattrs (acc : option sattr) (l : list into_raw) : option (option sattr) :=
  match l with
  | [] => Some acc
  | a :: r =>
      match parse_sattr1 a with
      | None => None
      | Some x =>
          match acc with
          | None => parse_sattrs (Some x) r
          | Some p => match merge_sattr p x with
                      | None => None
                      | Some m => parse_sattrs (Some m) r
                      end
          end
      end
  end.

(* into.rs:250 FieldAttribute *)
Record ifattr := { fa_skip : bool; fa_convs : option cattr }.

Definition citems_skip (l : list citem) : bool :=
  match l with [CType t] => is_word t W_SKIP || is_word t W_IGNORE | _ => false end.

(* FieldAttribute::parse_attr_with over Either<Skip, Either<Empty, ConversionsAttribute>>
   (into.rs:222-239, 261-267) *)
Definition parse_ifattr1 (a : into_raw) : option ifattr :=
  match a with
  | IPath => Some {| fa_skip := false; fa_convs := Some cattr_default |}
  | IArgs l =>
      if citems_skip l then Some {| fa_skip := true; fa_convs := None |}
      else match parse_cattr l with
           | None => None
           | Some c => Some {| fa_skip := false; fa_convs := Some c |}
           end
  end.

(* FieldAttribute::merge_attrs (into.rs:269-292): two skips refused, conversions merged *)
Definition merge_ifattr (p n : ifattr) : option ifattr :=
  if fa_skip p && fa_skip n then None
  else Some {| fa_skip := fa_skip p || fa_skip n;
               fa_convs := match fa_convs p, fa_convs n with
                           | Some a, Some b => Some (merge_cattr a b)
                           | Some a, None => Some a
                           | None, o => o
                           end |}.

Fixpoint parse_ifattrs (acc : option ifattr) (l : list into_raw) : option (option ifattr) :=
  match l with
  | [] => Some acc
  | a :: r =>
      match parse_ifattr1 a with
      | None => None
      | Some x =>
          match acc with
          | None => parse_ifattrs (Some x) r
          | Some p => match merge_ifattr p x with
                      | None => None
                      | Some m => parse_ifattrs (Some m) r
                      end
          end
      end
  end.

(* a field as `into.rs` sees it after attribute parsing: ((index, type, skip), convs)  into.rs:49-72 *)
Record ifield := { if_idx : nat; if_ty : ty; if_skip : bool; if_convs : option cattr }.

Fixpoint parse_ifields (k : nat) (fs : list (ty * list into_raw)) : option (list ifield) :=
  match fs with
  | [] => Some []
  | (t, attrs) :: r =>
      match parse_ifattrs None attrs with
      | None => None
      | Some fa =>
          match parse_ifields (S k) r with
          | None => None
          | Some l =>
              Some ({| if_idx := k; if_ty := t;
                       if_skip := match fa with Some a => fa_skip a | None => false end;
                       if_convs := match fa with Some a => fa_convs a | None => None end |} :: l)
          end
      end
  end.

(* one emitted `impl From<[&[mut]] Item> for ( #( [&[mut]] #id_tys ),* )` *)
Record into_impl := {
  id_kind : kind;
  id_tys : list ty;                      (* `tys` of into.rs:178: components of the target type in the header *)
  id_inits : list ((nat * ty) * ty)      (* body: ((index, type) of the field read, type converted into) *)
}.

(* the three (conv, ref, mut) rows of into.rs:149-153 *)
Definition kinds : list kind := [KOwned; KRef; KRefMut].

(* Expansion::expand (into.rs:127-201); `fields` = (original index, type) of the fields converted.
   The body repetition `#( <#tys as From<_>>::from(value.#fields_idents) ),*` walks `tys` and
   `fields_idents` in lock step and stops with the shorter one (quote!), hence [combine]. *)
Definition expansion (fields : list (nat * ty)) (c : cattr) : option (list into_impl) :=
  ocollect (fun k =>
    let cv := ca_get k c in
    if c_consider cv || negb (is_nil (c_tys cv)) then
      ocollect (fun out_ty =>
        match validate_type (length fields) out_ty with
        | None => None
        | Some tys => Some [ {| id_kind := k; id_tys := tys; id_inits := combine fields tys |} ]
        end)
        ((if c_consider cv then [TTuple (map snd fields)] else []) ++ c_tys cv)
    else Some []) kinds.

Definition sattr_convs (a : sattr) : cattr :=
  match a with SEmpty => cattr_default | SConvs c => c end.

(* into.rs:99-102 *)
Definition nonskipped (fds : list ifield) : list (nat * ty) :=
  map (fun f => (if_idx f, if_ty f)) (filter (fun f => negb (if_skip f)) fds).

(* into.rs::expand (into.rs:25-107), enums/unions excluded.  None = Err *)
Definition into_expand (sattrs : list into_raw) (fields : list (ty * list into_raw))
  : option (list into_impl) :=
  match parse_sattrs None sattrs with
  | None => None
  | Some sa =>
      match parse_ifields 0 fields with
      | None => None
      | Some fds =>
          let sa' := match sa with
                     | Some a => Some a
                     | None => if forallb (fun f => negb (is_some (if_convs f))) fds
                               then Some (SConvs cattr_default) else None
                     end in
          let field_exps :=
            flat_map (fun f => match if_convs f with
                               | Some c => [([(if_idx f, if_ty f)], c)]
                               | None => []
                               end) fds in
          let struct_exp := match sa' with
                            | Some a => [(nonskipped fds, sattr_convs a)]
                            | None => []
                            end in
          ocollect (fun e => expansion (fst e) (snd e)) (field_exps ++ struct_exp)
      end
  end.

Definition expansion_diag (fields : list (nat * ty)) (c : cattr) : option vdiag :=
  first_some (fun k =>
    let cv := ca_get k c in
    if c_consider cv || negb (is_nil (c_tys cv)) then
      first_some (validate_diag (length fields))
                 ((if c_consider cv then [TTuple (map snd fields)] else []) ++ c_tys cv)
    else None) kinds.

(* the expansions of into.rs:83-105 (field-level ones first, then the struct-level one), None = Err *)
Definition into_expansions (sattrs : list into_raw) (fields : list (ty * list into_raw))
  : option (list (list (nat * ty) * cattr)) :=
  match parse_sattrs None sattrs with
  | None => None
  | Some sa =>
      match parse_ifields 0 fields with
      | None => None
      | Some fds =>
          let sa' := match sa with
                     | Some a => Some a
                     | None => if forallb (fun f => negb (is_some (if_convs f))) fds
                               then Some (SConvs cattr_default) else None
                     end in
          Some (flat_map (fun f => match if_convs f with
                                   | Some c => [([(if_idx f, if_ty f)], c)]
                                   | None => []
                                   end) fds
                ++ match sa' with
                   | Some a => [(nonskipped fds, sattr_convs a)]
                   | None => []
                   end)
      end
  end.

(* the diagnostic of the first target type that validate_type refuses *)
Definition into_diag (sattrs : list into_raw) (fields : list (ty * list into_raw)) : option vdiag :=
  match into_expansions sattrs fields with
  | None => None
  | Some es => first_some (fun e => expansion_diag (fst e) (snd e)) es
  end.

(* ================================================================== Constructor *)

(* constructor.rs:9-52: `new(v_0: T_0, ..)` and a body that initialises the k-th declared field
   (k-th position of a tuple struct / k-th name of a braced struct) with variable ct_inits[k] *)
Record ctor := { ct_params : list (nat * ty); ct_inits : list nat }.

Definition constructor_expand (ftys : list ty) : ctor :=
  {| ct_params := mapi (fun i t => (i, t)) ftys;      (* numbered_vars / field names, with get_field_types *)
     ct_inits := seq 0 (length ftys) |}.             (* tuple_body / struct_body: same vector, same order *)

(* ================================================================== value semantics of the bodies *)

Inductive value : Type :=
| VLeaf (n : N)                                   (* an opaque value *)
| VTuple (l : list value)
| VAddr (m : bool) (i : nat)                      (* `&value.i` / `&mut value.i`: the address of field i *)
| VFrom (k : kind) (from to : ty) (v : value).    (* free term for a user From::from call (used when
                                                     the model is run; the theorems hold for every conv) *)

Definition pack (l : list value) : value := match l with [x] => x | _ => VTuple l end.

Fixpoint omap {A B} (f : A -> option B) (l : list A) : option (list B) :=
  match l with
  | [] => Some []
  | x :: r => match f x with
              | None => None
              | Some y => match omap f r with None => None | Some ys => Some (y :: ys) end
              end
  end.

Section Sem.
  (* `<to as From<from>>::from(v)` (owned), resp. `<&to as From<&from>>::from(v)`, `&mut` *)
  Variable conv : kind -> ty -> ty -> value -> value.

  Definition proj (v : value) (p : option nat) : option value :=
    match p with
    | None => Some v
    | Some i => match v with VTuple l => nth_error l i | _ => None end
    end.

  Definition apply_fconv (c : fconv) (fty : ty) (v : value) : value :=
    match c with Direct => v | ViaFrom t => conv KOwned t fty v end.

  (* the struct / variant expression `Item::V { f0: init0, f1: init1, .. }` *)
  Fixpoint from_fields (inits : list finit) (ftys : list ty) (v : value) : option (list value) :=
    match inits, ftys with
    | [], [] => Some []
    | i :: inits', t :: ftys' =>
        match proj v (fi_proj i) with
        | None => None
        | Some x => match from_fields inits' ftys' v with
                    | None => None
                    | Some r => Some (apply_fconv (fi_conv i) t x :: r)
                    end
        end
    | _, _ => None
    end.

  Definition from_sem (ftys : list ty) (d : from_impl) (v : value) : option (list value) :=
    from_fields (fd_inits d) ftys v.

  (* the From::from calls the body makes, in evaluation order: (argument type, result type) *)
  Fixpoint from_trace_aux (inits : list finit) (ftys : list ty) : list (ty * ty) :=
    match inits, ftys with
    | i :: inits', t :: ftys' =>
        match fi_conv i with
        | Direct => from_trace_aux inits' ftys'
        | ViaFrom f => (f, t) :: from_trace_aux inits' ftys'
        end
    | _, _ => []
    end.
  Definition from_trace (ftys : list ty) (d : from_impl) : list (ty * ty) :=
    from_trace_aux (fd_inits d) ftys.

  (* `value.i`, `&value.i`, `&mut value.i` on a struct whose fields are `s` *)
  Definition access (k : kind) (s : list value) (i : nat) : option value :=
    match k with
    | KOwned => nth_error s i
    | KRef => if i <? length s then Some (VAddr false i) else None
    | KRefMut => if i <? length s then Some (VAddr true i) else None
    end.

  Definition into_sem (d : into_impl) (s : list value) : option value :=
    match omap (fun e => match access (id_kind d) s (fst (fst e)) with
                         | None => None
                         | Some x => Some (conv (id_kind d) (snd (fst e)) (snd e) x)
                         end) (id_inits d) with
    | None => None
    | Some l => Some (pack l)
    end.

  (* one From::from per element of the body, in order: (field read, its type, type converted into) *)
  Definition into_trace (d : into_impl) : list ((nat * ty) * ty) := id_inits d.

  Definition ctor_sem (c : ctor) (args : list value) : option (list value) :=
    omap (fun k => nth_error args k) (ct_inits c).
End Sem.

(* ================================================================== reports used by the check script *)

Definition std_input (n : nat) : list value := map (fun i => VLeaf (N.of_nat (10 + i))) (seq 0 n).

Definition fields_of (it : item) (d : from_impl) : option (list ty) :=
  match it, fd_variant d with
  | IStruct _ ftys, None => Some ftys
  | IEnum vs, Some k => match nth_error vs k with Some v => Some (v_fields v) | None => None end
  | _, _ => None
  end.

(* expansion + the model's prediction of what each impl does on the standard input *)
Definition from_report (it : item)
  : res (list (from_impl * option (list value) * list (ty * ty))) :=
  match from_expand it with
  | ROk ds =>
      ROk (map (fun d =>
                  match fields_of it d with
                  | Some ftys => (d, from_sem VFrom ftys d (pack (std_input (length ftys))), from_trace ftys d)
                  | None => (d, None, [])
                  end) ds)
  | RErr => RErr
  | RPanic => RPanic
  end.

Definition into_report (sattrs : list into_raw) (fields : list (ty * list into_raw))
  : option (list (into_impl * option value)) :=
  match into_expand sattrs fields with
  | Some ds => Some (map (fun d => (d, into_sem VFrom d (std_input (length fields)))) ds)
  | None => None
  end.

(* the same, from the token-level arguments *)
Definition into_report_tok (sattrs : list into_tok) (fields : list (ty * list into_tok)) :=
  let fs := map (fun f => (fst f, map lex_into (snd f))) fields in
  (into_report (map lex_into sattrs) fs, into_diag (map lex_into sattrs) fs).

Definition from_report_diag (it : item) := (from_report it, from_diag it).

Definition ctor_report (ftys : list ty) : ctor * option (list value) :=
  let c := constructor_expand ftys in (c, ctor_sem c (std_input (length ftys))).
