(** C08 - From, Into and Constructor preserve field order and invert each other: the property theorems. *)
From Coq Require Import List NArith Bool Arith.
Import ListNotations.
Require Import Verif.C08.Model Verif.C08.Proofs.

Theorem C08_from_positions :
  forall (conv : kind -> ty -> ty -> value -> value) it ds d ftys cs,
  from_expand it = ROk ds -> In d ds -> fields_of it d = Some ftys -> length cs = length ftys ->
  exists fields,
    from_sem conv ftys d (pack cs) = Some fields /\ length fields = length ftys /\
    forall i c fty, nth_error cs i = Some c -> nth_error ftys i = Some fty ->
      exists init, nth_error (fd_inits d) i = Some init /\
                   nth_error fields i = Some (apply_fconv conv (fi_conv init) fty c).
Proof. exact Proofs.from_positions. Qed.
Print Assumptions C08_from_positions.

Theorem C08_one_from_per_field :
  forall it ds d ftys,
  from_expand it = ROk ds -> In d ds -> fields_of it d = Some ftys ->
  (fd_src d = paren_list ftys /\ fd_ngen d = 0 /\ from_trace ftys d = [] /\
   forall init, In init (fd_inits d) -> fi_conv init = Direct)
  \/
  (exists from_tys, validate_type (length ftys) (fd_src d) = Some from_tys /\ fd_ngen d = 0 /\
     from_trace ftys d = combine (firstn (length ftys) from_tys) ftys /\
     length (from_trace ftys d) = length ftys)
  \/
  (fd_src d = paren_list (gen_tys (length ftys)) /\ fd_ngen d = length ftys /\
   from_trace ftys d = combine (gen_tys (length ftys)) ftys /\
   length (from_trace ftys d) = length ftys).
Proof. exact Proofs.from_conversions. Qed.
Print Assumptions C08_one_from_per_field.

Theorem C08_from_impl_set_enum :
  forall vs ds,
  from_expand (IEnum vs) = ROk ds ->
  exists attrs dss,
    parse_all vs = Some attrs /\ ds = concat dss /\ length dss = length vs /\ length attrs = length vs /\
    forall k v, nth_error vs k = Some v ->
      exists a ds_k,
        parse_attrs parse_variant_attr None (v_attrs v) = Some a /\ nth_error attrs k = Some a /\
        nth_error dss k = Some ds_k /\
        map fd_src ds_k = documented_from (existsb is_explicit attrs) true a (v_fields v) /\
        (forall d, In d ds_k -> fd_variant d = Some k).
Proof. exact Proofs.from_impl_set_enum. Qed.
Print Assumptions C08_from_impl_set_enum.

Theorem C08_from_impl_set_struct :
  forall attrs ftys ds,
  from_expand (IStruct attrs ftys) = ROk ds ->
  exists a, parse_attrs parse_struct_attr None attrs = Some a /\
            map fd_src ds = documented_from false false a ftys /\
            (forall d, In d ds -> fd_variant d = None).
Proof. exact Proofs.from_impl_set_struct. Qed.
Print Assumptions C08_from_impl_set_struct.

Theorem C08_from_no_impl_for_skipped_unit_unannotated :
  forall vs ds k v a attrs,
  from_expand (IEnum vs) = ROk ds -> parse_all vs = Some attrs ->
  nth_error vs k = Some v -> nth_error attrs k = Some a ->
  (a = Some FSkip \/ (a = None /\ (v_fields v = [] \/ existsb is_explicit attrs = true))) ->
  forall d, In d ds -> fd_variant d <> Some k.
Proof. exact Proofs.from_no_impl_for. Qed.
Print Assumptions C08_from_no_impl_for_skipped_unit_unannotated.

Theorem C08_arity :
  forall n t,
  (exists c, validate_type n t = Some c) <->
  ((n <= 1 /\ (n = 1 -> t <> TTuple [])) \/ exists l, t = TTuple l /\ length l = n).
Proof. exact Proofs.validate_type_ok_iff. Qed.
Print Assumptions C08_arity.

Theorem C08_arity_components :
  forall n t c, validate_type n t = Some c ->
  c = comps t /\ (2 <= n -> length c = n) /\ (1 <= n -> 1 <= length c).
Proof. exact Proofs.validate_type_components. Qed.
Print Assumptions C08_arity_components.

Theorem C08_from_never_panics :
  forall it, from_expand it <> RPanic.
Proof. exact Proofs.from_never_panics. Qed.
Print Assumptions C08_from_never_panics.

Theorem C08_from_unit_tuple_single_field_rejected :
  forall variant fty tys he,
  In (TTuple []) tys -> expand_one (Some (FTypes tys)) variant [fty] he = RErr.
Proof. exact Proofs.from_unit_tuple_single_field_rejected. Qed.
Print Assumptions C08_from_unit_tuple_single_field_rejected.

Theorem C08_from_unit_tuple_struct_rejected :
  forall attrs fty tys,
  parse_attrs parse_struct_attr None attrs = Some (Some (FTypes tys)) -> In (TTuple []) tys ->
  from_expand (IStruct attrs [fty]) = RErr.
Proof. exact Proofs.from_unit_tuple_struct_rejected. Qed.
Print Assumptions C08_from_unit_tuple_struct_rejected.

Theorem C08_into_positions :
  forall sattrs fields ds d,
  into_expand sattrs fields = Some ds -> In d ds ->
  exists sa fds src c out_ty,
    parse_sattrs None sattrs = Some sa /\ parse_ifields 0 fields = Some fds /\
    map if_idx fds = seq 0 (length fields) /\ map if_ty fds = map fst fields /\
    ( (exists f, In f fds /\ if_convs f = Some c /\ src = [(if_idx f, if_ty f)])
      \/ (struct_convs sa fds = Some c /\ src = nonskipped fds) ) /\
    In out_ty (requested src c (id_kind d)) /\
    validate_type (length src) out_ty = Some (id_tys d) /\
    id_inits d = combine src (id_tys d).
Proof. exact Proofs.into_positions. Qed.
Print Assumptions C08_into_positions.

Theorem C08_into_impl_set :
  forall sattrs fields ds,
  into_expand sattrs fields = Some ds ->
  exists sa fds,
    parse_sattrs None sattrs = Some sa /\ parse_ifields 0 fields = Some fds /\
    map (fun d => (id_kind d, id_tys d)) ds =
    flat_map (fun e => flat_map (fun k => map (fun t => (k, comps t)) (requested (fst e) (snd e) k)) kinds)
      (flat_map (fun f => match if_convs f with
                          | Some c => [([(if_idx f, if_ty f)], c)]
                          | None => []
                          end) fds
       ++ match struct_convs sa fds with Some c => [(nonskipped fds, c)] | None => [] end).
Proof. exact Proofs.into_impl_set. Qed.
Print Assumptions C08_into_impl_set.

Theorem C08_into_own_types :
  forall (conv : kind -> ty -> ty -> value -> value) (Hrefl : forall k t v, conv k t t v = v) d src s,
  id_tys d = map snd src -> id_inits d = combine src (id_tys d) ->
  (forall e, In e src -> fst e < length s) ->
  into_sem conv d s = Some (pack (map (fun e => acc (id_kind d) s (fst e)) src)).
Proof. exact Proofs.into_own_types. Qed.
Print Assumptions C08_into_own_types.

Theorem C08_into_default :
  forall fs, into_expand [] (map mk_field fs) = Some [own_impl (kept fs) KOwned].
Proof. exact Proofs.into_default. Qed.
Print Assumptions C08_into_default.

Theorem C08_into_all_kinds :
  forall fs,
  into_expand [IArgs [CKind KOwned None; CKind KRef None; CKind KRefMut None]] (map mk_field fs) =
  Some (map (own_impl (kept fs)) kinds).
Proof. exact Proofs.into_all_kinds. Qed.
Print Assumptions C08_into_all_kinds.

Theorem C08_into_extracts :
  forall (conv : kind -> ty -> ty -> value -> value) (Hrefl : forall k t v, conv k t t v = v) fs k s,
  length s = length fs ->
  into_sem conv (own_impl (kept fs) k) s = Some (pack (map (fun e => acc k s (fst e)) (kept fs))).
Proof. exact Proofs.into_extracts. Qed.
Print Assumptions C08_into_extracts.

Theorem C08_roundtrip :
  forall (conv : kind -> ty -> ty -> value -> value) (Hrefl : forall k t v, conv k t t v = v) ftys,
  exists df di,
    from_expand (IStruct [] ftys) = ROk [df] /\
    into_expand [] (plain ftys) = Some [di] /\
    (forall cs, length cs = length ftys ->
       exists s, from_sem conv ftys df (pack cs) = Some s /\ into_sem conv di s = Some (pack cs)) /\
    (forall s, length s = length ftys ->
       exists t, into_sem conv di s = Some t /\ from_sem conv ftys df t = Some s).
Proof. exact Proofs.roundtrip. Qed.
Print Assumptions C08_roundtrip.

Theorem C08_constructor_positions :
  forall ftys args,
  length args = length ftys ->
  ctor_sem (constructor_expand ftys) args = Some args /\
  map snd (ct_params (constructor_expand ftys)) = ftys /\
  map fst (ct_params (constructor_expand ftys)) = seq 0 (length ftys).
Proof. exact Proofs.constructor_positions. Qed.
Print Assumptions C08_constructor_positions.

Theorem C08_constructor_roundtrip :
  forall (conv : kind -> ty -> ty -> value -> value) (Hrefl : forall k t v, conv k t t v = v) ftys args,
  length args = length ftys ->
  exists di s, into_expand [] (plain ftys) = Some [di] /\
               ctor_sem (constructor_expand ftys) args = Some s /\
               into_sem conv di s = Some (pack args) /\ s = args.
Proof. exact Proofs.constructor_roundtrip. Qed.
Print Assumptions C08_constructor_roundtrip.

(* ------------------------------------------------------------------ growth round *)

Theorem C08_validate_diag_iff :
  forall n t, validate_type n t = None <-> validate_diag n t <> None.
Proof. exact Proofs.validate_diag_none_iff. Qed.
Print Assumptions C08_validate_diag_iff.

Theorem C08_validate_diag_cases :
  forall n t d,
  validate_diag n t = Some d ->
  match d with
  | DAddMore e f => e = n /\ 2 <= n /\ f < n /\ exists l, t = TTuple l /\ length l = f
  | DRemoveLast e f => e = n /\ 2 <= n /\ n < f /\ exists l, t = TTuple l /\ length l = f
  | DUnitForOne => n = 1 /\ t = TTuple []
  | DExpectedTuple e => e = n /\ 2 <= n /\ forall l, t <> TTuple l
  end.
Proof. exact Proofs.validate_diag_cases. Qed.
Print Assumptions C08_validate_diag_cases.

Theorem C08_from_err_iff :
  forall it,
  from_expand it = RErr <->
  (match it with
   | IStruct attrs _ => parse_attrs parse_struct_attr None attrs = None
   | IEnum vs => parse_all vs = None
   end \/ from_diag it <> None).
Proof. exact Proofs.from_err_iff. Qed.
Print Assumptions C08_from_err_iff.

Theorem C08_into_err_iff :
  forall sattrs fields,
  into_expand sattrs fields = None <->
  (into_expansions sattrs fields = None \/ into_diag sattrs fields <> None).
Proof. exact Proofs.into_err_iff. Qed.
Print Assumptions C08_into_err_iff.

Theorem C08_into_attr_mixing_rejected_iff :
  forall l, parse_cattr l = None <-> (has_kind l = true /\ has_type l = true).
Proof. exact Proofs.parse_cattr_rejects_iff. Qed.
Print Assumptions C08_into_attr_mixing_rejected_iff.

Theorem C08_into_attr_groups_accumulate :
  forall l c,
  parse_cattr l = Some c ->
  forall k, c_tys (ca_get k c) = tys_of k l /\ c_consider (ca_get k c) = bare_of k l.
Proof. exact Proofs.parse_cattr_spec. Qed.
Print Assumptions C08_into_attr_groups_accumulate.

Theorem C08_into_attrs_merge_is_concat :
  forall l1 l2 c1 c2,
  parse_cattr l1 = Some c1 -> parse_cattr l2 = Some c2 ->
  forall k, c_tys (ca_get k (merge_cattr c1 c2)) = tys_of k (l1 ++ l2) /\
            c_consider (ca_get k (merge_cattr c1 c2)) = bare_of k (l1 ++ l2).
Proof. exact Proofs.merge_cattr_is_concat. Qed.
Print Assumptions C08_into_attrs_merge_is_concat.

Theorem C08_into_keyword_rule :
  forall a,
  (ra_pathsep a = true -> classify_arg a = CType (ra_ty a)) /\
  (ra_pathsep a = false -> ra_head a = HOther -> classify_arg a = CType (ra_ty a)) /\
  (ra_pathsep a = false -> ra_head a <> HOther -> exists k, classify_arg a = CKind k (ra_group a)).
Proof. exact Proofs.classify_arg_spec. Qed.
Print Assumptions C08_into_keyword_rule.

Theorem C08_from_repeated_types_concat :
  forall p l ls,
  (forall x, In x (l :: ls) -> p (AArgs x) = Some (FTypes x)) ->
  parse_attrs p None (map AArgs (l :: ls)) = Some (Some (FTypes (concat (l :: ls)))).
Proof. exact Proofs.from_repeated_types_concat. Qed.
Print Assumptions C08_from_repeated_types_concat.

Theorem C08_from_two_attrs_need_types :
  forall p a b r x,
  parse_attrs p None (a :: b :: r) = Some x ->
  (exists ta, p a = Some (FTypes ta)) /\ (exists tb, p b = Some (FTypes tb)).
Proof. exact Proofs.from_two_attrs_need_types. Qed.
Print Assumptions C08_from_two_attrs_need_types.

Theorem C08_from_legacy_types_rejected :
  forall l,
  legacy_types l = true ->
  parse_variant_attr (AArgs l) = None /\ parse_struct_attr (AArgs l) = None /\
  (forall ftys, from_expand (IStruct [AArgs l] ftys) = RErr).
Proof. exact Proofs.from_legacy_types_rejected. Qed.
Print Assumptions C08_from_legacy_types_rejected.

Theorem C08_from_documented_unless_known :
  forall it ds d ftys from_tys,
  from_expand it = ROk ds -> In d ds -> fields_of it d = Some ftys ->
  validate_type (length ftys) (fd_src d) = Some from_tys ->
  from_trace ftys d = combine (firstn (length ftys) from_tys) ftys ->
  ~ known_split (length ftys) (fd_src d) ->
  from_trace ftys d = combine (doc_comps (length ftys) (fd_src d)) ftys /\
  (1 <= length ftys -> length (doc_comps (length ftys) (fd_src d)) = length ftys).
Proof. exact Proofs.from_documented_unless_known. Qed.
Print Assumptions C08_from_documented_unless_known.

Theorem C08_from_known_split_refuted :
  exists it d ftys,
    from_expand it = ROk [d] /\ fields_of it d = Some ftys /\ known_split (length ftys) (fd_src d) /\
    from_trace ftys d <> combine (doc_comps (length ftys) (fd_src d)) ftys.
Proof. exact Proofs.from_known_split_refuted. Qed.
Print Assumptions C08_from_known_split_refuted.

Theorem C08_into_documented_unless_known :
  forall sattrs fields ds d,
  into_expand sattrs fields = Some ds -> In d ds ->
  exists src out_ty,
    validate_type (length src) out_ty = Some (id_tys d) /\ id_inits d = combine src (id_tys d) /\
    (out_ty = TTuple (map snd src) -> id_tys d = map snd src /\ map fst (into_trace d) = src) /\
    (~ known_split (length src) out_ty ->
       id_tys d = doc_comps (length src) out_ty /\ map fst (into_trace d) = src).
Proof. exact Proofs.into_documented_unless_known. Qed.
Print Assumptions C08_into_documented_unless_known.

Theorem C08_into_known_one_tuple_refuted :
  exists sattrs fields d (src : list (nat * ty)) out_ty,
    into_expand sattrs fields = Some [d] /\ validate_type (length src) out_ty = Some (id_tys d) /\
    known_split (length src) out_ty /\ id_tys d <> doc_comps (length src) out_ty.
Proof. exact Proofs.into_known_one_tuple_refuted. Qed.
Print Assumptions C08_into_known_one_tuple_refuted.

Theorem C08_into_known_split_refuted :
  exists sattrs fields d (src : list (nat * ty)) out_ty,
    into_expand sattrs fields = Some [d] /\ validate_type (length src) out_ty = Some (id_tys d) /\
    known_split (length src) out_ty /\ length (id_tys d) <> length src /\ length (into_trace d) = 1.
Proof. exact Proofs.into_known_split_refuted. Qed.
Print Assumptions C08_into_known_split_refuted.

Theorem C08_roundtrip_skips :
  forall (conv : kind -> ty -> ty -> value -> value) (Hrefl : forall k t v, conv k t t v = v) fs cs,
  length cs = length fs ->
  from_expand (IStruct [] (map fst fs)) = ROk [direct_impl (map fst fs)] /\
  into_expand [] (map mk_field fs) = Some [own_impl (kept fs) KOwned] /\
  from_sem conv (map fst fs) (direct_impl (map fst fs)) (pack cs) = Some cs /\
  into_sem conv (own_impl (kept fs) KOwned) cs = Some (pack (select (map snd fs) cs)) /\
  into_sem conv (own_impl (kept fs) KRef) cs = Some (pack (map (fun e => VAddr false (fst e)) (kept fs))) /\
  into_sem conv (own_impl (kept fs) KRefMut) cs = Some (pack (map (fun e => VAddr true (fst e)) (kept fs))).
Proof. exact Proofs.roundtrip_skips. Qed.
Print Assumptions C08_roundtrip_skips.

Theorem C08_into_impl_set_iff :
  forall sattrs fields ds,
  into_expand sattrs fields = Some ds ->
  exists sa fds,
    parse_sattrs None sattrs = Some sa /\ parse_ifields 0 fields = Some fds /\
    forall k cs,
      In (k, cs) (map (fun d => (id_kind d, id_tys d)) ds) <->
      exists e t, In e (into_requests sa fds) /\ In t (requested (fst e) (snd e) k) /\ cs = comps t.
Proof. exact Proofs.into_impl_set_iff. Qed.
Print Assumptions C08_into_impl_set_iff.

Theorem C08_into_impl_count :
  forall sattrs fields ds,
  into_expand sattrs fields = Some ds ->
  exists sa fds,
    parse_sattrs None sattrs = Some sa /\ parse_ifields 0 fields = Some fds /\
    length ds = length (flat_map (fun e => flat_map (fun k => requested (fst e) (snd e) k) kinds)
                                 (into_requests sa fds)).
Proof. exact Proofs.into_impl_count. Qed.
Print Assumptions C08_into_impl_count.
