(** C13 - executable model of `#[derive(FromStr)]`.

    Mirrors /repo/impl/src/from_str.rs: `enum_from` (lines 52-113) and `struct_from` (lines 19-50),
    and /repo/src/str.rs (`FromStrError`).  No proofs in this file.

    `str::to_lowercase` is a Section variable [lower].  `syn::Ident::to_string()` keeps the `r#` of a
    raw identifier; whether the source strips it (`unraw()`, as it does since 5dcf116 at the key and
    guard sites) is a *switch* of the model, separately
    for the two places that turn a variant identifier into a string (the grouping key, line 64, and
    the guard string, line 87; a third switch covers the enum's own name in the error, line 70).
    The switches are read back from the source on every run into
    Gen/C13Flags.v by tools/lib/c13_gen.py (see Props.v). *)
From Coq Require Import List NArith Bool.
Require Import Verif.Base.Chars.
Import ListNotations.
Open Scope N_scope.

(** an identifier as written: `Foo` or `r#fn` *)
Record ident := { raw : bool; iname : str }.

Definition raw_prefix : str := [114; 35].   (* "r#" *)

(** `Ident::to_string()` *)
Definition to_string (i : ident) : str := if raw i then raw_prefix ++ iname i else iname i.

(** `ident.unraw().to_string()` when [unrawed], `ident.to_string()` otherwise *)
Definition shown (unrawed : bool) (i : ident) : str := if unrawed then iname i else to_string i.

Inductive result (A E : Type) := Ok (a : A) | Err (e : E).
Arguments Ok {A E} a.
Arguments Err {A E} e.

Section Enum.
  Variable lower : str -> str.            (* str::to_lowercase *)
  Variables kf gf : ident -> str.         (* identifier -> key string / guard string *)

  (** from_str.rs:63-66  `map.entry(key).or_insert_with(Vec::new).push(ident)`
      (the map as an association list; iteration order is dealt with separately) *)
  Fixpoint insert (k : str) (v : ident) (m : list (str * list ident)) : list (str * list ident) :=
    match m with
    | [] => [(k, [v])]
    | (k', vs) :: m' => if str_eqb k k' then (k', vs ++ [v]) :: m' else (k', vs) :: insert k v m'
    end.

  (** from_str.rs:57-67 *)
  Definition groups (vs : list ident) : list (str * list ident) :=
    fold_left (fun m v => insert (lower (kf v)) v m) vs [].

  (** one `match` arm: pattern (a string literal), optional guard `src == "<guard>"`, variant *)
  Inductive arm := Arm (pat : str) (guard : option str) (v : ident).

  (** from_str.rs:76-92 *)
  Definition arms_of_group (g : str * list ident) : list arm :=
    match snd g with
    | [v] => [Arm (fst g) None v]
    | vs => map (fun v => Arm (fst g) (Some (gf v)) v) vs
    end.

  Definition all_arms (gs : list (str * list ident)) : list arm := flat_map arms_of_group gs.

  (** from_str.rs:103-106  `match src.to_lowercase().as_str() { arms.. _ => return Err(..) }`:
      first arm whose pattern equals the scrutinee and whose guard holds *)
  Fixpoint match_arms (arms : list arm) (src : str) : option ident :=
    match arms with
    | [] => None
    | Arm p g v :: rest =>
        if str_eqb (lower src) p && (match g with None => true | Some x => str_eqb src x end)
        then Some v else match_arms rest src
    end.

  (** the derived `from_str` for an iteration order [gs] of the map; the error carries the string
      [ename] made from the enum's identifier (from_str.rs:70,105) *)
  Definition parse_groups (ename : str) (gs : list (str * list ident)) (src : str) : result ident str :=
    match match_arms (all_arms gs) src with
    | Some v => Ok v
    | None => Err ename
    end.

  Definition parse (ename : str) (vs : list ident) (src : str) : result ident str :=
    parse_groups ename (groups vs) src.

  (** "no other variant has the same lower-cased name" *)
  Definition unique_lower (vs : list ident) (v : ident) : bool :=
    Nat.eqb (length (filter (fun w => str_eqb (lower (kf w)) (lower (kf v))) vs)) 1%nat.
End Enum.

(** the derive at given switches (key string, guard string, type name in the error) *)
Definition enum_from (lower : str -> str) (key_unraw guard_unraw name_unraw : bool) (enum : ident) :=
  parse lower (shown key_unraw) (shown guard_unraw) (shown name_unraw enum).

(** src/str.rs:18-22 `Display for FromStrError` *)
Definition error_message (type_name : str) : str :=
  [73;110;118;97;108;105;100;32;96] ++ type_name ++ [96;32;115;116;114;105;110;103;32;114;101;112;114;101;115;101;110;116;97;116;105;111;110].

(* ------------------------------------------------------------------ newtypes *)

Section Newtype.
  Variables T E W : Type.
  Variable field_parse : str -> result T E.    (* <FieldTy as FromStr>::from_str *)
  Variable wrap : T -> W.                      (* `Name(x)` / `Name { f: x }` *)
  Variable from : E -> E.                      (* the `From::from` that `?` applies to the error *)

  (** from_str.rs:36-48  `Ok(Name(<T as FromStr>::from_str(src)?))` *)
  Definition struct_from (src : str) : result W E :=
    match field_parse src with
    | Ok x => Ok (wrap x)
    | Err e => Err (from e)
    end.
End Newtype.

(** shape of the expansion for a struct (from_str.rs:19-50): [None] = the derive panics
    ("Only structs with one field can derive(FromStr)") *)
Inductive struct_kind := SKTuple | SKNamed (field : str).
Record struct_body := {
  sb_err_of : str;            (* `type Err = <sb_err_of as FromStr>::Err` *)
  sb_parse_of : str;          (* `<sb_parse_of as FromStr>::from_str(src)?` *)
  sb_ctor : struct_kind
}.
Definition struct_expand (fields : list (option str * str)) : option struct_body :=
  match fields with
  | [(None, ty)] => Some {| sb_err_of := ty; sb_parse_of := ty; sb_ctor := SKTuple |}
  | [(Some f, ty)] => Some {| sb_err_of := ty; sb_parse_of := ty; sb_ctor := SKNamed f |}
  | _ => None
  end.

(* ------------------------------------------------------------------ instances for evaluation *)

Definition ascii_lower_c (c : N) : N := if (65 <=? c) && (c <=? 90) then c + 32 else c.
Definition ascii_lower (s : str) : str := map ascii_lower_c s.

(** per-character table on top of the ASCII rule (for the few non-ASCII letters the check uses
    whose lower-casing is context-free and one-to-one) *)
Definition table_lower (tbl : list (N * N)) (s : str) : str :=
  map (fun c => match find (fun p => N.eqb (fst p) c) tbl with Some p => snd p | None => ascii_lower_c c end) s.

(** `bool::from_str` (core/src/str/traits.rs): exactly "true" / "false" *)
Definition bool_parse (s : str) : result bool unit :=
  if str_eqb s [116;114;117;101] then Ok true
  else if str_eqb s [102;97;108;115;101] then Ok false
  else Err tt.

(** all strings over [alphabet] of length exactly [n] / at most [n] *)
Fixpoint strings_of_len (alphabet : list N) (n : nat) : list str :=
  match n with
  | O => [[]]
  | S k => flat_map (fun s => map (fun c => c :: s) alphabet) (strings_of_len alphabet k)
  end.
Fixpoint strings_upto (alphabet : list N) (n : nat) : list str :=
  match n with
  | O => [[]]
  | S k => strings_upto alphabet k ++ strings_of_len alphabet (S k)
  end.

Fixpoint index_of (v : ident) (vs : list ident) (i : nat) : nat :=
  match vs with
  | [] => i
  | w :: vs' => if Bool.eqb (raw w) (raw v) && str_eqb (iname w) (iname v) then i else index_of v vs' (S i)
  end.

(** the Ok hits of the model over a list of inputs: (input, index of the variant) *)
Definition hits (lower : str -> str) (ku gu : bool) (vs : list ident) (inputs : list str) :=
  let gs := groups lower (shown ku) vs in
  flat_map (fun s => match parse_groups lower (shown gu) [] gs s with Ok v => [(s, index_of v vs 0)] | Err _ => [] end) inputs.

(** one case of the differential run: the arms, the error string, the Ok hits over all strings of
    length <= [maxlen] over [alphabet] and over [extra] *)
Definition run_case (lower : str -> str) (ku gu nu : bool) (enum : ident) (vs : list ident)
           (alphabet : list N) (maxlen : nat) (extra : list str) :=
  (map (fun a => match a with Arm p g v => (p, g, to_string v) end) (all_arms (shown gu) (groups lower (shown ku) vs)),
   shown nu enum,
   hits lower ku gu vs (strings_upto alphabet maxlen),
   hits lower ku gu vs extra).

(* ================================================================== growth round *)

(* ------------------------------------------------------------------ which enums are accepted *)

(** from_str.rs:58-61: the grouping loop panics on the first variant that has fields
    ("Only enums with no fields can derive(FromStr)"); input: `fields.is_empty()` of every variant *)
Definition enum_accepts (fields_empty : list bool) : bool := forallb (fun b => b) fields_empty.

(* ------------------------------------------------------------------ impl headers *)

Inductive gparam := GLifetime (name : str) | GType (name : str) | GConst (name : str).
Definition garg (p : gparam) : str := match p with GLifetime n | GType n | GConst n => n end.

(** a generic parameter as declared: inline bounds (for a const parameter: its type), default *)
Record gparam_decl := { gp : gparam; gp_bounds : list str; gp_default : option str }.

(** utils.rs:161-172 `add_extra_ty_param_bound`: the trait path is pushed onto the bounds of every TYPE parameter *)
Definition add_ty_bound (bound : str) (ps : list gparam_decl) : list gparam_decl :=
  map (fun p => match gp p with
                | GType _ => {| gp := gp p; gp_bounds := gp_bounds p ++ [bound]; gp_default := gp_default p |}
                | _ => p
                end) ps.

Record header := {
  h_attrs : list str;                     (* outer attributes of the impl, in order *)
  h_params : list (gparam * list str);    (* `impl<...>`: parameter + bounds, never a default (syn ImplGenerics) *)
  h_trait : str;
  h_self : str * list str;
  h_where : str
}.

Definition a_automatically_derived : str := [35;91;97;117;116;111;109;97;116;105;99;97;108;108;121;95;100;101;114;105;118;101;100;93].
Definition a_allow_deprecated : str := [35;91;97;108;108;111;119;40;100;101;112;114;101;99;97;116;101;100;41;93].
Definition a_allow_unreachable : str := [35;91;97;108;108;111;119;40;117;110;114;101;97;99;104;97;98;108;101;95;99;111;100;101;41;93].

Definition impl_params (ps : list gparam_decl) := map (fun p => (gp p, gp_bounds p)) ps.

(** from_str.rs:19-50 with utils.rs State (generics = add_extra_ty_param_bound(input.generics, trait_path)) *)
Definition struct_header (trait name : str) (ps : list gparam_decl) (w : str) : header :=
  {| h_attrs := [a_automatically_derived];
     h_params := impl_params (add_ty_bound trait ps);
     h_trait := trait; h_self := (name, map (fun p => garg (gp p)) ps); h_where := w |}.

(** from_str.rs:96-103 (since a07fcdf): the enum's own generics, split_for_impl *)
Definition enum_header (trait name : str) (ps : list gparam_decl) (w : str) : header :=
  {| h_attrs := [a_allow_deprecated; a_allow_unreachable; a_automatically_derived];
     h_params := impl_params ps;
     h_trait := trait; h_self := (name, map (fun p => garg (gp p)) ps); h_where := w |}.

(* ------------------------------------------------------------------ variants written `V()` / `V{}` *)

(** shape of a variant; `syn::Fields::is_empty()` is true of the first three *)
Inductive vshape := VUnit | VTupleEmpty | VBraceEmpty | VFields.
Definition shape_empty (s : vshape) : bool := match s with VFields => false | _ => true end.

(** from_str.rs:79-90: every arm's value is `#input_type::#variant {}` (since bdb9bb9; before: the bare
    path `#input_type::#variant`).  [braces] is the switch, re-read from the source (Gen/C13Flags.v).
    `E::V {}` is a value of the enum for a variant declared `V`, `V()` or `V {}` alike; the bare path is
    one only for a unit variant (for `V()` it is the constructor function, for `V{}` not a value at
    all).  That this is so is rustc's verdict (the check compiles every shape). *)
Definition arm_value_is_enum (braces : bool) (s : vshape) : bool :=
  if braces then shape_empty s else match s with VUnit => true | _ => false end.

(** the macro accepts the enum / the accepted expansion type-checks *)
Definition enum_accepts_shapes (ss : list vshape) : bool := enum_accepts (map shape_empty ss).
Definition arms_typecheck (braces : bool) (ss : list vshape) : bool := forallb (arm_value_is_enum braces) ss.
