(** C13 - FromStr: newtypes delegate to the field, enums match variant names: property theorems.
    [key_unraw] / [guard_unraw] / [name_unraw] are read back from /repo/impl/src/from_str.rs on every
    run (Gen/C13Flags.v, written by tools/lib/c13_gen.py).  The enum theorems are stated at the
    values the source has NOW (`unraw()` at the key and at the guard site): the proofs use
    [eq_refl : key_unraw = true] and [eq_refl : guard_unraw = true], so a source that goes back to
    `to_string()` breaks these obligations.  [lower] (str::to_lowercase) is arbitrary. *)
From Coq Require Import List NArith Bool Permutation.
Require Import Verif.Base.Chars Verif.Gen.C13Flags Verif.C13.Model Verif.C13.Proofs.
Import ListNotations.
Open Scope N_scope.

(** [iname] is the variant's name (a raw identifier's name has no `r#`); [NoDup (map iname vs)] is
    what rustc enforces (E0428) *)
Theorem C13_enum_iff : forall (lower : str -> str) enum vs s v,
  NoDup (map iname vs) ->
  (enum_from lower key_unraw guard_unraw name_unraw enum vs s = Ok v <->
   (In v vs /\ if unique_lower lower iname vs v then lower s = lower (iname v) else s = iname v)).
Proof. exact (fun lower => Proofs.enum_iff_unrawed lower key_unraw guard_unraw eq_refl eq_refl name_unraw). Qed.
Print Assumptions C13_enum_iff.

Theorem C13_unique_lower_spec : forall (lower : str -> str) vs v,
  NoDup vs -> In v vs ->
  (unique_lower lower iname vs v = true <-> forall w, In w vs -> lower (iname w) = lower (iname v) -> w = v).
Proof. exact Proofs.unique_lower_spec. Qed.
Print Assumptions C13_unique_lower_spec.

Theorem C13_own_name : forall (lower : str -> str) enum vs v,
  NoDup (map iname vs) -> In v vs ->
  enum_from lower key_unraw guard_unraw name_unraw enum vs (iname v) = Ok v.
Proof. exact (fun lower => Proofs.own_name_unrawed lower key_unraw guard_unraw eq_refl eq_refl name_unraw). Qed.
Print Assumptions C13_own_name.

(** a rejection is a `FromStrError` built from the enum's identifier *)
Theorem C13_err_names_enum : forall (lower : str -> str) enum vs s e,
  enum_from lower key_unraw guard_unraw name_unraw enum vs s = Err e -> e = shown name_unraw enum.
Proof. exact (fun lower => Proofs.err_names_enum lower key_unraw guard_unraw name_unraw). Qed.
Print Assumptions C13_err_names_enum.

Theorem C13_err_iff : forall (lower : str -> str) enum vs s,
  NoDup (map iname vs) ->
  (enum_from lower key_unraw guard_unraw name_unraw enum vs s = Err (shown name_unraw enum) <->
   forall v, ~ (In v vs /\ if unique_lower lower iname vs v then lower s = lower (iname v) else s = iname v)).
Proof. exact (fun lower => Proofs.err_iff_unrawed lower key_unraw guard_unraw eq_refl eq_refl name_unraw). Qed.
Print Assumptions C13_err_iff.

(** the hash map's iteration order is irrelevant: arms of different groups are disjoint *)
Theorem C13_order_irrelevant : forall (lower : str -> str) enum vs gs' s,
  NoDup (map iname vs) ->
  Permutation gs' (groups lower (shown key_unraw) vs) ->
  parse_groups lower (shown guard_unraw) (shown name_unraw enum) gs' s =
  enum_from lower key_unraw guard_unraw name_unraw enum vs s.
Proof. exact (fun lower => Proofs.order_irrelevant_unrawed lower key_unraw guard_unraw eq_refl eq_refl name_unraw). Qed.
Print Assumptions C13_order_irrelevant.

(** the same for arbitrary identifier-to-string functions: the generated `match`, for any iteration
    order, selects by key and (in shared groups) by guard *)
Theorem C13_match_spec : forall (lower : str -> str) (kf gf : ident -> str) vs gs s v,
  Proofs.GroupsOf lower kf vs gs -> NoDup (map gf vs) ->
  (match_arms lower (all_arms gf gs) s = Some v <->
   (In v vs /\ lower s = lower (kf v) /\ (unique_lower lower kf vs v = true \/ s = gf v))).
Proof. exact Proofs.match_spec. Qed.
Print Assumptions C13_match_spec.

Theorem C13_groups_spec : forall (lower : str -> str) kf vs, Proofs.GroupsOf lower kf vs (groups lower kf vs).
Proof. exact Proofs.groups_spec. Qed.
Print Assumptions C13_groups_spec.

(* ---- newtypes *)

Theorem C13_newtype : forall T E W (field_parse : str -> result T E) (wrap : T -> W) (from : E -> E),
  (forall e, from e = e) ->
  forall s, struct_from T E W field_parse wrap from s = Proofs.map_result wrap (fun e => e) (field_parse s).
Proof. exact Proofs.newtype_delegates. Qed.
Print Assumptions C13_newtype.

Theorem C13_newtype_ok_iff : forall T E W (field_parse : str -> result T E) (wrap : T -> W) (from : E -> E),
  (forall e, from e = e) -> (forall a b, wrap a = wrap b -> a = b) ->
  forall s x, struct_from T E W field_parse wrap from s = Ok (wrap x) <-> field_parse s = Ok x.
Proof. exact Proofs.newtype_ok_iff. Qed.
Print Assumptions C13_newtype_ok_iff.

Theorem C13_newtype_err_iff : forall T E W (field_parse : str -> result T E) (wrap : T -> W) (from : E -> E),
  (forall e, from e = e) ->
  forall s e, struct_from T E W field_parse wrap from s = Err e <-> field_parse s = Err e.
Proof. exact Proofs.newtype_err_iff. Qed.
Print Assumptions C13_newtype_err_iff.

Theorem C13_struct_single_field : forall fields b,
  struct_expand fields = Some b <->
  exists f ty, fields = [(f, ty)] /\ sb_err_of b = ty /\ sb_parse_of b = ty /\
               sb_ctor b = match f with None => SKTuple | Some n => SKNamed n end.
Proof. exact Proofs.struct_expand_single. Qed.
Print Assumptions C13_struct_single_field.

(* ================================================================== growth round *)
(* (names_ok_unrawed vs : names_ok true true vs) is accepted where names_ok key_unraw guard_unraw vs is
   expected only while both switches read `true`: the obligations below break if the source goes back *)

(** no two variants share a lower-cased name: every variant is matched ignoring case, nothing else is accepted *)
Theorem C13_no_collision_iff : forall (lower : str -> str) enum vs s v,
  NoDup (map (fun w => lower (iname w)) vs) ->
  (enum_from lower key_unraw guard_unraw name_unraw enum vs s = Ok v <-> (In v vs /\ lower s = lower (iname v))).
Proof. exact (fun lower enum vs s v ND => Proofs.no_collision_iff lower key_unraw guard_unraw name_unraw enum vs s v ND (Proofs.names_ok_unrawed vs)). Qed.
Print Assumptions C13_no_collision_iff.

(** all variants share one lower-cased name (a collision group of ANY size >= 2): exact names only *)
Theorem C13_all_collision_iff : forall (lower : str -> str) enum vs k s v,
  NoDup (map iname vs) -> (forall w, In w vs -> lower (iname w) = k) -> (2 <= length vs)%nat ->
  (enum_from lower key_unraw guard_unraw name_unraw enum vs s = Ok v <-> (In v vs /\ s = iname v)).
Proof. exact (fun lower enum vs k s v ND => Proofs.all_collision_iff lower key_unraw guard_unraw name_unraw enum vs k s v ND (Proofs.names_ok_unrawed vs)). Qed.
Print Assumptions C13_all_collision_iff.

Theorem C13_collision_exact_only : forall (lower : str -> str) enum vs s v,
  NoDup (map iname vs) -> unique_lower lower iname vs v = false ->
  enum_from lower key_unraw guard_unraw name_unraw enum vs s = Ok v -> s = iname v.
Proof. exact (fun lower enum vs s v ND => Proofs.collision_exact_only lower key_unraw guard_unraw name_unraw enum vs s v ND (Proofs.names_ok_unrawed vs)). Qed.
Print Assumptions C13_collision_exact_only.

Theorem C13_case_insensitive_unique : forall (lower : str -> str) enum vs s s' v,
  NoDup (map iname vs) -> unique_lower lower iname vs v = true -> lower s = lower s' ->
  enum_from lower key_unraw guard_unraw name_unraw enum vs s = Ok v ->
  enum_from lower key_unraw guard_unraw name_unraw enum vs s' = Ok v.
Proof. exact (fun lower enum vs s s' v ND => Proofs.case_insensitive_unique lower key_unraw guard_unraw name_unraw enum vs s s' v ND (Proofs.names_ok_unrawed vs)). Qed.
Print Assumptions C13_case_insensitive_unique.

(** the only property of to_lowercase ever needed, and only here: idempotence on that one name *)
Theorem C13_lowercased_name_parses : forall (lower : str -> str) enum vs v,
  NoDup (map iname vs) -> In v vs -> unique_lower lower iname vs v = true ->
  lower (lower (iname v)) = lower (iname v) ->
  enum_from lower key_unraw guard_unraw name_unraw enum vs (lower (iname v)) = Ok v.
Proof. exact (fun lower enum vs v ND => Proofs.lowercased_name_parses lower key_unraw guard_unraw name_unraw enum vs v ND (Proofs.names_ok_unrawed vs)). Qed.
Print Assumptions C13_lowercased_name_parses.

(** the documented rule never selects two variants *)
Theorem C13_rule_deterministic : forall (lower : str -> str) vs s v w,
  NoDup (map iname vs) ->
  (In v vs /\ if unique_lower lower iname vs v then lower s = lower (iname v) else s = iname v) ->
  (In w vs /\ if unique_lower lower iname vs w then lower s = lower (iname w) else s = iname w) -> v = w.
Proof. exact Proofs.rule_deterministic. Qed.
Print Assumptions C13_rule_deterministic.

Theorem C13_err_name_plain : forall (lower : str -> str) enum vs s e,
  raw enum = false -> enum_from lower key_unraw guard_unraw name_unraw enum vs s = Err e -> e = iname enum.
Proof. exact (fun lower => Proofs.err_name_plain lower key_unraw guard_unraw name_unraw). Qed.
Print Assumptions C13_err_name_plain.

Theorem C13_error_message_injective : forall a b, error_message a = error_message b -> a = b.
Proof. exact Proofs.error_message_injective. Qed.
Print Assumptions C13_error_message_injective.

Theorem C13_enum_accepts_iff : forall fs, enum_accepts fs = true <-> (forall b, In b fs -> b = true).
Proof. exact Proofs.enum_accepts_iff. Qed.
Print Assumptions C13_enum_accepts_iff.

(** newtype impl header, generics included: every type parameter gets the FromStr bound *)
Theorem C13_struct_header : forall trait name ps w,
  let h := struct_header trait name ps w in
  Forall (Proofs.bound_of trait) (h_params h) /\
  map fst (h_params h) = map gp ps /\
  (forall p, In p ps -> match gp p with
                        | GType _ => In (gp p, gp_bounds p ++ [trait]) (h_params h)
                        | _ => In (gp p, gp_bounds p) (h_params h)
                        end) /\
  h_self h = (name, map (fun p => garg (gp p)) ps) /\ h_where h = w /\ h_trait h = trait.
Proof. exact Proofs.struct_header_spec. Qed.
Print Assumptions C13_struct_header.

Theorem C13_enum_header : forall trait name ps w,
  let h := enum_header trait name ps w in
  h_params h = map (fun p => (gp p, gp_bounds p)) ps /\
  h_self h = (name, map (fun p => garg (gp p)) ps) /\ h_where h = w /\ h_trait h = trait /\
  In a_automatically_derived (h_attrs h).
Proof. exact Proofs.enum_header_spec. Qed.
Print Assumptions C13_enum_header.

(** every field-less enum the macro accepts - variants spelled `V`, `V()` or `V {}` - has arms that are
    values of the enum ([arm_braces] read from the source: `#input_type::#variant {}`) *)
Theorem C13_accepted_arms_typecheck : forall ss,
  enum_accepts_shapes ss = true -> arms_typecheck arm_braces ss = true.
Proof. exact (Proofs.accepted_arms_typecheck arm_braces eq_refl). Qed.
Print Assumptions C13_accepted_arms_typecheck.

Theorem C13_accepts_shapes_iff : forall ss, enum_accepts_shapes ss = true <-> (forall s, In s ss -> s <> VFields).
Proof. exact Proofs.accepts_shapes_iff. Qed.
Print Assumptions C13_accepts_shapes_iff.

Theorem C13_unit_only_ok : forall braces ss,
  (forall s, In s ss -> s = VUnit) -> enum_accepts_shapes ss = true /\ arms_typecheck braces ss = true.
Proof. exact Proofs.unit_only_ok. Qed.
Print Assumptions C13_unit_only_ok.

(* ================================================================== arm coverage *)

(** no variant is lost and no arm is foreign, for ANY identifier-to-string functions, any variant list (distinct
    names not required) and any iteration order of the map: the arms of the generated `match` are exactly one family
    per variant, each with the variant's lower-cased key as its pattern and (if guarded) its own guard string *)
Theorem C13_arms_sound : forall (lower : str -> str) (kf gf : ident -> str) vs gs p go v,
  Proofs.GroupsOf lower kf vs gs -> In (Arm p go v) (all_arms gf gs) ->
  In v vs /\ p = lower (kf v) /\ (go = None \/ go = Some (gf v)).
Proof. exact Proofs.arms_sound. Qed.
Print Assumptions C13_arms_sound.

Theorem C13_arms_complete : forall (lower : str -> str) (kf gf : ident -> str) vs gs v,
  Proofs.GroupsOf lower kf vs gs -> In v vs -> exists go, In (Arm (lower (kf v)) go v) (all_arms gf gs).
Proof. exact Proofs.arms_complete. Qed.
Print Assumptions C13_arms_complete.

(** with NO hypothesis on the variant list: an accepted string yields a variant of this enum whose name equals the
    string ignoring case (the `ignoring case` half of the documented rule can never be exceeded) *)
Theorem C13_ok_in : forall (lower : str -> str) enum vs s v,
  enum_from lower key_unraw guard_unraw name_unraw enum vs s = Ok v -> In v vs /\ lower s = lower (iname v).
Proof. exact (fun lower enum vs s v H => Proofs.enum_ok_in lower true guard_unraw name_unraw enum vs s v (H : enum_from lower true guard_unraw name_unraw enum vs s = Ok v)). Qed.
Print Assumptions C13_ok_in.

(** exactly one arm per variant (with C13_arms_sound / C13_arms_complete: no variant lost, none duplicated, none foreign) *)
Theorem C13_arms_count : forall (lower : str -> str) (kf gf : ident -> str) vs gs',
  Permutation gs' (groups lower kf vs) -> length (all_arms gf gs') = length vs.
Proof. exact Proofs.arms_count. Qed.
Print Assumptions C13_arms_count.
