(** C13 - FromStr: newtypes delegate to the field, enums match variant names: property theorems.
    [key_unraw] / [guard_unraw] / [name_unraw] are read back from /repo/impl/src/from_str.rs on every
    run (Gen/C13Flags.v, written by tools/lib/c13_gen.py).  The enum theorems are stated at the
    values the source has NOW (`unraw()` at the key and at the guard site): the proofs use
    [eq_refl : key_unraw = true] and [eq_refl : guard_unraw = true], so a source that goes back to
    `to_string()` breaks these obligations.  [lower] (str::to_lowercase) is arbitrary. *)
From Coq Require Import List NArith Bool Permutation.
Require Import Verif.Base.Chars Verif.Gen.C13Flags Verif.C13.Model Verif.C13.Proofs.
Import ListNotations.
Open Scope N_scope.

(** [iname] is the variant's name (a raw identifier's name has no `r#`); [NoDup (map iname vs)] is
    what rustc enforces (E0428) *)
Theorem C13_enum_iff : forall (lower : str -> str) enum vs s v,
  NoDup (map iname vs) ->
  (enum_from lower key_unraw guard_unraw name_unraw enum vs s = Ok v <->
   (In v vs /\ if unique_lower lower iname vs v then lower s = lower (iname v) else s = iname v)).
Proof. exact (fun lower => Proofs.enum_iff_unrawed lower key_unraw guard_unraw eq_refl eq_refl name_unraw). Qed.
Print Assumptions C13_enum_iff.

Theorem C13_unique_lower_spec : forall (lower : str -> str) vs v,
  NoDup vs -> In v vs ->
  (unique_lower lower iname vs v = true <-> forall w, In w vs -> lower (iname w) = lower (iname v) -> w = v).
Proof. exact Proofs.unique_lower_spec. Qed.
Print Assumptions C13_unique_lower_spec.

Theorem C13_own_name : forall (lower : str -> str) enum vs v,
  NoDup (map iname vs) -> In v vs ->
  enum_from lower key_unraw guard_unraw name_unraw enum vs (iname v) = Ok v.
Proof. exact (fun lower => Proofs.own_name_unrawed lower key_unraw guard_unraw eq_refl eq_refl name_unraw). Qed.
Print Assumptions C13_own_name.

(** a rejection is a `FromStrError` built from the enum's identifier *)
Theorem C13_err_names_enum : forall (lower : str -> str) enum vs s e,
  enum_from lower key_unraw guard_unraw name_unraw enum vs s = Err e -> e = shown name_unraw enum.
Proof. exact (fun lower => Proofs.err_names_enum lower key_unraw guard_unraw name_unraw). Qed.
Print Assumptions C13_err_names_enum.

Theorem C13_err_iff : forall (lower : str -> str) enum vs s,
  NoDup (map iname vs) ->
  (enum_from lower key_unraw guard_unraw name_unraw enum vs s = Err (shown name_unraw enum) <->
   forall v, ~ (In v vs /\ if unique_lower lower iname vs v then lower s = lower (iname v) else s = iname v)).
Proof. exact (fun lower => Proofs.err_iff_unrawed lower key_unraw guard_unraw eq_refl eq_refl name_unraw). Qed.
Print Assumptions C13_err_iff.

(** the hash map's iteration order is irrelevant: arms of different groups are disjoint *)
Theorem C13_order_irrelevant : forall (lower : str -> str) enum vs gs' s,
  NoDup (map iname vs) ->
  Permutation gs' (groups lower (shown key_unraw) vs) ->
  parse_groups lower (shown guard_unraw) (shown name_unraw enum) gs' s =
  enum_from lower key_unraw guard_unraw name_unraw enum vs s.
Proof. exact (fun lower => Proofs.order_irrelevant_unrawed lower key_unraw guard_unraw eq_refl eq_refl name_unraw). Qed.
Print Assumptions C13_order_irrelevant.

(** the same for arbitrary identifier-to-string functions: the generated `match`, for any iteration
    order, selects by key and (in shared groups) by guard *)
Theorem C13_match_spec : forall (lower : str -> str) (kf gf : ident -> str) vs gs s v,
  Proofs.GroupsOf lower kf vs gs -> NoDup (map gf vs) ->
  (match_arms lower (all_arms gf gs) s = Some v <->
   (In v vs /\ lower s = lower (kf v) /\ (unique_lower lower kf vs v = true \/ s = gf v))).
Proof. exact Proofs.match_spec. Qed.
Print Assumptions C13_match_spec.

Theorem C13_groups_spec : forall (lower : str -> str) kf vs, Proofs.GroupsOf lower kf vs (groups lower kf vs).
Proof. exact Proofs.groups_spec. Qed.
Print Assumptions C13_groups_spec.

(* ---- newtypes *)

Theorem C13_newtype : forall T E W (field_parse : str -> result T E) (wrap : T -> W) (from : E -> E),
  (forall e, from e = e) ->
  forall s, struct_from T E W field_parse wrap from s = Proofs.map_result wrap (fun e => e) (field_parse s).
Proof. exact Proofs.newtype_delegates. Qed.
Print Assumptions C13_newtype.

Theorem C13_newtype_ok_iff : forall T E W (field_parse : str -> result T E) (wrap : T -> W) (from : E -> E),
  (forall e, from e = e) -> (forall a b, wrap a = wrap b -> a = b) ->
  forall s x, struct_from T E W field_parse wrap from s = Ok (wrap x) <-> field_parse s = Ok x.
Proof. exact Proofs.newtype_ok_iff. Qed.
Print Assumptions C13_newtype_ok_iff.

Theorem C13_newtype_err_iff : forall T E W (field_parse : str -> result T E) (wrap : T -> W) (from : E -> E),
  (forall e, from e = e) ->
  forall s e, struct_from T E W field_parse wrap from s = Err e <-> field_parse s = Err e.
Proof. exact Proofs.newtype_err_iff. Qed.
Print Assumptions C13_newtype_err_iff.

Theorem C13_struct_single_field : forall fields b,
  struct_expand fields = Some b <->
  exists f ty, fields = [(f, ty)] /\ sb_err_of b = ty /\ sb_parse_of b = ty /\
               sb_ctor b = match f with None => SKTuple | Some n => SKNamed n end.
Proof. exact Proofs.struct_expand_single. Qed.
Print Assumptions C13_struct_single_field.
