(** C13 - proofs about the model of `#[derive(FromStr)]`. *)
From Coq Require Import List NArith Bool Lia Arith Permutation.
Require Import Verif.Base.Chars.
Require Import Verif.C13.Model.
Import ListNotations.
Open Scope N_scope.

Lemma str_eqb_refl a : str_eqb a a = true.
Proof. apply str_eqb_eq. reflexivity. Qed.

Lemma str_eqb_neq a b : str_eqb a b = false <-> a <> b.
Proof.
  split.
  - intros H E. apply str_eqb_eq in E. congruence.
  - intros H. destruct (str_eqb a b) eqn:E; [|reflexivity]. apply str_eqb_eq in E. contradiction.
Qed.

Lemma NoDup_map_filter {A B} (f : A -> B) (p : A -> bool) (l : list A) :
  NoDup (map f l) -> NoDup (map f (filter p l)).
Proof.
  induction l as [|a l IH]; cbn [map filter]; intros ND; [constructor|].
  inversion ND as [|x l' NI ND']; subst.
  destruct (p a); cbn [map]; [constructor|]; auto.
  intros HI. apply NI. apply in_map_iff in HI as [y [E HY]]. apply filter_In in HY as [HY _].
  apply in_map_iff. eauto.
Qed.

Section EnumProofs.
  Variable lower : str -> str.
  Variables kf gf : ident -> str.

  Notation key v := (lower (kf v)).
  Notation insert := (Model.insert).
  Notation groups := (Model.groups lower kf).
  Notation arms_of_group := (Model.arms_of_group gf).
  Notation all_arms := (Model.all_arms gf).
  Notation match_arms := (Model.match_arms lower).
  Notation unique_lower := (Model.unique_lower lower kf).

  Definition keyis (k : str) (w : ident) : bool := str_eqb (key w) k.

  (** what the map holds after the grouping loop, whatever its iteration order *)
  Definition GroupsOf (vs : list ident) (gs : list (str * list ident)) : Prop :=
    NoDup (map fst gs) /\
    forall k ms, In (k, ms) gs <-> (ms = filter (keyis k) vs /\ ms <> []).

  (* ---------------------------------------------------------------- insert *)

  Lemma insert_keys k v m :
    forall k', In k' (map fst (insert k v m)) <-> (k' = k \/ In k' (map fst m)).
  Proof.
    induction m as [|[k0 vs0] m IH]; intros k'; cbn [Model.insert map fst In].
    - split; [intros [H|[]]; auto | intros [H|[]]; auto].
    - destruct (str_eqb k k0) eqn:E; cbn [map fst In].
      + apply str_eqb_eq in E. subst k0. split; [intros [H|H]; auto | intros [H|[H|H]]; auto].
      + rewrite IH. split; [intros [H|[H|H]]; auto | intros [H|[H|H]]; auto].
  Qed.

  Lemma insert_nodup k v m : NoDup (map fst m) -> NoDup (map fst (insert k v m)).
  Proof.
    induction m as [|[k0 vs0] m IH]; cbn [Model.insert map fst]; intros ND.
    - constructor; [intros [] | constructor].
    - inversion ND as [|x l NI ND']; subst.
      destruct (str_eqb k k0) eqn:E; cbn [map fst].
      + constructor; assumption.
      + constructor; [|auto]. intros HI. apply insert_keys in HI as [HI|HI]; [|contradiction].
        subst k0. rewrite str_eqb_refl in E. discriminate.
  Qed.

  Lemma insert_in k v m : NoDup (map fst m) ->
    forall k' ms, In (k', ms) (insert k v m) <->
      ((k' <> k /\ In (k', ms) m) \/
       (k' = k /\ ((exists ms0, In (k, ms0) m /\ ms = ms0 ++ [v]) \/ (~ In k (map fst m) /\ ms = [v])))).
  Proof.
    induction m as [|[k0 vs0] m IH]; intros ND k' ms; cbn [Model.insert map fst In].
    - split.
      + intros [H|[]]. inversion H; subst. right. split; [reflexivity|]. right. split; [intros []|reflexivity].
      + intros [[_ []]|[-> [[ms0 [[] _]]|[_ ->]]]]. left; reflexivity.
    - inversion ND as [|x l NI ND']; subst.
      destruct (str_eqb k k0) eqn:E.
      + apply str_eqb_eq in E. subst k0. cbn [In]. split.
        * intros [H|H].
          -- inversion H; subst. right. split; [reflexivity|]. left. exists vs0. split; [left; reflexivity|reflexivity].
          -- left. split; [|right; exact H]. intros ->. apply NI. change k with (fst (k, ms)). apply in_map. exact H.
        * intros [[Hn [H|H]]|[-> [[ms0 [[H|H] ->]]|[Hn _]]]].
          -- inversion H; subst. contradiction.
          -- right; exact H.
          -- inversion H; subst. left; reflexivity.
          -- exfalso. apply NI. change k with (fst (k, ms0)). apply in_map. exact H.
          -- exfalso. apply Hn. left; reflexivity.
      + apply str_eqb_neq in E. cbn [In]. rewrite (IH ND'). split.
        * intros [H|[[Hn H]|[-> [[ms0 [H ->]]|[Hn ->]]]]].
          -- inversion H; subst. left. split; [congruence | left; reflexivity].
          -- left. split; [exact Hn | right; exact H].
          -- right. split; [reflexivity|]. left. exists ms0. split; [right; exact H | reflexivity].
          -- right. split; [reflexivity|]. right. split; [|reflexivity]. intros [H|H]; [congruence | contradiction].
        * intros [[Hn [H|H]]|[-> [[ms0 [[H|H] ->]]|[Hn ->]]]].
          -- left; exact H.
          -- right. left. split; assumption.
          -- inversion H; subst. congruence.
          -- right. right. split; [reflexivity|]. left. exists ms0. split; [exact H | reflexivity].
          -- right. right. split; [reflexivity|]. right. split; [|reflexivity]. intros H. apply Hn. right; exact H.
  Qed.

  Lemma filter_snoc (p : ident -> bool) l v :
    filter p (l ++ [v]) = filter p l ++ (if p v then [v] else []).
  Proof. rewrite filter_app. cbn [filter]. destruct (p v); reflexivity. Qed.

  Lemma insert_inv p m v : GroupsOf p m -> GroupsOf (p ++ [v]) (insert (key v) v m).
  Proof.
    intros [ND Hspec]. split; [apply insert_nodup; exact ND|].
    intros k ms. rewrite (insert_in _ _ _ ND), filter_snoc. unfold keyis at 2.
    destruct (str_eqb (key v) k) eqn:E.
    - apply str_eqb_eq in E. subst k. split.
      + intros [[Hn _]|[_ [[ms0 [H ->]]|[Hn ->]]]]; [congruence| |].
        * apply Hspec in H as [-> Hne]. split; [reflexivity|]. intros HH. apply app_eq_nil in HH as [_ HH]. discriminate.
        * destruct (filter (keyis (key v)) p) as [|x l] eqn:F.
          -- split; [reflexivity | discriminate].
          -- exfalso. apply Hn. change (key v) with (fst (key v, x :: l)). apply in_map.
             apply Hspec. split; [symmetry; exact F | discriminate].
      + intros [-> _]. right. split; [reflexivity|].
        destruct (filter (keyis (key v)) p) as [|x l] eqn:F.
        * right. split; [|reflexivity]. intros HI. apply in_map_iff in HI as [[k0 ms0] [Hk HI]]. cbn in Hk. subst k0.
          apply Hspec in HI as [-> Hne]. apply Hne. exact F.
        * left. exists (x :: l). split; [|reflexivity]. apply Hspec. split; [symmetry; exact F | discriminate].
    - rewrite app_nil_r. apply str_eqb_neq in E. split.
      + intros [[Hn H]|[-> _]]; [|congruence]. apply Hspec. exact H.
      + intros H. left. split; [congruence|]. apply Hspec. exact H.
  Qed.

  Lemma fold_inv : forall vs p m, GroupsOf p m ->
    GroupsOf (p ++ vs) (fold_left (fun m v => insert (key v) v m) vs m).
  Proof.
    induction vs as [|v vs IH]; intros p m H; cbn [fold_left].
    - rewrite app_nil_r. exact H.
    - replace (p ++ v :: vs) with ((p ++ [v]) ++ vs) by (rewrite <- app_assoc; reflexivity).
      apply IH. apply insert_inv. exact H.
  Qed.

  Lemma groups_spec vs : GroupsOf vs (groups vs).
  Proof.
    unfold Model.groups. apply (fold_inv vs [] []). split; [constructor|].
    intros k ms. cbn. split; [intros [] | intros [-> H]; apply H; reflexivity].
  Qed.

  Lemma GroupsOf_perm vs gs gs' : Permutation gs gs' -> GroupsOf vs gs -> GroupsOf vs gs'.
  Proof.
    intros HP [ND Hs]. split.
    - eapply Permutation_NoDup; [apply Permutation_map; exact HP | exact ND].
    - intros k ms. rewrite <- Hs. split; intros H.
      + eapply Permutation_in; [apply Permutation_sym; exact HP | exact H].
      + eapply Permutation_in; [exact HP | exact H].
  Qed.

  (* ---------------------------------------------------------------- matching *)

  Lemma match_app a b s :
    match_arms (a ++ b) s = match match_arms a s with Some v => Some v | None => match_arms b s end.
  Proof.
    induction a as [|[p g v] a IH]; cbn [app Model.match_arms]; [reflexivity|].
    destruct (str_eqb (lower s) p && _); [reflexivity | exact IH].
  Qed.

  Definition group_result (g : str * list ident) (s : str) : option ident :=
    match snd g with
    | [v] => Some v
    | ms => find (fun v => str_eqb s (gf v)) ms
    end.

  Lemma match_guarded k ms s :
    match_arms (map (fun v => Arm k (Some (gf v)) v) ms) s =
    if str_eqb (lower s) k then find (fun v => str_eqb s (gf v)) ms else None.
  Proof.
    induction ms as [|v ms IH]; cbn [map Model.match_arms find].
    - destruct (str_eqb (lower s) k); reflexivity.
    - rewrite IH. destruct (str_eqb (lower s) k); cbn [andb]; [|reflexivity].
      destruct (str_eqb s (gf v)); reflexivity.
  Qed.

  Lemma match_group g s :
    match_arms (arms_of_group g) s = if str_eqb (lower s) (fst g) then group_result g s else None.
  Proof.
    unfold Model.arms_of_group, group_result. destruct (snd g) as [|v [|w r]].
    - cbn. destruct (str_eqb (lower s) (fst g)); reflexivity.
    - cbn [Model.match_arms]. destruct (str_eqb (lower s) (fst g)); reflexivity.
    - apply match_guarded.
  Qed.

  Lemma match_all_miss gs s :
    (forall g, In g gs -> fst g <> lower s) -> match_arms (all_arms gs) s = None.
  Proof.
    induction gs as [|g gs IH]; intros H; cbn [Model.all_arms flat_map]; [reflexivity|].
    rewrite match_app, match_group.
    destruct (str_eqb (lower s) (fst g)) eqn:E.
    - apply str_eqb_eq in E. exfalso. apply (H g); [left; reflexivity | auto].
    - apply IH. intros g' Hg'. apply H. right; exact Hg'.
  Qed.

  Lemma match_all_hit gs s g :
    NoDup (map fst gs) -> In g gs -> fst g = lower s ->
    match_arms (all_arms gs) s = group_result g s.
  Proof.
    induction gs as [|g0 gs IH]; intros ND HI Hk; [destruct HI|].
    cbn [Model.all_arms flat_map]. rewrite match_app, match_group.
    inversion ND as [|x l NI ND']; subst.
    destruct HI as [->|HI].
    - rewrite Hk, str_eqb_refl.
      destruct (group_result g s); [reflexivity|].
      apply match_all_miss. intros g' Hg' E. apply NI. rewrite Hk, <- E. apply in_map. exact Hg'.
    - destruct (str_eqb (lower s) (fst g0)) eqn:E.
      + apply str_eqb_eq in E. exfalso. apply NI. rewrite <- E, <- Hk. apply in_map. exact HI.
      + apply IH; assumption.
  Qed.

  Lemma find_nodup (ms : list ident) s v :
    NoDup (map gf ms) ->
    (find (fun w => str_eqb s (gf w)) ms = Some v <-> (In v ms /\ s = gf v)).
  Proof.
    induction ms as [|w ms IH]; cbn [find map In]; intros ND.
    - split; [discriminate | intros [[] _]].
    - inversion ND as [|x l NI ND']; subst.
      destruct (str_eqb s (gf w)) eqn:E.
      + apply str_eqb_eq in E. split.
        * intros H. inversion H; subst. auto.
        * intros [[->|HI] Hs]; [reflexivity|]. exfalso. apply NI. rewrite <- E, Hs. apply in_map. exact HI.
      + apply str_eqb_neq in E. rewrite (IH ND'). split.
        * intros [HI Hs]. auto.
        * intros [[->|HI] Hs]; [contradiction | auto].
  Qed.

  (** the result of the generated `match`, for ANY iteration order of the map *)
  Theorem match_spec vs gs s v :
    GroupsOf vs gs -> NoDup (map gf vs) ->
    (match_arms (all_arms gs) s = Some v <->
     (In v vs /\ lower s = key v /\ (unique_lower vs v = true \/ s = gf v))).
  Proof.
    intros [ND Hs] NDg.
    set (k := lower s). set (ms := filter (keyis k) vs).
    assert (Hms : forall w, In w ms <-> (In w vs /\ key w = k)).
    { intros w. unfold ms. rewrite filter_In. unfold keyis. rewrite str_eqb_eq. reflexivity. }
    assert (Huniq : forall w, key w = k -> unique_lower vs w = Nat.eqb (length ms) 1%nat).
    { intros w Hw. unfold Model.unique_lower, ms, keyis. rewrite Hw. reflexivity. }
    destruct ms as [|v0 r] eqn:Ems.
    - (* no variant has this key *)
      rewrite match_all_miss.
      + split; [discriminate|]. intros [HI [Hk _]]. exfalso. apply (proj2 (Hms v)). auto.
      + intros g Hg E. destruct g as [k0 ms0]. cbn in E. subst k0.
        apply Hs in Hg as [-> Hne]. apply Hne. exact Ems.
    - assert (Hg : In (k, v0 :: r) gs) by (apply Hs; split; [symmetry; exact Ems | discriminate]).
      rewrite (match_all_hit gs s (k, v0 :: r) ND Hg eq_refl). unfold group_result. cbn [snd].
      destruct r as [|v1 r].
      + (* unique group: case-insensitive arm *)
        split.
        * intros H. inversion H; subst v0. destruct (proj1 (Hms v) (or_introl eq_refl)) as [HI Hk].
          split; [exact HI|]. split; [symmetry; exact Hk|]. left. rewrite (Huniq v Hk). reflexivity.
        * intros [HI [Hk _]]. destruct (proj2 (Hms v) (conj HI (eq_sym Hk))) as [->|[]]. reflexivity.
      + (* several variants share the key: exact-name guards *)
        assert (NDm : NoDup (map gf (v0 :: v1 :: r))).
        { rewrite <- Ems. apply NoDup_map_filter. exact NDg. }
        rewrite (find_nodup _ s v NDm). split.
        * intros [HI Hsv]. apply Hms in HI as [HI Hk]. auto.
        * intros [HI [Hk [Hu|Hsv]]].
          -- rewrite (Huniq v (eq_sym Hk)) in Hu. cbn in Hu. discriminate.
          -- split; [|exact Hsv]. apply Hms. auto.
  Qed.

  (** the map's iteration order does not matter: arms of different groups are disjoint *)
  Theorem order_irrelevant vs gs' s :
    NoDup (map gf vs) -> Permutation gs' (groups vs) ->
    match_arms (all_arms gs') s = match_arms (all_arms (groups vs)) s.
  Proof.
    intros NDg HP.
    assert (G1 : GroupsOf vs (groups vs)) by apply groups_spec.
    assert (G2 : GroupsOf vs gs') by (eapply GroupsOf_perm; [apply Permutation_sym; exact HP | exact G1]).
    destruct (match_arms (all_arms gs') s) as [a|] eqn:Ea; destruct (match_arms (all_arms (groups vs)) s) as [b|] eqn:Eb; try reflexivity.
    - apply (match_spec vs gs' s a G2 NDg) in Ea. apply (match_spec vs _ s a G1 NDg) in Ea. congruence.
    - apply (match_spec vs gs' s a G2 NDg) in Ea. apply (match_spec vs _ s a G1 NDg) in Ea. congruence.
    - apply (match_spec vs _ s b G1 NDg) in Eb. apply (match_spec vs gs' s b G2 NDg) in Eb. congruence.
  Qed.
End EnumProofs.

(* ------------------------------------------------------------------ the property, in terms of the variants' names *)

(** the strings the two `to_string()` sites produce are the variants' names *)
Definition names_ok (ku gu : bool) (vs : list ident) : Prop :=
  forall w, In w vs -> shown ku w = iname w /\ shown gu w = iname w.

Lemma names_ok_unrawed vs : names_ok true true vs.
Proof. intros w _. split; reflexivity. Qed.

Lemma names_ok_no_raw ku gu vs : (forall w, In w vs -> raw w = false) -> names_ok ku gu vs.
Proof.
  intros H w Hw. specialize (H w Hw). unfold shown, to_string. rewrite H. destruct ku, gu; split; reflexivity.
Qed.

Section Named.
  Variable lower : str -> str.

  Lemma unique_lower_ext ku vs v :
    (forall w, In w vs -> shown ku w = iname w) -> In v vs ->
    unique_lower lower (shown ku) vs v = unique_lower lower iname vs v.
  Proof.
    intros H Hv. unfold unique_lower. rewrite (H v Hv). f_equal. f_equal.
    apply filter_ext_in. intros w Hw. rewrite (H w Hw). reflexivity.
  Qed.

  Theorem enum_iff ku gu nu enum vs s v :
    NoDup (map iname vs) -> names_ok ku gu vs ->
    (enum_from lower ku gu nu enum vs s = Ok v <->
     (In v vs /\ if unique_lower lower iname vs v then lower s = lower (iname v) else s = iname v)).
  Proof.
    intros ND Hn. unfold enum_from, parse, parse_groups.
    assert (NDg : NoDup (map (shown gu) vs)).
    { replace (map (shown gu) vs) with (map iname vs); [exact ND|]. apply map_ext_in. intros w Hw. symmetry. apply Hn. exact Hw. }
    pose proof (match_spec lower (shown ku) (shown gu) vs _ s v (groups_spec lower (shown ku) vs) NDg) as M.
    destruct (match_arms lower (all_arms (shown gu) (groups lower (shown ku) vs)) s) as [a|] eqn:Ea.
    - split.
      + intros H. inversion H; subst a. destruct (proj1 M eq_refl) as [HI [Hk Hd]].
        split; [exact HI|]. destruct (Hn v HI) as [Hku Hgu].
        rewrite <- (unique_lower_ext ku vs v (fun w Hw => proj1 (Hn w Hw)) HI).
        rewrite Hku in Hk. rewrite Hgu in Hd.
        destruct (unique_lower lower (shown ku) vs v); [exact Hk|]. destruct Hd as [Hd|Hd]; [discriminate | exact Hd].
      + intros [HI Hc]. f_equal. destruct (Hn v HI) as [Hku Hgu].
        rewrite <- (unique_lower_ext ku vs v (fun w Hw => proj1 (Hn w Hw)) HI) in Hc.
        assert (Some a = Some v) as E; [|inversion E; reflexivity].
        apply M. split; [exact HI|]. rewrite Hku, Hgu.
        destruct (unique_lower lower (shown ku) vs v).
        * split; [exact Hc | left; reflexivity].
        * split; [rewrite Hc; reflexivity | right; exact Hc].
    - split; [discriminate|]. intros [HI Hc]. exfalso. destruct (Hn v HI) as [Hku Hgu].
      rewrite <- (unique_lower_ext ku vs v (fun w Hw => proj1 (Hn w Hw)) HI) in Hc.
      assert (None = Some v) as E; [|discriminate].
      apply M. split; [exact HI|]. rewrite Hku, Hgu.
      destruct (unique_lower lower (shown ku) vs v).
      + split; [exact Hc | left; reflexivity].
      + split; [rewrite Hc; reflexivity | right; exact Hc].
  Qed.

  (** every variant's own name parses back to it *)
  Theorem own_name ku gu nu enum vs v :
    NoDup (map iname vs) -> names_ok ku gu vs -> In v vs ->
    enum_from lower ku gu nu enum vs (iname v) = Ok v.
  Proof.
    intros ND Hn HI. apply (enum_iff ku gu nu enum vs (iname v) v ND Hn). split; [exact HI|].
    destruct (unique_lower lower iname vs v); reflexivity.
  Qed.

  (** a rejection is a `FromStrError` built from the enum's identifier *)
  Theorem err_names_enum ku gu nu enum vs s e :
    enum_from lower ku gu nu enum vs s = Err e -> e = shown nu enum.
  Proof.
    unfold enum_from, parse, parse_groups. destruct (match_arms _ _ _); intros H; inversion H; reflexivity.
  Qed.

  Theorem err_iff ku gu nu enum vs s :
    NoDup (map iname vs) -> names_ok ku gu vs ->
    (enum_from lower ku gu nu enum vs s = Err (shown nu enum) <->
     forall v, ~ (In v vs /\ if unique_lower lower iname vs v then lower s = lower (iname v) else s = iname v)).
  Proof.
    intros ND Hn. split.
    - intros HE v Hv. apply (enum_iff ku gu nu enum vs s v ND Hn) in Hv. rewrite HE in Hv. discriminate.
    - intros HN. destruct (enum_from lower ku gu nu enum vs s) as [v|e] eqn:E.
      + exfalso. apply (HN v). apply (enum_iff ku gu nu enum vs s v ND Hn). exact E.
      + apply err_names_enum in E. subst e. reflexivity.
  Qed.

  (** iteration order of the hash map is irrelevant *)
  Theorem order_irrelevant_enum ku gu nu enum vs gs' s :
    NoDup (map iname vs) -> names_ok ku gu vs ->
    Permutation gs' (groups lower (shown ku) vs) ->
    parse_groups lower (shown gu) (shown nu enum) gs' s = enum_from lower ku gu nu enum vs s.
  Proof.
    intros ND Hn HP. unfold enum_from, parse, parse_groups.
    rewrite (order_irrelevant lower (shown ku) (shown gu) vs gs' s); [reflexivity| |exact HP].
    replace (map (shown gu) vs) with (map iname vs); [exact ND|]. apply map_ext_in. intros w Hw. symmetry. apply Hn. exact Hw.
  Qed.

  (** what "unique_lower" says *)
  Lemma unique_lower_spec vs v :
    NoDup vs -> In v vs ->
    (unique_lower lower iname vs v = true <-> forall w, In w vs -> lower (iname w) = lower (iname v) -> w = v).
  Proof.
    intros ND HI. unfold unique_lower.
    set (p := fun w => str_eqb (lower (iname w)) (lower (iname v))).
    assert (Hp : forall w, In w (filter p vs) <-> (In w vs /\ lower (iname w) = lower (iname v))).
    { intros w. rewrite filter_In. unfold p. rewrite str_eqb_eq. reflexivity. }
    assert (NDf : NoDup (filter p vs)) by (apply NoDup_filter; exact ND).
    assert (Hv : In v (filter p vs)) by (apply Hp; auto).
    destruct (filter p vs) as [|a [|b r]] eqn:F.
    - destruct Hv.
    - cbn. split; [|reflexivity]. intros _ w Hw Hk.
      assert (In w [a]) as [<-|[]] by (apply Hp; auto). destruct Hv as [<-|[]]. reflexivity.
    - cbn. split; [discriminate|]. intros H. exfalso.
      assert (a = v) by (apply H; apply (Hp a); left; reflexivity).
      assert (b = v) by (apply H; apply (Hp b); right; left; reflexivity).
      subst a b. inversion NDf as [|x l NI _]. apply NI. left; reflexivity.
  Qed.
End Named.

(* ------------------------------------------------------------------ with `unraw()` at the key and guard sites (the source since 5dcf116) *)

Theorem enum_iff_unrawed (lower : str -> str) ku gu : ku = true -> gu = true -> forall nu enum vs s v,
  NoDup (map iname vs) ->
  (enum_from lower ku gu nu enum vs s = Ok v <->
   (In v vs /\ if unique_lower lower iname vs v then lower s = lower (iname v) else s = iname v)).
Proof. intros -> -> nu enum vs s v ND. apply enum_iff; [exact ND | apply names_ok_unrawed]. Qed.

Theorem own_name_unrawed (lower : str -> str) ku gu : ku = true -> gu = true -> forall nu enum vs v,
  NoDup (map iname vs) -> In v vs -> enum_from lower ku gu nu enum vs (iname v) = Ok v.
Proof. intros -> -> nu enum vs v ND HI. apply own_name; [exact ND | apply names_ok_unrawed | exact HI]. Qed.

Theorem err_iff_unrawed (lower : str -> str) ku gu : ku = true -> gu = true -> forall nu enum vs s,
  NoDup (map iname vs) ->
  (enum_from lower ku gu nu enum vs s = Err (shown nu enum) <->
   forall v, ~ (In v vs /\ if unique_lower lower iname vs v then lower s = lower (iname v) else s = iname v)).
Proof. intros -> -> nu enum vs s ND. apply err_iff; [exact ND | apply names_ok_unrawed]. Qed.

Theorem order_irrelevant_unrawed (lower : str -> str) ku gu : ku = true -> gu = true -> forall nu enum vs gs' s,
  NoDup (map iname vs) -> Permutation gs' (groups lower (shown ku) vs) ->
  parse_groups lower (shown gu) (shown nu enum) gs' s = enum_from lower ku gu nu enum vs s.
Proof. intros -> -> nu enum vs gs' s ND HP. apply order_irrelevant_enum; [exact ND | apply names_ok_unrawed | exact HP]. Qed.

(* ------------------------------------------------------------------ raw identifiers under `to_string()` (the spelling before 5dcf116) *)

Definition id_ (s : str) : ident := {| raw := false; iname := s |}.
Definition raw_ (s : str) : ident := {| raw := true; iname := s |}.
Definition s_fn : str := [102; 110].
Definition s_Fn : str := [70; 110].

(** `enum R { r#fn }` with `to_string()` at both sites: the variant's name is `fn`, it is the only
    variant, and yet "fn" is rejected while "r#fn" is accepted *)
Theorem raw_refuted :
  exists vs v s,
    NoDup (map iname vs) /\ In v vs /\ unique_lower ascii_lower iname vs v = true /\
    ascii_lower s = ascii_lower (iname v) /\
    enum_from ascii_lower false false false (id_ [82]) vs s = Err [82] /\
    enum_from ascii_lower false false false (id_ [82]) vs (raw_prefix ++ s) = Ok v.
Proof.
  exists [raw_ s_fn], (raw_ s_fn), s_fn.
  split; [repeat constructor; intros []|].
  split; [left; reflexivity|]. repeat split.
Qed.

(** with `unraw()` at both sites the same enum behaves *)
Example raw_unrawed :
  enum_from ascii_lower true true true (id_ [82]) [raw_ s_fn] s_fn = Ok (raw_ s_fn) /\
  enum_from ascii_lower true true true (id_ [82]) [raw_ s_fn] s_Fn = Ok (raw_ s_fn) /\
  enum_from ascii_lower true true true (id_ [82]) [raw_ s_fn] (raw_prefix ++ s_fn) = Err [82].
Proof. repeat split. Qed.

(* ------------------------------------------------------------------ non-vacuity *)

Definition s_Foo : str := [70;111;111].
Definition s_FOO : str := [70;79;79].
Definition s_foo : str := [102;111;111].
Definition s_Bar : str := [66;97;114].
Definition s_bAR : str := [98;65;82].
Definition s_fOO : str := [102;79;79].
Definition ex_vs := [id_ s_Foo; id_ s_FOO; id_ s_foo; id_ s_Bar].

Example ex_hypotheses_satisfiable :
  NoDup (map iname ex_vs) /\ names_ok false false ex_vs /\
  enum_from ascii_lower false false false (id_ [69]) ex_vs s_FOO = Ok (id_ s_FOO) /\
  enum_from ascii_lower false false false (id_ [69]) ex_vs s_bAR = Ok (id_ s_Bar) /\
  enum_from ascii_lower false false false (id_ [69]) ex_vs s_fOO = Err [69] /\
  unique_lower ascii_lower iname ex_vs (id_ s_Bar) = true /\
  unique_lower ascii_lower iname ex_vs (id_ s_Foo) = false.
Proof.
  split.
  { cbn. repeat constructor; cbn; intros H; repeat destruct H as [H|H]; try discriminate; auto. }
  split; [apply names_ok_no_raw; intros w H; repeat destruct H as [<-|H]; try reflexivity; destruct H|].
  repeat split.
Qed.

(* ------------------------------------------------------------------ newtypes *)

Definition map_result {A B E F} (f : A -> B) (g : E -> F) (r : result A E) : result B F :=
  match r with Ok a => Ok (f a) | Err e => Err (g e) end.

(** a single-field struct parses exactly as its field type does: success wrapped, error unchanged
    (the `?` converts the error with the reflexive `From` impl, i.e. the identity) *)
Theorem newtype_delegates T E W (field_parse : str -> result T E) (wrap : T -> W) (from : E -> E) :
  (forall e, from e = e) ->
  forall s, struct_from T E W field_parse wrap from s = map_result wrap (fun e => e) (field_parse s).
Proof.
  intros Hf s. unfold struct_from, map_result. destruct (field_parse s); [reflexivity | rewrite Hf; reflexivity].
Qed.

Corollary newtype_ok_iff T E W (field_parse : str -> result T E) (wrap : T -> W) (from : E -> E) :
  (forall e, from e = e) -> (forall a b, wrap a = wrap b -> a = b) ->
  forall s x, struct_from T E W field_parse wrap from s = Ok (wrap x) <-> field_parse s = Ok x.
Proof.
  intros Hf Hinj s x. rewrite (newtype_delegates _ _ _ _ _ _ Hf). unfold map_result.
  destruct (field_parse s) as [a|e]; split; intros H; inversion H; subst; try reflexivity.
  f_equal. apply Hinj. assumption.
Qed.

Corollary newtype_err_iff T E W (field_parse : str -> result T E) (wrap : T -> W) (from : E -> E) :
  (forall e, from e = e) ->
  forall s e, struct_from T E W field_parse wrap from s = Err e <-> field_parse s = Err e.
Proof.
  intros Hf s e. rewrite (newtype_delegates _ _ _ _ _ _ Hf). unfold map_result.
  destruct (field_parse s) as [a|e']; split; intros H; inversion H; subst; reflexivity.
Qed.

(** the derive accepts exactly the single-field structs and delegates to that field's type *)
Theorem struct_expand_single fields b :
  struct_expand fields = Some b <->
  exists f ty, fields = [(f, ty)] /\ sb_err_of b = ty /\ sb_parse_of b = ty /\
               sb_ctor b = match f with None => SKTuple | Some n => SKNamed n end.
Proof.
  unfold struct_expand. split.
  - destruct fields as [|[[f|] ty] [|x r]]; intros H; inversion H; subst; cbn; eauto 6.
  - intros [f [ty [-> [H1 [H2 H3]]]]]. destruct b as [a p c]; cbn in *. subst. destruct f; reflexivity.
Qed.

Example newtype_bool_example :
  struct_from bool unit (option bool) bool_parse Some (fun e => e) [116;114;117;101] = Ok (Some true) /\
  struct_from bool unit (option bool) bool_parse Some (fun e => e) [84;114;117;101] = Err tt.
Proof. split; reflexivity. Qed.

(* ================================================================== growth round *)

Lemma filter_none {A} (p : A -> bool) l : (forall x, In x l -> p x = false) -> filter p l = [].
Proof.
  induction l as [|a l IH]; intros H; [reflexivity|]. cbn [filter].
  rewrite (H a (or_introl eq_refl)). apply IH. intros x Hx. apply H. right; exact Hx.
Qed.

Lemma filter_all {A} (p : A -> bool) l : (forall x, In x l -> p x = true) -> filter p l = l.
Proof.
  induction l as [|a l IH]; intros H; [reflexivity|]. cbn [filter].
  rewrite (H a (or_introl eq_refl)). f_equal. apply IH. intros x Hx. apply H. right; exact Hx.
Qed.

Section Shapes.
  Variable lower : str -> str.
  Notation lkey v := (lower (iname v)).

  Lemma filter_key_single : forall vs v,
    NoDup (map (fun w => lkey w) vs) -> In v vs -> filter (fun w => str_eqb (lkey w) (lkey v)) vs = [v].
  Proof.
    induction vs as [|a vs IH]; intros v ND HI; [destruct HI|]. cbn [map] in ND. inversion ND as [|x l NI ND']; subst.
    cbn [filter]. destruct HI as [->|HI].
    - rewrite str_eqb_refl. f_equal. apply filter_none. intros w Hw. apply str_eqb_neq. intros E.
      apply NI. rewrite <- E. apply (in_map (fun w => lkey w)). exact Hw.
    - destruct (str_eqb (lkey a) (lkey v)) eqn:E.
      + apply str_eqb_eq in E. exfalso. apply NI. rewrite E. apply (in_map (fun w => lkey w)). exact HI.
      + apply IH; assumption.
  Qed.

  (** an enum without any case collision: every variant is matched ignoring case *)
  Theorem no_collision_iff ku gu nu enum vs s v :
    NoDup (map (fun w => lkey w) vs) -> names_ok ku gu vs ->
    (enum_from lower ku gu nu enum vs s = Ok v <-> (In v vs /\ lower s = lkey v)).
  Proof.
    intros ND Hn.
    assert (NDn : NoDup (map iname vs)).
    { clear -ND. induction vs as [|a vs IH]; [constructor|]. cbn [map] in *. inversion ND as [|x l NI ND']; subst.
      constructor; [|auto]. intros HI. apply NI. apply in_map_iff in HI as [w [E Hw]]. apply in_map_iff. exists w. rewrite E. auto. }
    rewrite (enum_iff lower ku gu nu enum vs s v NDn Hn). split; intros [HI H]; (split; [exact HI|]).
    - unfold unique_lower in H. rewrite (filter_key_single vs v ND HI) in H. exact H.
    - unfold unique_lower. rewrite (filter_key_single vs v ND HI). exact H.
  Qed.

  (** an enum whose variants ALL share one lower-cased name (any size >= 2, odd or even): exact names only *)
  Theorem all_collision_iff ku gu nu enum vs k s v :
    NoDup (map iname vs) -> names_ok ku gu vs -> (forall w, In w vs -> lkey w = k) -> (2 <= length vs)%nat ->
    (enum_from lower ku gu nu enum vs s = Ok v <-> (In v vs /\ s = iname v)).
  Proof.
    intros ND Hn Hk Hlen. rewrite (enum_iff lower ku gu nu enum vs s v ND Hn).
    split; intros [HI H]; (split; [exact HI|]).
    - unfold unique_lower in H. rewrite filter_all in H.
      + destruct vs as [|a [|b r]]; cbn in Hlen; try lia. exact H.
      + intros w Hw. apply str_eqb_eq. rewrite (Hk w Hw), (Hk v HI). reflexivity.
    - unfold unique_lower. rewrite filter_all.
      + destruct vs as [|a [|b r]]; cbn in Hlen; try lia. exact H.
      + intros w Hw. apply str_eqb_eq. rewrite (Hk w Hw), (Hk v HI). reflexivity.
  Qed.

  (** in a collision group only the exact name is accepted; in particular other casings are rejected *)
  Theorem collision_exact_only ku gu nu enum vs s v :
    NoDup (map iname vs) -> names_ok ku gu vs -> unique_lower lower iname vs v = false ->
    enum_from lower ku gu nu enum vs s = Ok v -> s = iname v.
  Proof.
    intros ND Hn Hu H. apply (enum_iff lower ku gu nu enum vs s v ND Hn) in H as [_ H]. rewrite Hu in H. exact H.
  Qed.

  (** matching of a unique variant only depends on the lower-cased input *)
  Theorem case_insensitive_unique ku gu nu enum vs s s' v :
    NoDup (map iname vs) -> names_ok ku gu vs -> unique_lower lower iname vs v = true ->
    lower s = lower s' ->
    enum_from lower ku gu nu enum vs s = Ok v -> enum_from lower ku gu nu enum vs s' = Ok v.
  Proof.
    intros ND Hn Hu Hs H. apply (enum_iff lower ku gu nu enum vs s v ND Hn) in H as [HI H].
    apply (enum_iff lower ku gu nu enum vs s' v ND Hn). split; [exact HI|]. rewrite Hu in *. rewrite <- Hs. exact H.
  Qed.

  (** if lower-casing is idempotent on a unique variant's name, the lower-cased name parses too *)
  Theorem lowercased_name_parses ku gu nu enum vs v :
    NoDup (map iname vs) -> names_ok ku gu vs -> In v vs -> unique_lower lower iname vs v = true ->
    lower (lkey v) = lkey v ->
    enum_from lower ku gu nu enum vs (lkey v) = Ok v.
  Proof.
    intros ND Hn HI Hu Hid. apply (enum_iff lower ku gu nu enum vs _ v ND Hn). split; [exact HI|]. rewrite Hu. exact Hid.
  Qed.

  (** at most one variant can be the answer (the result is a function of the string), restated on the rule itself *)
  Theorem rule_deterministic vs s v w :
    NoDup (map iname vs) ->
    (In v vs /\ if unique_lower lower iname vs v then lower s = lkey v else s = iname v) ->
    (In w vs /\ if unique_lower lower iname vs w then lower s = lkey w else s = iname w) -> v = w.
  Proof.
    intros ND Hv Hw.
    pose proof (enum_iff lower true true false (id_ []) vs s v ND (names_ok_unrawed vs)) as Iv.
    pose proof (enum_iff lower true true false (id_ []) vs s w ND (names_ok_unrawed vs)) as Iw.
    apply Iv in Hv. apply Iw in Hw. congruence.
  Qed.
End Shapes.

(** the rejection's type name, for an enum that is not written as a raw identifier, is the enum's name *)
Theorem err_name_plain lower ku gu nu enum vs s e :
  raw enum = false -> enum_from lower ku gu nu enum vs s = Err e -> e = iname enum.
Proof.
  intros Hr H. apply err_names_enum in H. subst e. unfold shown, to_string. rewrite Hr. destruct nu; reflexivity.
Qed.

(** src/str.rs Display: the message determines the type name *)
Theorem error_message_injective a b : error_message a = error_message b -> a = b.
Proof.
  unfold error_message. intros H. apply app_inv_head in H. apply app_inv_tail in H. exact H.
Qed.

(* ---- shapes: all-collision groups of odd size, mixed enums *)
Definition s_ab : str := [97;98]. Definition s_Ab : str := [65;98]. Definition s_AB : str := [65;66].
Definition s_aB : str := [97;66]. Definition s_X : str := [88].
Example odd_all_collision_group :
  let vs := [id_ s_ab; id_ s_Ab; id_ s_AB] in
  enum_from ascii_lower true true false (id_ [69]) vs s_Ab = Ok (id_ s_Ab) /\
  enum_from ascii_lower true true false (id_ [69]) vs s_aB = Err [69] /\
  (forall s v, enum_from ascii_lower true true false (id_ [69]) vs s = Ok v <-> (In v vs /\ s = iname v)).
Proof.
  cbn zeta. split; [reflexivity|]. split; [reflexivity|]. intros s v.
  apply (all_collision_iff ascii_lower true true false (id_ [69]) _ s_ab s v).
  - cbn. repeat constructor; cbn; intros H; repeat destruct H as [H|H]; try discriminate; auto.
  - apply names_ok_unrawed.
  - intros w H. repeat destruct H as [<-|H]; try reflexivity. destruct H.
  - cbn. lia.
Qed.

Example no_collision_enum :
  let vs := [id_ s_ab; id_ s_X; raw_ s_fn] in
  forall s v, enum_from ascii_lower true true false (id_ [69]) vs s = Ok v <-> (In v vs /\ ascii_lower s = ascii_lower (iname v)).
Proof.
  cbn zeta. intros s v. apply no_collision_iff.
  - cbn. repeat constructor; cbn; intros H; repeat destruct H as [H|H]; try discriminate; auto.
  - apply names_ok_unrawed.
Qed.

(* ---- which enums are accepted *)

Theorem enum_accepts_iff fs : enum_accepts fs = true <-> (forall b, In b fs -> b = true).
Proof. unfold enum_accepts. rewrite forallb_forall. reflexivity. Qed.

(* ---- impl headers *)

Definition bound_of (trait : str) (p : gparam * list str) : Prop :=
  match fst p with GType _ => In trait (snd p) | _ => True end.

(** newtype impl: every TYPE parameter carries the FromStr bound (after its own bounds), lifetimes and
    const parameters are untouched, no default survives, the struct is applied to all parameters *)
Theorem struct_header_spec trait name ps w :
  let h := struct_header trait name ps w in
  Forall (bound_of trait) (h_params h) /\
  map fst (h_params h) = map gp ps /\
  (forall p, In p ps -> match gp p with
                        | GType _ => In (gp p, gp_bounds p ++ [trait]) (h_params h)
                        | _ => In (gp p, gp_bounds p) (h_params h)
                        end) /\
  h_self h = (name, map (fun p => garg (gp p)) ps) /\ h_where h = w /\ h_trait h = trait.
Proof.
  cbn zeta. unfold struct_header, impl_params, add_ty_bound. cbn [h_params h_self h_where h_trait].
  split; [|split; [|split; [|auto]]].
  - apply Forall_forall. intros q Hq. rewrite map_map in Hq. apply in_map_iff in Hq as [p [<- Hp]].
    unfold bound_of. destruct (gp p) eqn:E; cbn; rewrite ?E; cbn; auto. apply in_or_app. right. left. reflexivity.
  - rewrite !map_map. apply map_ext. intros p. destruct (gp p) eqn:E; cbn; rewrite ?E; reflexivity.
  - intros p Hp. rewrite map_map. destruct (gp p) eqn:E; apply in_map_iff; exists p; rewrite E; cbn; rewrite ?E; auto.
Qed.

(** enum impl: the declared parameters with their own bounds, nothing added *)
Theorem enum_header_spec trait name ps w :
  let h := enum_header trait name ps w in
  h_params h = map (fun p => (gp p, gp_bounds p)) ps /\
  h_self h = (name, map (fun p => garg (gp p)) ps) /\ h_where h = w /\ h_trait h = trait /\
  In a_automatically_derived (h_attrs h).
Proof. cbn zeta. unfold enum_header, impl_params. cbn. repeat split. right. right. left. reflexivity. Qed.

(* ---- `V()` / `V{}` variants *)

(** with `E::V {}` as the arm value (the source since bdb9bb9): every enum the macro accepts - variants
    spelled `V`, `V()` or `V {}` in any mixture - has well-typed arms *)
Theorem accepted_arms_typecheck braces : braces = true -> forall ss,
  enum_accepts_shapes ss = true -> arms_typecheck braces ss = true.
Proof.
  intros -> ss H. unfold enum_accepts_shapes, enum_accepts, arms_typecheck in *. rewrite forallb_forall in *.
  intros s Hs. cbn. apply H. apply in_map. exact Hs.
Qed.

(** ... and acceptance is exactly "no variant has a field" *)
Theorem accepts_shapes_iff ss : enum_accepts_shapes ss = true <-> (forall s, In s ss -> s <> VFields).
Proof.
  unfold enum_accepts_shapes, enum_accepts. rewrite forallb_forall. split.
  - intros H s Hs E. subst s. specialize (H false (in_map shape_empty ss VFields Hs)). discriminate.
  - intros H b Hb. apply in_map_iff in Hb as [s [<- Hs]]. specialize (H s Hs). destruct s; try reflexivity. contradiction.
Qed.

(** unit-only enums were and are fine with either spelling of the arm value *)
Theorem unit_only_ok braces ss : (forall s, In s ss -> s = VUnit) -> enum_accepts_shapes ss = true /\ arms_typecheck braces ss = true.
Proof.
  intros H. unfold enum_accepts_shapes, enum_accepts, arms_typecheck. rewrite !forallb_forall. split.
  - intros b Hb. apply in_map_iff in Hb as [s [<- Hs]]. rewrite (H s Hs). reflexivity.
  - intros s Hs. rewrite (H s Hs). destruct braces; reflexivity.
Qed.

(** regression: with the bare path `E::V` (before bdb9bb9) `enum E { A {}, B(), C }` was accepted and
    its arms were not values of E; with `E::V {}` they are *)
Example empty_fields_regression :
  let ss := [VBraceEmpty; VTupleEmpty; VUnit] in
  enum_accepts_shapes ss = true /\ arms_typecheck false ss = false /\ arms_typecheck true ss = true.
Proof. repeat split. Qed.

(* ================================================================== arm coverage (every variant has an arm, no arm is foreign) *)

Section ArmCoverage.
  Variable lower : str -> str.
  Variables kf gf : ident -> str.

  Lemma arms_of_group_in g p go v :
    In (Arm p go v) (arms_of_group gf g) -> p = fst g /\ In v (snd g) /\ (go = None \/ go = Some (gf v)).
  Proof.
    unfold arms_of_group. destruct g as [k ms]; cbn [fst snd].
    assert (Hmap : In (Arm p go v) (map (fun v0 => Arm k (Some (gf v0)) v0) ms) ->
                   p = k /\ In v ms /\ (go = None \/ go = Some (gf v))).
    { intros H. apply in_map_iff in H as [w [E Hw]]. inversion E; subst. auto. }
    destruct ms as [|a [|b ms]]; [intros [] | | exact Hmap].
    cbn [In]. intros [E|[]]. inversion E; subst. auto.
  Qed.

  Lemma arms_of_group_cover g v :
    In v (snd g) -> exists go, In (Arm (fst g) go v) (arms_of_group gf g).
  Proof.
    unfold arms_of_group. destruct g as [k ms]; cbn [fst snd]. intros Hv.
    assert (Hmap : exists go, In (Arm k go v) (map (fun v0 => Arm k (Some (gf v0)) v0) ms)).
    { exists (Some (gf v)). apply in_map_iff. exists v. auto. }
    destruct ms as [|a [|b ms]]; [destruct Hv | | exact Hmap].
    destruct Hv as [->|[]]. exists None. left. reflexivity.
  Qed.

  (** no arm is foreign: every arm of the generated `match` carries a variant of the enum, its pattern is that
      variant's lower-cased key, its guard (if any) that variant's own guard string *)
  Theorem arms_sound vs gs p go v :
    GroupsOf lower kf vs gs -> In (Arm p go v) (all_arms gf gs) ->
    In v vs /\ p = lower (kf v) /\ (go = None \/ go = Some (gf v)).
  Proof.
    intros [_ Hs] H. unfold all_arms in H. apply in_flat_map in H as [[k ms] [Hg Ha]].
    apply arms_of_group_in in Ha as [-> [Hv Hgo]]. cbn [fst snd] in *.
    apply Hs in Hg as [-> _]. apply filter_In in Hv as [Hv Hk]. unfold keyis in Hk.
    apply str_eqb_eq in Hk. auto.
  Qed.

  (** no variant is lost: every variant of the enum has an arm whose pattern is its lower-cased key *)
  Theorem arms_complete vs gs v :
    GroupsOf lower kf vs gs -> In v vs -> exists go, In (Arm (lower (kf v)) go v) (all_arms gf gs).
  Proof.
    intros [_ Hs] Hv.
    assert (Hin : In v (filter (keyis lower kf (lower (kf v))) vs)).
    { apply filter_In. split; [exact Hv|]. unfold keyis. apply str_eqb_refl. }
    assert (Hg : In (lower (kf v), filter (keyis lower kf (lower (kf v))) vs) gs).
    { apply Hs. split; [reflexivity|]. intros E. rewrite E in Hin. destruct Hin. }
    destruct (arms_of_group_cover (lower (kf v), filter (keyis lower kf (lower (kf v))) vs) v Hin) as [go Hgo].
    exists go. unfold all_arms. apply in_flat_map. eexists. split; [exact Hg | exact Hgo].
  Qed.

  Lemma match_arms_in arms s v :
    match_arms lower arms s = Some v -> exists p go, In (Arm p go v) arms.
  Proof.
    induction arms as [|[p go w] arms IH]; cbn [match_arms]; [discriminate|].
    destruct (_ && _).
    - intros E. inversion E; subst. exists p, go. left. reflexivity.
    - intros H. destruct (IH H) as [p' [go' Hin]]. exists p', go'. right. exact Hin.
  Qed.

  (** a hit is only ever on an input whose lower-casing is the arm's pattern *)
  Lemma match_arms_pat arms s v :
    match_arms lower arms s = Some v -> exists go, In (Arm (lower s) go v) arms.
  Proof.
    induction arms as [|[p go w] arms IH]; cbn [match_arms]; [discriminate|].
    destruct (str_eqb (lower s) p) eqn:Ep; cbn [andb].
    - destruct (match go with None => true | Some x => str_eqb s x end).
      + intros E. inversion E; subst. apply str_eqb_eq in Ep. subst p. exists go. left. reflexivity.
      + intros H. destruct (IH H) as [go' Hin]. exists go'. right. exact Hin.
    - intros H. destruct (IH H) as [go' Hin]. exists go'. right. exact Hin.
  Qed.
End ArmCoverage.

(** the derive never returns a variant of another enum, and a hit agrees with the input ignoring case - with NO
    hypothesis on the variant list (not even distinct names), for every switch setting and iteration order *)
Theorem ok_in_any lower ku gu ename vs gs s v :
  GroupsOf lower (shown ku) vs gs ->
  parse_groups lower (shown gu) ename gs s = Ok v -> In v vs /\ lower s = lower (shown ku v).
Proof.
  intros HG. unfold parse_groups. destruct (match_arms _ _ _) as [w|] eqn:E; [|discriminate].
  intros H. inversion H; subst w. apply match_arms_pat in E as [go Hin].
  destruct (arms_sound lower (shown ku) (shown gu) vs gs _ _ _ HG Hin) as [Hv [Hp _]]. auto.
Qed.

Theorem enum_ok_in lower ku gu nu enum vs s v :
  enum_from lower ku gu nu enum vs s = Ok v -> In v vs /\ lower s = lower (shown ku v).
Proof. unfold enum_from, parse. apply ok_in_any. apply groups_spec. Qed.

(* ------------------------------------------------------------------ arm count: one arm per variant *)

Section ArmCount.
  Variable lower : str -> str.
  Variables kf gf : ident -> str.

  Definition total (m : list (str * list ident)) : nat := list_sum (map (fun g => length (snd g)) m).

  Lemma arms_of_group_length g : length (arms_of_group gf g) = length (snd g).
  Proof.
    unfold arms_of_group. destruct g as [k ms]; cbn [fst snd].
    destruct ms as [|a [|b ms]]; [reflexivity | reflexivity | apply map_length].
  Qed.

  Lemma all_arms_length gs : length (all_arms gf gs) = total gs.
  Proof.
    unfold all_arms, total. induction gs as [|g gs IH]; cbn [flat_map map list_sum]; [reflexivity|].
    rewrite app_length, arms_of_group_length, IH. reflexivity.
  Qed.

  Lemma total_insert k v m : total (insert k v m) = S (total m).
  Proof.
    induction m as [|[k0 vs0] m IH]; [reflexivity|].
    change (insert k v ((k0, vs0) :: m)) with (if str_eqb k k0 then (k0, vs0 ++ [v]) :: m else (k0, vs0) :: insert k v m).
    change (total ((k0, vs0) :: m)) with (length vs0 + total m)%nat.
    destruct (str_eqb k k0).
    - change (total ((k0, vs0 ++ [v]) :: m)) with (length (vs0 ++ [v]) + total m)%nat.
      rewrite app_length. cbn [length]. rewrite Nat.add_1_r. reflexivity.
    - change (total ((k0, vs0) :: insert k v m)) with (length vs0 + total (insert k v m))%nat.
      rewrite IH. rewrite Nat.add_succ_r. reflexivity.
  Qed.

  Lemma total_fold vs : forall m,
    total (fold_left (fun m v => insert (lower (kf v)) v m) vs m) = (length vs + total m)%nat.
  Proof.
    induction vs as [|v vs IH]; intros m; cbn [fold_left length]; [reflexivity|].
    rewrite IH, total_insert. lia.
  Qed.

  Lemma total_perm gs gs' : Permutation gs gs' -> total gs = total gs'.
  Proof.
    intros HP. unfold total, list_sum. induction HP as [|x l l' HP IH|x y l|l l' l'' HP1 IH1 HP2 IH2].
    - reflexivity.
    - cbn [map fold_right]. rewrite IH. reflexivity.
    - cbn [map fold_right]. rewrite !Nat.add_assoc, (Nat.add_comm (length (snd y))). reflexivity.
    - rewrite IH1. exact IH2.
  Qed.

  (** the generated `match` has exactly one arm per variant, whatever the iteration order of the map *)
  Theorem arms_count vs gs' :
    Permutation gs' (groups lower kf vs) -> length (all_arms gf gs') = length vs.
  Proof.
    intros HP. rewrite all_arms_length, (total_perm _ _ HP). unfold groups. rewrite total_fold.
    unfold total. cbn. lia.
  Qed.
End ArmCount.
