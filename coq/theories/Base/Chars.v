(** Characters are Unicode scalar values as [N]; strings are lists of them.
    External character tables are a record of boolean functions (a parameter of every
    model that needs them, never an axiom). *)
From Coq Require Export List NArith Bool Lia.
Export ListNotations.
Open Scope N_scope.

Definition chr := N.
Definition str := list N.

Definition str_eqb (a b : str) : bool :=
  (fix go (a b : str) : bool :=
     match a, b with
     | [], [] => true
     | x :: a', y :: b' => N.eqb x y && go a' b'
     | _, _ => false
     end) a b.

Lemma str_eqb_eq a b : str_eqb a b = true <-> a = b.
Proof.
  revert b; induction a as [|x a IH]; intros [|y b]; cbn; split; intros H; try congruence; try discriminate.
  - apply andb_true_iff in H as [H1 H2]. apply N.eqb_eq in H1. apply IH in H2. congruence.
  - inversion H; subst. rewrite N.eqb_refl. cbn. apply IH. reflexivity.
Qed.

(** ASCII constants used by the format grammar *)
Definition c_lbrace := 123. Definition c_rbrace := 125. Definition c_colon := 58.
Definition c_lt := 60. Definition c_caret := 94. Definition c_gt := 62.
Definition c_plus := 43. Definition c_minus := 45. Definition c_hash := 35.
Definition c_zero := 48. Definition c_nine := 57. Definition c_dollar := 36.
Definition c_dot := 46. Definition c_star := 42. Definition c_quest := 63.
Definition c_x := 120. Definition c_X := 88. Definition c_o := 111. Definition c_p := 112.
Definition c_b := 98. Definition c_e := 101. Definition c_E := 69. Definition c_underscore := 95.
Definition c_r := 114.

Definition is_digit (c : N) : bool := (c_zero <=? c) && (c <=? c_nine).
Definition digit_val (c : N) : N := c - c_zero.

(** The character tables the parsers consult: Unicode XID_Start / XID_Continue
    (crate [unicode-xid] for derive_more, [rustc_lexer] for rustc) and [char::is_whitespace]. *)
Record CharClass := {
  xid_start : N -> bool;
  xid_continue : N -> bool;
  is_ws : N -> bool
}.

Definition is_special (c : N) : bool :=
  existsb (N.eqb c)
    [c_lbrace; c_rbrace; c_colon; c_lt; c_caret; c_gt; c_plus; c_minus; c_hash;
     c_dollar; c_dot; c_star; c_quest].

Definition is_ascii_letter (c : N) : bool :=
  ((65 <=? c) && (c <=? 90)) || ((97 <=? c) && (c <=? 122)).

(** What the proofs need from the tables (checked for every scalar value by the harness). *)
Record CC_ok (cc : CharClass) : Prop := {
  ok_letter_start : forall c, is_ascii_letter c = true -> xid_start cc c = true;
  ok_start_continue : forall c, xid_start cc c = true -> xid_continue cc c = true;
  ok_digit_continue : forall c, is_digit c = true -> xid_continue cc c = true;
  ok_digit_not_start : forall c, is_digit c = true -> xid_start cc c = false;
  ok_underscore_continue : xid_continue cc c_underscore = true;
  ok_underscore_not_start : xid_start cc c_underscore = false;
  ok_special_not_continue : forall c, is_special c = true -> xid_continue cc c = false;
  ok_ws_not_continue : forall c, is_ws cc c = true -> xid_continue cc c = false;
  ok_ws_not_special : forall c, is_ws cc c = true -> is_special c = false
}.

(** A concrete ASCII-only table, used for evaluation inside Coq and in non-vacuity examples. *)
Definition ascii_cc : CharClass := {|
  xid_start := is_ascii_letter;
  xid_continue := fun c => is_ascii_letter c || is_digit c || N.eqb c c_underscore;
  is_ws := fun c => existsb (N.eqb c) [9; 10; 11; 12; 13; 32]
|}.
