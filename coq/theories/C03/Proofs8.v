(** C03 proofs, part 8: raw identifiers, the sub-parser suffix family in one statement, and the
    non-vacuity examples of the theorems of parts 5-7. *)
From Verif Require Import C03.Syntax C03.DmParse C03.StdParse.
From Verif Require Import C03.Proofs1 C03.Proofs2 C03.Proofs3 C03.Proofs4 C03.Proofs5 C03.Proofs6 C03.Proofs7.
From Verif Require Import C03.Utf8 C03.DmGeneric C03.Render C03.Transparent.
From Coq Require Import Arith.

(** * raw identifiers: [{r#name}] is rejected by std ("raw identifiers are not supported") and is not a
    placeholder for derive_more either *)
Section Raw.
Variable cc : CharClass.
Hypothesis Hok : CC_ok cc.

Lemma hash_not_ws : is_ws cc c_hash = false.
Proof.
  destruct (is_ws cc c_hash) eqn:E; [|reflexivity]. apply (ok_ws_not_special cc Hok) in E. discriminate.
Qed.

Theorem raw_identifier_rejected x r :
  id_start cc x = true ->
  std_position cc (c_r :: c_hash :: x :: r) = None /\
  format_p cc (c_lbrace :: c_r :: c_hash :: x :: r) = None.
Proof.
  intros Hx.
  assert (Hr : id_start cc c_r = true) by (apply (letter_idstart cc Hok); reflexivity).
  assert (Hh : xid_continue cc c_hash = false) by (apply (special_not_continue cc Hok); reflexivity).
  assert (Hw : std_word cc (c_r :: c_hash :: x :: r) = Some ([c_r], c_hash :: x :: r)).
  { apply (std_word_single cc); [exact Hr|discriminate|exact Hh]. }
  split.
  - unfold std_position. rewrite std_integer_nodigit by reflexivity. rewrite Hr, Hw.
    cbn [str_eqb]. change (N.eqb c_r c_r) with true. change (N.eqb c_hash c_hash) with true.
    cbn [andb]. now rewrite Hx.
  - rewrite format_p_unfold, p_char_eq.
    assert (Ea : optional_result (argument cc) (c_r :: c_hash :: x :: r) = (c_hash :: x :: r, Some (AIdent [c_r]))).
    { apply optional_result_some. unfold argument, alt, map_p. cbn [find_map].
      now rewrite (identifier_word cc Hok), Hw. }
    rewrite Ea. cbv iota beta.
    assert (Ews : forall t, ws cc (c_hash :: t) = c_hash :: t).
    { intros t. unfold ws. apply skip_while_stop, hash_not_ws. }
    rewrite Ews. unfold colon_spec_p, map_or_else.
    change (p_char c_colon (c_hash :: x :: r)) with (@None str). cbv iota beta.
    rewrite Ews. reflexivity.
Qed.

(** * every sub-parser returns a suffix of its input (so every [&input[..input.len() - rest.len()]] and
    every "rest is shorter" argument of the loop is justified) *)
Theorem subparsers_suffix i r :
  (forall a, align_p i = Some (r, a) -> suf r i) /\
  (forall s, sign_p i = Some (r, s) -> suf r i) /\
  (forall x, identifier cc i = Some (r, x) -> suf r i) /\
  (forall n, integer i = Some (r, n) -> suf r i) /\
  (forall a, argument cc i = Some (r, a) -> suf r i) /\
  (forall a, parameter cc i = Some (r, a) -> suf r i) /\
  (forall c, count cc i = Some (r, c) -> suf r i) /\
  (forall p, precision cc i = Some (r, p) -> suf r i) /\
  (forall t, type_ cc i = Some (r, t) -> suf r i) /\
  (forall s, format_spec cc i = Some (r, s) -> suf r i) /\
  (forall f, format_p cc i = Some (r, f) -> suf r i) /\
  (forall o, maybe_format cc i = Some (r, o) -> suf r i) /\
  (forall x, text i = Some (r, x) -> suf r i) /\
  (forall o, alt [ maybe_format cc; map_p text (fun '(i, _) => (i, None)) ] i = Some (r, o) -> suf r i).
Proof.
  repeat split; intros ? H.
  - now apply align_suf in H.
  - now apply sign_suf' in H.
  - now apply identifier_suf in H.
  - now apply integer_suf in H.
  - now apply argument_suf in H.
  - now apply parameter_suf in H.
  - now apply count_suf in H.
  - now apply precision_suf in H.
  - now apply type_suf in H.
  - now apply format_spec_suf in H.
  - now apply format_p_suf in H.
  - now apply maybe_format_suf in H.
  - apply text_suf in H as [H _]. now exists x.
  - now apply (step_p_suf cc) in H.
Qed.

End Raw.

(** * examples *)

(** "a{{" "{0:{<+#010.3$x?}" "}}" "{name :}>w$.*e }" "{}" "{:}" "x": a brace as fill character (both
    of them), every flag, numeral and parameter widths and precisions, [.*], white space in both
    places, escapes, text *)
Definition ex_p1 : sformat :=
  {| sf_arg := Some (SInt [48]); sf_ws1 := [];
     sf_spec := Some {| ss_align := Some (Some c_lbrace, ALeft); ss_sign := Some SPlus; ss_alt := true;
                        ss_zero := true; ss_width := Some (SCInt [49; 48]);
                        ss_prec := Some (SPCount (SCParam (SInt [51]))); ss_ty := TLowerDebug |};
     sf_ws2 := [] |}.
Definition ex_p2 : sformat :=
  {| sf_arg := Some (SIdent [110; 97; 109; 101]); sf_ws1 := [32];
     sf_spec := Some {| ss_align := Some (Some c_rbrace, ARight); ss_sign := None; ss_alt := false;
                        ss_zero := false; ss_width := Some (SCParam (SIdent [119]));
                        ss_prec := Some SPStar; ss_ty := TLowerExp |};
     sf_ws2 := [32] |}.
Definition ex_p3 : sformat := {| sf_arg := None; sf_ws1 := []; sf_spec := None; sf_ws2 := [] |}.
Definition ex_p4 : sformat :=
  {| sf_arg := None; sf_ws1 := [];
     sf_spec := Some {| ss_align := None; ss_sign := None; ss_alt := false; ss_zero := false;
                        ss_width := None; ss_prec := None; ss_ty := TDisplay |};
     sf_ws2 := [] |}.
Definition ex_items : list item :=
  [IText 97; ILbrace; IPh ex_p1; IRbrace; IPh ex_p2; IPh ex_p3; IPh ex_p4; IText 120].

Example ex_items_wf : wf_items ascii_cc ex_items = true.
Proof. vm_compute. reflexivity. Qed.

Example ex_items_rendered :
  render_items ex_items =
  [97; 123; 123] ++ [123; 48; 58; 123; 60; 43; 35; 48; 49; 48; 46; 51; 36; 120; 63; 125] ++ [125; 125]
  ++ [123; 110; 97; 109; 101; 32; 58; 125; 62; 119; 36; 46; 42; 101; 32; 125] ++ [123; 125] ++ [123; 58; 125] ++ [120].
Proof. vm_compute. reflexivity. Qed.

(** the conclusion on it: [{name :}>w$.*e }] is argument [name] with the star reading argument 0, and the two
    implicit placeholders after it are arguments 1 and 2 *)
Example ex_items_placeholders :
  placeholders ascii_cc (render_items ex_items) =
  [ {| ph_arg := Positional 0; ph_mods := true; ph_trait := TrDebug |};
    {| ph_arg := Named [110; 97; 109; 101]; ph_mods := true; ph_trait := TrLowerExp |};
    {| ph_arg := Positional 1; ph_mods := false; ph_trait := TrDisplay |};
    {| ph_arg := Positional 2; ph_mods := false; ph_trait := TrDisplay |} ].
Proof. vm_compute. reflexivity. Qed.

Example ex_items_exact : format_string ascii_cc (render_items ex_items) = Some (formats_of ex_items).
Proof. vm_compute. reflexivity. Qed.

(** "{:}" followed by "<": the side condition of the grammar theorem is needed (the brace becomes a fill) *)
Example ex_blank_colon_needed :
  wf_items ascii_cc [IPh ex_p4; IText 60] = false /\ std_parse ascii_cc (render_items [IPh ex_p4; IText 60]) = None
  /\ format_string ascii_cc (render_items [IPh ex_p4; IText 60]) = None.
Proof. vm_compute. auto. Qed.

(** numbering: "{:.*} {} {0:.*} {}" - positions 1, 2, 0 (explicit), 4; the stars read arguments 0 and 3 *)
Definition ex_numbering : str := [123; 58; 46; 42; 125; 32; 123; 125; 32; 123; 48; 58; 46; 42; 125; 32; 123; 125].
Example ex_numbering_accepted :
  exists l, std_parse ascii_cc ex_numbering = Some l /\ no_empty_dot l /\
            map sa_pos l = [Positional 1; Positional 2; Positional 0; Positional 4] /\
            map sa_star l = [Some 0; None; Some 3; None].
Proof. eexists. split; [vm_compute; reflexivity|]. split; vm_compute; auto. Qed.

Example ex_numbering_dm :
  map ph_arg (placeholders ascii_cc ex_numbering) = [Positional 1; Positional 2; Positional 0; Positional 4].
Proof. vm_compute. reflexivity. Qed.

(** transparent delegation: "{x :?}" without arguments delegates to [Debug] of the binding [x] *)
Example ex_transparent :
  transparent_lit ascii_cc [123; 120; 32; 58; 63; 125] [] = Some (TSName [120], TrDebug).
Proof. vm_compute. reflexivity. Qed.

Example ex_transparent_std :
  exists a n', std_argument ascii_cc 0 [120; 32; 58; 63; 125] = Some (a, n', []) /\ sa_empty_dot a = false.
Proof. eexists _, _. split; vm_compute; reflexivity. Qed.

(** "{0}" with one aliased argument delegates, "{1}" never does *)
Example ex_transparent_index :
  transparent_lit ascii_cc [123; 48; 125] [Some [122]] = Some (TSArg0, TrDisplay) /\
  transparent_lit ascii_cc [123; 49; 125] [Some [122]] = None.
Proof. vm_compute. auto. Qed.

(** byte arithmetic on a string with 4-, 2- and 1-byte characters: "🦀éA", the rest being "A" *)
Example ex_bytes :
  blen [129408; 233; 65] = 7%nat /\ consumed_bytes [129408; 233; 65] [65] = Some [129408; 233] /\
  slice_to [129408; 233; 65] 5 = None /\ is_char_boundary [129408; 233; 65] 5 = false.
Proof. vm_compute. auto. Qed.

(** the general combinators on "ab}" with fuel 3 *)
Example ex_generic :
  identifier_g ascii_cc 3 [97; 98; 125] = Some ([125], [97; 98]) /\
  text_g 3 [97; 98; 125] = Some ([125], [97; 98]) /\
  integer_g 2 [48; 55] = Some ([], 7).
Proof. vm_compute. auto. Qed.

(** 2^64 overflows [usize], 2^64 - 1 does not *)
Example ex_overflow :
  integer ([49; 56; 52; 52; 54; 55; 52; 52; 48; 55; 51; 55; 48; 57; 53; 53; 49; 54; 49; 54] ++ [125]) = None /\
  integer ([49; 56; 52; 52; 54; 55; 52; 52; 48; 55; 51; 55; 48; 57; 53; 53; 49; 54; 49; 53] ++ [125])
    = Some ([125], usize_max).
Proof. vm_compute. auto. Qed.

(** "{r#a}" *)
Example ex_raw :
  std_parse ascii_cc [123; 114; 35; 97; 125] = None /\ placeholders ascii_cc [123; 114; 35; 97; 125] = [].
Proof. vm_compute. auto. Qed.

(** * one placeholder, anywhere: std's reading in closed form *)
Section OnePlaceholder.
Variable cc : CharClass.
Hypothesis Hok : CC_ok cc.

Lemma fmt_matches'_closed n f a n' :
  fmt_matches' n f a n' ->
  a = {| sa_pos := position_at n [] f; sa_spec := spec_of f; sa_star := star_at n [] f; sa_empty_dot := false |}
  /\ n' = n + advance f.
Proof.
  intros [[H1 [H2 H3]] [H4 H5]]. split.
  - destruct a as [p s st ed]. cbn [sa_pos sa_spec sa_star sa_empty_dot] in *. subst.
    unfold position_at, star_at. cbn [counter_after fold_left]. f_equal.
    destruct (f_arg f); [reflexivity|]. now rewrite if_add.
  - rewrite H3. unfold advance, implicit. destruct (f_arg f); destruct (is_star f); cbn [is_some negb]; lia.
Qed.

Theorem placeholder_agree curarg i a curarg' r :
  std_argument cc curarg i = Some (a, curarg', r) -> sa_empty_dot a = false ->
  exists f, format_p cc (c_lbrace :: i) = Some (r, f) /\
            a = {| sa_pos := position_at curarg [] f; sa_spec := spec_of f; sa_star := star_at curarg [] f;
                   sa_empty_dot := false |} /\
            curarg' = curarg + advance f.
Proof.
  intros H Hed. destruct (argument_agree' cc Hok _ _ _ _ _ H Hed) as [f [Hf Hm]].
  exists f. split; [exact Hf|]. now apply fmt_matches'_closed.
Qed.

End OnePlaceholder.
