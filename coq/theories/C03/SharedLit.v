(** Which arms of a Display-like expansion of an enum interpolate the enum-level ("shared") format literal:
    [Expansion::shared_attr_info] and the literal flow of [Expansion::generate_body]
    ([impl/src/fmt/display.rs:453-565]) together with [FmtAttribute::contains_arg] / [placeholders_by_arg]
    ([impl/src/fmt/mod.rs:284-323]).  An attribute is abstracted to what these functions read of it: the literal,
    and per argument its alias ([name = expr]) and [expr.ident()].  Variants are abstracted to "has a format of its
    own" (variants without one are taken with at most one field; with more the expander reports a diagnostic).
    No proofs in this file. *)
From Verif Require Export C03.Syntax C03.DmParse C03.Transparent.

Record sattr := { sl_lit : str; sl_args : list (option str * option str) }.   (* (alias, expr.ident()) *)

Definition trait_eqb (a b : trait) : bool :=
  match a, b with
  | TrDisplay, TrDisplay | TrDebug, TrDebug | TrOctal, TrOctal | TrLowerHex, TrLowerHex
  | TrUpperHex, TrUpperHex | TrPointer, TrPointer | TrBinary, TrBinary
  | TrLowerExp, TrLowerExp | TrUpperExp, TrUpperExp => true
  | _, _ => false
  end.

Definition variant_name : str := [95; 118; 97; 114; 105; 97; 110; 116].   (* "_variant" *)

Section Shared.
Variable cc : CharClass.

(** the identifier a placeholder stands for, [placeholders_by_arg] *)
Definition placeholder_ident (a : sattr) (p : placeholder) : option str :=
  match ph_arg p with
  | Named n =>
    match find (fun x => match fst x with Some al => str_eqb al n | None => false end) (sl_args a) with
    | Some x => snd x
    | None => Some n
    end
  | Positional i =>
    match nth_error (sl_args a) (N.to_nat i) with
    | Some (None, id) => id
    | _ => None
    end
  end.

(** [contains_arg] *)
Definition contains_arg (a : sattr) (name : str) : bool :=
  existsb (fun p => match placeholder_ident a p with Some m => str_eqb m name | None => false end)
          (placeholders cc (sl_lit a)).

Definition transparent_of (a : sattr) : option (tsel * trait) :=
  transparent_lit cc (sl_lit a) (map fst (sl_args a)).

(** [shared_attr_info]: (has_shared_attr, shared_attr_is_wrapping) *)
Definition shared_attr_info (shared : option sattr) (tr : trait) : bool * bool :=
  let contains_variant := match shared with Some a => contains_arg a variant_name | None => true end in
  let has_shared :=
    match shared with
    | None => false
    | Some a => match transparent_of a with
                | None => true
                | Some (_, called) => negb (trait_eqb called tr) || negb contains_variant
                end
    end in
  (has_shared, has_shared && contains_variant).

(** does the arm of a variant hand the shared literal to [write!]?  ([own]: the variant has a format of its own) *)
Definition shared_literal_reaches (shared : option sattr) (tr : trait) (own : bool) : bool :=
  let '(has_shared, wrapping) := shared_attr_info shared tr in
  let wrap_into_shared := if own then wrapping else has_shared in
  wrap_into_shared &&
  match shared with
  | Some a => match transparent_of a with None => true | Some _ => false end   (* shared_body is a delegation *)
  | None => false
  end.

End Shared.
