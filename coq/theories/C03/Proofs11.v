(** C03 proofs, part 11: the converse of the grammar theorem.  Every literal the std model accepts without
    an empty precision dot IS a derivation of the documented grammar (a rendering of well-formed abstract syntax).
    Together with [grammar_std]: the std model accepts exactly the documented std::fmt grammar plus the
    undocumented "precision dot followed by nothing" - which is the known finding. *)
From Verif Require Import C03.Syntax C03.DmParse C03.StdParse.
From Verif Require Import C03.Proofs1 C03.Proofs2 C03.Proofs3 C03.Proofs4 C03.Proofs6 C03.Proofs7 C03.Proofs9 C03.Render.
From Coq Require Import Arith.

Lemma consumed_skip_forall f i : forallb f (consumed i (skip_while f i)) = true.
Proof.
  destruct (skip_while_split f i) as [pre [H1 H2]]. rewrite H1 at 1. now rewrite consumed_app.
Qed.

Lemma std_integer_parse i n r :
  std_integer i = Some (Some n, r) -> exists ds, wf_num ds = true /\ i = ds ++ r /\ hd_is (fun h => True) ds.
Proof.
  unfold std_integer. destruct i as [|x i']; [discriminate|]. destruct (is_digit x) eqn:Hx; [|discriminate].
  cbv zeta. set (rest := skip_while is_digit (x :: i')). set (ds := consumed (x :: i') rest).
  destruct (N.leb_spec (digits_value ds) u16_max) as [Hle|]; [|discriminate].
  intros H. assert (r = rest) by congruence. subst r. exists ds.
  assert (E : x :: i' = ds ++ rest) by apply consumed_skip.
  assert (Hall : forallb is_digit ds = true) by apply consumed_skip_forall.
  assert (Hne : exists d ds', ds = d :: ds').
  { unfold ds, rest. rewrite (skip_while_go _ _ _ Hx). rewrite consumed_cons by apply skip_while_suf. eauto. }
  destruct Hne as [d [ds' Ed]]. split; [|split; [exact E|rewrite Ed; exact I]].
  unfold wf_num. rewrite Ed in *. rewrite Hall. apply N.leb_le in Hle. now rewrite Hle.
Qed.

Section Conv.
Variable cc : CharClass.
Hypothesis Hok : CC_ok cc.

Lemma std_word_parse i c w r :
  std_word cc i = Some (c :: w, r) -> wf_ident cc (c :: w) = true /\ i = (c :: w) ++ r.
Proof.
  intros H. apply (std_word_inv cc) in H as [E [[Hw _]|[c0 [i0 [-> [Hc [-> [Ew Hne]]]]]]]]; [discriminate|].
  split; [|exact E]. inversion Ew; subst. unfold wf_ident.
  change (N.eqb c0 c_underscore || xid_start cc c0) with (id_start cc c0). rewrite Hc.
  rewrite consumed_skip_forall. cbn [andb]. apply negb_true_iff. now apply str_eqb_false.
Qed.

Lemma std_position_parse i oa r :
  std_position cc i = Some (oa, r) ->
  exists osa, opt_all (wf_sarg cc) osa = true /\ i = opt_str render_arg osa ++ r.
Proof.
  unfold std_position. destruct (std_integer i) as [[[n|] r1]|] eqn:E; [| |discriminate].
  - intros H; inversion H; subst. apply std_integer_parse in E as [ds [H1 [H2 _]]].
    exists (Some (SInt ds)). auto.
  - apply (std_integer_none) in E as [-> _]. destruct i as [|c i'].
    { intros H; inversion H. exists None. auto. }
    destruct (id_start cc c) eqn:Hc.
    + destruct (std_word cc (c :: i')) as [[w r2]|] eqn:Ew; [|discriminate].
      destruct w as [|c1 w1].
      { apply (std_word_inv cc) in Ew as [_ [[_ [_ Hs]]|[c0 [i0 [_ [_ [_ [Ew' _]]]]]]]]; [congruence|discriminate]. }
      destruct (_ && _); [discriminate|]. intros H; inversion H; subst.
      apply std_word_parse in Ew as [H1 H2]. exists (Some (SIdent (c1 :: w1))). auto.
    + intros H; inversion H. exists None. auto.
Qed.

Lemma std_count_parse i oc r :
  std_count cc i = Some (oc, r) ->
  exists osc, opt_all (wf_scnt cc) osc = true /\ i = opt_str render_cnt osc ++ r.
Proof.
  unfold std_count. destruct (std_integer i) as [[[n|] r1]|] eqn:E; [| |discriminate].
  - apply std_integer_parse in E as [ds [H1 [H2 _]]]. destruct r1 as [|d r'].
    + intros H; inversion H; subst. exists (Some (SCInt ds)). auto.
    + destruct (N.eqb_spec d c_dollar) as [->|Hd]; intros H; inversion H; subst.
      * exists (Some (SCParam (SInt ds))). split; [exact H1|]. cbn [opt_str render_cnt render_arg].
        now rewrite <- app_assoc.
      * exists (Some (SCInt ds)). auto.
  - apply std_integer_none in E as [-> _].
    destruct (std_word cc i) as [[w r2]|] eqn:Ew; [|discriminate].
    destruct w as [|c w]. { intros H; inversion H. exists None. auto. }
    apply std_word_parse in Ew as [H1 H2].
    destruct r2 as [|d r']. { intros H; inversion H. exists None. auto. }
    destruct (N.eqb_spec d c_dollar) as [->|Hd]; intros H; inversion H; subst.
    + exists (Some (SCParam (SIdent (c :: w)))). split; [exact H1|]. cbn [opt_str render_cnt render_arg].
      now rewrite <- app_assoc.
    + exists None. auto.
Qed.

Lemma consume_inv c i r : consume c i = Some r -> i = c :: r.
Proof. rewrite consume_p_char. apply p_char_inv. Qed.

Lemma consume_none_hd c i : consume c i = None -> match i with h :: _ => h <> c | [] => True end.
Proof.
  unfold consume. destruct i as [|h t]; [trivial|]. destruct (N.eqb_spec h c); [discriminate|auto].
Qed.

Lemma wf_scnt_width c :
  wf_scnt cc c = true -> match render_cnt c with h :: _ => h <> c_zero | [] => True end ->
  wf_width cc false c = true.
Proof.
  destruct c as [ds|[ds|s]]; cbn [wf_scnt wf_sarg wf_width render_cnt render_arg orb]; intros H Hh.
  - rewrite H. cbn [andb]. destruct ds as [|h t]; [reflexivity|]. cbn [starts_with_zero app] in *.
    apply negb_true_iff, N.eqb_neq, Hh.
  - rewrite H. cbn [andb]. destruct ds as [|h t]; [reflexivity|]. cbn [starts_with_zero app] in *.
    apply orb_true_iff. left. apply negb_true_iff, N.eqb_neq, Hh.
  - exact H.
Qed.

Lemma wf_scnt_width_true c : wf_scnt cc c = true -> wf_width cc true c = true.
Proof.
  destruct c as [ds|[ds|s]]; cbn [wf_scnt wf_sarg wf_width orb]; intros H; rewrite ?H; reflexivity.
Qed.

Lemma std_zero_width_parse i zero w0 i4 width i5 :
  std_zero i = (zero, w0, i4) -> std_width cc w0 i4 = Some (width, i5) ->
  exists osw, opt_all (wf_width cc zero) osw = true /\
              i = (if zero then [c_zero] else []) ++ opt_str render_cnt osw ++ i5.
Proof.
  unfold std_zero. destruct (consume c_zero i) as [r1|] eqn:E1.
  - apply consume_inv in E1 as ->. destruct (consume c_dollar r1) as [r2|] eqn:E2.
    + apply consume_inv in E2 as ->. intros H; inversion H; subst. cbn [std_width].
      intros H2; inversion H2; subst. exists (Some (SCParam (SInt [c_zero]))). split; reflexivity.
    + intros H; inversion H; subst. unfold std_width. intros Hc.
      apply std_count_parse in Hc as [osc [H1 H2]]. exists osc. split; [|now rewrite H2].
      destruct osc as [c|]; [|reflexivity]. now apply wf_scnt_width_true.
  - intros H; inversion H; subst. unfold std_width. intros Hc.
    apply consume_none_hd in E1.
    apply std_count_parse in Hc as [osc [H1 H2]]. exists osc. split; [|exact H2].
    destruct osc as [c|]; [|reflexivity]. cbn [opt_all opt_str] in *. apply wf_scnt_width; [exact H1|].
    subst i4. destruct (render_cnt c) as [|h t]; [trivial|exact E1].
Qed.

Lemma std_count_some_len i c r : std_count cc i = Some (Some c, r) -> (length r < length i)%nat.
Proof.
  unfold std_count. destruct (std_integer i) as [[[k|] r3]|] eqn:Ei; [| |discriminate].
  - apply std_integer_parse in Ei as [ds [_ [Hd Hne]]]. destruct ds as [|d ds']; [contradiction|].
    subst i. rewrite app_length. cbn [length].
    destruct r3 as [|d3 r3']; [intros H; inversion H; subst; cbn; lia|].
    destruct (N.eqb d3 c_dollar); intros H; inversion H; subst; cbn [length]; lia.
  - destruct (std_word cc i) as [[[|c0 w0] r4]|] eqn:Ew; try discriminate.
    apply std_word_parse in Ew as [_ Hd]. destruct r4 as [|d4 r4']; [discriminate|].
    destruct (N.eqb d4 c_dollar); intros H; inversion H; subst.
    rewrite app_length. cbn [length]. lia.
Qed.

Lemma std_prec_parse n i pr n' r :
  std_prec cc n i = Some (pr, false, n', r) ->
  exists osp, opt_all (wf_sprec cc) osp = true /\ i = opt_str render_prec osp ++ r.
Proof.
  unfold std_prec. destruct (consume c_dot i) as [r1|] eqn:E1.
  - apply consume_inv in E1 as ->. destruct (consume c_star r1) as [r2|] eqn:E2.
    + apply consume_inv in E2 as ->. intros H; inversion H; subst. exists (Some SPStar). auto.
    + destruct (std_count cc r1) as [[[c|] r2]|] eqn:Ec; [| |discriminate].
      * intros H; inversion H; subst. pose proof (std_count_parse _ _ _ Ec) as [osc [H1 H2]].
        destruct osc as [sc|].
        -- exists (Some (SPCount sc)). split; [exact H1|]. cbn [opt_str render_prec]. now rewrite H2.
        -- (* the count parser returned a count, so it consumed something *)
           exfalso. cbn [opt_str app] in H2. subst r1. apply std_count_some_len in Ec. lia.
      * intros H; inversion H.
  - intros H; inversion H; subst. exists None. auto.
Qed.

Lemma std_type_parse i t r : std_type cc i = Some (t, r) -> i = render_ty t ++ r.
Proof.
  unfold std_type. destruct i as [|c i']. { intros H; inversion H. reflexivity. }
  destruct (N.eqb_spec c c_x) as [->|Hx].
  { destruct i' as [|q r']; [intros H; inversion H; reflexivity|].
    destruct (N.eqb_spec q c_quest) as [->|]; intros H; inversion H; subst; reflexivity. }
  destruct (N.eqb_spec c c_X) as [->|HX].
  { destruct i' as [|q r']; [intros H; inversion H; reflexivity|].
    destruct (N.eqb_spec q c_quest) as [->|]; intros H; inversion H; subst; reflexivity. }
  destruct (N.eqb_spec c c_quest) as [->|Hq].
  { destruct i' as [|n r']; [intros H; inversion H; reflexivity|].
    destruct (_ || _); [discriminate|]. intros H; inversion H. reflexivity. }
  destruct (std_word cc (c :: i')) as [[w r']|] eqn:Ew; [|discriminate].
  pose proof (std_word_inv cc _ _ _ Ew) as [E _].
  repeat (match goal with |- (if str_eqb ?a ?b then _ else _) = _ -> _ => destruct (str_eqb a b) eqn:?; [match goal with H : str_eqb _ _ = true |- _ => apply str_eqb_eq in H; subst w end|] end);
    try discriminate; intros H; inversion H; subst; exact E.
Qed.

Lemma std_fill_align_parse i al r :
  std_fill_align i = (al, r) ->
  i = render_align al ++ r /\ (al = None -> forall c a t, i = c :: a :: t -> is_align a = false).
Proof.
  assert (Hac : forall a, is_align a = true -> align_char (align_of a) = a).
  { intros a H. unfold is_align in H. apply orb_true_iff in H as [H|H]; [apply orb_true_iff in H as [H|H]|];
      apply N.eqb_eq in H; subst; reflexivity. }
  unfold std_fill_align. destruct i as [|c [|a t]].
  - intros H; inversion H. split; [reflexivity|]. intros _ ? ? ? E; discriminate.
  - destruct (is_align c) eqn:Hc; intros H; inversion H; subst.
    + split; [cbn [render_align app]; now rewrite Hac|]. discriminate.
    + split; [reflexivity|]. intros _ ? ? ? E; discriminate.
  - destruct (is_align a) eqn:Ha; cbv beta iota zeta; rewrite ?Ha.
    + intros H; inversion H; subst. split; [cbn [render_align app]; now rewrite Hac|]. discriminate.
    + destruct (is_align c) eqn:Hc; intros H; inversion H; subst.
      * split; [cbn [render_align app]; now rewrite Hac|]. discriminate.
      * split; [reflexivity|]. intros _ c' a' t' E. inversion E; subst. exact Ha.
Qed.

Lemma std_sign_parse i sg r : std_sign i = (sg, r) -> i = render_sign sg ++ r.
Proof.
  unfold std_sign. destruct i as [|c t]; [intros H; inversion H; reflexivity|].
  destruct (N.eqb_spec c c_plus) as [->|]; [intros H; inversion H; reflexivity|].
  destruct (N.eqb_spec c c_minus) as [->|]; intros H; inversion H; reflexivity.
Qed.

Lemma std_hash_parse i b r : std_hash i = (b, r) -> i = (if b then [c_hash] else []) ++ r.
Proof.
  unfold std_hash. destruct (consume c_hash i) as [r'|] eqn:E; intros H; inversion H; subst.
  - now apply consume_inv in E.
  - reflexivity.
Qed.

(** the [':' format_spec] part *)
Lemma std_format_parse n i sp n' r :
  std_format cc n i = Some (sp, false, n', r) ->
  exists oss, opt_all (wf_sspec cc) oss = true /\
              i = opt_str (fun s => c_colon :: render_spec s) oss ++ r /\
              (forall s, oss = Some s -> render_spec s = [] -> forall c a t, r = c :: a :: t -> is_align a = false).
Proof.
  rewrite (std_format_unfold cc). destruct (consume c_colon i) as [i0|] eqn:E0.
  2:{ intros H; inversion H; subst. exists None. repeat split; auto. intros s E; discriminate. }
  apply consume_inv in E0 as ->.
  destruct (std_fill_align i0) as [al i1] eqn:E1. apply std_fill_align_parse in E1 as [E1 Hal].
  destruct (std_sign i1) as [sg i2] eqn:E2. apply std_sign_parse in E2.
  destruct (std_hash i2) as [h i3] eqn:E3. apply std_hash_parse in E3.
  destruct (std_zero i3) as [[z w0] i4] eqn:E4.
  destruct (std_width cc w0 i4) as [[width i5]|] eqn:E5; [|discriminate].
  destruct (std_zero_width_parse _ _ _ _ _ _ E4 E5) as [osw [Hw E45]].
  destruct (std_prec cc n i5) as [[[[pr ed] n2] i6]|] eqn:E6; [|discriminate].
  destruct (std_type cc i6) as [[ty i7]|] eqn:E7; [|discriminate]. apply std_type_parse in E7.
  intros H. assert (ed = false /\ r = i7) as [-> ->] by (inversion H; auto).
  apply std_prec_parse in E6 as [osp [Hp E6]].
  set (s := {| ss_align := al; ss_sign := sg; ss_alt := h; ss_zero := z; ss_width := osw; ss_prec := osp; ss_ty := ty |}).
  assert (Ei0 : i0 = render_spec s ++ i7).
  { unfold render_spec, render_spec_tail, s. cbn [ss_align ss_sign ss_alt ss_zero ss_width ss_prec ss_ty].
    rewrite <- !app_assoc. rewrite <- E7, <- E6, <- E45, <- E3, <- E2. exact E1. }
  exists (Some s). split; [|split].
  - cbn [opt_all]. unfold wf_sspec, s. cbn [ss_zero ss_width ss_prec]. now rewrite Hw, Hp.
  - cbn [opt_str app]. now rewrite Ei0.
  - intros s0 Es0 Hblank c a t Er. inversion Es0; subst s0. rewrite Hblank in Ei0. cbn [app] in Ei0.
    assert (Hnone : al = None).
    { unfold render_spec, s in Hblank. cbn [ss_align] in Hblank. destruct al as [[[f|] a0]|]; try discriminate. reflexivity. }
    apply (Hal Hnone c a t). congruence.
Qed.

(** one placeholder *)
Lemma std_argument_parse n i a n' r :
  std_argument cc n i = Some (a, n', r) -> sa_empty_dot a = false ->
  exists p, wf_sformat cc p = true /\ i = render_body p ++ c_rbrace :: r /\
            (blank_colon p = true -> head_not_align r = true).
Proof.
  unfold std_argument.
  destruct (std_position cc i) as [[pos i1]|] eqn:E0; [|discriminate].
  destruct (std_format cc n (std_ws cc i1)) as [[[[sp ed] ca] i2]|] eqn:E1; [|discriminate].
  intros H Hed.
  assert (H' : ed = false /\ consume c_rbrace (std_ws cc i2) = Some r).
  { destruct pos as [[k|s]|]; destruct (consume c_rbrace (std_ws cc i2)) as [i3|]; try discriminate;
      inversion H; subst; cbn [sa_empty_dot] in Hed; auto. }
  destruct H' as [-> E3]. apply consume_inv in E3.
  apply std_position_parse in E0 as [osa [Ha E0]].
  apply std_format_parse in E1 as [oss [Hs [E1 Hbl]]].
  set (ws1 := consumed i1 (std_ws cc i1)). set (ws2 := consumed i2 (std_ws cc i2)).
  assert (W1 : i1 = ws1 ++ std_ws cc i1) by apply consumed_skip.
  assert (W2 : i2 = ws2 ++ std_ws cc i2) by apply consumed_skip.
  assert (F1 : forallb (is_ws cc) ws1 = true) by apply consumed_skip_forall.
  assert (F2 : forallb (is_ws cc) ws2 = true) by apply consumed_skip_forall.
  exists {| sf_arg := osa; sf_ws1 := ws1; sf_spec := oss; sf_ws2 := ws2 |}. split; [|split].
  - unfold wf_sformat. cbn [sf_arg sf_ws1 sf_spec sf_ws2]. now rewrite Ha, F1, Hs, F2.
  - unfold render_body. cbn [sf_arg sf_ws1 sf_spec sf_ws2]. rewrite <- !app_assoc.
    rewrite <- E3, <- W2, <- E1, <- W1. exact E0.
  - unfold blank_colon. cbn [sf_spec sf_ws2]. destruct oss as [s|]; [|discriminate].
    destruct (render_spec s ++ ws2) as [|x y] eqn:Eb; [|discriminate]. intros _.
    apply app_eq_nil in Eb as [Eb1 Eb2]. rewrite Eb2 in W2. cbn [app] in W2.
    destruct r as [|h t]; [reflexivity|]. cbn [head_not_align]. apply negb_true_iff.
    apply (Hbl s eq_refl Eb1 c_rbrace h t). rewrite W2. exact E3.
Qed.

(** whole literals *)
Lemma std_pieces_parse : forall fuel n i l,
  std_pieces cc fuel n i = Some l -> no_empty_dot l ->
  exists its, wf_items cc its = true /\ render_items its = i.
Proof.
  induction fuel as [|fuel IH]; intros n i l H Hned.
  - destruct i; [|discriminate]. exists []. auto.
  - destruct i as [|c r]. { exists []. auto. }
    rewrite std_pieces_unfold in H. destruct (N.eqb_spec c c_lbrace) as [->|Hl].
    + destruct r as [|c2 r2]; [discriminate|]. destruct (N.eqb_spec c2 c_lbrace) as [->|Hl2].
      * destruct (IH _ _ _ H Hned) as [its [H1 H2]]. exists (ILbrace :: its). split; [exact H1|].
        cbn [render_items render_item app]. now rewrite H2.
      * destruct (std_argument cc n (c2 :: r2)) as [[[a ca] rest]|] eqn:Ea; [|discriminate].
        destruct (std_pieces cc fuel ca rest) as [l'|] eqn:El; [|discriminate].
        inversion H; subst l. unfold no_empty_dot in Hned. cbn [forallb] in Hned.
        apply andb_true_iff in Hned as [Ha Hl']. apply negb_true_iff in Ha.
        destruct (std_argument_parse _ _ _ _ _ Ea Ha) as [p [Hp [Ep Hb]]].
        destruct (IH _ _ _ El Hl') as [its [H1 H2]]. exists (IPh p :: its). split.
        -- cbn [wf_items]. rewrite Hp, H1, H2. cbn [andb]. rewrite andb_true_r.
           destruct (blank_colon p); [|reflexivity]. cbn [negb orb]. now apply Hb.
        -- cbn [render_items render_item]. unfold render_format. cbn [app]. rewrite <- app_assoc. cbn [app].
           now rewrite H2, <- Ep.
    + destruct (N.eqb_spec c c_rbrace) as [->|Hr].
      * destruct r as [|c2 r2]; [discriminate|]. destruct (N.eqb_spec c2 c_rbrace) as [->|]; [|discriminate].
        destruct (IH _ _ _ H Hned) as [its [H1 H2]]. exists (IRbrace :: its). split; [exact H1|].
        cbn [render_items render_item app]. now rewrite H2.
      * destruct (IH _ _ _ H Hned) as [its [H1 H2]]. exists (IText c :: its). split.
        -- cbn [wf_items]. rewrite H1. unfold is_brace. apply N.eqb_neq in Hl, Hr. now rewrite Hl, Hr.
        -- cbn [render_items render_item app]. now rewrite H2.
Qed.

Theorem grammar_complete s l :
  std_parse cc s = Some l -> no_empty_dot l ->
  exists its, wf_items cc its = true /\ render_items its = s.
Proof. unfold std_parse. apply std_pieces_parse. Qed.

(** the std model accepts exactly the documented grammar plus the empty precision dot *)
Theorem std_language s :
  (exists l, std_parse cc s = Some l /\ no_empty_dot l) <->
  (exists its, wf_items cc its = true /\ render_items its = s).
Proof.
  split.
  - intros [l [H1 H2]]. eapply grammar_complete; eassumption.
  - intros [its [H1 <-]]. exists (expected_args 0 [] (formats_of its)). split.
    + now apply (grammar_std cc Hok).
    + apply expected_no_empty_dot.
Qed.

(** the known finding is exactly the gap between what rustc's parser accepts and the documented grammar *)
Theorem empty_dot_is_the_gap s l :
  std_parse cc s = Some l ->
  (no_empty_dot l <-> exists its, wf_items cc its = true /\ render_items its = s).
Proof.
  intros H. split.
  - intros Hn. eapply grammar_complete; eassumption.
  - intros [its [H1 H2]]. subst s. rewrite (grammar_std cc Hok its H1) in H. inversion H; subst.
    apply expected_no_empty_dot.
Qed.

End Conv.
