(** C03 proofs, part 3: whole-placeholder agreement (std accepts => derive_more agrees) and the
    top-level simulation. *)
From Verif Require Import C03.Syntax C03.DmParse C03.StdParse C03.Proofs1 C03.Proofs2.
From Coq Require Import Arith.

Definition no_empty_dot (l : list std_arg) : Prop :=
  forallb (fun a => negb (sa_empty_dot a)) l = true.
Definition spec_or_default (f : format) : spec :=
  match f_spec f with Some s => s | None => default_spec end.

(** what std makes of a derive_more [format] when the implicit counter is [n] *)
Definition fmt_matches (n : N) (f : format) (a : std_arg) (n' : N) : Prop :=
  sa_spec a = spec_or_default f /\
  sa_pos a = match f_arg f with
             | Some x => param_of_arg x
             | None => Positional (if is_star f then n + 1 else n)
             end /\
  n' = match f_arg f with
       | Some _ => if is_star f then n + 1 else n
       | None => (if is_star f then n + 1 else n) + 1
       end.

Fixpoint threads (n : N) (fs : list format) (l : list std_arg) : Prop :=
  match fs, l with
  | [], [] => True
  | f :: fs', a :: l' => exists n', fmt_matches n f a n' /\ threads n' fs' l'
  | _, _ => False
  end.

Lemma has_modifiers_spec f : has_modifiers f = spec_has_modifiers (spec_or_default f).
Proof. unfold has_modifiers, spec_or_default. destruct (f_spec f); reflexivity. Qed.

Lemma threads_placeholders : forall fs n l,
  threads n fs l -> placeholders_from n fs = map std_placeholder l.
Proof.
  induction fs as [|f fs IH]; intros n [|a l] H; cbn [threads] in H; try contradiction.
  - reflexivity.
  - destruct H as [n' [[H1 [H2 H3]] Ht]]. cbn [placeholders_from map].
    unfold std_placeholder at 1. rewrite H1, H2, <- has_modifiers_spec.
    replace (match f_spec f with Some s => sp_ty s | None => TDisplay end)
      with (sp_ty (spec_or_default f)) by (unfold spec_or_default; destruct (f_spec f); reflexivity).
    destruct (f_arg f) as [x|]; cbn [ph_arg]; rewrite <- (IH _ _ Ht), H3; reflexivity.
Qed.

Lemma threads_specs : forall fs n l,
  threads n fs l -> map spec_or_default fs = map sa_spec l.
Proof.
  induction fs as [|f fs IH]; intros n [|a l] H; cbn [threads] in H; try contradiction.
  - reflexivity.
  - destruct H as [n' [[H1 _] Ht]]. cbn [map]. rewrite H1. f_equal. eapply IH, Ht.
Qed.

Section Agree.
Variable cc : CharClass.
Hypothesis Hok : CC_ok cc.

Lemma closes_nil : ~ closes cc [].
Proof. intros [r' H]. discriminate. Qed.

Lemma type_agree i ty r :
  std_type cc i = Some (ty, r) -> closes cc r -> type_ cc i = Some (r, ty).
Proof.
  destruct i as [|c i'].
  { cbn. intros H; inversion H; subst. intros Hc. now apply closes_nil in Hc. }
  unfold std_type.
  destruct (N.eqb_spec c c_x) as [->|Hx].
  { destruct i' as [|q r']; [intros H; inversion H; subst; intros _; now apply type_x|].
    destruct (N.eqb_spec q c_quest) as [->|Hq]; intros H; inversion H; subst; intros _.
    - apply type_x_quest.
    - now apply type_x. }
  destruct (N.eqb_spec c c_X) as [->|HX].
  { destruct i' as [|q r']; [intros H; inversion H; subst; intros _; now apply type_X|].
    destruct (N.eqb_spec q c_quest) as [->|Hq]; intros H; inversion H; subst; intros _.
    - apply type_X_quest.
    - now apply type_X. }
  destruct (N.eqb_spec c c_quest) as [->|Hq].
  { destruct i' as [|n r']; [intros H; inversion H; subst; intros _; apply type_quest|].
    destruct (_ || _); [discriminate|]. intros H; inversion H; subst. intros _. apply type_quest. }
  destruct (std_word cc (c :: i')) as [[w r']|] eqn:Ew; [|discriminate].
  pose proof (std_word_inv cc _ _ _ Ew) as [Hsplit Hcases].
  destruct (str_eqb w []) eqn:E0.
  { apply str_eqb_eq in E0 as ->. intros H; inversion H; subst. intros Hcl.
    destruct Hcases as [[_ [-> Hns]]|[c0 [i0 [_ [_ [_ [Hw _]]]]]]]; [|discriminate].
    apply type_display; [exact Hcl|]. cbn [In]. intros Hin.
    assert (Hl : is_ascii_letter c = true).
    { destruct Hin as [<-|[<-|[<-|[<-|[<-|[<-|[<-|[<-|[]]]]]]]]]; try reflexivity; congruence. }
    apply (letter_idstart cc Hok) in Hl. congruence. }
  assert (Hone : forall d, w = [d] -> c = d /\ i' = r').
  { intros d ->. cbn [app] in Hsplit. inversion Hsplit; auto. }
  destruct (str_eqb w [c_o]) eqn:E1.
  { apply str_eqb_eq in E1. apply Hone in E1 as [-> ->]. intros H; inversion H; subst. intros _. apply type_o. }
  destruct (str_eqb w [c_p]) eqn:E2.
  { apply str_eqb_eq in E2. apply Hone in E2 as [-> ->]. intros H; inversion H; subst. intros _. apply type_p. }
  destruct (str_eqb w [c_b]) eqn:E3.
  { apply str_eqb_eq in E3. apply Hone in E3 as [-> ->]. intros H; inversion H; subst. intros _. apply type_b. }
  destruct (str_eqb w [c_e]) eqn:E4.
  { apply str_eqb_eq in E4. apply Hone in E4 as [-> ->]. intros H; inversion H; subst. intros _. apply type_e. }
  destruct (str_eqb w [c_E]) eqn:E5.
  { apply str_eqb_eq in E5. apply Hone in E5 as [-> ->]. intros H; inversion H; subst. intros _. apply type_E. }
  discriminate.
Qed.

Lemma format_agree curarg i sp curarg' r :
  std_format cc curarg i = Some (sp, false, curarg', r) -> closes cc r ->
  exists osp, colon_spec_p cc i = Some (r, osp) /\
              sp = match osp with Some s => s | None => default_spec end /\
              curarg' = match sp_prec sp with Some PStar => curarg + 1 | _ => curarg end.
Proof.
  rewrite std_format_unfold. change consume with p_char.
  destruct (p_char c_colon i) as [i0|] eqn:E0.
  2:{ intros H; inversion H; subst. intros _. exists None. repeat split.
      unfold colon_spec_p, map_or_else. now rewrite E0. }
  destruct (std_fill_align i0) as [al i1] eqn:E1.
  destruct (std_sign i1) as [sg i2] eqn:E2.
  destruct (std_hash i2) as [al_ i3] eqn:E3.
  destruct (std_zero i3) as [[zero w0] i4] eqn:E4.
  destruct (std_width cc w0 i4) as [[width i5]|] eqn:E5; [|discriminate].
  destruct (std_prec cc curarg i5) as [[[[pr edot] ca] i6]|] eqn:E6; [|discriminate].
  destruct (std_type cc i6) as [[ty i7]|] eqn:E7; [|discriminate].
  intros H; inversion H; subst. intros Hcl.
  assert (Hne : i5 <> []).
  { intros ->. cbn in E6. inversion E6; subst. cbn in E7. inversion E7; subst.
    now apply closes_nil in Hcl. }
  destruct (zero_width_agree cc Hok _ _ _ _ _ _ E4 E5 Hne) as [iz [oz [Hz [Hzo Hw]]]].
  apply (prec_agree cc Hok) in E6 as [Hp Hca].
  apply type_agree in E7; [|exact Hcl].
  eexists (Some _). split; [|split; [reflexivity|]].
  - unfold colon_spec_p, map_or_else, map_p. rewrite E0, format_spec_unfold.
    rewrite fill_align_agree, E1. cbn [fst snd]. rewrite sign_agree, E2. cbn [fst snd].
    rewrite hash_agree, E3. cbn [fst snd]. rewrite Hz, Hw, Hp, E7, Hzo.
    destruct al_; reflexivity.
  - cbn [sp_prec]. exact Hca.
Qed.

Lemma argument_agree curarg i a curarg' r :
  std_argument cc curarg i = Some (a, curarg', r) -> sa_empty_dot a = false ->
  exists f, format_p cc (c_lbrace :: i) = Some (r, f) /\ fmt_matches curarg f a curarg'.
Proof.
  unfold std_argument.
  destruct (std_position cc i) as [[pos i1]|] eqn:E0; [|discriminate].
  destruct (std_format cc curarg (std_ws cc i1)) as [[[[sp edot] ca] i2]|] eqn:E1; [|discriminate].
  change consume with p_char. change std_ws with ws in *.
  intros H Hed.
  assert (H' : exists p ca', (p, ca') = match pos with
            | Some (AInt n) => (Positional n, ca)
            | Some (AIdent s) => (Named s, ca)
            | None => (Positional ca, ca + 1) end /\
            match p_char c_rbrace (ws cc i2) with
            | Some i3 => Some ({| sa_pos := p; sa_spec := sp;
                         sa_star := match sp_prec sp with Some PStar => Some curarg | _ => None end;
                         sa_empty_dot := edot |}, ca', i3)
            | None => None end = Some (a, curarg', r)).
  { destruct pos as [[n|s]|]; eexists _, _; (split; [reflexivity|exact H]). }
  clear H. destruct H' as [p [ca' [Hp H]]].
  destruct (p_char c_rbrace (ws cc i2)) as [i3|] eqn:E2; [|discriminate].
  inversion H; subst. cbn [sa_empty_dot] in Hed. subst edot.
  assert (Hcl : closes cc i2) by (exists r; now apply p_char_inv in E2).
  destruct (format_agree _ _ _ _ _ E1 Hcl) as [osp [Hcs [Hsp Hca]]].
  apply (position_argument cc Hok) in E0.
  exists {| f_arg := pos; f_spec := osp |}. split.
  - rewrite format_p_unfold, p_char_eq, E0. fold (colon_spec_p cc). rewrite Hcs, E2. reflexivity.
  - unfold fmt_matches, spec_or_default, is_star. cbn [f_arg f_spec sa_spec sa_pos].
    split; [exact Hsp|].
    assert (Hstar : (if match osp with
                        | Some s => match sp_prec s with Some PStar => true | _ => false end
                        | None => false end then curarg + 1 else curarg) = ca).
    { rewrite Hca, Hsp. destruct osp as [s|]; [|reflexivity].
      destruct (sp_prec s) as [[c|]|]; reflexivity. }
    rewrite Hstar. destruct pos as [[n|s]|]; inversion Hp; subst; split; reflexivity.
Qed.

End Agree.

(** * the top-level loops *)
Section Top.
Variable cc : CharClass.
Hypothesis Hok : CC_ok cc.

Notation nonbrace := (fun c => negb (is_brace c)).

Lemma std_pieces_nil fuel curarg l : std_pieces cc fuel curarg [] = Some l -> l = [].
Proof. destruct fuel; cbn; intros H; inversion H; reflexivity. Qed.

Lemma std_pieces_unfold fuel curarg c r :
  std_pieces cc (S fuel) curarg (c :: r) =
    if N.eqb c c_lbrace then
      match r with
      | c2 :: r2 =>
        if N.eqb c2 c_lbrace then std_pieces cc fuel curarg r2
        else match std_argument cc curarg r with
             | None => None
             | Some (a, curarg', rest) =>
               match std_pieces cc fuel curarg' rest with
               | None => None
               | Some l => Some (a :: l)
               end
             end
      | [] => None
      end
    else if N.eqb c c_rbrace then
      match r with
      | c2 :: r2 => if N.eqb c2 c_rbrace then std_pieces cc fuel curarg r2 else None
      | [] => None
      end
    else std_pieces cc fuel curarg r.
Proof. reflexivity. Qed.

Lemma std_pieces_mono : forall fuel curarg i l,
  std_pieces cc fuel curarg i = Some l -> std_pieces cc (S fuel) curarg i = Some l.
Proof.
  induction fuel as [|fuel IH]; intros curarg i l.
  - destruct i as [|c r]; [cbn; auto|discriminate].
  - destruct i as [|c r]; [cbn; auto|].
    rewrite (std_pieces_unfold (S fuel)), (std_pieces_unfold fuel).
    destruct (N.eqb c c_lbrace).
    + destruct r as [|c2 r2]; [auto|]. destruct (N.eqb c2 c_lbrace); [apply IH|].
      destruct (std_argument cc curarg (c2 :: r2)) as [[[a ca] rest]|]; [|auto].
      destruct (std_pieces cc fuel ca rest) as [l'|] eqn:E; [|discriminate].
      now rewrite (IH _ _ _ E).
    + destruct (N.eqb c c_rbrace); [|apply IH].
      destruct r as [|c2 r2]; [auto|]. destruct (N.eqb c2 c_rbrace); [apply IH|auto].
Qed.

Lemma nonbrace_neq c : is_brace c = false -> N.eqb c c_lbrace = false /\ N.eqb c c_rbrace = false.
Proof. unfold is_brace. intros H. now apply orb_false_iff in H. Qed.

Lemma std_skip_text : forall r fuel curarg l,
  std_pieces cc fuel curarg r = Some l ->
  std_pieces cc fuel curarg (skip_while nonbrace r) = Some l.
Proof.
  induction r as [|x r IH]; intros fuel curarg l H; [exact H|].
  destruct (is_brace x) eqn:Hx.
  - rewrite skip_while_stop; [exact H|]. cbv beta. now rewrite Hx.
  - rewrite skip_while_go by (cbv beta; now rewrite Hx).
    destruct fuel as [|fuel]; [discriminate|]. rewrite std_pieces_unfold in H.
    destruct (nonbrace_neq _ Hx) as [H1 H2]. rewrite H1, H2 in H.
    apply std_pieces_mono. now apply IH.
Qed.

Lemma step_format c2 r2 rest f :
  c2 <> c_lbrace -> format_p cc (c_lbrace :: c2 :: r2) = Some (rest, f) ->
  step_p cc (c_lbrace :: c2 :: r2) = Some (rest, Some f).
Proof.
  intros Hc Hf. unfold step_p, alt, maybe_format, alt, map_p. cbn [find_map].
  apply N.eqb_neq in Hc. cbn [p_str]. change (N.eqb c_lbrace c_lbrace) with true.
  change (N.eqb c_lbrace c_rbrace) with false. cbv iota. rewrite Hc, Hf. reflexivity.
Qed.

Lemma scan_nil fuel : scan cc fuel [] [] = ([], []).
Proof. destruct fuel; reflexivity. Qed.

Lemma scan_sim : forall n i, (length i <= n)%nat ->
  forall fuel curarg l, std_pieces cc fuel curarg i = Some l -> no_empty_dot l ->
  forall fuel', (length i < fuel')%nat ->
  exists fos, scan cc fuel' i [] = ([], fos) /\ threads curarg (flatten_opts fos) l.
Proof.
  induction n as [|n IH]; intros i Hn fuel curarg l Hstd Hned fuel' Hf'.
  - destruct i; [|cbn in Hn; lia]. apply std_pieces_nil in Hstd as ->.
    exists []. split; [apply scan_nil|exact I].
  - destruct i as [|c r].
    { apply std_pieces_nil in Hstd as ->. exists []. split; [apply scan_nil|exact I]. }
    destruct fuel as [|fuel]; [discriminate|]. destruct fuel' as [|fuel']; [lia|].
    cbn [length] in Hn, Hf'. rewrite std_pieces_unfold in Hstd.
    destruct (N.eqb_spec c c_lbrace) as [->|Hl].
    + destruct r as [|c2 r2]; [discriminate|]. cbn [length] in Hn, Hf'.
      destruct (N.eqb_spec c2 c_lbrace) as [->|Hl2].
      * destruct (IH r2 ltac:(lia) _ _ _ Hstd Hned fuel' ltac:(lia)) as [fos [H1 H2]].
        exists (None :: fos). split; [|exact H2]. eapply scan_step; [apply step_lb|exact H1].
      * destruct (std_argument cc curarg (c2 :: r2)) as [[[a ca] rest]|] eqn:Ea; [|discriminate].
        destruct (std_pieces cc fuel ca rest) as [l'|] eqn:El; [|discriminate].
        inversion Hstd; subst l. unfold no_empty_dot in Hned. cbn [forallb] in Hned.
        apply andb_true_iff in Hned as [Ha Hl']. apply negb_true_iff in Ha.
        destruct (argument_agree cc Hok _ _ _ _ _ Ea Ha) as [f [Hf Hm]].
        pose proof (format_p_suf _ _ _ _ Hf) as [_ Hlen]. cbn [length] in Hlen.
        destruct (IH rest ltac:(lia) _ _ _ El Hl' fuel' ltac:(lia)) as [fos [H1 H2]].
        exists (Some f :: fos). split.
        -- eapply scan_step; [apply step_format; [exact Hl2|exact Hf]|exact H1].
        -- cbn [flatten_opts threads]. exists ca. split; assumption.
    + destruct (N.eqb_spec c c_rbrace) as [->|Hr].
      * destruct r as [|c2 r2]; [discriminate|]. cbn [length] in Hn, Hf'.
        destruct (N.eqb_spec c2 c_rbrace) as [->|Hr2]; [|discriminate].
        destruct (IH r2 ltac:(lia) _ _ _ Hstd Hned fuel' ltac:(lia)) as [fos [H1 H2]].
        exists (None :: fos). split; [|exact H2]. eapply scan_step; [apply step_rb|exact H1].
      * assert (Hb : is_brace c = false).
        { unfold is_brace. apply N.eqb_neq in Hl, Hr. now rewrite Hl, Hr. }
        apply std_skip_text in Hstd. pose proof (skip_while_len nonbrace r) as Hlen.
        destruct (IH (skip_while nonbrace r) ltac:(lia) _ _ _ Hstd Hned fuel' ltac:(lia))
          as [fos [H1 H2]].
        exists (None :: fos). split; [|exact H2].
        eapply scan_step; [apply step_text; exact Hb|exact H1].
Qed.

Lemma format_string_sim s l :
  std_parse cc s = Some l -> no_empty_dot l ->
  exists fs, format_string cc s = Some fs /\ threads 0 fs l.
Proof.
  unfold std_parse. intros Hstd Hned. unfold format_string, format_string_fuel.
  destruct (optional_result text s) as [i o] eqn:E.
  assert (Hi : std_pieces cc (S (length s)) 0 i = Some l /\ (length i <= length s)%nat).
  { apply optional_result_inv in E as [[x [_ E]]|[_ [-> _]]]; [|split; [exact Hstd|lia]].
    pose proof (text_suf _ _ _ E) as [_ Hl]. split; [|lia].
    apply text_inv in E as [c [i' [-> [Hc [-> _]]]]].
    apply std_skip_text. rewrite std_pieces_unfold in Hstd.
    destruct (nonbrace_neq _ Hc) as [H1 H2]. rewrite H1, H2 in Hstd. now apply std_pieces_mono. }
  destruct Hi as [Hi Hl].
  destruct (scan_sim (length i) i (le_n _) _ _ _ Hi Hned (S (length s)) ltac:(lia)) as [fos [H1 H2]].
  rewrite H1. exists (flatten_opts fos). split; [reflexivity|exact H2].
Qed.

Theorem placeholders_agree s l :
  std_parse cc s = Some l -> no_empty_dot l -> placeholders cc s = map std_placeholder l.
Proof.
  intros H1 H2. destruct (format_string_sim _ _ H1 H2) as [fs [Hf Ht]].
  unfold placeholders. rewrite Hf. now apply threads_placeholders.
Qed.

Theorem formats_agree s l :
  std_parse cc s = Some l -> no_empty_dot l ->
  exists fs, format_string cc s = Some fs /\ map spec_or_default fs = map sa_spec l.
Proof.
  intros H1 H2. destruct (format_string_sim _ _ H1 H2) as [fs [Hf Ht]].
  exists fs. split; [exact Hf|]. eapply threads_specs, Ht.
Qed.

End Top.
