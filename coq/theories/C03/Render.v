(** The std::fmt grammar as a *generator*: abstract source-level format strings (sequences of text,
    escapes and placeholders, every numeral given by its digits, white space explicit) and their
    concrete syntax; the closed form of the implicit positional counter; the arguments
    [format_args!] is expected to resolve.  Used to state that both parser models recover every
    derivation of the documented grammar
    [format := '{' [argument] ws* [':' format_spec] ws* '}'],
    [format_spec := [[fill]align][sign]['#']['0'][width]['.' precision]type].
    No proofs in this file. *)
From Verif Require Export C03.Syntax C03.DmParse C03.StdParse.

(** ** source-level syntax *)
Inductive sarg := SInt (ds : str) | SIdent (s : str).
Inductive scnt := SCInt (ds : str) | SCParam (a : sarg).
Inductive sprec := SPCount (c : scnt) | SPStar.

Record sspec := {
  ss_align : option (option N * align);      (* any fill character at all *)
  ss_sign : option sign;
  ss_alt : bool;
  ss_zero : bool;
  ss_width : option scnt;
  ss_prec : option sprec;
  ss_ty : fty
}.

Record sformat := {
  sf_arg : option sarg;
  sf_ws1 : str;                 (* white space after the argument *)
  sf_spec : option sspec;       (* [None]: no colon *)
  sf_ws2 : str                  (* white space before the closing brace *)
}.

Inductive item :=
| IText (c : N)                 (* one character of text *)
| ILbrace                       (* the escape "{{" *)
| IRbrace                       (* the escape "}}" *)
| IPh (p : sformat).

(** ** meaning *)
Definition sem_arg (a : sarg) : arg :=
  match a with SInt ds => AInt (digits_value ds) | SIdent s => AIdent s end.
Definition sem_cnt (c : scnt) : cnt :=
  match c with SCInt ds => CInt (digits_value ds) | SCParam a => CParam (sem_arg a) end.
Definition sem_prec (p : sprec) : prec :=
  match p with SPCount c => PCount (sem_cnt c) | SPStar => PStar end.
Definition sem_spec (s : sspec) : spec :=
  {| sp_align := ss_align s; sp_sign := ss_sign s; sp_alt := ss_alt s; sp_zero := ss_zero s;
     sp_width := option_map sem_cnt (ss_width s); sp_prec := option_map sem_prec (ss_prec s);
     sp_ty := ss_ty s |}.
Definition sem_format (p : sformat) : format :=
  {| f_arg := option_map sem_arg (sf_arg p); f_spec := option_map sem_spec (sf_spec p) |}.

Fixpoint formats_of (its : list item) : list format :=
  match its with
  | [] => []
  | IPh p :: r => sem_format p :: formats_of r
  | _ :: r => formats_of r
  end.

(** ** concrete syntax *)
Definition render_arg (a : sarg) : str := match a with SInt ds => ds | SIdent s => s end.
Definition render_cnt (c : scnt) : str :=
  match c with SCInt ds => ds | SCParam a => render_arg a ++ [c_dollar] end.
Definition render_prec (p : sprec) : str :=
  c_dot :: match p with SPCount c => render_cnt c | SPStar => [c_star] end.
Definition align_char (a : align) : N :=
  match a with ALeft => c_lt | ACenter => c_caret | ARight => c_gt end.
Definition render_align (al : option (option N * align)) : str :=
  match al with
  | None => []
  | Some (Some fill, a) => [fill; align_char a]
  | Some (None, a) => [align_char a]
  end.
Definition render_sign (s : option sign) : str :=
  match s with None => [] | Some SPlus => [c_plus] | Some SMinus => [c_minus] end.
Definition render_ty (t : fty) : str :=
  match t with
  | TDisplay => [] | TDebug => [c_quest] | TLowerDebug => [c_x; c_quest] | TUpperDebug => [c_X; c_quest]
  | TOctal => [c_o] | TLowerHex => [c_x] | TUpperHex => [c_X] | TPointer => [c_p] | TBinary => [c_b]
  | TLowerExp => [c_e] | TUpperExp => [c_E]
  end.
Definition opt_str {A} (f : A -> str) (o : option A) : str := match o with Some x => f x | None => [] end.

(** everything of a format_spec after the [[fill]align] part *)
Definition render_spec_tail (s : sspec) : str :=
  render_sign (ss_sign s) ++ (if ss_alt s then [c_hash] else []) ++ (if ss_zero s then [c_zero] else [])
  ++ opt_str render_cnt (ss_width s) ++ opt_str render_prec (ss_prec s) ++ render_ty (ss_ty s).
Definition render_spec (s : sspec) : str := render_align (ss_align s) ++ render_spec_tail s.

(** what stands between the opening and the closing brace *)
Definition render_body (p : sformat) : str :=
  opt_str render_arg (sf_arg p) ++ sf_ws1 p
  ++ opt_str (fun s => c_colon :: render_spec s) (sf_spec p) ++ sf_ws2 p.
Definition render_format (p : sformat) : str := c_lbrace :: render_body p ++ [c_rbrace].

Definition render_item (it : item) : str :=
  match it with
  | IText c => [c]
  | ILbrace => [c_lbrace; c_lbrace]
  | IRbrace => [c_rbrace; c_rbrace]
  | IPh p => render_format p
  end.
Fixpoint render_items (its : list item) : str :=
  match its with [] => [] | it :: r => render_item it ++ render_items r end.

(** ** well-formedness (the side conditions of the grammar) *)
Section Wf.
Variable cc : CharClass.

(** IDENTIFIER_OR_KEYWORD except the lone underscore *)
Definition wf_ident (s : str) : bool :=
  match s with
  | c :: w => (N.eqb c c_underscore || xid_start cc c) && forallb (xid_continue cc) w
              && negb (str_eqb s [c_underscore])
  | [] => false
  end.
(** a numeral [format_args!] can represent ([u16]); leading zeros allowed *)
Definition wf_num (ds : str) : bool :=
  match ds with [] => false | _ => forallb is_digit ds && (digits_value ds <=? u16_max) end.
Definition wf_sarg (a : sarg) : bool :=
  match a with SInt ds => wf_num ds | SIdent s => wf_ident s end.
Definition starts_with_zero (ds : str) : bool :=
  match ds with c :: _ => N.eqb c c_zero | [] => false end.
(** without the [0] flag a width cannot begin with the digit 0 (it would be the flag), except the
    parameter [0$] *)
Definition wf_width (zero : bool) (w : scnt) : bool :=
  match w with
  | SCInt ds => wf_num ds && (zero || negb (starts_with_zero ds))
  | SCParam (SInt ds) => wf_num ds && (zero || negb (starts_with_zero ds) || str_eqb ds [c_zero])
  | SCParam (SIdent s) => wf_ident s
  end.
Definition wf_scnt (c : scnt) : bool :=
  match c with SCInt ds => wf_num ds | SCParam a => wf_sarg a end.
Definition wf_sprec (p : sprec) : bool := match p with SPCount c => wf_scnt c | SPStar => true end.
Definition opt_all {A} (f : A -> bool) (o : option A) : bool := match o with Some x => f x | None => true end.
Definition wf_sspec (s : sspec) : bool :=
  opt_all (wf_width (ss_zero s)) (ss_width s) && opt_all wf_sprec (ss_prec s).
Definition wf_sformat (p : sformat) : bool :=
  opt_all wf_sarg (sf_arg p) && forallb (is_ws cc) (sf_ws1 p) && opt_all wf_sspec (sf_spec p)
  && forallb (is_ws cc) (sf_ws2 p).

(** [{:}] with nothing at all after the colon: a following [<], [^] or [>] would make the closing
    brace a fill character (for std and for derive_more alike), so such a placeholder must not be
    followed by one *)
Definition blank_colon (p : sformat) : bool :=
  match sf_spec p with
  | Some s => match render_spec s ++ sf_ws2 p with [] => true | _ => false end
  | None => false
  end.
Definition head_not_align (s : str) : bool :=
  match s with h :: _ => negb (is_align h) | [] => true end.

Fixpoint wf_items (its : list item) : bool :=
  match its with
  | [] => true
  | IText c :: r => negb (is_brace c) && wf_items r
  | ILbrace :: r | IRbrace :: r => wf_items r
  | IPh p :: r => wf_sformat p && (negb (blank_colon p) || head_not_align (render_items r)) && wf_items r
  end.

End Wf.

(** ** the implicit positional counter, in closed form *)
Definition implicit (f : format) : bool := negb (is_some (f_arg f)).
(** by how much one placeholder advances the counter: once for an implicit argument, once for [.*] *)
Definition advance (f : format) : N :=
  (if is_star f then 1 else 0) + (if implicit f then 1 else 0).
Definition counter_after (n : N) (fs : list format) : N := fold_left (fun n f => n + advance f) fs n.
(** the argument of a placeholder preceded by the placeholders [pre] *)
Definition position_at (n : N) (pre : list format) (f : format) : param :=
  match f_arg f with
  | Some a => param_of_arg a
  | None => Positional (counter_after n pre + (if is_star f then 1 else 0))
  end.
(** the argument its [.*] precision is read from *)
Definition star_at (n : N) (pre : list format) (f : format) : option N :=
  if is_star f then Some (counter_after n pre) else None.

Definition spec_of (f : format) : spec := match f_spec f with Some s => s | None => default_spec end.

(** what [format_args!] resolves a sequence of placeholders to, the counter starting at [n] *)
Fixpoint expected_args (n : N) (pre fs : list format) : list std_arg :=
  match fs with
  | [] => []
  | f :: r =>
    {| sa_pos := position_at n pre f; sa_spec := spec_of f; sa_star := star_at n pre f;
       sa_empty_dot := false |} :: expected_args n (pre ++ [f]) r
  end.
