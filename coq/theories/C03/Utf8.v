(** Byte-level view of the slicing arithmetic of [impl/src/fmt/parsing.rs].

    The parser models work on lists of scalar values; the Rust code works on [&str] and cuts with
    byte offsets: [&input[..(input.len() - rest.len())]] ([take_while0], [take_while1], [take_until1],
    [identifier]), [&input[c.len_utf8()..]] ([char], [check_char], [any_char], [take_any_char]) and
    [&input[s.len()..]] ([str]).  A slice panics when the offset is out of range or not on a char
    boundary.  This file gives those operations with [None] = panic, so that "never panics, and cuts
    exactly what the list model cuts" is a theorem (Proofs5.v) instead of a convention.
    No proofs in this file. *)
From Verif Require Export Base.Chars.

(** [char::len_utf8] *)
Definition len_utf8 (c : N) : nat :=
  if c <? 128 then 1 else if c <? 2048 then 2 else if c <? 65536 then 3 else 4.

(** [str::len] (bytes) *)
Fixpoint blen (s : str) : nat :=
  match s with [] => O | c :: r => (len_utf8 c + blen r)%nat end.

(** [&s[..k]]: [None] = panic (out of range, or [k] inside a character) *)
Fixpoint slice_to (s : str) (k : nat) : option str :=
  match k with
  | O => Some []
  | _ =>
    match s with
    | [] => None
    | c :: r =>
      if Nat.leb (len_utf8 c) k then
        match slice_to r (Nat.sub k (len_utf8 c)) with Some p => Some (c :: p) | None => None end
      else None
    end
  end.

(** [&s[k..]]: [None] = panic *)
Fixpoint slice_from (s : str) (k : nat) : option str :=
  match k with
  | O => Some s
  | _ =>
    match s with
    | [] => None
    | c :: r => if Nat.leb (len_utf8 c) k then slice_from r (Nat.sub k (len_utf8 c)) else None
    end
  end.

(** [usize] subtraction panics on underflow (overflow checks) or wraps to a huge offset (release): either way
    the slice that follows fails, so underflow is [None] as well. *)
Definition checked_sub (a b : nat) : option nat := if Nat.leb b a then Some (Nat.sub a b) else None.

(** [&input[..(input.len() - rest.len())]] *)
Definition consumed_bytes (input rest : str) : option str :=
  match checked_sub (blen input) (blen rest) with
  | Some k => slice_to input k
  | None => None
  end.

(** [str::is_char_boundary] *)
Fixpoint is_char_boundary (s : str) (k : nat) : bool :=
  match k with
  | O => true
  | _ => match s with
         | [] => false
         | c :: r => Nat.leb (len_utf8 c) k && is_char_boundary r (Nat.sub k (len_utf8 c))
         end
  end.
