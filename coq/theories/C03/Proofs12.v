(** C03 proofs, part 12: the second way for a literal never to reach [format_args!] - an enum-level format that
    no variant uses ([SharedLit.v]). *)
From Verif Require Import C03.Syntax C03.DmParse C03.StdParse C03.Transparent C03.SharedLit.

(** a literal derive_more's own parser cannot read has no placeholders, hence no [_variant], hence does not wrap: next
    to a variant with its own format it is dropped, whatever it is *)
Lemma unparsable_shared_dropped cc a tr :
  format_string cc (sl_lit a) = None -> shared_literal_reaches cc (Some a) tr true = false.
Proof.
  intros H. unfold shared_literal_reaches, shared_attr_info, contains_arg, placeholders. rewrite H.
  cbn [existsb]. rewrite andb_false_r. reflexivity.
Qed.

(** so "every literal std rejects reaches format_args! (or a diagnostic)" is false: witness [#[display("{")]] on an
    enum whose variants all have their own format *)
Definition ex_shared : sattr := {| sl_lit := [c_lbrace]; sl_args := [] |}.

Lemma unused_shared_literal_refuted :
  exists a tr, std_parse ascii_cc (sl_lit a) = None /\ shared_literal_reaches ascii_cc (Some a) tr true = false
               /\ shared_literal_reaches ascii_cc (Some a) tr false = true.
Proof. exists ex_shared, TrDisplay. repeat split; vm_compute; reflexivity. Qed.

(** "{_variant:70000}" is rejected by std as well (the width exceeds u16), but derive_more reads it, a variant's own
    format is wrapped into it, and so it does reach rustc *)
Definition ex_wrapping : sattr :=
  {| sl_lit := [123; 95; 118; 97; 114; 105; 97; 110; 116; 58; 55; 48; 48; 48; 48; 125]; sl_args := [] |}.
Example ex_wrapping_reaches :
  std_parse ascii_cc (sl_lit ex_wrapping) = None /\ shared_literal_reaches ascii_cc (Some ex_wrapping) TrLowerHex true = true.
Proof. vm_compute. auto. Qed.
