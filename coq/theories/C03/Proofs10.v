(** C03 proofs, part 10: derive_more's parser reads every derivation of the std::fmt grammar back as
    *exactly* the abstract syntax it was rendered from (explicit versus implicit argument, presence of
    the colon, every field of the spec), not only up to what [format_args!] observes. *)
From Verif Require Import C03.Syntax C03.DmParse C03.StdParse.
From Verif Require Import C03.Proofs1 C03.Proofs2 C03.Proofs3 C03.Proofs4 C03.Proofs6 C03.Proofs7 C03.Render.
From Coq Require Import Arith.

Section Exact.
Variable cc : CharClass.
Hypothesis Hok : CC_ok cc.

Notation nonbrace := (fun c => negb (is_brace c)).

Lemma colon_spec_colon R :
  colon_spec_p cc (c_colon :: R) =
  match format_spec cc R with Some (i, s) => Some (i, Some s) | None => None end.
Proof.
  unfold colon_spec_p, map_or_else, map_p. rewrite p_char_eq.
  destruct (format_spec cc R) as [[i s]|]; reflexivity.
Qed.

(** one placeholder, followed by anything *)
Lemma format_p_render p rest :
  wf_sformat cc p = true -> (blank_colon p = true -> head_not_align rest = true) ->
  format_p cc (render_format p ++ rest) = Some (rest, sem_format p).
Proof.
  intros Hwf0 Hblank. pose proof Hwf0 as Hwf. unfold wf_sformat in Hwf.
  apply andb_true_iff in Hwf as [Hwf Hws2]. apply andb_true_iff in Hwf as [Hwf Hsp].
  apply andb_true_iff in Hwf as [Harg Hws1].
  set (R7 := sf_ws2 p ++ c_rbrace :: rest).
  set (Y := opt_str (fun s => c_colon :: render_spec s) (sf_spec p) ++ R7).
  assert (E : render_format p ++ rest = c_lbrace :: opt_str render_arg (sf_arg p) ++ sf_ws1 p ++ Y).
  { unfold render_format, render_body, Y, R7. cbn [app]. now rewrite <- !app_assoc. }
  rewrite E. clear E.
  assert (H7 : hd_is (endc cc) R7) by now apply hd_R7.
  assert (HY : hd_is (stopc cc) Y).
  { unfold Y. destruct (sf_spec p) as [s|]; cbn [opt_str app hd_is]; [right; left; reflexivity|].
    eapply hd_is_impl; [|exact H7]. apply endc_stopc. }
  assert (HX : hd_is (stopc cc) (sf_ws1 p ++ Y)).
  { destruct (sf_ws1 p) as [|c w]; [exact HY|]. cbn [app hd_is forallb] in *.
    apply andb_true_iff in Hws1 as [H _]. now left. }
  rewrite format_p_unfold, p_char_eq.
  rewrite (position_argument cc Hok _ _ _ (std_position_render cc Hok _ _ Harg HX)).
  change (ws cc) with (std_ws cc). rewrite (std_ws_skip cc _ _ Hws1).
  assert (Hend : std_ws cc R7 = c_rbrace :: rest).
  { unfold R7. rewrite (std_ws_skip cc _ _ Hws2). apply std_ws_stop, (ws_rbrace_false cc Hok). }
  unfold Y. destruct (sf_spec p) as [s|] eqn:Es; cbn [opt_str app opt_all] in *.
  - rewrite std_ws_stop by apply (ws_colon_false cc Hok).
    assert (Hf : std_format cc 0 (c_colon :: render_spec s ++ R7) =
                 Some (sem_spec s, false, (if s_star s then 0 + 1 else 0), R7)).
    { unfold R7. apply (std_format_render cc Hok); try assumption.
      intros E0. apply Hblank. now apply (blank_colon_intro p s). }
    assert (Hcl : closes cc R7) by (exists rest; exact Hend).
    destruct (format_agree cc Hok _ _ _ _ _ Hf Hcl) as [osp [Hcs [Hsp' _]]].
    rewrite colon_spec_colon in Hcs. rewrite colon_spec_colon.
    destruct (format_spec cc (render_spec s ++ R7)) as [[i3 s']|]; [|discriminate].
    inversion Hcs; subst. rewrite Hend, p_char_eq.
    unfold sem_format. rewrite Es. cbn [option_map]. now rewrite Hsp'.
  - rewrite Hend. unfold colon_spec_p, map_or_else.
    change (p_char c_colon (c_rbrace :: rest)) with (@None str). cbv iota beta.
    rewrite std_ws_stop by apply (ws_rbrace_false cc Hok). rewrite p_char_eq.
    unfold sem_format. rewrite Es. reflexivity.
Qed.

(** leading text does not change what the loop finds *)
Lemma scan_skip : forall fuel s, (length s < fuel)%nat ->
  fst (scan cc fuel (skip_while nonbrace s) []) = fst (scan cc fuel s []) /\
  flatten_opts (snd (scan cc fuel (skip_while nonbrace s) [])) = flatten_opts (snd (scan cc fuel s [])).
Proof.
  intros fuel s Hl. destruct s as [|c s']; [auto|].
  destruct (is_brace c) eqn:Hc.
  - rewrite skip_while_stop by (cbv beta; now rewrite Hc). auto.
  - rewrite skip_while_go by (cbv beta; now rewrite Hc).
    destruct fuel as [|n]; [lia|]. cbn [length] in Hl.
    rewrite (scan_unfold cc n (c :: s')), (step_text cc _ _ Hc).
    rewrite (scan_acc cc n _ [None]). cbn [fst snd rev app flatten_opts].
    pose proof (skip_while_len nonbrace s') as Hl'.
    rewrite (scan_fuel cc (S n) _ [] n) by lia. auto.
Qed.

Lemma scan_render : forall its fuel,
  wf_items cc its = true -> (length (render_items its) < fuel)%nat ->
  fst (scan cc fuel (render_items its) []) = [] /\
  flatten_opts (snd (scan cc fuel (render_items its) [])) = formats_of its.
Proof.
  induction its as [|it its IH]; intros fuel Hwf Hlen.
  - destruct fuel; cbn; auto.
  - destruct fuel as [|fuel]; [lia|].
    destruct it as [c| | |p]; cbn [wf_items render_items render_item formats_of app] in *.
    + apply andb_true_iff in Hwf as [Hc Hwf]. apply negb_true_iff in Hc. cbn [length] in Hlen.
      rewrite scan_unfold, (step_text cc _ _ Hc), (scan_acc cc fuel _ [None]).
      cbn [fst snd rev app flatten_opts].
      destruct (scan_skip fuel (render_items its) ltac:(lia)) as [E1 E2]. rewrite E1, E2.
      apply IH; [exact Hwf|lia].
    + cbn [length] in Hlen. rewrite scan_unfold, step_lb, (scan_acc cc fuel _ [None]).
      cbn [fst snd rev app flatten_opts]. apply IH; [exact Hwf|lia].
    + cbn [length] in Hlen. rewrite scan_unfold, step_rb, (scan_acc cc fuel _ [None]).
      cbn [fst snd rev app flatten_opts]. apply IH; [exact Hwf|lia].
    + apply andb_true_iff in Hwf as [Hwf Hr]. apply andb_true_iff in Hwf as [Hp Hb].
      assert (Hblank : blank_colon p = true -> head_not_align (render_items its) = true).
      { intros E. rewrite E in Hb. exact Hb. }
      pose proof (format_p_render p (render_items its) Hp Hblank) as Hf.
      pose proof (body_head cc Hok p (render_items its) Hp) as Hh.
      assert (Hl : (length (render_items its) < fuel)%nat).
      { unfold render_format in Hlen. cbn [app length] in Hlen. rewrite !app_length in Hlen. cbn [length] in Hlen. lia. }
      assert (Hstep : step_p cc (render_format p ++ render_items its) = Some (render_items its, Some (sem_format p))).
      { unfold render_format in *. cbn [app] in *. rewrite <- app_assoc in *. cbn [app] in *.
        destruct (render_body p ++ c_rbrace :: render_items its) as [|c2 r2]; [contradiction|].
        cbn [hd_is] in Hh. now apply step_format. }
      rewrite scan_unfold, Hstep, (scan_acc cc fuel _ [Some (sem_format p)]).
      cbn [fst snd rev app flatten_opts]. destruct (IH fuel Hr Hl) as [E1 E2]. now rewrite E1, E2.
Qed.

Lemma optional_text_skip s : fst (optional_result text s) = skip_while nonbrace s.
Proof.
  unfold optional_result, text, take_until1_text. destruct s as [|c s']; [reflexivity|].
  destruct (is_brace c) eqn:Hc.
  - cbn [fst]. symmetry. apply skip_while_stop. cbv beta. now rewrite Hc.
  - cbn [fst]. symmetry. apply skip_while_go. cbv beta. now rewrite Hc.
Qed.

(** derive_more's parser inverts the renderer *)
Theorem grammar_dm_exact its :
  wf_items cc its = true -> format_string cc (render_items its) = Some (formats_of its).
Proof.
  intros Hwf. unfold format_string, format_string_fuel.
  pose proof (optional_text_skip (render_items its)) as Ht.
  destruct (optional_result text (render_items its)) as [i o]. cbn [fst] in Ht. subst i.
  destruct (scan_skip (S (length (render_items its))) (render_items its) ltac:(lia)) as [E1 E2].
  destruct (scan_render its (S (length (render_items its))) Hwf ltac:(lia)) as [E3 E4].
  destruct (scan cc (S (length (render_items its))) (skip_while nonbrace (render_items its)) []) as [rest fos].
  cbn [fst snd] in *. rewrite E1, E3. now rewrite E2, E4.
Qed.

End Exact.
