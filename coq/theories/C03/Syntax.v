(** Abstract syntax shared by the derive_more-side and the std-side models of the
    format-literal parsers (mirrors [impl/src/fmt/parsing.rs] output types). *)
From Verif Require Export Base.Chars.

Inductive arg := AInt (n : N) | AIdent (s : str).
Inductive cnt := CInt (n : N) | CParam (a : arg).
Inductive prec := PCount (c : cnt) | PStar.
Inductive align := ALeft | ACenter | ARight.
Inductive sign := SPlus | SMinus.
Inductive fty :=
  TDisplay | TDebug | TLowerDebug | TUpperDebug | TOctal | TLowerHex | TUpperHex
| TPointer | TBinary | TLowerExp | TUpperExp.

Record spec := {
  sp_align : option (option N * align);
  sp_sign : option sign;
  sp_alt : bool;
  sp_zero : bool;
  sp_width : option cnt;
  sp_prec : option prec;
  sp_ty : fty
}.

Record format := { f_arg : option arg; f_spec : option spec }.

Definition default_spec : spec :=
  {| sp_align := None; sp_sign := None; sp_alt := false; sp_zero := false;
     sp_width := None; sp_prec := None; sp_ty := TDisplay |}.

(** Formatting traits, as named by [Type::trait_name] *)
Inductive trait :=
  TrDisplay | TrDebug | TrOctal | TrLowerHex | TrUpperHex | TrPointer | TrBinary
| TrLowerExp | TrUpperExp.

Definition trait_name (t : fty) : trait :=
  match t with
  | TDisplay => TrDisplay
  | TDebug | TLowerDebug | TUpperDebug => TrDebug
  | TOctal => TrOctal | TLowerHex => TrLowerHex | TUpperHex => TrUpperHex
  | TPointer => TrPointer | TBinary => TrBinary
  | TLowerExp => TrLowerExp | TUpperExp => TrUpperExp
  end.

Definition is_trivial (t : fty) : bool :=
  match t with TLowerDebug | TUpperDebug => false | _ => true end.

Definition is_some {A} (o : option A) : bool := match o with Some _ => true | None => false end.

(** [has_modifiers] of [Placeholder::parse_fmt_string] / condition (2) of [transparent_call] *)
Definition spec_has_modifiers (s : spec) : bool :=
  is_some (sp_align s) || is_some (sp_sign s) || sp_alt s || sp_zero s
  || is_some (sp_width s) || is_some (sp_prec s) || negb (is_trivial (sp_ty s)).

Definition has_modifiers (f : format) : bool :=
  match f_spec f with Some s => spec_has_modifiers s | None => false end.

(** A placeholder as both sides see it *)
Inductive param := Positional (n : N) | Named (s : str).
Record placeholder := { ph_arg : param; ph_mods : bool; ph_trait : trait }.
