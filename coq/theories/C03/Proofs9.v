(** C03 proofs, part 9: the std model is fuel-independent too (its [Iterator::next] loop consumes at least one
    character per step, every sub-parser of it returns a suffix of its input), so the fuel [S (length s)] of
    [std_parse] never causes a rejection. *)
From Verif Require Import C03.Syntax C03.DmParse C03.StdParse C03.Proofs1 C03.Proofs2 C03.Proofs3.
From Coq Require Import Arith.

Lemma consume_suf c i r : consume c i = Some r -> suf r i /\ (length r < length i)%nat.
Proof. rewrite consume_p_char. intros H. apply p_char_inv in H as ->. split; [apply suf_tl|cbn; lia]. Qed.

Lemma std_integer_suf i o r : std_integer i = Some (o, r) -> suf r i.
Proof.
  unfold std_integer. destruct i as [|x i']. { intros H; inversion H. apply suf_refl. }
  destruct (is_digit x).
  - cbv zeta. destruct (_ <=? u16_max); [|discriminate]. intros H.
    assert (E : r = skip_while is_digit (x :: i')) by congruence. subst r. apply skip_while_suf.
  - intros H; inversion H. apply suf_refl.
Qed.

Section StdSuf.
Variable cc : CharClass.

Lemma std_word_suf i w r : std_word cc i = Some (w, r) -> suf r i.
Proof. intros H. apply (std_word_inv cc) in H as [-> _]. now exists w. Qed.

Lemma std_position_suf i o r : std_position cc i = Some (o, r) -> suf r i.
Proof.
  unfold std_position. destruct (std_integer i) as [[[n|] r1]|] eqn:E; [| |discriminate].
  - intros H; inversion H; subst. now apply std_integer_suf in E.
  - destruct i as [|c i']. { intros H; inversion H. apply suf_refl. }
    destruct (id_start cc c).
    + destruct (std_word cc (c :: i')) as [[w r2]|] eqn:Ew; [|discriminate].
      destruct (_ && _); [discriminate|]. intros H; inversion H; subst. now apply std_word_suf in Ew.
    + intros H; inversion H. apply suf_refl.
Qed.

Lemma std_count_suf i o r : std_count cc i = Some (o, r) -> suf r i.
Proof.
  unfold std_count. destruct (std_integer i) as [[[n|] r1]|] eqn:E; [| |discriminate].
  - apply std_integer_suf in E. destruct r1 as [|d r'].
    + intros H; inversion H; subst. exact E.
    + destruct (N.eqb d c_dollar); intros H; inversion H; subst; [|exact E].
      eapply suf_trans; [apply suf_tl|exact E].
  - destruct (std_word cc i) as [[w r2]|] eqn:Ew; [|discriminate]. apply std_word_suf in Ew.
    destruct w as [|c w]. { intros H; inversion H. apply suf_refl. }
    destruct r2 as [|d r']. { intros H; inversion H. apply suf_refl. }
    destruct (N.eqb d c_dollar); intros H; inversion H; subst; [|apply suf_refl].
    eapply suf_trans; [apply suf_tl|exact Ew].
Qed.

Lemma std_type_suf i t r : std_type cc i = Some (t, r) -> suf r i.
Proof.
  unfold std_type. destruct i as [|c i']. { intros H; inversion H. apply suf_refl. }
  destruct (N.eqb c c_x).
  { destruct i' as [|q r']; [intros H; inversion H; apply suf_tl|].
    destruct (N.eqb q c_quest); intros H; inversion H; subst; [|apply suf_tl].
    eapply suf_trans; apply suf_tl. }
  destruct (N.eqb c c_X).
  { destruct i' as [|q r']; [intros H; inversion H; apply suf_tl|].
    destruct (N.eqb q c_quest); intros H; inversion H; subst; [|apply suf_tl].
    eapply suf_trans; apply suf_tl. }
  destruct (N.eqb c c_quest).
  { destruct i' as [|n r']; [intros H; inversion H; apply suf_tl|].
    destruct (_ || _); [discriminate|]. intros H; inversion H. apply suf_tl. }
  destruct (std_word cc (c :: i')) as [[w r']|] eqn:Ew; [|discriminate]. apply std_word_suf in Ew.
  repeat (match goal with |- (if ?b then _ else _) = _ -> _ => destruct b end);
    try discriminate; intros H; inversion H; subst; exact Ew.
Qed.

Lemma std_fill_align_suf i x r : std_fill_align i = (x, r) -> suf r i.
Proof.
  unfold std_fill_align. destruct i as [|c [|a t]].
  - intros H; inversion H. apply suf_refl.
  - destruct (is_align c); intros H; inversion H; [apply suf_tl|apply suf_refl].
  - destruct (is_align a) eqn:Ha; cbv beta iota zeta; rewrite ?Ha.
    + intros H; inversion H. eapply suf_trans; apply suf_tl.
    + destruct (is_align c); intros H; inversion H; [apply suf_tl|apply suf_refl].
Qed.

Lemma std_sign_suf i x r : std_sign i = (x, r) -> suf r i.
Proof.
  unfold std_sign. destruct i as [|c t]; [intros H; inversion H; apply suf_refl|].
  destruct (N.eqb c c_plus); [intros H; inversion H; apply suf_tl|].
  destruct (N.eqb c c_minus); intros H; inversion H; [apply suf_tl|apply suf_refl].
Qed.

Lemma std_hash_suf i x r : std_hash i = (x, r) -> suf r i.
Proof.
  unfold std_hash. destruct (consume c_hash i) as [r'|] eqn:E; intros H; inversion H; subst.
  - now apply consume_suf in E.
  - apply suf_refl.
Qed.

Lemma std_zero_suf i z w r : std_zero i = (z, w, r) -> suf r i.
Proof.
  unfold std_zero. destruct (consume c_zero i) as [r1|] eqn:E1.
  - apply consume_suf in E1 as [E1 _]. destruct (consume c_dollar r1) as [r2|] eqn:E2; intros H; inversion H; subst.
    + apply consume_suf in E2 as [E2 _]. eapply suf_trans; eassumption.
    + exact E1.
  - intros H; inversion H. apply suf_refl.
Qed.

Lemma std_format_suf n i sp ed n' r : std_format cc n i = Some (sp, ed, n', r) -> suf r i.
Proof.
  rewrite (std_format_unfold cc). destruct (consume c_colon i) as [i0|] eqn:E0.
  2:{ intros H; inversion H. apply suf_refl. }
  apply consume_suf in E0 as [E0 _].
  destruct (std_fill_align i0) as [al i1] eqn:E1. apply std_fill_align_suf in E1.
  destruct (std_sign i1) as [sg i2] eqn:E2. apply std_sign_suf in E2.
  destruct (std_hash i2) as [h i3] eqn:E3. apply std_hash_suf in E3.
  destruct (std_zero i3) as [[z w0] i4] eqn:E4. apply std_zero_suf in E4.
  destruct (std_width cc w0 i4) as [[width i5]|] eqn:E5; [|discriminate].
  assert (S5 : suf i5 i4).
  { unfold std_width in E5. destruct w0; [inversion E5; apply suf_refl|now apply std_count_suf in E5]. }
  destruct (std_prec cc n i5) as [[[[pr ed'] n2] i6]|] eqn:E6; [|discriminate].
  assert (S6 : suf i6 i5).
  { unfold std_prec in E6. destruct (consume c_dot i5) as [r1|] eqn:Ed; [|inversion E6; apply suf_refl].
    apply consume_suf in Ed as [Ed _]. destruct (consume c_star r1) as [r2|] eqn:Es.
    - apply consume_suf in Es as [Es _]. inversion E6; subst. eapply suf_trans; eassumption.
    - destruct (std_count cc r1) as [[[c|] r2]|] eqn:Ec; [| |discriminate];
        apply std_count_suf in Ec; inversion E6; subst; eapply suf_trans; eassumption. }
  destruct (std_type cc i6) as [[ty i7]|] eqn:E7; [|discriminate]. apply std_type_suf in E7.
  intros H; inversion H; subst.
  repeat (eapply suf_trans; [eassumption|]). apply suf_refl.
Qed.

Lemma std_argument_len n i a n' r : std_argument cc n i = Some (a, n', r) -> suf r i /\ (length r < length i)%nat.
Proof.
  unfold std_argument.
  destruct (std_position cc i) as [[pos i1]|] eqn:E0; [|discriminate]. apply std_position_suf in E0.
  destruct (std_format cc n (std_ws cc i1)) as [[[[sp ed] ca] i2]|] eqn:E1; [|discriminate].
  apply std_format_suf in E1.
  assert (W1 : suf (std_ws cc i1) i1) by apply skip_while_suf.
  assert (W2 : suf (std_ws cc i2) i2) by apply skip_while_suf.
  intros H.
  assert (H' : exists i3, consume c_rbrace (std_ws cc i2) = Some i3 /\ r = i3).
  { destruct pos as [[k|s]|]; destruct (consume c_rbrace (std_ws cc i2)) as [i3|]; try discriminate;
      inversion H; subst; eauto. }
  destruct H' as [i3 [E3 ->]]. apply consume_suf in E3 as [E3 L3].
  assert (S : suf (std_ws cc i2) i) by (repeat (eapply suf_trans; [eassumption|]); apply suf_refl).
  split; [eapply suf_trans; eassumption|]. apply suf_len in S. lia.
Qed.

(** fuel beyond the length of the input changes nothing, acceptance or rejection *)
Lemma std_pieces_fuel : forall n i curarg m,
  (length i < n)%nat -> (length i < m)%nat -> std_pieces cc n curarg i = std_pieces cc m curarg i.
Proof.
  induction n as [|n IH]; intros i curarg m Hn Hm; [lia|]. destruct m as [|m]; [lia|].
  destruct i as [|c r]; [reflexivity|]. cbn [length] in Hn, Hm. rewrite !std_pieces_unfold.
  destruct (N.eqb c c_lbrace).
  - destruct r as [|c2 r2]; [reflexivity|]. cbn [length] in Hn, Hm.
    destruct (N.eqb c2 c_lbrace); [apply IH; lia|].
    destruct (std_argument cc curarg (c2 :: r2)) as [[[a ca] rest]|] eqn:Ea; [|reflexivity].
    apply std_argument_len in Ea as [_ Hl]. cbn [length] in Hl. rewrite (IH rest ca m) by lia. reflexivity.
  - destruct (N.eqb c c_rbrace); [|apply IH; lia].
    destruct r as [|c2 r2]; [reflexivity|]. cbn [length] in Hn, Hm.
    destruct (N.eqb c2 c_rbrace); [apply IH; lia|reflexivity].
Qed.

Theorem std_parse_fuel s n : (length s < n)%nat -> std_pieces cc n 0 s = std_parse cc s.
Proof. intros H. unfold std_parse. apply std_pieces_fuel; lia. Qed.

End StdSuf.
