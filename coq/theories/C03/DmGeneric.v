(** The looping combinators of [impl/src/fmt/parsing.rs] in their general form.

    [DmParse.v] models [take_while0], [take_while1] and [take_until1] only at the instances the grammar
    uses (a [check_char] predicate; [any_char] until [one_of("{}")]), as structural spans.  Here they
    are transcribed for an arbitrary argument parser, loops on explicit fuel (a parser that succeeds
    without consuming would loop forever in the Rust code; with fuel the model returns the current
    position).  [identifier_g], [integer_g], [text_g] are the literal transcriptions of the three
    grammar functions built from them; Proofs5.v proves that they coincide with the specialised
    definitions of [DmParse.v] as soon as the fuel is at least the length of the input, and c03.py
    runs the general forms against the real combinators at other instances.
    No proofs in this file. *)
From Verif Require Export C03.DmParse.

(** [while let Some(step) = parser(cur) { cur = step; }]  (lines 619-621, 633-635) *)
Fixpoint while_some (p : uparser) (fuel : nat) (cur : str) : str :=
  match fuel with
  | O => cur
  | S n => match p cur with Some step => while_some p n step | None => cur end
  end.

(** [take_while0] (lines 614-624) *)
Definition take_while0_g (p : uparser) (fuel : nat) : str -> str * str :=
  fun input => let cur := while_some p fuel input in (cur, consumed input cur).

(** [take_while1] (lines 628-638) *)
Definition take_while1_g (p : uparser) (fuel : nat) : parser str :=
  fun input => match p input with
               | None => None
               | Some c0 => let cur := while_some p fuel c0 in Some (cur, consumed input cur)
               end.

(** the [loop] of [take_until1] (lines 654-662) *)
Fixpoint until_loop (basic until : uparser) (fuel : nat) (cur : str) : str :=
  match fuel with
  | O => cur
  | S n =>
    match until cur with
    | Some _ => cur
    | None => match basic cur with
              | None => cur
              | Some b => until_loop basic until n b
              end
    end
  end.

(** [take_until1] (lines 645-666) *)
Definition take_until1_g (basic until : uparser) (fuel : nat) : parser str :=
  fun input =>
    match until input with
    | Some _ => None
    | None =>
      match basic input with
      | None => None
      | Some c0 => let cur := until_loop basic until fuel c0 in Some (cur, consumed input cur)
      end
    end.

Section Gen.
Variable cc : CharClass.

(** [text] (line 547-549): [take_until1(any_char, one_of("{}"))] *)
Definition text_g (fuel : nat) : parser str :=
  take_until1_g any_char (one_of [c_lbrace; c_rbrace]) fuel.

(** [identifier] (lines 521-532) *)
Definition identifier_g (fuel : nat) : parser str :=
  fun input =>
    map_p
      (alt [ map_p (check_char (xid_start cc)) (take_while0_g (check_char (xid_continue cc)) fuel);
             and_then (p_char c_underscore) (take_while1_g (check_char (xid_continue cc)) fuel) ])
      (fun '(i, _) => (i, consumed input i)) input.

(** [integer] (lines 537-542); [str::parse::<usize>] on a non-empty all-digit string *)
Definition integer_g (fuel : nat) : parser N :=
  and_then (take_while1_g (check_char is_digit) fuel)
           (fun '(i, ds) => let v := digits_value ds in
                            if v <=? usize_max then Some (i, v) else None).

End Gen.
