(** C03 proofs, part 6: the implicit positional counter in closed form (derive_more's
    [Placeholder::parse_fmt_string] and std's [curarg], including what a [.*] precision reads), std's
    whole output as a function of derive_more's format list, and the literal side of
    [FmtAttribute::transparent_call]. *)
From Verif Require Import C03.Syntax C03.DmParse C03.StdParse.
From Verif Require Import C03.Proofs1 C03.Proofs2 C03.Proofs3 C03.Proofs4 C03.Render C03.Transparent.
From Coq Require Import Arith.

(** * closed form of [placeholders_from] *)
Definition ph_at (n : N) (pre : list format) (f : format) : placeholder :=
  {| ph_arg := position_at n pre f; ph_mods := has_modifiers f; ph_trait := trait_name (sp_ty (spec_of f)) |}.

Lemma counter_after_app n a b : counter_after n (a ++ b) = counter_after (counter_after n a) b.
Proof. unfold counter_after. apply fold_left_app. Qed.

Lemma counter_after_cons n f fs : counter_after n (f :: fs) = counter_after (n + advance f) fs.
Proof. reflexivity. Qed.

Lemma counter_after_snoc n pre f : counter_after n (pre ++ [f]) = counter_after n pre + advance f.
Proof. rewrite counter_after_app. reflexivity. Qed.

Lemma position_at_cons n g pre f : position_at n (g :: pre) f = position_at (n + advance g) pre f.
Proof. reflexivity. Qed.

Lemma ty_spec_of f : match f_spec f with Some s => sp_ty s | None => TDisplay end = sp_ty (spec_of f).
Proof. unfold spec_of. destruct (f_spec f); reflexivity. Qed.

Lemma placeholders_from_cons n f fs :
  placeholders_from n (f :: fs) = ph_at n [] f :: placeholders_from (n + advance f) fs.
Proof.
  cbn [placeholders_from]. rewrite ty_spec_of.
  unfold ph_at, position_at, advance, implicit. cbn [counter_after fold_left].
  destruct (is_star f); destruct (f_arg f) as [a|]; cbn [is_some negb];
    rewrite ?N.add_0_r, ?N.add_0_l, ?N.add_assoc; reflexivity.
Qed.

Lemma placeholders_from_app : forall pre n f post,
  placeholders_from n (pre ++ f :: post) =
  placeholders_from n pre ++ ph_at n pre f :: placeholders_from (counter_after n (pre ++ [f])) post.
Proof.
  induction pre as [|g pre IH]; intros n f post.
  - cbn [app]. rewrite placeholders_from_cons. reflexivity.
  - cbn [app]. rewrite !placeholders_from_cons, IH. cbn [app]. reflexivity.
Qed.

Lemma placeholders_from_length : forall fs n, length (placeholders_from n fs) = length fs.
Proof.
  induction fs as [|f fs IH]; intros n; [reflexivity|]. rewrite placeholders_from_cons. cbn [length].
  now rewrite IH.
Qed.

(** the k-th placeholder: its argument depends on the k placeholders before it only through their number of
    implicit arguments and of [.*] precisions *)
Lemma placeholders_from_nth fs n k f :
  nth_error fs k = Some f ->
  nth_error (placeholders_from n fs) k = Some (ph_at n (firstn k fs) f).
Proof.
  intros H. pose proof (nth_error_split fs k H) as [pre [post [-> Hl]]]. subst k.
  rewrite placeholders_from_app, firstn_app, Nat.sub_diag, firstn_all. cbn [firstn]. rewrite app_nil_r.
  rewrite nth_error_app2 by (rewrite placeholders_from_length; lia).
  rewrite placeholders_from_length, Nat.sub_diag. reflexivity.
Qed.

(** the three rules of the statement *)
Lemma counter_rules n pre f :
  (forall a, f_arg f = Some a -> position_at n pre f = param_of_arg a) /\
  (f_arg f = None -> is_star f = false -> position_at n pre f = Positional (counter_after n pre)) /\
  (f_arg f = None -> is_star f = true -> position_at n pre f = Positional (counter_after n pre + 1)) /\
  (forall a, f_arg f = Some a -> is_star f = false -> counter_after n (pre ++ [f]) = counter_after n pre) /\
  (forall a, f_arg f = Some a -> is_star f = true -> counter_after n (pre ++ [f]) = counter_after n pre + 1) /\
  (f_arg f = None -> is_star f = false -> counter_after n (pre ++ [f]) = counter_after n pre + 1) /\
  (f_arg f = None -> is_star f = true -> counter_after n (pre ++ [f]) = counter_after n pre + 2).
Proof.
  rewrite counter_after_snoc. unfold position_at, advance, implicit.
  repeat split; intros; repeat match goal with H : _ = _ |- _ => rewrite H end; cbn [is_some negb];
    rewrite ?N.add_0_r; try reflexivity; lia.
Qed.

(** * std's output as a function of derive_more's format list *)
Definition fmt_matches' (n : N) (f : format) (a : std_arg) (n' : N) : Prop :=
  fmt_matches n f a n' /\ sa_star a = (if is_star f then Some n else None) /\ sa_empty_dot a = false.

Fixpoint threads' (n : N) (fs : list format) (l : list std_arg) : Prop :=
  match fs, l with
  | [], [] => True
  | f :: fs', a :: l' => exists n', fmt_matches' n f a n' /\ threads' n' fs' l'
  | _, _ => False
  end.

Lemma threads'_threads : forall fs n l, threads' n fs l -> threads n fs l.
Proof.
  induction fs as [|f fs IH]; intros n [|a l] H; cbn in *; try contradiction; [exact I|].
  destruct H as [n' [[H1 _] H2]]. exists n'. split; [exact H1|]. now apply IH.
Qed.

Lemma spec_of_eq f : spec_of f = spec_or_default f.
Proof. reflexivity. Qed.

Lemma threads'_expected : forall fs n0 pre l,
  threads' (counter_after n0 pre) fs l -> l = expected_args n0 pre fs.
Proof.
  induction fs as [|f fs IH]; intros n0 pre [|a l] H; cbn [threads'] in H; try contradiction; [reflexivity|].
  destruct H as [n' [[[H1 [H2 H3]] [H4 H5]] Ht]]. cbn [expected_args].
  assert (Hn' : n' = counter_after n0 (pre ++ [f])).
  { rewrite counter_after_snoc, H3. unfold advance, implicit.
    destruct (f_arg f); destruct (is_star f); cbn [is_some negb]; lia. }
  rewrite Hn' in Ht. clear Hn' H3. rewrite <- (IH _ _ _ Ht). f_equal.
  destruct a as [p s st ed]. cbn [sa_pos sa_spec sa_star sa_empty_dot] in *. subst.
  unfold position_at, star_at. f_equal.
  destruct (f_arg f); [reflexivity|]. destruct (is_star f); [reflexivity|now rewrite N.add_0_r].
Qed.

Section Star.
Variable cc : CharClass.
Hypothesis Hok : CC_ok cc.

Lemma std_argument_star curarg i a curarg' r :
  std_argument cc curarg i = Some (a, curarg', r) ->
  sa_star a = match sp_prec (sa_spec a) with Some PStar => Some curarg | _ => None end.
Proof.
  unfold std_argument.
  destruct (std_position cc i) as [[pos i1]|]; [|discriminate].
  destruct (std_format cc curarg (std_ws cc i1)) as [[[[sp edot] ca] i2]|]; [|discriminate].
  destruct pos as [[n|s]|]; destruct (consume c_rbrace (std_ws cc i2)); try discriminate;
    intros H; inversion H; subst; reflexivity.
Qed.

Lemma is_star_spec f : is_star f = match sp_prec (spec_or_default f) with Some PStar => true | _ => false end.
Proof. unfold is_star, spec_or_default. destruct (f_spec f); reflexivity. Qed.

Lemma argument_agree' curarg i a curarg' r :
  std_argument cc curarg i = Some (a, curarg', r) -> sa_empty_dot a = false ->
  exists f, format_p cc (c_lbrace :: i) = Some (r, f) /\ fmt_matches' curarg f a curarg'.
Proof.
  intros H Hed. destruct (argument_agree cc Hok _ _ _ _ _ H Hed) as [f [Hf Hm]].
  exists f. split; [exact Hf|]. split; [exact Hm|]. split; [|exact Hed].
  rewrite (std_argument_star _ _ _ _ _ H), is_star_spec. destruct Hm as [-> _].
  destruct (sp_prec (spec_or_default f)) as [[c|]|]; reflexivity.
Qed.

Notation nonbrace := (fun c => negb (is_brace c)).

Lemma scan_sim' : forall n i, (length i <= n)%nat ->
  forall fuel curarg l, std_pieces cc fuel curarg i = Some l -> no_empty_dot l ->
  forall fuel', (length i < fuel')%nat ->
  exists fos, scan cc fuel' i [] = ([], fos) /\ threads' curarg (flatten_opts fos) l.
Proof.
  induction n as [|n IH]; intros i Hn fuel curarg l Hstd Hned fuel' Hf'.
  - destruct i; [|cbn in Hn; lia]. apply std_pieces_nil in Hstd as ->.
    exists []. split; [apply scan_nil|exact I].
  - destruct i as [|c r].
    { apply std_pieces_nil in Hstd as ->. exists []. split; [apply scan_nil|exact I]. }
    destruct fuel as [|fuel]; [discriminate|]. destruct fuel' as [|fuel']; [lia|].
    cbn [length] in Hn, Hf'. rewrite std_pieces_unfold in Hstd.
    destruct (N.eqb_spec c c_lbrace) as [->|Hl].
    + destruct r as [|c2 r2]; [discriminate|]. cbn [length] in Hn, Hf'.
      destruct (N.eqb_spec c2 c_lbrace) as [->|Hl2].
      * destruct (IH r2 ltac:(lia) _ _ _ Hstd Hned fuel' ltac:(lia)) as [fos [H1 H2]].
        exists (None :: fos). split; [|exact H2]. eapply scan_step; [apply step_lb|exact H1].
      * destruct (std_argument cc curarg (c2 :: r2)) as [[[a ca] rest]|] eqn:Ea; [|discriminate].
        destruct (std_pieces cc fuel ca rest) as [l'|] eqn:El; [|discriminate].
        inversion Hstd; subst l. unfold no_empty_dot in Hned. cbn [forallb] in Hned.
        apply andb_true_iff in Hned as [Ha Hl']. apply negb_true_iff in Ha.
        destruct (argument_agree' _ _ _ _ _ Ea Ha) as [f [Hf Hm]].
        pose proof (format_p_suf _ _ _ _ Hf) as [_ Hlen]. cbn [length] in Hlen.
        destruct (IH rest ltac:(lia) _ _ _ El Hl' fuel' ltac:(lia)) as [fos [H1 H2]].
        exists (Some f :: fos). split.
        -- eapply scan_step; [apply step_format; [exact Hl2|exact Hf]|exact H1].
        -- cbn [flatten_opts threads']. exists ca. split; assumption.
    + destruct (N.eqb_spec c c_rbrace) as [->|Hr].
      * destruct r as [|c2 r2]; [discriminate|]. cbn [length] in Hn, Hf'.
        destruct (N.eqb_spec c2 c_rbrace) as [->|Hr2]; [|discriminate].
        destruct (IH r2 ltac:(lia) _ _ _ Hstd Hned fuel' ltac:(lia)) as [fos [H1 H2]].
        exists (None :: fos). split; [|exact H2]. eapply scan_step; [apply step_rb|exact H1].
      * assert (Hb : is_brace c = false).
        { unfold is_brace. apply N.eqb_neq in Hl, Hr. now rewrite Hl, Hr. }
        apply (std_skip_text cc) in Hstd. pose proof (skip_while_len nonbrace r) as Hlen.
        destruct (IH (skip_while nonbrace r) ltac:(lia) _ _ _ Hstd Hned fuel' ltac:(lia))
          as [fos [H1 H2]].
        exists (None :: fos). split; [|exact H2].
        eapply scan_step; [apply step_text; exact Hb|exact H1].
Qed.

Lemma format_string_sim' s l :
  std_parse cc s = Some l -> no_empty_dot l ->
  exists fs, format_string cc s = Some fs /\ threads' 0 fs l.
Proof.
  unfold std_parse. intros Hstd Hned. unfold format_string, format_string_fuel.
  destruct (optional_result text s) as [i o] eqn:E.
  assert (Hi : std_pieces cc (S (length s)) 0 i = Some l /\ (length i <= length s)%nat).
  { apply optional_result_inv in E as [[x [_ E]]|[_ [-> _]]]; [|split; [exact Hstd|lia]].
    pose proof (text_suf _ _ _ E) as [_ Hl]. split; [|lia].
    apply text_inv in E as [c [i' [-> [Hc [-> _]]]]].
    apply (std_skip_text cc). rewrite std_pieces_unfold in Hstd.
    destruct (nonbrace_neq _ Hc) as [H1 H2]. rewrite H1, H2 in Hstd. now apply std_pieces_mono. }
  destruct Hi as [Hi Hl].
  destruct (scan_sim' (length i) i (le_n _) _ _ _ Hi Hned (S (length s)) ltac:(lia)) as [fos [H1 H2]].
  rewrite H1. exists (flatten_opts fos). split; [reflexivity|exact H2].
Qed.

(** std's list of resolved arguments is [expected_args] of derive_more's list of formats: same
    specs, same positions (closed form of the counter), and every [.*] reads the argument derive_more
    skips *)
Theorem std_is_expected s l :
  std_parse cc s = Some l -> no_empty_dot l ->
  exists fs, format_string cc s = Some fs /\ l = expected_args 0 [] fs.
Proof.
  intros H1 H2. destruct (format_string_sim' _ _ H1 H2) as [fs [Hf Ht]].
  exists fs. split; [exact Hf|]. now apply (threads'_expected fs 0 []).
Qed.

Lemma expected_args_length : forall fs n pre, length (expected_args n pre fs) = length fs.
Proof. induction fs as [|f fs IH]; intros n pre; [reflexivity|]. cbn [expected_args length]. now rewrite IH. Qed.

Lemma expected_args_nth : forall fs n pre k f,
  nth_error fs k = Some f ->
  nth_error (expected_args n pre fs) k =
  Some {| sa_pos := position_at n (pre ++ firstn k fs) f; sa_spec := spec_of f;
          sa_star := star_at n (pre ++ firstn k fs) f; sa_empty_dot := false |}.
Proof.
  induction fs as [|g fs IH]; intros n pre k f H; [destruct k; discriminate|].
  destruct k as [|k].
  - cbn in H. inversion H; subst. cbn [firstn expected_args nth_error]. now rewrite app_nil_r.
  - cbn [nth_error] in H. cbn [expected_args nth_error firstn]. rewrite (IH _ _ _ _ H).
    now rewrite <- app_assoc.
Qed.

(** the agreement of the two numberings, placeholder by placeholder *)
Theorem numbering_agrees s l :
  std_parse cc s = Some l -> no_empty_dot l ->
  exists fs, format_string cc s = Some fs /\ length fs = length l /\
    forall k f a, nth_error fs k = Some f -> nth_error l k = Some a ->
      sa_pos a = position_at 0 (firstn k fs) f /\
      nth_error (placeholders cc s) k = Some (ph_at 0 (firstn k fs) f) /\
      sa_star a = star_at 0 (firstn k fs) f.
Proof.
  intros H1 H2. destruct (std_is_expected _ _ H1 H2) as [fs [Hf ->]].
  exists fs. split; [exact Hf|]. split; [now rewrite expected_args_length|].
  intros k f a Hk Ha. rewrite (expected_args_nth _ _ _ _ _ Hk) in Ha. inversion Ha; subst. cbn [app sa_pos sa_star].
  split; [reflexivity|]. split; [|reflexivity].
  unfold placeholders. rewrite Hf. now apply placeholders_from_nth.
Qed.

(** * the literal side of [transparent_call] *)
Lemma no_modifiers_no_star f : has_modifiers f = false -> is_star f = false.
Proof.
  unfold has_modifiers, is_star, spec_has_modifiers. destruct (f_spec f) as [s|]; [|reflexivity].
  destruct (sp_prec s) as [[c|]|]; try reflexivity.
  intros H. repeat (apply orb_false_iff in H as [H ?]). cbn in *. discriminate.
Qed.

(** soundness: a delegation happens only for a literal std reads as exactly that one placeholder *)
Theorem transparent_sound lit aliases sel tr :
  transparent_lit cc lit aliases = Some (sel, tr) ->
  exists a, std_parse cc lit = Some [a] /\
            spec_has_modifiers (sa_spec a) = false /\
            tr = trait_name (sp_ty (sa_spec a)) /\
            transparent_decision (sa_pos a) aliases = Some sel.
Proof.
  unfold transparent_lit.
  destruct (format_p cc lit) as [[[|x rest] f]|] eqn:Ef; try discriminate.
  destruct (has_modifiers f) eqn:Hm; [discriminate|].
  rewrite ty_spec_of. intros H.
  assert (Hidx : match f_arg f with Some (AInt n) => n = 0 | _ => True end).
  { destruct (f_arg f) as [[[|p]|s]|]; try exact I; [reflexivity|discriminate]. }
  destruct (no_silent_accept cc Hok _ _ Ef Hm Hidx) as [a [Hs [Hsp Hpos]]].
  exists a. split; [exact Hs|]. rewrite Hsp, <- has_modifiers_spec. split; [exact Hm|].
  rewrite Hpos. change (spec_or_default f) with (spec_of f).
  destruct (f_arg f) as [[[|p]|s]|]; cbn [param_of_arg transparent_decision].
  - destruct aliases as [|al [|al2 als]]; inversion H; subst. auto.
  - discriminate.
  - destruct aliases as [|[al|] [|al2 als]]; try discriminate.
    + inversion H; subst. auto.
    + destruct (str_eqb al s); inversion H; subst. auto.
  - destruct aliases as [|al [|al2 als]]; inversion H; subst. auto.
Qed.

(** completeness and exactness: if std reads the literal as one placeholder that is the whole literal, the
    decision is the one its reading dictates *)
Theorem transparent_characterised body a n' aliases :
  std_argument cc 0 body = Some (a, n', []) -> sa_empty_dot a = false ->
  transparent_lit cc (c_lbrace :: body) aliases =
    if spec_has_modifiers (sa_spec a) then None
    else match transparent_decision (sa_pos a) aliases with
         | Some sel => Some (sel, trait_name (sp_ty (sa_spec a)))
         | None => None
         end.
Proof.
  intros H Hed. destruct (argument_agree cc Hok _ _ _ _ _ H Hed) as [f [Hf [Hsp [Hpos _]]]].
  unfold transparent_lit. rewrite Hf, Hsp, <- has_modifiers_spec.
  destruct (has_modifiers f) eqn:Hm; [reflexivity|].
  rewrite Hpos, (no_modifiers_no_star _ Hm), ty_spec_of. change (spec_or_default f) with (spec_of f).
  destruct (f_arg f) as [[[|p]|s]|]; cbn [param_of_arg transparent_decision].
  - destruct aliases as [|al [|al2 als]]; reflexivity.
  - reflexivity.
  - destruct aliases as [|[al|] [|al2 als]]; reflexivity.
  - destruct aliases as [|al [|al2 als]]; reflexivity.
Qed.

End Star.
