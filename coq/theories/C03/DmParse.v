(** Executable model of [impl/src/fmt/parsing.rs] (derive_more's own parser of
    format literals): one definition per Rust function, same combinators, same order of
    alternatives.  No proofs in this file. *)
From Verif Require Export C03.Syntax.

Section Dm.
Variable cc : CharClass.

Definition uparser := str -> option str.            (* FnMut(&str) -> Option<&str> *)
Definition parser (A : Type) := str -> option (str * A).

(** ** combinators *)
Definition p_char (c : N) : uparser :=
  fun i => match i with x :: r => if N.eqb x c then Some r else None | [] => None end.

Fixpoint p_str (s : str) : uparser :=
  fun i => match s with
           | [] => Some i
           | c :: s' => match i with
                        | x :: r => if N.eqb x c then p_str s' r else None
                        | [] => None
                        end
           end.

Definition check_char (f : N -> bool) : uparser :=
  fun i => match i with x :: r => if f x then Some r else None | [] => None end.

Definition any_char : uparser :=
  fun i => match i with _ :: r => Some r | [] => None end.

Definition take_any_char : parser N :=
  fun i => match i with x :: r => Some (r, x) | [] => None end.

Fixpoint find_map {A B} (f : A -> option B) (l : list A) : option B :=
  match l with
  | [] => None
  | x :: l' => match f x with Some b => Some b | None => find_map f l' end
  end.

Definition one_of (cs : str) : uparser := fun i => find_map (fun c => p_char c i) cs.

Definition alt {T} (ps : list (str -> option T)) : str -> option T :=
  fun i => find_map (fun p => p i) ps.

Definition map_p {I O} (p : str -> option I) (f : I -> O) : str -> option O :=
  fun i => match p i with Some x => Some (f x) | None => None end.

Definition map_or_else {I O} (p : str -> option I) (d : str -> O) (f : I -> O) : str -> O :=
  fun i => match p i with Some x => f x | None => d i end.

Definition and_then {I O} (p : str -> option I) (f : I -> option O) : str -> option O :=
  fun i => match p i with Some x => f x | None => None end.

Definition lookahead (p : uparser) : uparser :=
  fun i => match p i with Some _ => Some i | None => None end.

Definition optional_result {T} (p : parser T) : str -> str * option T :=
  fun i => match p i with Some (r, c) => (r, Some c) | None => (i, None) end.

Fixpoint try_seq (ps : list uparser) : uparser :=
  fun i => match ps with
           | [] => Some i
           | p :: ps' => match p i with Some r => try_seq ps' r | None => None end
           end.

(** [&input[..input.len() - rest.len()]] *)
Definition consumed (input rest : str) : str := firstn (length input - length rest) input.

(** [take_while0]/[take_while1] are only ever applied to [check_char f]: a span. *)
Fixpoint skip_while (f : N -> bool) (i : str) : str :=
  match i with x :: r => if f x then skip_while f r else i | [] => [] end.

Definition take_while0 (f : N -> bool) : str -> str * str :=
  fun i => let cur := skip_while f i in (cur, consumed i cur).

Definition take_while1 (f : N -> bool) : parser str :=
  fun i => match check_char f i with
           | None => None
           | Some r => let cur := skip_while f r in Some (cur, consumed i cur)
           end.

(** [take_until1(any_char, one_of("{}"))]: the only instance in the source *)
Definition is_brace (c : N) : bool := N.eqb c c_lbrace || N.eqb c c_rbrace.

Definition take_until1_text : parser str :=
  fun i => match i with
           | [] => None
           | x :: r => if is_brace x then None
                       else let cur := skip_while (fun c => negb (is_brace c)) r in
                            Some (cur, consumed i cur)
           end.

(** [str::trim_start] (the fix to [format]; mirrors rustc's [Parser::ws]) *)
Definition ws (i : str) : str := skip_while (is_ws cc) i.

(** ** grammar *)

Definition align_p : parser align :=
  alt [ map_p (p_char c_lt) (fun i => (i, ALeft));
        map_p (p_char c_caret) (fun i => (i, ACenter));
        map_p (p_char c_gt) (fun i => (i, ARight)) ].

Definition sign_p : parser sign :=
  alt [ map_p (p_char c_plus) (fun i => (i, SPlus));
        map_p (p_char c_minus) (fun i => (i, SMinus)) ].

Definition identifier : parser str :=
  fun input =>
    map_p
      (alt [ (fun i => match check_char (xid_start cc) i with
                       | Some r => Some (take_while0 (xid_continue cc) r)
                       | None => None end);
             and_then (p_char c_underscore) (take_while1 (xid_continue cc)) ])
      (fun '(i, _) => (i, consumed input i)) input.

Definition usize_max : N := 18446744073709551615.

Definition digits_value (ds : str) : N :=
  fold_left (fun acc d => acc * 10 + digit_val d) ds 0.

Definition integer : parser N :=
  and_then (take_while1 is_digit)
           (fun '(i, ds) => let v := digits_value ds in
                            if v <=? usize_max then Some (i, v) else None).

Definition argument : parser arg :=
  alt [ map_p identifier (fun '(i, s) => (i, AIdent s));
        map_p integer (fun '(i, n) => (i, AInt n)) ].

Definition parameter : parser arg :=
  and_then argument (fun '(i, a) => map_p (p_char c_dollar) (fun i' => (i', a)) i).

Definition count : parser cnt :=
  alt [ map_p parameter (fun '(i, a) => (i, CParam a));
        map_p integer (fun '(i, n) => (i, CInt n)) ].

Definition precision : parser prec :=
  alt [ map_p count (fun '(i, c) => (i, PCount c));
        map_p (p_char c_star) (fun i => (i, PStar)) ].

Definition type_ : parser fty :=
  alt [ map_p (p_str [c_x; c_quest]) (fun i => (i, TLowerDebug));
        map_p (p_str [c_X; c_quest]) (fun i => (i, TUpperDebug));
        map_p (p_char c_quest) (fun i => (i, TDebug));
        map_p (p_char c_o) (fun i => (i, TOctal));
        map_p (p_char c_x) (fun i => (i, TLowerHex));
        map_p (p_char c_X) (fun i => (i, TUpperHex));
        map_p (p_char c_p) (fun i => (i, TPointer));
        map_p (p_char c_b) (fun i => (i, TBinary));
        map_p (p_char c_e) (fun i => (i, TLowerExp));
        map_p (p_char c_E) (fun i => (i, TUpperExp));
        map_p (lookahead (fun i => p_char c_rbrace (ws i))) (fun i => (i, TDisplay)) ].

Definition format_spec : parser spec :=
  fun input =>
    let '(input, al) :=
      optional_result
        (alt [ and_then take_any_char
                 (fun '(i, fill) => map_p align_p (fun '(i', a) => (i', (Some fill, a))) i);
               map_p align_p (fun '(i, a) => (i, (None, a))) ]) input in
    let '(input, sg) := optional_result sign_p input in
    let '(input, alt_) := optional_result (map_p (p_char c_hash) (fun i => (i, tt))) input in
    let '(input, zero) :=
      optional_result
        (map_p (try_seq [ p_char c_zero;
                          lookahead (check_char (fun c => negb (N.eqb c c_dollar))) ])
               (fun i => (i, tt))) input in
    let '(input, width) := optional_result count input in
    match map_or_else (p_char c_dot)
            (fun i => Some (i, None))
            (map_p precision (fun '(i, p) => (i, Some p))) input with
    | None => None
    | Some (input, pr) =>
      match type_ input with
      | None => None
      | Some (input, ty) =>
        Some (input, {| sp_align := al; sp_sign := sg; sp_alt := is_some alt_;
                        sp_zero := is_some zero; sp_width := width; sp_prec := pr;
                        sp_ty := ty |})
      end
    end.

Definition format_p : parser format :=
  fun input =>
    match p_char c_lbrace input with
    | None => None
    | Some input =>
      let '(input, a) := optional_result argument input in
      let input := ws input in
      match map_or_else (p_char c_colon)
              (fun i => Some (i, None))
              (map_p format_spec (fun '(i, s) => (i, Some s))) input with
      | None => None
      | Some (input, sp) =>
        let input := ws input in
        match p_char c_rbrace input with
        | None => None
        | Some input => Some (input, {| f_arg := a; f_spec := sp |})
        end
      end
    end.

Definition maybe_format : parser (option format) :=
  alt [ map_p (p_str [c_lbrace; c_lbrace]) (fun i => (i, None));
        map_p (p_str [c_rbrace; c_rbrace]) (fun i => (i, None));
        map_p format_p (fun '(i, f) => (i, Some f)) ].

Definition text := take_until1_text.

(** The [iter::repeat(()).scan(..)] loop of [format_string], on explicit fuel. *)
Fixpoint scan (fuel : nat) (input : str) (acc : list (option format))
  : str * list (option format) :=
  match fuel with
  | O => (input, rev acc)
  | S fuel' =>
    match alt [ maybe_format; map_p text (fun '(i, _) => (i, None)) ] input with
    | None => (input, rev acc)
    | Some (cur, fo) => scan fuel' cur (fo :: acc)
    end
  end.

Fixpoint flatten_opts {A} (l : list (option A)) : list A :=
  match l with [] => [] | Some x :: l' => x :: flatten_opts l' | None :: l' => flatten_opts l' end.

Definition format_string_fuel (fuel : nat) (input : str) : option (list format) :=
  let '(input, _) := optional_result text input in
  let '(rest, fos) := scan fuel input [] in
  match rest with [] => Some (flatten_opts fos) | _ => None end.

Definition format_string (input : str) : option (list format) :=
  format_string_fuel (S (length input)) input.

(** ** [Placeholder::parse_fmt_string] ([impl/src/fmt/mod.rs]) *)
Definition param_of_arg (a : arg) : param :=
  match a with AInt n => Positional n | AIdent s => Named s end.

Definition is_star (f : format) : bool :=
  match f_spec f with
  | Some s => match sp_prec s with Some PStar => true | _ => false end
  | None => false
  end.

Fixpoint placeholders_from (n : N) (fs : list format) : list placeholder :=
  match fs with
  | [] => []
  | f :: fs' =>
    let n := if is_star f then n + 1 else n in
    let ty := match f_spec f with Some s => sp_ty s | None => TDisplay end in
    let '(pos, n') := match f_arg f with
                      | Some a => (param_of_arg a, n)
                      | None => (Positional n, n + 1)
                      end in
    {| ph_arg := pos; ph_mods := has_modifiers f; ph_trait := trait_name ty |}
      :: placeholders_from n' fs'
  end.

Definition placeholders (s : str) : list placeholder :=
  match format_string s with
  | Some fs => placeholders_from 0 fs
  | None => []
  end.

End Dm.
