(** The generated Unicode tables ([Gen/XidTable.v]) satisfy [CC_ok].  Everything that depends on
    the concrete numbers is re-checked by [vm_compute] on boolean checkers with soundness lemmas,
    so the proof survives regeneration of the tables. *)
From Verif Require Import Base.Chars Gen.XidTable.
From Coq Require Import Arith.

(** * membership in ranges *)
Lemma in_ranges_spec rs c :
  in_ranges rs c = true <-> exists lo hi, In (lo, hi) rs /\ lo <= c /\ c <= hi.
Proof.
  unfold in_ranges. rewrite existsb_exists. split.
  - intros [[lo hi] [Hin H]]. apply andb_true_iff in H as [H1 H2].
    apply N.leb_le in H1, H2. now exists lo, hi.
  - intros [lo [hi [Hin [H1 H2]]]]. exists (lo, hi). split; [exact Hin|].
    apply andb_true_iff. split; now apply N.leb_le.
Qed.

(** * finite enumeration of the elements of a list of ranges *)
Definition range_elems (r : N * N) : list N :=
  let '(lo, hi) := r in map (fun k => lo + N.of_nat k) (seq 0 (S (N.to_nat (hi - lo)))).

Lemma range_elems_in lo hi c : lo <= c -> c <= hi -> In c (range_elems (lo, hi)).
Proof.
  intros H1 H2. unfold range_elems. apply in_map_iff. exists (N.to_nat (c - lo)). split.
  - rewrite N2Nat.id. lia.
  - apply in_seq. lia.
Qed.

Lemma in_ranges_forall rs (P : N -> bool) :
  forallb P (flat_map range_elems rs) = true ->
  forall c, in_ranges rs c = true -> P c = true.
Proof.
  intros H c Hc. apply in_ranges_spec in Hc as [lo [hi [Hin [H1 H2]]]].
  rewrite forallb_forall in H. apply H. apply in_flat_map. exists (lo, hi).
  split; [exact Hin|now apply range_elems_in].
Qed.

(** * range inclusion *)
Definition ranges_included (a b : list (N * N)) : bool :=
  forallb (fun r => let '(lo, hi) := r in
                    existsb (fun r' => let '(lo', hi') := r' in (lo' <=? lo) && (hi <=? hi')) b) a.

Lemma ranges_included_sound a b :
  ranges_included a b = true -> forall c, in_ranges a c = true -> in_ranges b c = true.
Proof.
  intros H c Hc. apply in_ranges_spec in Hc as [lo [hi [Hin [H1 H2]]]].
  unfold ranges_included in H. rewrite forallb_forall in H. specialize (H _ Hin). cbv beta iota in H.
  apply existsb_exists in H as [[lo' hi'] [Hin' H]]. apply andb_true_iff in H as [H3 H4].
  apply N.leb_le in H3, H4. apply in_ranges_spec. exists lo', hi'. split; [exact Hin'|lia].
Qed.

(** * the small ASCII classes as ranges *)
Lemma is_ascii_letter_ranges c : is_ascii_letter c = in_ranges [(65, 90); (97, 122)] c.
Proof. unfold is_ascii_letter, in_ranges. cbn [existsb]. now rewrite orb_false_r. Qed.

Lemma is_digit_ranges c : is_digit c = in_ranges [(c_zero, c_nine)] c.
Proof. unfold is_digit, in_ranges. cbn [existsb]. now rewrite orb_false_r. Qed.

Lemma is_special_forall (P : N -> bool) :
  forallb P [c_lbrace; c_rbrace; c_colon; c_lt; c_caret; c_gt; c_plus; c_minus; c_hash;
             c_dollar; c_dot; c_star; c_quest] = true ->
  forall c, is_special c = true -> P c = true.
Proof.
  intros H c Hc. unfold is_special in Hc. apply existsb_exists in Hc as [x [Hin Hx]].
  apply N.eqb_eq in Hx. subst x. rewrite forallb_forall in H. now apply H.
Qed.

Lemma negb_true_false b : negb b = true -> b = false.
Proof. now destruct b. Qed.

(** * the theorem *)
Theorem unicode_cc_ok : CC_ok unicode_cc.
Proof.
  constructor; cbn [xid_start xid_continue is_ws unicode_cc].
  - (* ASCII letters are XID_Start *)
    intros c H. rewrite is_ascii_letter_ranges in H. revert c H.
    apply in_ranges_forall. vm_compute. reflexivity.
  - (* XID_Start is contained in XID_Continue *)
    apply ranges_included_sound. vm_compute. reflexivity.
  - (* digits are XID_Continue *)
    intros c H. rewrite is_digit_ranges in H. revert c H.
    apply in_ranges_forall. vm_compute. reflexivity.
  - (* digits are not XID_Start *)
    intros c H. rewrite is_digit_ranges in H. apply negb_true_false. revert c H.
    apply (in_ranges_forall _ (fun c => negb (in_ranges xid_start_ranges c))). vm_compute. reflexivity.
  - vm_compute. reflexivity.
  - vm_compute. reflexivity.
  - (* the special characters are not XID_Continue *)
    intros c H. apply negb_true_false. revert c H.
    apply (is_special_forall (fun c => negb (in_ranges xid_continue_ranges c))). vm_compute. reflexivity.
  - (* white space is not XID_Continue *)
    intros c H. apply negb_true_false. revert c H.
    apply (in_ranges_forall _ (fun c => negb (in_ranges xid_continue_ranges c))). vm_compute. reflexivity.
  - (* white space is not special *)
    intros c H. apply negb_true_false. revert c H.
    apply (in_ranges_forall _ (fun c => negb (is_special c))). vm_compute. reflexivity.
Qed.

Print Assumptions unicode_cc_ok.
