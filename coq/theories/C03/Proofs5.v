(** C03 proofs, part 5 (parser robustness): the byte-level slicing arithmetic never panics and cuts
    what the list model cuts; the general looping combinators coincide with the specialised spans of
    [DmParse.v]; every sub-parser returns a suffix of its input; the top-level loop never runs out of
    fuel; numerals beyond [usize] are rejected cleanly. *)
From Verif Require Import C03.Syntax C03.DmParse C03.StdParse C03.Proofs1 C03.Utf8 C03.DmGeneric.
From Coq Require Import Arith.

(** * UTF-8 lengths and slices *)
Lemma len_utf8_bounds c : (1 <= len_utf8 c <= 4)%nat.
Proof.
  unfold len_utf8. destruct (c <? 128); [lia|]. destruct (c <? 2048); [lia|].
  destruct (c <? 65536); lia.
Qed.

Lemma blen_app a b : blen (a ++ b) = (blen a + blen b)%nat.
Proof. induction a as [|c a IH]; cbn [app blen]; [reflexivity|]. rewrite IH. lia. Qed.

Lemma blen_length s : (length s <= blen s <= 4 * length s)%nat.
Proof.
  induction s as [|c s IH]; cbn [blen length]; [lia|]. pose proof (len_utf8_bounds c). lia.
Qed.

Lemma slice_to_cons c r k : (len_utf8 c <= k)%nat ->
  slice_to (c :: r) k = match slice_to r (k - len_utf8 c) with Some p => Some (c :: p) | None => None end.
Proof.
  intros H. pose proof (len_utf8_bounds c). destruct k as [|k]; [lia|].
  cbn [slice_to]. apply Nat.leb_le in H. now rewrite H.
Qed.

Lemma slice_from_cons c r k : (len_utf8 c <= k)%nat ->
  slice_from (c :: r) k = slice_from r (k - len_utf8 c).
Proof.
  intros H. pose proof (len_utf8_bounds c). destruct k as [|k]; [lia|].
  cbn [slice_from]. apply Nat.leb_le in H. now rewrite H.
Qed.

Lemma slice_to_0 s : slice_to s 0 = Some [].
Proof. destruct s; reflexivity. Qed.

Lemma slice_from_0 s : slice_from s 0 = Some s.
Proof. destruct s; reflexivity. Qed.

Lemma slice_to_app pre r : slice_to (pre ++ r) (blen pre) = Some pre.
Proof.
  induction pre as [|c p IH]; cbn [app blen]; [apply slice_to_0|].
  rewrite slice_to_cons by lia. replace (len_utf8 c + blen p - len_utf8 c)%nat with (blen p) by lia.
  now rewrite IH.
Qed.

Lemma slice_from_app pre r : slice_from (pre ++ r) (blen pre) = Some r.
Proof.
  induction pre as [|c p IH]; cbn [app blen]; [apply slice_from_0|].
  rewrite slice_from_cons by lia. replace (len_utf8 c + blen p - len_utf8 c)%nat with (blen p) by lia.
  exact IH.
Qed.

Lemma boundary_app pre r : is_char_boundary (pre ++ r) (blen pre) = true.
Proof.
  induction pre as [|c p IH]; cbn [app blen]; [destruct r; reflexivity|].
  pose proof (len_utf8_bounds c). destruct (len_utf8 c + blen p)%nat as [|k] eqn:E; [lia|].
  cbn [is_char_boundary]. rewrite <- E.
  replace (len_utf8 c + blen p - len_utf8 c)%nat with (blen p) by lia. rewrite IH.
  rewrite (proj2 (Nat.leb_le _ _)) by lia. reflexivity.
Qed.

(** a slice succeeds exactly on char boundaries, and then it is a prefix in the list model *)
Lemma slice_to_boundary : forall s k, is_char_boundary s k = true <-> exists p, slice_to s k = Some p.
Proof.
  induction s as [|c s IH]; intros k.
  - destruct k; cbn; split; intros H; try discriminate; eauto. destruct H; discriminate.
  - destruct k as [|k]; [cbn; split; eauto|].
    cbn [is_char_boundary slice_to]. destruct (Nat.leb (len_utf8 c) (S k)); cbn [andb].
    + rewrite IH. split; intros [p Hp].
      * rewrite Hp. eauto.
      * destruct (slice_to s (S k - len_utf8 c)) as [q|]; [eauto|discriminate].
    + split; [discriminate|]. intros [p Hp]. discriminate.
Qed.

Lemma slice_to_prefix : forall s k p, slice_to s k = Some p -> exists r, s = p ++ r /\ blen p = k.
Proof.
  induction s as [|c s IH]; intros k p.
  - destruct k; cbn; intros H; inversion H; subst. exists []. auto.
  - destruct k as [|k]; [cbn; intros H; inversion H; subst; exists (c :: s); auto|].
    cbn [slice_to]. destruct (Nat.leb (len_utf8 c) (S k)) eqn:E; [|discriminate].
    destruct (slice_to s (S k - len_utf8 c)) as [q|] eqn:Eq; [|discriminate].
    intros H; inversion H; subst. apply IH in Eq as [r [-> Hb]]. exists r. split; [reflexivity|].
    cbn [blen]. apply Nat.leb_le in E. lia.
Qed.

(** [&input[..(input.len() - rest.len())]] for a [rest] that is a suffix of [input]: no underflow, on a
    char boundary, and exactly the prefix the list model takes *)
Lemma consumed_bytes_suf i r : suf r i ->
  consumed_bytes i r = Some (consumed i r) /\ (blen r <= blen i)%nat /\
  is_char_boundary i (blen i - blen r) = true.
Proof.
  intros [pre ->]. rewrite consumed_app. unfold consumed_bytes, checked_sub.
  rewrite blen_app. rewrite (proj2 (Nat.leb_le _ _)) by lia.
  replace (blen pre + blen r - blen r)%nat with (blen pre) by lia.
  split; [apply slice_to_app|]. split; [lia|apply boundary_app].
Qed.

(** [char(c)], [check_char], [any_char], [take_any_char]: [&input[c.len_utf8()..]] after the first char *)
Lemma slice_after_char c r : slice_from (c :: r) (len_utf8 c) = Some r.
Proof. rewrite slice_from_cons by lia. rewrite Nat.sub_diag. apply slice_from_0. Qed.

(** [str(s)]: [&input[s.len()..]] after [starts_with(s)] *)
Lemma slice_after_str s r : slice_from (s ++ r) (blen s) = Some r.
Proof. apply slice_from_app. Qed.

(** * the general combinators at the instances the grammar uses *)
Lemma while_some_check_char f : forall fuel i, (length i <= fuel)%nat ->
  while_some (check_char f) fuel i = skip_while f i.
Proof.
  induction fuel as [|fuel IH]; intros i H.
  - destruct i; [reflexivity|cbn in H; lia].
  - destruct i as [|x r]; [reflexivity|]. cbn [while_some check_char skip_while].
    destruct (f x); [|reflexivity]. apply IH. cbn in H. lia.
Qed.

Lemma take_while0_g_eq f fuel i : (length i <= fuel)%nat ->
  take_while0_g (check_char f) fuel i = take_while0 f i.
Proof. intros H. unfold take_while0_g, take_while0. now rewrite while_some_check_char. Qed.

Lemma take_while1_g_eq f fuel i : (length i <= fuel)%nat ->
  take_while1_g (check_char f) fuel i = take_while1 f i.
Proof.
  intros H. unfold take_while1_g, take_while1. destruct (check_char f i) as [r|] eqn:E; [|reflexivity].
  apply check_char_inv in E as [x [-> _]]. rewrite while_some_check_char; [reflexivity|].
  cbn in H. lia.
Qed.

Lemma one_of_braces i : one_of [c_lbrace; c_rbrace] i =
  match i with x :: r => if is_brace x then Some r else None | [] => None end.
Proof.
  unfold one_of. cbn [find_map]. destruct i as [|x r]; [reflexivity|]. unfold p_char, is_brace.
  destruct (N.eqb x c_lbrace); [reflexivity|]. destruct (N.eqb x c_rbrace); reflexivity.
Qed.

Lemma until_loop_text : forall fuel i, (length i <= fuel)%nat ->
  until_loop any_char (one_of [c_lbrace; c_rbrace]) fuel i = skip_while (fun c => negb (is_brace c)) i.
Proof.
  induction fuel as [|fuel IH]; intros i H.
  - destruct i; [reflexivity|cbn in H; lia].
  - destruct i as [|x r]; [reflexivity|]. cbn [until_loop]. rewrite one_of_braces.
    cbn [skip_while any_char]. destruct (is_brace x); [reflexivity|]. cbn [negb].
    apply IH. cbn in H. lia.
Qed.

Lemma text_g_eq fuel i : (length i <= fuel)%nat -> text_g fuel i = text i.
Proof.
  intros H. unfold text_g, take_until1_g, text, take_until1_text. rewrite one_of_braces.
  destruct i as [|x r]; [reflexivity|]. destruct (is_brace x); [reflexivity|].
  cbn [any_char]. rewrite until_loop_text; [reflexivity|]. cbn in H. lia.
Qed.

Section GenCC.
Variable cc : CharClass.

Lemma identifier_g_eq fuel i : (length i <= fuel)%nat -> identifier_g cc fuel i = identifier cc i.
Proof.
  intros H. unfold identifier_g, identifier, alt, map_p, and_then. cbn [find_map].
  destruct (check_char (xid_start cc) i) as [r|] eqn:E.
  - apply check_char_inv in E as [x [-> _]]. rewrite take_while0_g_eq; [reflexivity|]. cbn in H. lia.
  - destruct (p_char c_underscore i) as [r|] eqn:E2; [|reflexivity].
    apply p_char_inv in E2 as ->. rewrite take_while1_g_eq; [reflexivity|]. cbn in H. lia.
Qed.

Lemma integer_g_eq fuel i : (length i <= fuel)%nat -> integer_g fuel i = integer i.
Proof. intros H. unfold integer_g, integer, and_then. now rewrite take_while1_g_eq. Qed.

(** * every sub-parser returns a suffix of its input *)
Lemma align_suf i r a : align_p i = Some (r, a) -> suf r i /\ (length r < length i)%nat.
Proof. intros H. apply align_p_inv in H as [c [-> _]]. split; [apply suf_tl|cbn; lia]. Qed.

Lemma sign_suf' i r s : sign_p i = Some (r, s) -> suf r i /\ (length r < length i)%nat.
Proof. intros H. apply sign_p_inv in H as [c ->]. split; [apply suf_tl|cbn; lia]. Qed.

Lemma maybe_format_suf i r o : maybe_format cc i = Some (r, o) -> suf r i /\ (length r < length i)%nat.
Proof.
  intros H. apply maybe_format_inv in H as [[_ ->]|[[_ ->]|[f [_ E]]]].
  - split; [exists [c_lbrace; c_lbrace]; reflexivity|cbn; lia].
  - split; [exists [c_rbrace; c_rbrace]; reflexivity|cbn; lia].
  - now apply format_p_suf in E.
Qed.

Lemma step_p_suf i r o : step_p cc i = Some (r, o) -> suf r i /\ (length r < length i)%nat.
Proof.
  intros H. split; [|now apply step_p_len in H]. revert H.
  unfold step_p, alt, map_p. cbn [find_map].
  destruct (maybe_format cc i) as [[r1 o1]|] eqn:E1.
  - intros H; inversion H; subst. now apply maybe_format_suf in E1.
  - destruct (text i) as [[r2 x]|] eqn:E2; [|discriminate].
    intros H; inversion H; subst. apply text_suf in E2 as [E2 _]. now exists x.
Qed.

(** * the top-level loop: termination without running out of fuel *)
Lemma scan_stops : forall n i acc, (length i < n)%nat ->
  let rest := fst (scan cc n i acc) in suf rest i /\ (rest = [] \/ step_p cc rest = None).
Proof.
  induction n as [|n IH]; intros i acc Hn; [lia|].
  cbv zeta. rewrite scan_unfold. destruct (step_p cc i) as [[cur fo]|] eqn:E.
  - pose proof (step_p_suf _ _ _ E) as [Hs Hl].
    destruct (IH cur (fo :: acc) ltac:(lia)) as [H1 H2]. split; [|exact H2].
    eapply suf_trans; eassumption.
  - cbn [fst]. split; [apply suf_refl|now right].
Qed.

End GenCC.

(** * numerals beyond [usize] are rejected, not wrapped *)
Lemma integer_overflow ds r :
  ds <> [] -> forallb is_digit ds = true ->
  match r with c :: _ => is_digit c = false | [] => True end ->
  usize_max < digits_value ds -> integer (ds ++ r) = None.
Proof.
  intros Hne Hd Hr Hov. rewrite integer_eq. unfold integer_spec.
  assert (Hs : skip_while is_digit (ds ++ r) = r).
  { rewrite skip_while_app by exact Hd. destruct r as [|c r]; [reflexivity|].
    now apply skip_while_stop. }
  destruct ds as [|d ds]; [contradiction|]. cbn [app] in *. cbn [forallb] in Hd.
  apply andb_true_iff in Hd as [Hd1 _]. rewrite Hd1. cbv zeta. rewrite Hs.
  change (d :: ds ++ r) with ((d :: ds) ++ r). rewrite consumed_app.
  destruct (N.leb_spec (digits_value (d :: ds)) usize_max); [lia|reflexivity].
Qed.

(** ... and numerals within [usize] are read as their value, whatever their length (leading zeros) *)
Lemma integer_value ds r :
  ds <> [] -> forallb is_digit ds = true ->
  match r with c :: _ => is_digit c = false | [] => True end ->
  digits_value ds <= usize_max -> integer (ds ++ r) = Some (r, digits_value ds).
Proof.
  intros Hne Hd Hr Hov. rewrite integer_eq. unfold integer_spec.
  assert (Hs : skip_while is_digit (ds ++ r) = r).
  { rewrite skip_while_app by exact Hd. destruct r as [|c r]; [reflexivity|].
    now apply skip_while_stop. }
  destruct ds as [|d ds]; [contradiction|]. cbn [app] in *. cbn [forallb] in Hd.
  apply andb_true_iff in Hd as [Hd1 _]. rewrite Hd1. cbv zeta. rewrite Hs.
  change (d :: ds ++ r) with ((d :: ds) ++ r). rewrite consumed_app.
  destruct (N.leb_spec (digits_value (d :: ds)) usize_max); [reflexivity|lia].
Qed.
