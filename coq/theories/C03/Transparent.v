(** The literal side of [FmtAttribute::transparent_call] ([impl/src/fmt/mod.rs:153-205]): when a
    format attribute is replaced by a direct call of the formatting trait (so that its literal is
    never shown to [format_args!]).  The argument list is abstracted to what the function reads of
    it: how many arguments there are and the alias ([name = expr]) of each.  [Fmt/Model.v] has the same
    function over its attribute type; FmtBridge.v proves the two coincide.  No proofs in this file. *)
From Verif Require Export C03.Syntax C03.DmParse.

(** what is handed to the trait call *)
Inductive tsel :=
| TSArg0                 (* the expression of the only argument: [self.args.first()] *)
| TSName (name : str).   (* [format_ident!("{name}")]: a binding from the surrounding scope *)

Section Tr.
Variable cc : CharClass.

Definition transparent_lit (lit : str) (aliases : list (option str)) : option (tsel * trait) :=
  (* (1) exactly one formatting parameter, and nothing else *)
  match format_p cc lit with
  | Some ([], param) =>
    (* (2) without modifiers *)
    if has_modifiers param then None
    else
      let sel :=
        match f_arg param with
        (* (3) exactly one positional argument *)
        | Some (AInt 0) | None => match aliases with [_] => Some TSArg0 | _ => None end
        (* any other index is left for [format_args!] to report *)
        | Some (AInt _) => None
        | Some (AIdent name) =>
          match aliases with
          (* (4) the name refers to an outer binding *)
          | [] => Some (TSName name)
          (* (5) exactly one named argument with that name *)
          | [Some al] => if str_eqb al name then Some TSArg0 else None
          | _ => None
          end
        end in
      match sel with
      | None => None
      | Some e =>
        Some (e, trait_name (match f_spec param with Some s => sp_ty s | None => TDisplay end))
      end
  | _ => None
  end.

End Tr.

(** The same decision, read off std's own interpretation of the literal: [p] is the argument
    [format_args!] resolves the only placeholder to.  (An explicit [0] and the implicit first argument are the
    same [Positional 0].) *)
Definition transparent_decision (p : param) (aliases : list (option str)) : option tsel :=
  match p with
  | Positional 0 => match aliases with [_] => Some TSArg0 | _ => None end
  | Positional _ => None
  | Named name =>
    match aliases with
    | [] => Some (TSName name)
    | [Some al] => if str_eqb al name then Some TSArg0 else None
    | _ => None
    end
  end.
