(** [Fmt/Model.v] (shared by C02/C04/C05/C07) has its own transcription of
    [FmtAttribute::transparent_call] over its attribute type.  It is the literal-side function of
    [C03/Transparent.v] applied to the literal and to the aliases of the arguments, so the C03 theorems
    about delegations ([C03_transparent_sound], [C03_transparent_characterised]) speak about the function
    the other properties use. *)
From Verif Require Import C03.Syntax C03.DmParse C03.Transparent.
From Verif Require Fmt.Model.

Definition sel_expr (a : Fmt.Model.fmt_attr) (sel : tsel) : Fmt.Model.expr :=
  match sel with
  | TSArg0 => match Fmt.Model.args a with x :: _ => Fmt.Model.aexpr x | [] => Fmt.Model.EOther 0 end
  | TSName n => Fmt.Model.EIdent n
  end.

Lemma transparent_call_bridge cc a :
  Fmt.Model.transparent_call cc a =
  match transparent_lit cc (Fmt.Model.lit a) (map Fmt.Model.alias (Fmt.Model.args a)) with
  | Some (sel, tr) => Some (sel_expr a sel, tr)
  | None => None
  end.
Proof.
  unfold Fmt.Model.transparent_call, transparent_lit, sel_expr, Fmt.Model.ident_eqb.
  destruct (format_p cc (Fmt.Model.lit a)) as [[[|c rest] param]|]; try reflexivity.
  destruct (has_modifiers param); [reflexivity|].
  destruct (f_arg param) as [[[|p]|s]|]; destruct (Fmt.Model.args a) as [|x [|y l]]; cbn [map]; try reflexivity.
  all: destruct (Fmt.Model.alias x) as [al|]; try reflexivity.
  all: destruct (str_eqb al s); reflexivity.
Qed.
