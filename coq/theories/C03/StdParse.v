(** Executable model of rustc's format-string parser ([rustc_parse_format::Parser] in
    [ParseMode::Format], as driven by [format_args!]) together with the trait table of
    [rustc_builtin_macros::format].  rustc accumulates errors and carries on; any error makes
    [format_args!] fail and errors are never retracted, so the model lives in the [option]
    monad: [None] = "an error was pushed" = the literal is rejected.  No proofs in this file. *)
From Verif Require Export C03.Syntax.
From Verif Require Import C03.DmParse.   (* only for [skip_while], [consumed], [digits_value] *)

Section Std.
Variable cc : CharClass.

Definition id_start (c : N) : bool := N.eqb c c_underscore || xid_start cc c.
Definition id_continue (c : N) : bool := xid_continue cc c.

Definition u16_max : N := 65535.

(** [Parser::integer]: outer [None] = overflow error; inner [None] = no digit found *)
Definition std_integer (i : str) : option (option N * str) :=
  match i with
  | x :: _ =>
    if is_digit x then
      let rest := skip_while is_digit i in
      let v := digits_value (consumed i rest) in
      if v <=? u16_max then Some (Some v, rest) else None
    else Some (None, i)
  | [] => Some (None, i)
  end.

(** [Parser::word]: [None] = the "invalid argument name `_`" error; [Some ([], i)] = no word *)
Definition std_word (i : str) : option (str * str) :=
  match i with
  | c :: r =>
    if id_start c then
      let rest := skip_while id_continue r in
      let w := consumed i rest in
      if str_eqb w [c_underscore] then None else Some (w, rest)
    else Some ([], i)
  | [] => Some ([], i)
  end.

(** [Parser::position] *)
Definition std_position (i : str) : option (option arg * str) :=
  match std_integer i with
  | None => None
  | Some (Some n, r) => Some (Some (AInt n), r)
  | Some (None, _) =>
    match i with
    | c :: _ =>
      if id_start c then
        match std_word i with
        | None => None
        | Some (w, r) =>
          let raw := str_eqb w [c_r] &&
                     match r with h :: c2 :: _ => N.eqb h c_hash && id_start c2 | _ => false end in
          if raw then None (* "raw identifiers are not supported" *)
          else Some (Some (AIdent w), r)
        end
      else Some (None, i)
    | [] => Some (None, i)
    end
  end.

(** [Parser::count] *)
Definition std_count (i : str) : option (option cnt * str) :=
  match std_integer i with
  | None => None
  | Some (Some n, r) =>
    match r with
    | d :: r' => if N.eqb d c_dollar then Some (Some (CParam (AInt n)), r') else Some (Some (CInt n), r)
    | [] => Some (Some (CInt n), r)
    end
  | Some (None, _) =>
    match std_word i with
    | None => None
    | Some ([], _) => Some (None, i)
    | Some (w, r) =>
      match r with
      | d :: r' => if N.eqb d c_dollar then Some (Some (CParam (AIdent w)), r') else Some (None, i)
      | [] => Some (None, i)
      end
    end
  end.

Definition consume (c : N) (i : str) : option str :=
  match i with x :: r => if N.eqb x c then Some r else None | [] => None end.

Definition is_align (c : N) : bool := N.eqb c c_lt || N.eqb c c_gt || N.eqb c c_caret.

Definition align_of (c : N) : align :=
  if N.eqb c c_lt then ALeft else if N.eqb c c_gt then ARight else ACenter.

(** the type part of [Parser::format] + the trait table of [format_args!] *)
Definition std_type (i : str) : option (fty * str) :=
  match i with
  | c :: r =>
    if N.eqb c c_x then
      match r with
      | q :: r' => if N.eqb q c_quest then Some (TLowerDebug, r') else Some (TLowerHex, r)
      | [] => Some (TLowerHex, r)
      end
    else if N.eqb c c_X then
      match r with
      | q :: r' => if N.eqb q c_quest then Some (TUpperDebug, r') else Some (TUpperHex, r)
      | [] => Some (TUpperHex, r)
      end
    else if N.eqb c c_quest then
      match r with
      | n :: _ => if N.eqb n c_hash || N.eqb n c_x || N.eqb n c_X then None else Some (TDebug, r)
      | [] => Some (TDebug, r)
      end
    else
      match std_word i with
      | None => None
      | Some (w, r') =>
        if str_eqb w [] then Some (TDisplay, r')
        else if str_eqb w [c_o] then Some (TOctal, r')
        else if str_eqb w [c_p] then Some (TPointer, r')
        else if str_eqb w [c_b] then Some (TBinary, r')
        else if str_eqb w [c_e] then Some (TLowerExp, r')
        else if str_eqb w [c_E] then Some (TUpperExp, r')
        else None (* unknown format trait *)
      end
  | [] => Some (TDisplay, i)
  end.

(** [Parser::format]; threads [curarg] because of [.*] *)
Definition std_format (curarg : N) (i : str) : option (spec * bool * N * str) :=
  match consume c_colon i with
  | None => Some (default_spec, false, curarg, i)
  | Some i =>
    (* fill *)
    let '(fill, i) :=
      match i with
      | c :: a :: r => if is_align a then (Some c, a :: r) else (None, i)
      | _ => (None, i)
      end in
    (* alignment *)
    let '(al, i) :=
      match i with
      | a :: r => if is_align a then (Some (fill, align_of a), r) else (None, i)
      | [] => (None, i)
      end in
    (* sign *)
    let '(sg, i) :=
      match i with
      | c :: r => if N.eqb c c_plus then (Some SPlus, r)
                  else if N.eqb c c_minus then (Some SMinus, r) else (None, i)
      | [] => (None, i)
      end in
    (* alternate *)
    let '(alt_, i) := match consume c_hash i with Some r => (true, r) | None => (false, i) end in
    (* zero flag, and the `0$` special case *)
    let '(zero, w0, i) :=
      match consume c_zero i with
      | Some r => match consume c_dollar r with
                  | Some r' => (false, Some (CParam (AInt 0)), r')
                  | None => (true, None, r)
                  end
      | None => (false, None, i)
      end in
    match (match w0 with
           | Some w => Some (Some w, i)
           | None => std_count i
           end) with
    | None => None
    | Some (width, i) =>
      match (match consume c_dot i with
             | None => Some (None, false, curarg, i)
             | Some r =>
               match consume c_star r with
               | Some r' => Some (Some PStar, false, curarg + 1, r')
               | None => match std_count r with
                         | None => None
                         | Some (None, r') => Some (None, true, curarg, r')   (* `.` and nothing: no precision *)
                         | Some (Some c, r') => Some (Some (PCount c), false, curarg, r')
                         end
               end
             end) with
      | None => None
      | Some (pr, edot, curarg, i) =>
        match std_type i with
        | None => None
        | Some (ty, i) =>
          Some ({| sp_align := al; sp_sign := sg; sp_alt := alt_; sp_zero := zero;
                   sp_width := width; sp_prec := pr; sp_ty := ty |}, edot, curarg, i)
        end
      end
    end
  end.

Definition std_ws (i : str) : str := skip_while (is_ws cc) i.

(** One resolved argument of [format_args!]: where the value comes from, and its spec.
    [sa_star] is the argument index a [.*] precision was resolved to; [sa_empty_dot] records a
    precision dot followed by nothing ([{:.}]), which std reads as "no precision". *)
Record std_arg := { sa_pos : param; sa_spec : spec; sa_star : option N; sa_empty_dot : bool }.

(** [Parser::argument] followed by the closing-brace check of [Parser::next] *)
Definition std_argument (curarg : N) (i : str) : option (std_arg * N * str) :=
  match std_position i with
  | None => None
  | Some (pos, i) =>
    let i := std_ws i in
    match std_format curarg i with
    | None => None
    | Some (sp, edot, curarg', i) =>
      let star := match sp_prec sp with Some PStar => Some curarg | _ => None end in
      let '(p, curarg'') :=
        match pos with
        | Some (AInt n) => (Positional n, curarg')
        | Some (AIdent s) => (Named s, curarg')
        | None => (Positional curarg', curarg' + 1)
        end in
      let i := std_ws i in
      match consume c_rbrace i with
      | None => None
      | Some i => Some ({| sa_pos := p; sa_spec := sp; sa_star := star; sa_empty_dot := edot |}, curarg'', i)
      end
    end
  end.

(** The [Iterator::next] loop; every iteration consumes at least one character. *)
Fixpoint std_pieces (fuel : nat) (curarg : N) (i : str) : option (list std_arg) :=
  match fuel with
  | O => match i with [] => Some [] | _ => None end
  | S fuel' =>
    match i with
    | [] => Some []
    | c :: r =>
      if N.eqb c c_lbrace then
        match r with
        | c2 :: r2 =>
          if N.eqb c2 c_lbrace then std_pieces fuel' curarg r2
          else match std_argument curarg r with
               | None => None
               | Some (a, curarg', rest) =>
                 match std_pieces fuel' curarg' rest with
                 | None => None
                 | Some l => Some (a :: l)
                 end
               end
        | [] => None
        end
      else if N.eqb c c_rbrace then
        match r with
        | c2 :: r2 => if N.eqb c2 c_rbrace then std_pieces fuel' curarg r2 else None
        | [] => None
        end
      else std_pieces fuel' curarg r
    end
  end.

Definition std_parse (s : str) : option (list std_arg) := std_pieces (S (length s)) 0 s.

Definition std_placeholder (a : std_arg) : placeholder :=
  {| ph_arg := sa_pos a;
     ph_mods := spec_has_modifiers (sa_spec a);
     ph_trait := trait_name (sp_ty (sa_spec a)) |}.

Definition std_placeholders (s : str) : option (list placeholder) :=
  match std_parse s with
  | Some l => Some (map std_placeholder l)
  | None => None
  end.

End Std.
