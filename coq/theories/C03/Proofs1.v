(** C03 proofs, part 1: combinator facts, suffix/totality lemmas (C18 ingredients),
    fuel irrelevance, text-only literals. *)
From Verif Require Import C03.Syntax C03.DmParse C03.StdParse.
From Coq Require Import Arith.

(** * suffixes *)
Definition suf (r i : str) : Prop := exists pre, i = pre ++ r.

Lemma suf_refl i : suf i i.
Proof. exists []. reflexivity. Qed.

Lemma suf_trans a b c : suf a b -> suf b c -> suf a c.
Proof. intros [p Hp] [q Hq]. exists (q ++ p). subst. now rewrite app_assoc. Qed.

Lemma suf_cons r x i : suf r i -> suf r (x :: i).
Proof. intros [p Hp]. exists (x :: p). subst. reflexivity. Qed.

Lemma suf_tl x r : suf r (x :: r).
Proof. exists [x]. reflexivity. Qed.

Lemma suf_len r i : suf r i -> (length r <= length i)%nat.
Proof. intros [p Hp]. subst. rewrite app_length. lia. Qed.

(** * skip_while / consumed *)
Lemma skip_while_split f i :
  exists pre, i = pre ++ skip_while f i /\ forallb f pre = true.
Proof.
  induction i as [|x i IH].
  - exists []. split; reflexivity.
  - cbn [skip_while]. destruct (f x) eqn:Hfx.
    + destruct IH as [pre [H1 H2]]. exists (x :: pre). split.
      * cbn. now rewrite <- H1.
      * cbn. now rewrite Hfx, H2.
    + exists []. split; reflexivity.
Qed.

Lemma skip_while_suf f i : suf (skip_while f i) i.
Proof. destruct (skip_while_split f i) as [pre [H _]]. now exists pre. Qed.

Lemma skip_while_len f i : (length (skip_while f i) <= length i)%nat.
Proof. apply suf_len, skip_while_suf. Qed.

Lemma skip_while_head f i :
  match skip_while f i with x :: _ => f x = false | [] => True end.
Proof.
  induction i as [|x i IH]; cbn [skip_while]; [exact I|].
  destruct (f x) eqn:Hfx; [exact IH | exact Hfx].
Qed.

Lemma skip_while_stop f x r : f x = false -> skip_while f (x :: r) = x :: r.
Proof. intros H. cbn [skip_while]. now rewrite H. Qed.

Lemma skip_while_go f x r : f x = true -> skip_while f (x :: r) = skip_while f r.
Proof. intros H. cbn [skip_while]. now rewrite H. Qed.

Lemma skip_while_all f i : forallb f i = true -> skip_while f i = [].
Proof.
  induction i as [|x i IH]; [reflexivity|]. cbn [forallb skip_while].
  intros H. apply andb_true_iff in H as [H1 H2]. rewrite H1. now apply IH.
Qed.

Lemma skip_while_app f pre r :
  forallb f pre = true -> skip_while f (pre ++ r) = skip_while f r.
Proof.
  induction pre as [|x pre IH]; [reflexivity|]. cbn [forallb app skip_while].
  intros H. apply andb_true_iff in H as [H1 H2]. rewrite H1. now apply IH.
Qed.

Lemma skip_while_idem f i : skip_while f (skip_while f i) = skip_while f i.
Proof.
  pose proof (skip_while_head f i) as H. destruct (skip_while f i) as [|x r]; [reflexivity|].
  now apply skip_while_stop.
Qed.

Lemma consumed_app pre r : consumed (pre ++ r) r = pre.
Proof.
  unfold consumed. rewrite app_length.
  replace (length pre + length r - length r)%nat with (length pre) by lia.
  rewrite firstn_app, Nat.sub_diag, firstn_all. cbn [firstn]. apply app_nil_r.
Qed.

Lemma consumed_suf i r : suf r i -> i = consumed i r ++ r.
Proof. intros [pre H]. subst. now rewrite consumed_app. Qed.

Lemma consumed_skip f i : i = consumed i (skip_while f i) ++ skip_while f i.
Proof. apply consumed_suf, skip_while_suf. Qed.

Lemma consumed_cons x i r : suf r i -> consumed (x :: i) r = x :: consumed i r.
Proof. intros [pre H]. subst. change (x :: pre ++ r) with ((x :: pre) ++ r). now rewrite !consumed_app. Qed.

Lemma consumed_self i : consumed i i = [].
Proof. apply (consumed_app [] i). Qed.

(** * combinators *)
Lemma p_char_inv c i r : p_char c i = Some r -> i = c :: r.
Proof.
  destruct i as [|x i]; cbn; [discriminate|]. destruct (N.eqb_spec x c); [|discriminate].
  intros H; inversion H; subst; reflexivity.
Qed.

Lemma p_char_eq c r : p_char c (c :: r) = Some r.
Proof. cbn. now rewrite N.eqb_refl. Qed.

Lemma p_char_neq c x r : x <> c -> p_char c (x :: r) = None.
Proof. intros H. cbn. apply N.eqb_neq in H. now rewrite H. Qed.

Lemma p_char_nil c : p_char c [] = None.
Proof. reflexivity. Qed.

Lemma p_str_inv s : forall i r, p_str s i = Some r -> i = s ++ r.
Proof.
  induction s as [|c s IH]; intros i r; cbn [p_str].
  - intros H; inversion H; reflexivity.
  - destruct i as [|x i]; [discriminate|]. destruct (N.eqb_spec x c); [|discriminate].
    intros H. apply IH in H. subst. reflexivity.
Qed.

Lemma check_char_inv f i r : check_char f i = Some r -> exists x, i = x :: r /\ f x = true.
Proof.
  destruct i as [|x i]; cbn; [discriminate|]. destruct (f x) eqn:E; [|discriminate].
  intros H; inversion H; subst. now exists x.
Qed.

Lemma optional_result_some {T} (p : parser T) i r x :
  p i = Some (r, x) -> optional_result p i = (r, Some x).
Proof. unfold optional_result. now intros ->. Qed.

Lemma optional_result_none {T} (p : parser T) i :
  p i = None -> optional_result p i = (i, None).
Proof. unfold optional_result. now intros ->. Qed.

Lemma optional_result_inv {T} (p : parser T) i r o :
  optional_result p i = (r, o) ->
  (exists x, o = Some x /\ p i = Some (r, x)) \/ (o = None /\ r = i /\ p i = None).
Proof.
  unfold optional_result. destruct (p i) as [[r' x]|] eqn:E; intros H; inversion H; subst.
  - left. now exists x.
  - right. auto.
Qed.

Lemma optional_result_suf {T} (p : parser T) i r o :
  (forall r x, p i = Some (r, x) -> suf r i) -> optional_result p i = (r, o) -> suf r i.
Proof.
  intros Hp H. apply optional_result_inv in H as [[x [_ H]]|[_ [-> _]]].
  - eapply Hp, H.
  - apply suf_refl.
Qed.

(** * grammar: inversion and suffix lemmas *)
Section WithCC.
Variable cc : CharClass.

Lemma align_p_inv i r a :
  align_p i = Some (r, a) -> exists c, i = c :: r /\ is_align c = true /\ a = align_of c.
Proof.
  unfold align_p, alt, map_p. cbn [find_map].
  destruct i as [|x i]; [discriminate|]. unfold p_char, is_align, align_of.
  destruct (N.eqb_spec x c_lt) as [->|H1].
  { intros H; inversion H; subst. exists c_lt. repeat split. }
  destruct (N.eqb_spec x c_caret) as [->|H2].
  { intros H; inversion H; subst. exists c_caret. repeat split. }
  destruct (N.eqb_spec x c_gt) as [->|H3].
  { intros H; inversion H; subst. exists c_gt. repeat split. }
  discriminate.
Qed.

Lemma align_p_eq c r : is_align c = true -> align_p (c :: r) = Some (r, align_of c).
Proof.
  unfold align_p, alt, map_p, is_align, align_of, p_char. cbn [find_map].
  destruct (N.eqb_spec c c_lt) as [->|H1]; [reflexivity|].
  destruct (N.eqb_spec c c_gt) as [->|H2]; [reflexivity|].
  destruct (N.eqb_spec c c_caret) as [->|H3]; [reflexivity|]. discriminate.
Qed.

Lemma align_p_none c r : is_align c = false -> align_p (c :: r) = None.
Proof.
  unfold align_p, alt, map_p, is_align, p_char. cbn [find_map].
  destruct (N.eqb_spec c c_lt) as [->|H1]; [discriminate|].
  destruct (N.eqb_spec c c_gt) as [->|H2]; [discriminate|].
  destruct (N.eqb_spec c c_caret) as [->|H3]; [discriminate|]. reflexivity.
Qed.

Lemma align_p_nil : align_p [] = None.
Proof. reflexivity. Qed.

Lemma sign_p_inv i r s : sign_p i = Some (r, s) -> exists c, i = c :: r.
Proof.
  unfold sign_p, alt, map_p. cbn [find_map]. destruct i as [|x i]; [discriminate|].
  unfold p_char. destruct (N.eqb x c_plus).
  { intros H; inversion H; subst. now exists x. }
  destruct (N.eqb x c_minus); [|discriminate].
  intros H; inversion H; subst. now exists x.
Qed.

(** identifier *)
Lemma identifier_inv i r x :
  identifier cc i = Some (r, x) ->
  x = consumed i r /\
  ((exists c i', i = c :: i' /\ xid_start cc c = true /\ r = skip_while (xid_continue cc) i')
   \/ (exists c i', i = c_underscore :: c :: i' /\ xid_continue cc c = true /\
                    r = skip_while (xid_continue cc) i')).
Proof.
  unfold identifier, map_p, alt. cbn [find_map].
  destruct (check_char (xid_start cc) i) as [r1|] eqn:E1.
  - apply check_char_inv in E1 as [c [-> Hc]]. unfold take_while0.
    intros H; inversion H; subst. split; [reflexivity|]. left. now exists c, r1.
  - unfold and_then. destruct (p_char c_underscore i) as [r2|] eqn:E2; [|discriminate].
    apply p_char_inv in E2 as ->. unfold take_while1.
    destruct (check_char (xid_continue cc) r2) as [r3|] eqn:E3; [|discriminate].
    apply check_char_inv in E3 as [c [-> Hc]].
    intros H; inversion H; subst. split; [reflexivity|]. right. now exists c, r3.
Qed.

Lemma identifier_suf i r x : identifier cc i = Some (r, x) -> suf r i /\ i = x ++ r /\ (length r < length i)%nat.
Proof.
  intros H. apply identifier_inv in H as [Hx Hc].
  assert (Hs : suf r i /\ (length r < length i)%nat).
  { destruct Hc as [[c [i' [-> [_ ->]]]]|[c [i' [-> [_ ->]]]]].
    - split; [apply suf_cons, skip_while_suf|]. pose proof (skip_while_len (xid_continue cc) i'). cbn [length]. lia.
    - split; [apply suf_cons, suf_cons, skip_while_suf|]. pose proof (skip_while_len (xid_continue cc) i'). cbn [length]. lia. }
  destruct Hs as [Hs Hl]. repeat split; trivial. subst x. now apply consumed_suf.
Qed.

(** integer *)
Definition integer_spec (i : str) : option (str * N) :=
  match i with
  | x :: _ =>
    if is_digit x then
      let rest := skip_while is_digit i in
      let v := digits_value (consumed i rest) in
      if v <=? usize_max then Some (rest, v) else None
    else None
  | [] => None
  end.

Lemma integer_eq i : integer i = integer_spec i.
Proof.
  unfold integer, and_then, take_while1, integer_spec.
  destruct i as [|x i]; [reflexivity|]. cbn [check_char skip_while].
  destruct (is_digit x); reflexivity.
Qed.

Lemma integer_inv i r n :
  integer i = Some (r, n) ->
  exists x i', i = x :: i' /\ is_digit x = true /\ r = skip_while is_digit i' /\
               n = digits_value (consumed i r) /\ n <= usize_max.
Proof.
  rewrite integer_eq. unfold integer_spec. destruct i as [|x i']; [discriminate|].
  destruct (is_digit x) eqn:Hx; [|discriminate]. rewrite (skip_while_go _ _ _ Hx).
  cbv zeta. destruct (N.leb_spec (digits_value (consumed (x :: i') (skip_while is_digit i'))) usize_max) as [Hle|]; [|discriminate].
  intros H; inversion H; subst. exists x, i'. repeat split; trivial.
Qed.

Lemma integer_suf i r n : integer i = Some (r, n) -> suf r i /\ (length r < length i)%nat /\ n <= usize_max.
Proof.
  intros H. apply integer_inv in H as [x [i' [-> [_ [-> [_ Hn]]]]]].
  split; [apply suf_cons, skip_while_suf|]. split; trivial.
  pose proof (skip_while_len is_digit i'). cbn [length]. lia.
Qed.

(** argument, parameter, count, precision *)
Lemma argument_inv i r a :
  argument cc i = Some (r, a) ->
  (exists s, a = AIdent s /\ identifier cc i = Some (r, s)) \/
  (exists n, a = AInt n /\ identifier cc i = None /\ integer i = Some (r, n)).
Proof.
  unfold argument, alt, map_p. cbn [find_map].
  destruct (identifier cc i) as [[r1 s]|] eqn:E1.
  - intros H; inversion H; subst. left. now exists s.
  - destruct (integer i) as [[r2 n]|] eqn:E2; [|discriminate].
    intros H; inversion H; subst. right. now exists n.
Qed.

Lemma argument_suf i r a : argument cc i = Some (r, a) -> suf r i /\ (length r < length i)%nat.
Proof.
  intros H. apply argument_inv in H as [[s [_ H]]|[n [_ [_ H]]]].
  - apply identifier_suf in H. tauto.
  - apply integer_suf in H. tauto.
Qed.

Lemma parameter_inv i r a :
  parameter cc i = Some (r, a) -> argument cc i = Some (c_dollar :: r, a).
Proof.
  unfold parameter, and_then, map_p. destruct (argument cc i) as [[r1 a1]|] eqn:E; [|discriminate].
  destruct (p_char c_dollar r1) as [r2|] eqn:E2; [|discriminate].
  apply p_char_inv in E2 as ->. intros H; inversion H; subst. reflexivity.
Qed.

Lemma parameter_suf i r a : parameter cc i = Some (r, a) -> suf r i /\ (length r < length i)%nat.
Proof.
  intros H. apply parameter_inv, argument_suf in H as [H1 H2]. split.
  - eapply suf_trans; [apply suf_tl|exact H1].
  - cbn [length] in H2. lia.
Qed.

Lemma count_inv i r c :
  count cc i = Some (r, c) ->
  (exists a, c = CParam a /\ parameter cc i = Some (r, a)) \/
  (exists n, c = CInt n /\ parameter cc i = None /\ integer i = Some (r, n)).
Proof.
  unfold count, alt, map_p. cbn [find_map].
  destruct (parameter cc i) as [[r1 a]|] eqn:E1.
  - intros H; inversion H; subst. left. now exists a.
  - destruct (integer i) as [[r2 n]|] eqn:E2; [|discriminate].
    intros H; inversion H; subst. right. now exists n.
Qed.

Lemma count_suf i r c : count cc i = Some (r, c) -> suf r i /\ (length r < length i)%nat.
Proof.
  intros H. apply count_inv in H as [[a [_ H]]|[n [_ [_ H]]]].
  - now apply parameter_suf in H.
  - apply integer_suf in H. tauto.
Qed.

Lemma precision_inv i r p :
  precision cc i = Some (r, p) ->
  (exists c, p = PCount c /\ count cc i = Some (r, c)) \/
  (p = PStar /\ count cc i = None /\ i = c_star :: r).
Proof.
  unfold precision, alt, map_p. cbn [find_map].
  destruct (count cc i) as [[r1 c]|] eqn:E1.
  - intros H; inversion H; subst. left. now exists c.
  - destruct (p_char c_star i) as [r2|] eqn:E2; [|discriminate].
    apply p_char_inv in E2 as ->. intros H; inversion H; subst. right. auto.
Qed.

Lemma precision_suf i r p : precision cc i = Some (r, p) -> suf r i.
Proof.
  intros H. apply precision_inv in H as [[c [_ H]]|[_ [_ ->]]].
  - now apply count_suf in H.
  - apply suf_tl.
Qed.

(** type_ *)
Definition type_cases (i r : str) (t : fty) : Prop :=
  (i = c_x :: c_quest :: r /\ t = TLowerDebug) \/
  (i = c_X :: c_quest :: r /\ t = TUpperDebug) \/
  (i = c_quest :: r /\ t = TDebug) \/
  (i = c_o :: r /\ t = TOctal) \/
  (i = c_x :: r /\ t = TLowerHex /\ match r with q :: _ => q <> c_quest | [] => True end) \/
  (i = c_X :: r /\ t = TUpperHex /\ match r with q :: _ => q <> c_quest | [] => True end) \/
  (i = c_p :: r /\ t = TPointer) \/
  (i = c_b :: r /\ t = TBinary) \/
  (i = c_e :: r /\ t = TLowerExp) \/
  (i = c_E :: r /\ t = TUpperExp) \/
  (i = r /\ t = TDisplay /\ (exists r', ws cc i = c_rbrace :: r') /\
   match i with c :: _ => ~ In c [c_x; c_X; c_quest; c_o; c_p; c_b; c_e; c_E] | [] => True end).

Lemma type_inv i r t : type_ cc i = Some (r, t) -> type_cases i r t.
Proof.
  unfold type_, alt, map_p, type_cases. cbn [find_map].
  destruct (p_str [c_x; c_quest] i) as [r1|] eqn:E1.
  { apply p_str_inv in E1. intros H; inversion H; subst. left. auto. }
  destruct (p_str [c_X; c_quest] i) as [r2|] eqn:E2.
  { apply p_str_inv in E2. intros H; inversion H; subst. right; left. auto. }
  destruct (p_char c_quest i) as [r3|] eqn:E3.
  { apply p_char_inv in E3. intros H; inversion H; subst. do 2 right; left. auto. }
  destruct (p_char c_o i) as [r4|] eqn:E4.
  { apply p_char_inv in E4. intros H; inversion H; subst. do 3 right; left. auto. }
  destruct (p_char c_x i) as [r5|] eqn:E5.
  { apply p_char_inv in E5. intros H; inversion H; subst. do 4 right; left. repeat split.
    destruct r as [|q r]; [exact I|]. intros ->. cbn in E1. discriminate. }
  destruct (p_char c_X i) as [r6|] eqn:E6.
  { apply p_char_inv in E6. intros H; inversion H; subst. do 5 right; left. repeat split.
    destruct r as [|q r]; [exact I|]. intros ->. cbn in E2. discriminate. }
  destruct (p_char c_p i) as [r7|] eqn:E7.
  { apply p_char_inv in E7. intros H; inversion H; subst. do 6 right; left. auto. }
  destruct (p_char c_b i) as [r8|] eqn:E8.
  { apply p_char_inv in E8. intros H; inversion H; subst. do 7 right; left. auto. }
  destruct (p_char c_e i) as [r9|] eqn:E9.
  { apply p_char_inv in E9. intros H; inversion H; subst. do 8 right; left. auto. }
  destruct (p_char c_E i) as [r10|] eqn:E10.
  { apply p_char_inv in E10. intros H; inversion H; subst. do 9 right; left. auto. }
  unfold lookahead. destruct (p_char c_rbrace (ws cc i)) as [r11|] eqn:E11; [|discriminate].
  apply p_char_inv in E11. intros H; inversion H; subst. do 10 right. repeat split.
  - now exists r11.
  - destruct r as [|c r]; [exact I|]. cbn [In]. intros Hin.
    repeat (destruct Hin as [<-|Hin]; [first [now rewrite p_char_eq in E3 | now rewrite p_char_eq in E4
      | now rewrite p_char_eq in E5 | now rewrite p_char_eq in E6 | now rewrite p_char_eq in E7
      | now rewrite p_char_eq in E8 | now rewrite p_char_eq in E9 | now rewrite p_char_eq in E10]|]).
    exact Hin.
Qed.

Lemma type_suf i r t : type_ cc i = Some (r, t) -> suf r i.
Proof.
  intros H. apply type_inv in H. unfold type_cases in H.
  repeat (destruct H as [H|H]); try (destruct H as [-> _]);
    first [apply suf_refl | apply suf_tl | apply suf_cons, suf_tl].
Qed.

End WithCC.

(** * format_spec / format_p / text: suffix lemmas *)
Section WithCC2.
Variable cc : CharClass.

Definition fill_align_p : parser (option N * align) :=
  alt [ and_then take_any_char
          (fun '(i, fill) => map_p align_p (fun '(i', a) => (i', (Some fill, a))) i);
        map_p align_p (fun '(i, a) => (i, (None, a))) ].

Definition hash_p : parser unit := map_p (p_char c_hash) (fun i => (i, tt)).
Definition zero_p : parser unit :=
  map_p (try_seq [ p_char c_zero; lookahead (check_char (fun c => negb (N.eqb c c_dollar))) ])
        (fun i => (i, tt)).
Definition dot_prec_p : str -> option (str * option prec) :=
  map_or_else (p_char c_dot) (fun i => Some (i, None))
              (map_p (precision cc) (fun '(i, p) => (i, Some p))).

Lemma format_spec_unfold input :
  format_spec cc input =
    let '(i1, al) := optional_result fill_align_p input in
    let '(i2, sg) := optional_result sign_p i1 in
    let '(i3, alt_) := optional_result hash_p i2 in
    let '(i4, zero) := optional_result zero_p i3 in
    let '(i5, width) := optional_result (count cc) i4 in
    match dot_prec_p i5 with
    | None => None
    | Some (i6, pr) =>
      match type_ cc i6 with
      | None => None
      | Some (i7, ty) =>
        Some (i7, {| sp_align := al; sp_sign := sg; sp_alt := is_some alt_;
                     sp_zero := is_some zero; sp_width := width; sp_prec := pr;
                     sp_ty := ty |})
      end
    end.
Proof. reflexivity. Qed.

Lemma fill_align_suf i r x : fill_align_p i = Some (r, x) -> suf r i.
Proof.
  unfold fill_align_p, alt, and_then, map_p, take_any_char. cbn [find_map].
  destruct i as [|c i]; [cbn; discriminate|].
  destruct (align_p i) as [[r1 a1]|] eqn:E1.
  - intros H; inversion H; subst. apply align_p_inv in E1 as [c1 [-> _]]. apply suf_cons, suf_tl.
  - destruct (align_p (c :: i)) as [[r2 a2]|] eqn:E2; [|discriminate].
    intros H; inversion H; subst. apply align_p_inv in E2 as [c2 [E _]]. inversion E; subst. apply suf_tl.
Qed.

Lemma sign_suf i r x : sign_p i = Some (r, x) -> suf r i.
Proof. intros H. apply sign_p_inv in H as [c ->]. apply suf_tl. Qed.

Lemma hash_p_inv i r x : hash_p i = Some (r, x) -> i = c_hash :: r.
Proof.
  unfold hash_p, map_p. destruct (p_char c_hash i) as [r1|] eqn:E; [|discriminate].
  apply p_char_inv in E. intros H; inversion H; subst. reflexivity.
Qed.

Lemma zero_p_inv i r x : zero_p i = Some (r, x) -> exists d r', i = c_zero :: r /\ r = d :: r' /\ d <> c_dollar.
Proof.
  unfold zero_p, map_p. cbn [try_seq]. destruct (p_char c_zero i) as [r1|] eqn:E; [|discriminate].
  apply p_char_inv in E as ->. unfold lookahead.
  destruct (check_char (fun c => negb (c =? c_dollar)) r1) as [r2|] eqn:E2; [|discriminate].
  apply check_char_inv in E2 as [d [-> Hd]]. intros H; inversion H; subst.
  exists d, r2. repeat split. apply negb_true_iff, N.eqb_neq in Hd. exact Hd.
Qed.

Lemma dot_prec_suf i r p : dot_prec_p i = Some (r, p) -> suf r i.
Proof.
  unfold dot_prec_p, map_or_else, map_p. destruct (p_char c_dot i) as [r1|] eqn:E.
  - apply p_char_inv in E as ->. destruct (precision cc r1) as [[r2 p2]|] eqn:E2; [|discriminate].
    intros H; inversion H; subst. apply suf_cons. eapply precision_suf, E2.
  - intros H; inversion H; subst. apply suf_refl.
Qed.

Lemma format_spec_suf i r s : format_spec cc i = Some (r, s) -> suf r i.
Proof.
  rewrite format_spec_unfold.
  destruct (optional_result fill_align_p i) as [i1 al] eqn:E1.
  destruct (optional_result sign_p i1) as [i2 sg] eqn:E2.
  destruct (optional_result hash_p i2) as [i3 al_] eqn:E3.
  destruct (optional_result zero_p i3) as [i4 ze] eqn:E4.
  destruct (optional_result (count cc) i4) as [i5 wi] eqn:E5.
  destruct (dot_prec_p i5) as [[i6 pr]|] eqn:E6; [|discriminate].
  destruct (type_ cc i6) as [[i7 ty]|] eqn:E7; [|discriminate].
  intros H; inversion H; subst.
  apply optional_result_suf in E1; [|intros ? ?; apply fill_align_suf].
  apply optional_result_suf in E2; [|intros ? ?; apply sign_suf].
  apply optional_result_suf in E3; [|intros ? ? Hh; apply hash_p_inv in Hh as ->; apply suf_tl].
  apply optional_result_suf in E4;
    [|intros ? ? Hz; apply zero_p_inv in Hz as [d [r' [-> _]]]; apply suf_tl].
  apply optional_result_suf in E5; [|intros ? ? Hc; now apply count_suf in Hc].
  apply dot_prec_suf in E6. apply type_suf in E7.
  repeat (eapply suf_trans; [eassumption|]). apply suf_refl.
Qed.

Definition colon_spec_p : str -> option (str * option spec) :=
  map_or_else (p_char c_colon) (fun i => Some (i, None))
              (map_p (format_spec cc) (fun '(i, s) => (i, Some s))).

Lemma format_p_unfold input :
  format_p cc input =
    match p_char c_lbrace input with
    | None => None
    | Some i1 =>
      let '(i2, a) := optional_result (argument cc) i1 in
      match colon_spec_p (ws cc i2) with
      | None => None
      | Some (i3, sp) =>
        match p_char c_rbrace (ws cc i3) with
        | None => None
        | Some i4 => Some (i4, {| f_arg := a; f_spec := sp |})
        end
      end
    end.
Proof.
  unfold format_p. destruct (p_char c_lbrace input); [|reflexivity].
  destruct (optional_result (argument cc) s); reflexivity.
Qed.

Lemma colon_spec_suf i r s : colon_spec_p i = Some (r, s) -> suf r i.
Proof.
  unfold colon_spec_p, map_or_else, map_p. destruct (p_char c_colon i) as [r1|] eqn:E.
  - apply p_char_inv in E as ->. destruct (format_spec cc r1) as [[r2 s2]|] eqn:E2; [|discriminate].
    intros H; inversion H; subst. apply suf_cons. eapply format_spec_suf, E2.
  - intros H; inversion H; subst. apply suf_refl.
Qed.

Lemma format_p_suf i r f : format_p cc i = Some (r, f) -> suf r i /\ (length r < length i)%nat.
Proof.
  rewrite format_p_unfold. destruct (p_char c_lbrace i) as [i1|] eqn:E0; [|discriminate].
  apply p_char_inv in E0 as ->.
  destruct (optional_result (argument cc) i1) as [i2 a] eqn:E1.
  destruct (colon_spec_p (ws cc i2)) as [[i3 sp]|] eqn:E2; [|discriminate].
  destruct (p_char c_rbrace (ws cc i3)) as [i4|] eqn:E3; [|discriminate].
  intros H; inversion H; subst.
  apply optional_result_suf in E1; [|intros ? ? Ha; now apply argument_suf in Ha].
  apply colon_spec_suf in E2. apply p_char_inv in E3.
  assert (Hs : suf r i1).
  { eapply suf_trans; [|exact E1]. eapply suf_trans; [|apply (skip_while_suf (is_ws cc) i2)].
    eapply suf_trans; [|exact E2]. eapply suf_trans; [|apply (skip_while_suf (is_ws cc) i3)].
    unfold ws in E3. rewrite E3. apply suf_tl. }
  split; [now apply suf_cons|]. apply suf_len in Hs. cbn [length]. lia.
Qed.

Lemma text_inv i r x :
  text i = Some (r, x) ->
  exists c i', i = c :: i' /\ is_brace c = false /\
               r = skip_while (fun c => negb (is_brace c)) i' /\ x = consumed i r.
Proof.
  unfold text, take_until1_text. destruct i as [|c i']; [discriminate|].
  destruct (is_brace c) eqn:Hc; [discriminate|]. intros H; inversion H; subst.
  exists c, i'. repeat split; trivial.
Qed.

Lemma text_suf i r x : text i = Some (r, x) -> i = x ++ r /\ (length r < length i)%nat.
Proof.
  intros H. apply text_inv in H as [c [i' [-> [_ [-> ->]]]]]. split.
  - apply consumed_suf, suf_cons, skip_while_suf.
  - pose proof (skip_while_len (fun c => negb (is_brace c)) i'). cbn [length]. lia.
Qed.

(** one step of the top-level loop *)
Definition step_p : parser (option format) :=
  alt [ maybe_format cc; map_p text (fun '(i, _) => (i, None)) ].

Lemma maybe_format_inv i r o :
  maybe_format cc i = Some (r, o) ->
  (o = None /\ i = c_lbrace :: c_lbrace :: r) \/
  (o = None /\ i = c_rbrace :: c_rbrace :: r) \/
  (exists f, o = Some f /\ format_p cc i = Some (r, f)).
Proof.
  unfold maybe_format, alt, map_p. cbn [find_map].
  destruct (p_str [c_lbrace; c_lbrace] i) as [r1|] eqn:E1.
  { apply p_str_inv in E1. intros H; inversion H; subst. left. auto. }
  destruct (p_str [c_rbrace; c_rbrace] i) as [r2|] eqn:E2.
  { apply p_str_inv in E2. intros H; inversion H; subst. right; left. auto. }
  destruct (format_p cc i) as [[r3 f]|] eqn:E3; [|discriminate].
  intros H; inversion H; subst. right; right. now exists f.
Qed.

Lemma step_p_len i r o : step_p i = Some (r, o) -> (length r < length i)%nat.
Proof.
  unfold step_p, alt, map_p. cbn [find_map].
  destruct (maybe_format cc i) as [[r1 o1]|] eqn:E1.
  - intros H; inversion H; subst.
    apply maybe_format_inv in E1 as [[_ ->]|[[_ ->]|[f [_ E]]]]; try (cbn [length]; lia).
    now apply format_p_suf in E.
  - destruct (text i) as [[r2 x]|] eqn:E2; [|discriminate].
    intros H; inversion H; subst. now apply text_suf in E2.
Qed.

Lemma scan_unfold fuel input acc :
  scan cc (S fuel) input acc =
    match step_p input with
    | None => (input, rev acc)
    | Some (cur, fo) => scan cc fuel cur (fo :: acc)
    end.
Proof. reflexivity. Qed.

Lemma step_p_nil : step_p [] = None.
Proof. reflexivity. Qed.

Lemma scan_fuel : forall n i acc m,
  (length i < n)%nat -> (length i < m)%nat -> scan cc n i acc = scan cc m i acc.
Proof.
  induction n as [|n IH]; intros i acc m Hn Hm; [lia|].
  destruct m as [|m]; [lia|]. rewrite !scan_unfold.
  destruct (step_p i) as [[cur fo]|] eqn:E; [|reflexivity].
  apply step_p_len in E. apply IH; lia.
Qed.

Lemma scan_acc : forall n i acc,
  scan cc n i acc = (fst (scan cc n i []), rev acc ++ snd (scan cc n i [])).
Proof.
  induction n as [|n IH]; intros i acc.
  - cbn. now rewrite app_nil_r.
  - rewrite !scan_unfold. destruct (step_p i) as [[cur fo]|] eqn:E.
    + rewrite (IH cur (fo :: acc)), (IH cur [fo]). cbn [fst snd rev app]. now rewrite <- app_assoc.
    + cbn. now rewrite app_nil_r.
Qed.

Lemma scan_step n i cur fo r fos :
  step_p i = Some (cur, fo) -> scan cc n cur [] = (r, fos) ->
  scan cc (S n) i [] = (r, fo :: fos).
Proof.
  intros Hs Hc. rewrite scan_unfold, Hs, scan_acc, Hc. reflexivity.
Qed.

Lemma format_string_fuel_irrelevant s n m :
  (length s < n)%nat -> (length s < m)%nat ->
  format_string_fuel cc n s = format_string_fuel cc m s.
Proof.
  intros Hn Hm. unfold format_string_fuel.
  destruct (optional_result text s) as [i o] eqn:E.
  assert (Hl : (length i <= length s)%nat).
  { apply optional_result_inv in E as [[x [_ E]]|[_ [-> _]]]; [|lia]. apply text_suf in E. lia. }
  rewrite (scan_fuel n i [] m) by lia. reflexivity.
Qed.

(** * text and escapes yield no placeholders *)
Inductive esc_text : str -> Prop :=
| et_nil : esc_text []
| et_char c s : is_brace c = false -> esc_text s -> esc_text (c :: s)
| et_lb s : esc_text s -> esc_text (c_lbrace :: c_lbrace :: s)
| et_rb s : esc_text s -> esc_text (c_rbrace :: c_rbrace :: s).

Lemma esc_text_skip s : esc_text s -> esc_text (skip_while (fun c => negb (is_brace c)) s).
Proof.
  induction 1 as [|c s Hc Hs IH|s Hs IH|s Hs IH].
  - constructor.
  - rewrite skip_while_go; [exact IH|]. now rewrite Hc.
  - rewrite skip_while_stop; [now constructor|reflexivity].
  - rewrite skip_while_stop; [now constructor|reflexivity].
Qed.

Lemma step_text c s : is_brace c = false ->
  step_p (c :: s) = Some (skip_while (fun c => negb (is_brace c)) s, None).
Proof.
  intros Hc. unfold step_p, alt, map_p. cbn [find_map].
  assert (H1 : c <> c_lbrace) by (intros ->; discriminate).
  assert (H2 : c <> c_rbrace) by (intros ->; discriminate).
  assert (E : maybe_format cc (c :: s) = None).
  { unfold maybe_format, alt, map_p. cbn [find_map p_str]. apply N.eqb_neq in H1, H2.
    rewrite H1, H2. rewrite format_p_unfold. unfold p_char. now rewrite H1. }
  rewrite E. unfold text, take_until1_text. now rewrite Hc.
Qed.

Lemma step_lb s : step_p (c_lbrace :: c_lbrace :: s) = Some (s, None).
Proof. reflexivity. Qed.

Lemma step_rb s : step_p (c_rbrace :: c_rbrace :: s) = Some (s, None).
Proof. reflexivity. Qed.

Lemma scan_esc_text : forall n s, (length s < n)%nat -> esc_text s ->
  exists fos, scan cc n s [] = ([], fos) /\ flatten_opts fos = [].
Proof.
  induction n as [|n IH]; intros s Hn Hs; [lia|].
  destruct Hs as [|c s Hc Hs|s Hs|s Hs].
  - exists []. split; reflexivity.
  - pose proof (skip_while_len (fun c => negb (is_brace c)) s) as Hl. cbn [length] in Hn.
    destruct (IH (skip_while (fun c => negb (is_brace c)) s)) as [fos [H1 H2]];
      [lia|now apply esc_text_skip|].
    exists (None :: fos). split; [|exact H2]. eapply scan_step; [now apply step_text|exact H1].
  - cbn [length] in Hn. destruct (IH s) as [fos [H1 H2]]; [lia|exact Hs|].
    exists (None :: fos). split; [|exact H2]. eapply scan_step; [apply step_lb|exact H1].
  - cbn [length] in Hn. destruct (IH s) as [fos [H1 H2]]; [lia|exact Hs|].
    exists (None :: fos). split; [|exact H2]. eapply scan_step; [apply step_rb|exact H1].
Qed.

Lemma format_string_esc_text s : esc_text s -> format_string cc s = Some [].
Proof.
  intros Hs. unfold format_string, format_string_fuel.
  destruct (optional_result text s) as [i o] eqn:E.
  assert (Hi : esc_text i /\ (length i <= length s)%nat).
  { apply optional_result_inv in E as [[x [_ E]]|[_ [-> _]]]; [|split; [exact Hs|lia]].
    pose proof (text_suf _ _ _ E) as [_ Hl]. split; [|lia].
    apply text_inv in E as [c [i' [-> [Hc [-> _]]]]].
    inversion Hs; subst; try discriminate. now apply esc_text_skip. }
  destruct Hi as [Hi Hl].
  destruct (scan_esc_text (S (length s)) i) as [fos [H1 H2]]; [lia|exact Hi|].
  rewrite H1, H2. reflexivity.
Qed.

Lemma placeholders_esc_text s : esc_text s -> placeholders cc s = [].
Proof. intros Hs. unfold placeholders. now rewrite format_string_esc_text. Qed.

Lemma esc_text_brace_free s : (forall c, In c s -> is_brace c = false) -> esc_text s.
Proof.
  induction s as [|c s IH]; intros H; constructor.
  - apply H. now left.
  - apply IH. intros d Hd. apply H. now right.
Qed.

Lemma placeholders_text_only s :
  (forall c, In c s -> is_brace c = false) -> placeholders cc s = [].
Proof. intros H. now apply placeholders_esc_text, esc_text_brace_free. Qed.

(** concatenation-of-pieces form *)
Definition esc_piece (p : str) : Prop :=
  (forall c, In c p -> is_brace c = false) \/ p = [c_lbrace; c_lbrace] \/ p = [c_rbrace; c_rbrace].

Lemma esc_text_app a b : esc_text a -> esc_text b -> esc_text (a ++ b).
Proof.
  induction 1 as [|c s Hc Hs IH|s Hs IH|s Hs IH]; intros Hb; cbn [app].
  - exact Hb.
  - apply et_char; auto.
  - apply et_lb; auto.
  - apply et_rb; auto.
Qed.

Lemma esc_text_concat ps : Forall esc_piece ps -> esc_text (concat ps).
Proof.
  induction 1 as [|p ps Hp _ IH]; cbn [concat]; [constructor|].
  apply esc_text_app; [|exact IH].
  destruct Hp as [Hp|[->| ->]]; [now apply esc_text_brace_free|apply et_lb, et_nil|apply et_rb, et_nil].
Qed.

Lemma placeholders_text_pieces ps : Forall esc_piece ps -> placeholders cc (concat ps) = [].
Proof. intros H. now apply placeholders_esc_text, esc_text_concat. Qed.

End WithCC2.
