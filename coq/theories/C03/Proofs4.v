(** C03 proofs, part 4: the converse direction for bare (transparent) placeholders:
    what derive_more accepts as a modifier-free [format] is accepted by std with the same reading. *)
From Verif Require Import C03.Syntax C03.DmParse C03.StdParse C03.Proofs1 C03.Proofs2 C03.Proofs3.
From Coq Require Import Arith.

Section Converse.
Variable cc : CharClass.
Hypothesis Hok : CC_ok cc.

(** characters that may follow the argument: white space, [:] or [}] *)
Definition stopc (c : N) : Prop := is_ws cc c = true \/ c = c_colon \/ c = c_rbrace.
(** characters that may follow the type: white space or [}] *)
Definition endc (c : N) : Prop := is_ws cc c = true \/ c = c_rbrace.

Lemma endc_stopc c : endc c -> stopc c.
Proof. unfold endc, stopc. tauto. Qed.

Lemma stopc_not_continue c : stopc c -> xid_continue cc c = false.
Proof.
  intros [H|[->| ->]].
  - now apply (ws_not_continue cc Hok).
  - apply (special_not_continue cc Hok). reflexivity.
  - apply (special_not_continue cc Hok). reflexivity.
Qed.

Lemma stopc_not_idstart c : stopc c -> id_start cc c = false.
Proof. intros H. now apply (not_continue_not_idstart cc Hok), stopc_not_continue. Qed.

Lemma stopc_not_digit c : stopc c -> is_digit c = false.
Proof.
  intros H. destruct (is_digit c) eqn:E; [|reflexivity].
  apply (ok_digit_continue cc Hok) in E. apply stopc_not_continue in H. congruence.
Qed.

Lemma stopc_not_special_char c d :
  stopc c -> is_special d = true -> d <> c_colon -> d <> c_rbrace -> c <> d.
Proof.
  intros [H|[->| ->]] Hd H1 H2 E; subst; try congruence.
  apply (ok_ws_not_special cc Hok) in H. congruence.
Qed.

Lemma stopc_not_letter c : stopc c -> is_ascii_letter c = false.
Proof.
  intros H. destruct (is_ascii_letter c) eqn:E; [|reflexivity].
  apply (letter_idstart cc Hok) in E. apply stopc_not_idstart in H. congruence.
Qed.

Lemma ws_head i c r : ws cc i = c :: r -> is_ws cc c = false ->
  exists h t, i = h :: t /\ (is_ws cc h = true \/ h = c).
Proof.
  intros H Hc. destruct i as [|h t]; [discriminate|]. exists h, t. split; [reflexivity|].
  unfold ws in H. cbn [skip_while] in H. destruct (is_ws cc h); [now left|].
  inversion H; subst. now right.
Qed.

Lemma ws_rbrace_false : is_ws cc c_rbrace = false.
Proof.
  destruct (is_ws cc c_rbrace) eqn:E; [|reflexivity].
  apply (ok_ws_not_special cc Hok) in E. discriminate.
Qed.

Lemma ws_colon_false : is_ws cc c_colon = false.
Proof.
  destruct (is_ws cc c_colon) eqn:E; [|reflexivity].
  apply (ok_ws_not_special cc Hok) in E. discriminate.
Qed.

Lemma ws_lbrace_false : is_ws cc c_lbrace = false.
Proof.
  destruct (is_ws cc c_lbrace) eqn:E; [|reflexivity].
  apply (ok_ws_not_special cc Hok) in E. discriminate.
Qed.

Lemma closes_endc r : closes cc r -> exists h t, r = h :: t /\ endc h.
Proof.
  intros [r' H]. apply ws_head in H; [|apply ws_rbrace_false].
  destruct H as [h [t [-> Hh]]]. exists h, t. split; [reflexivity|exact Hh].
Qed.

(** * integers, converse *)
Lemma integer_std i r n :
  integer i = Some (r, n) -> n <= u16_max -> std_integer i = Some (Some n, r).
Proof.
  intros H Hn. apply integer_inv in H as [x [i' [-> [Hx [-> [Hv _]]]]]].
  unfold std_integer. rewrite Hx. cbv zeta. rewrite (skip_while_go _ _ _ Hx), <- Hv.
  apply N.leb_le in Hn. now rewrite Hn.
Qed.

(** * position, converse *)
Lemma argument_position i1 i2 a :
  optional_result (argument cc) i1 = (i2, a) ->
  match a with Some (AInt n) => n <= u16_max | _ => True end ->
  (exists h t, i2 = h :: t /\ stopc h) ->
  std_position cc i1 = Some (a, i2).
Proof.
  intros H Ha [h [t [-> Hh]]].
  apply optional_result_inv in H as [[x [-> H]]|[-> [<- H]]].
  - apply argument_inv in H as [[s [-> H]]|[n [-> [Hid H]]]].
    + rewrite (identifier_word cc Hok) in H.
      destruct (std_word cc i1) as [[[|c w] r]|] eqn:Ew; try discriminate.
      inversion H; subst.
      pose proof (std_word_inv cc _ _ _ Ew) as [_ [[Hw _]|[c0 [i0 [-> [Hc0 _]]]]]]; [discriminate|].
      unfold std_position. rewrite std_integer_nodigit by now apply (idstart_not_digit cc Hok).
      rewrite Hc0, Ew.
      assert (Hh' : N.eqb h c_hash = false).
      { apply N.eqb_neq. apply stopc_not_special_char; [exact Hh|reflexivity|discriminate|discriminate]. }
      destruct t as [|c2 t]; [now rewrite andb_false_r|]. rewrite Hh'. cbn [andb].
      now rewrite andb_false_r.
    + unfold std_position. now rewrite (integer_std _ _ _ H Ha).
  - unfold std_position. rewrite std_integer_nodigit by now apply stopc_not_digit.
    now rewrite (stopc_not_idstart _ Hh).
Qed.

(** * single-letter words *)
Lemma std_word_single L h r0 :
  id_start cc L = true -> L <> c_underscore -> xid_continue cc h = false ->
  std_word cc (L :: h :: r0) = Some ([L], h :: r0).
Proof.
  intros HL Hne Hh. rewrite (std_word_start cc _ _ HL). cbv zeta.
  rewrite (skip_while_stop _ _ _ Hh), consumed_self.
  rewrite str_eqb_false; [reflexivity|]. intros E. inversion E. contradiction.
Qed.

Lemma std_count_nothing c r :
  is_digit c = false -> id_start cc c = false -> std_count cc (c :: r) = Some (None, c :: r).
Proof.
  intros Hd Hs. unfold std_count. rewrite std_integer_nodigit by exact Hd.
  now rewrite (std_word_nostart cc _ _ Hs).
Qed.

Lemma std_count_single L h r0 :
  id_start cc L = true -> L <> c_underscore -> xid_continue cc h = false -> h <> c_dollar ->
  std_count cc (L :: h :: r0) = Some (None, L :: h :: r0).
Proof.
  intros HL Hne Hh Hd. unfold std_count.
  rewrite std_integer_nodigit by now apply (idstart_not_digit cc Hok).
  rewrite (std_word_single _ _ _ HL Hne Hh). apply N.eqb_neq in Hd. now rewrite Hd.
Qed.

Lemma endc_not_dollar h : endc h -> h <> c_dollar.
Proof.
  intros H. apply stopc_not_special_char; [now apply endc_stopc|reflexivity|discriminate|discriminate].
Qed.

Lemma endc_neq_special h d : endc h -> is_special d = true -> d <> c_colon -> d <> c_rbrace -> N.eqb h d = false.
Proof. intros H Hd H1 H2. apply N.eqb_neq. apply stopc_not_special_char; auto using endc_stopc. Qed.

Lemma endc_neq_letter h d : endc h -> is_ascii_letter d = true -> N.eqb h d = false.
Proof.
  intros H Hd. apply N.eqb_neq. intros ->. apply endc_stopc, stopc_not_letter in H. congruence.
Qed.

(** what std makes of the input at the type position, for each way [type_] can succeed *)
Lemma plain_head j r t :
  type_cases cc j r t -> closes cc r ->
  exists c j', j = c :: j' /\ is_digit c = false /\
               std_count cc j = Some (None, j) /\ std_type cc j = Some (t, r).
Proof.
  intros Hcases Hcl. destruct (closes_endc _ Hcl) as [h [r0 [-> Hh]]].
  pose proof (stopc_not_continue _ (endc_stopc _ Hh)) as Hhc.
  pose proof (endc_not_dollar _ Hh) as Hhd.
  assert (Hq : xid_continue cc c_quest = false) by (apply (special_not_continue cc Hok); reflexivity).
  assert (Hletter : forall L ty, is_ascii_letter L = true ->
            (std_word cc (L :: h :: r0) = Some ([L], h :: r0) ->
             std_type cc (L :: h :: r0) = Some (ty, h :: r0)) ->
            exists c j', L :: h :: r0 = c :: j' /\ is_digit c = false /\
              std_count cc (L :: h :: r0) = Some (None, L :: h :: r0) /\
              std_type cc (L :: h :: r0) = Some (ty, h :: r0)).
  { intros L ty HL Hty. pose proof (letter_idstart cc Hok _ HL) as HLs.
    assert (HLu : L <> c_underscore) by (intros ->; discriminate).
    exists L, (h :: r0). split; [reflexivity|]. split; [now apply (idstart_not_digit cc Hok)|].
    split; [now apply std_count_single|]. apply Hty. now apply std_word_single. }
  unfold type_cases in Hcases.
  destruct Hcases as [[-> ->]|[[-> ->]|[[-> ->]|[[-> ->]|[[-> [-> Hnq]]|[[-> [-> Hnq]]|[[-> ->]|[[-> ->]|[[-> ->]|[[-> ->]|[-> [-> [_ Hn]]]]]]]]]]]]].
  - (* x? *) exists c_x, (c_quest :: h :: r0). split; [reflexivity|]. split; [reflexivity|]. split.
    + apply std_count_single; [apply (letter_idstart cc Hok); reflexivity|discriminate|exact Hq|discriminate].
    + reflexivity.
  - (* X? *) exists c_X, (c_quest :: h :: r0). split; [reflexivity|]. split; [reflexivity|]. split.
    + apply std_count_single; [apply (letter_idstart cc Hok); reflexivity|discriminate|exact Hq|discriminate].
    + reflexivity.
  - (* ? *) exists c_quest, (h :: r0). split; [reflexivity|]. split; [reflexivity|]. split.
    + apply std_count_nothing; [reflexivity|]. apply (special_not_idstart cc Hok). reflexivity.
    + unfold std_type. change (N.eqb c_quest c_x) with false. change (N.eqb c_quest c_X) with false.
      change (N.eqb c_quest c_quest) with true. cbv iota.
      rewrite (endc_neq_special h c_hash Hh), (endc_neq_letter h c_x Hh), (endc_neq_letter h c_X Hh);
        try reflexivity; discriminate.
  - (* o *) apply Hletter; [reflexivity|]. intros Hw. unfold std_type.
    change (N.eqb c_o c_x) with false. change (N.eqb c_o c_X) with false.
    change (N.eqb c_o c_quest) with false. cbv iota. rewrite Hw. reflexivity.
  - (* x *) apply Hletter; [reflexivity|]. intros _. unfold std_type.
    change (N.eqb c_x c_x) with true. cbv iota. apply N.eqb_neq in Hnq. now rewrite Hnq.
  - (* X *) apply Hletter; [reflexivity|]. intros _. unfold std_type.
    change (N.eqb c_X c_x) with false. change (N.eqb c_X c_X) with true. cbv iota.
    apply N.eqb_neq in Hnq. now rewrite Hnq.
  - (* p *) apply Hletter; [reflexivity|]. intros Hw. unfold std_type.
    change (N.eqb c_p c_x) with false. change (N.eqb c_p c_X) with false.
    change (N.eqb c_p c_quest) with false. cbv iota. rewrite Hw. reflexivity.
  - (* b *) apply Hletter; [reflexivity|]. intros Hw. unfold std_type.
    change (N.eqb c_b c_x) with false. change (N.eqb c_b c_X) with false.
    change (N.eqb c_b c_quest) with false. cbv iota. rewrite Hw. reflexivity.
  - (* e *) apply Hletter; [reflexivity|]. intros Hw. unfold std_type.
    change (N.eqb c_e c_x) with false. change (N.eqb c_e c_X) with false.
    change (N.eqb c_e c_quest) with false. cbv iota. rewrite Hw. reflexivity.
  - (* E *) apply Hletter; [reflexivity|]. intros Hw. unfold std_type.
    change (N.eqb c_E c_x) with false. change (N.eqb c_E c_X) with false.
    change (N.eqb c_E c_quest) with false. cbv iota. rewrite Hw. reflexivity.
  - (* display *) exists h, r0. split; [reflexivity|].
    pose proof (stopc_not_digit _ (endc_stopc _ Hh)) as Hd.
    pose proof (stopc_not_idstart _ (endc_stopc _ Hh)) as Hs.
    split; [exact Hd|]. split; [now apply std_count_nothing|].
    unfold std_type.
    rewrite (endc_neq_letter h c_x Hh), (endc_neq_letter h c_X Hh) by reflexivity.
    rewrite (endc_neq_special h c_quest Hh) by (reflexivity || discriminate).
    rewrite (std_word_nostart cc _ _ Hs). reflexivity.
Qed.

End Converse.

Section Converse2.
Variable cc : CharClass.
Hypothesis Hok : CC_ok cc.

Lemma format_spec_plain curarg j i3 s :
  format_spec cc j = Some (i3, s) -> spec_has_modifiers s = false -> closes cc i3 ->
  std_format cc curarg (c_colon :: j) = Some (s, false, curarg, i3).
Proof.
  rewrite format_spec_unfold.
  destruct (optional_result fill_align_p j) as [i1 al] eqn:E1.
  destruct (optional_result sign_p i1) as [i2 sg] eqn:E2.
  destruct (optional_result hash_p i2) as [i3' al_] eqn:E3.
  destruct (optional_result zero_p i3') as [i4 ze] eqn:E4.
  destruct (optional_result (count cc) i4) as [i5 wi] eqn:E5.
  destruct (dot_prec_p cc i5) as [[i6 pr]|] eqn:E6; [|discriminate].
  destruct (type_ cc i6) as [[i7 ty]|] eqn:E7; [|discriminate].
  intros H; inversion H; subst; clear H. unfold spec_has_modifiers. cbn [sp_align sp_sign sp_alt sp_zero sp_width sp_prec sp_ty].
  intros Hm Hcl. repeat (apply orb_false_iff in Hm as [Hm ?]).
  destruct al; [discriminate|]. destruct sg; [discriminate|]. destruct al_; [discriminate|].
  destruct ze; [discriminate|]. destruct wi; [discriminate|]. destruct pr; [discriminate|].
  pose proof (optional_result_inv _ _ _ _ E1) as [[x [Hx _]]|[_ [-> _]]]; [discriminate|].
  pose proof (optional_result_inv _ _ _ _ E2) as [[x [Hx _]]|[_ [-> _]]]; [discriminate|].
  pose proof (optional_result_inv _ _ _ _ E3) as [[x [Hx _]]|[_ [-> _]]]; [discriminate|].
  pose proof (optional_result_inv _ _ _ _ E4) as [[x [Hx _]]|[_ [-> _]]]; [discriminate|].
  pose proof (optional_result_inv _ _ _ _ E5) as [[x [Hx _]]|[_ [-> _]]]; [discriminate|].
  rewrite fill_align_agree in E1. rewrite sign_agree in E2. rewrite hash_agree in E3.
  destruct (std_fill_align j) as [fa1 fa2] eqn:F1. cbn [fst snd] in E1.
  destruct (std_sign j) as [sg1 sg2] eqn:F2. cbn [fst snd] in E2.
  destruct (std_hash j) as [h1 h2] eqn:F3. cbn [fst snd] in E3.
  inversion E1; subst. inversion E2; subst. inversion E3; subst. destruct h1; [discriminate|].
  assert (Edot : p_char c_dot j = None /\ i6 = j).
  { unfold dot_prec_p, map_or_else, map_p in E6. destruct (p_char c_dot j) as [r1|].
    - destruct (precision cc r1) as [[r2 p2]|]; inversion E6.
    - inversion E6. auto. }
  destruct Edot as [Edot ->].
  apply type_inv in E7. destruct (plain_head cc Hok _ _ _ E7 Hcl) as [c [j' [-> [Hd [Hcount Htype]]]]].
  rewrite std_format_unfold. change (consume c_colon (c_colon :: c :: j')) with (Some (c :: j')).
  cbv iota. rewrite F1, F2, F3.
  assert (Hz : std_zero (c :: j') = (false, None, c :: j')).
  { unfold std_zero, consume. destruct (N.eqb_spec c c_zero) as [->|]; [discriminate|reflexivity]. }
  rewrite Hz. cbn [std_width]. rewrite Hcount. unfold std_prec. change consume with p_char.
  rewrite Edot, Htype. reflexivity.
Qed.

Lemma format_p_lbrace2 r : format_p cc (c_lbrace :: c_lbrace :: r) = None.
Proof.
  rewrite format_p_unfold, p_char_eq.
  assert (Hs : id_start cc c_lbrace = false) by (apply (special_not_idstart cc Hok); reflexivity).
  assert (Ha : argument cc (c_lbrace :: r) = None).
  { unfold argument, alt, map_p. cbn [find_map].
    rewrite (identifier_nostart cc Hok _ _ Hs), integer_eq. reflexivity. }
  rewrite (optional_result_none _ _ Ha). unfold ws.
  rewrite (skip_while_stop _ _ _ (ws_lbrace_false cc Hok)).
  unfold colon_spec_p, map_or_else. change (p_char c_colon (c_lbrace :: r)) with (@None str).
  cbv iota beta. rewrite (skip_while_stop _ _ _ (ws_lbrace_false cc Hok)). reflexivity.
Qed.

Lemma std_pieces_nil_eq fuel curarg : std_pieces cc fuel curarg [] = Some [].
Proof. destruct fuel; reflexivity. Qed.

Theorem no_silent_accept s f :
  format_p cc s = Some ([], f) -> has_modifiers f = false ->
  (match f_arg f with Some (AInt n) => n = 0 | _ => True end) ->
  exists a, std_parse cc s = Some [a] /\
            sa_spec a = spec_or_default f /\
            sa_pos a = (match f_arg f with Some x => param_of_arg x | None => Positional 0 end).
Proof.
  intros Hf Hm Ha. pose proof Hf as Hf0. rewrite format_p_unfold in Hf.
  destruct (p_char c_lbrace s) as [i1|] eqn:E0; [|discriminate].
  apply p_char_inv in E0 as ->.
  destruct (optional_result (argument cc) i1) as [i2 a] eqn:E1.
  destruct (colon_spec_p cc (ws cc i2)) as [[i3 sp]|] eqn:E2; [|discriminate].
  destruct (p_char c_rbrace (ws cc i3)) as [i4|] eqn:E3; [|discriminate].
  inversion Hf; subst; clear Hf. cbn [f_arg] in Ha. unfold has_modifiers in Hm. cbn [f_spec] in Hm.
  assert (Hcl : closes cc i3) by (exists []; now apply p_char_inv in E3).
  (* the format part *)
  assert (Hfmt : std_format cc 0 (ws cc i2) =
                 Some (match sp with Some s => s | None => default_spec end, false, 0, i3) /\
                 exists h t, i2 = h :: t /\ stopc cc h).
  { unfold colon_spec_p, map_or_else, map_p in E2.
    destruct (p_char c_colon (ws cc i2)) as [j|] eqn:Ec.
    - apply p_char_inv in Ec. destruct (format_spec cc j) as [[i3' s']|] eqn:Es; [|discriminate].
      inversion E2; subst. split.
      + rewrite Ec. now apply format_spec_plain.
      + apply ws_head in Ec; [|apply (ws_colon_false cc Hok)].
        destruct Ec as [h [t [-> Hh]]]. exists h, t. split; [reflexivity|].
        unfold stopc. tauto.
    - inversion E2; subst. split.
      + rewrite std_format_unfold. change consume with p_char. now rewrite Ec.
      + destruct Hcl as [r' Hr]. unfold ws in Hr. rewrite skip_while_idem in Hr.
        apply ws_head in Hr; [|apply (ws_rbrace_false cc Hok)].
        destruct Hr as [h [t [-> Hh]]]. exists h, t. split; [reflexivity|].
        unfold stopc. tauto. }
  destruct Hfmt as [Hfmt Hstop].
  assert (Hpos : std_position cc i1 = Some (a, i2)).
  { apply (argument_position cc Hok); [exact E1| |exact Hstop].
    destruct a as [[n|x]|]; try exact I. subst n. unfold u16_max. lia. }
  (* assemble *)
  destruct i1 as [|c2 r2].
  { cbn in E1. inversion E1; subst. destruct Hstop as [h [t [Hx _]]]. discriminate. }
  assert (Hc2 : c2 <> c_lbrace).
  { intros ->. rewrite format_p_lbrace2 in Hf0. discriminate. }
  unfold std_parse. cbn [length]. rewrite std_pieces_unfold.
  change (N.eqb c_lbrace c_lbrace) with true. cbv iota.
  apply N.eqb_neq in Hc2. rewrite Hc2.
  unfold std_argument. rewrite Hpos. change std_ws with ws. rewrite Hfmt.
  change consume with p_char. rewrite E3.
  unfold spec_or_default. cbn [f_spec f_arg].
  destruct a as [[n|x]|]; rewrite std_pieces_nil_eq; eexists; (split; [reflexivity|]);
    cbn [sa_spec sa_pos param_of_arg]; split; reflexivity.
Qed.

End Converse2.
