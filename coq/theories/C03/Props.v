(** C03 (and the parser-totality ingredients of C18): the pinned statements.
    Every theorem here is proved by [exact] of a lemma from [Proofs*.v]. *)
From Verif Require Import C03.Syntax C03.DmParse C03.StdParse.
From Verif Require C03.Proofs.

Definition no_empty_dot (l : list std_arg) : Prop := forallb (fun a => negb (sa_empty_dot a)) l = true.
Definition spec_or_default (f : format) : spec := match f_spec f with Some s => s | None => default_spec end.

(* 1. every literal std accepts (without the known-finding class "precision dot followed by nothing")
      yields exactly std's placeholders in derive_more *)
Theorem C03_placeholders : forall cc, CC_ok cc -> forall s l,
  std_parse cc s = Some l -> no_empty_dot l ->
  placeholders cc s = map std_placeholder l.
Proof. exact Proofs.C03_placeholders_proof. Qed.
Print Assumptions C03_placeholders.

(* 2. ... and the same fill/align/sign/#/0/width/precision/type per placeholder *)
Theorem C03_formats : forall cc, CC_ok cc -> forall s l,
  std_parse cc s = Some l -> no_empty_dot l ->
  exists fs, format_string cc s = Some fs /\ map spec_or_default fs = map sa_spec l.
Proof. exact Proofs.C03_formats_proof. Qed.
Print Assumptions C03_formats.

(* 3. text and escapes yield no placeholders *)
Theorem C03_text_only : forall cc s, (forall c, In c s -> is_brace c = false) -> placeholders cc s = [].
Proof. exact Proofs.C03_text_only_proof. Qed.
Print Assumptions C03_text_only.

(* 3'. ... also for any concatenation of brace-free text, "{{" and "}}" pieces *)
Definition esc_piece (p : str) : Prop :=
  (forall c, In c p -> is_brace c = false) \/ p = [c_lbrace; c_lbrace] \/ p = [c_rbrace; c_rbrace].
Theorem C03_text_pieces : forall cc ps, Forall esc_piece ps -> placeholders cc (concat ps) = [].
Proof. exact Proofs.C03_text_pieces_proof. Qed.
Print Assumptions C03_text_pieces.

(* 4. never silently accepted: a literal that derive_more would treat as a bare transparent placeholder
      is accepted by std with that very placeholder *)
Theorem C03_no_silent_accept : forall cc, CC_ok cc -> forall s f,
  format_p cc s = Some ([], f) -> has_modifiers f = false ->
  (match f_arg f with Some (AInt n) => n = 0 | _ => True end) ->
  exists a, std_parse cc s = Some [a] /\
            sa_spec a = spec_or_default f /\
            sa_pos a = (match f_arg f with Some x => param_of_arg x | None => Positional 0 end).
Proof. exact Proofs.C03_no_silent_accept_proof. Qed.
Print Assumptions C03_no_silent_accept.

(* 5. the fuel of the top-level loop is irrelevant once it exceeds the length *)
Theorem C03_fuel : forall cc s n m, (length s < n)%nat -> (length s < m)%nat ->
  format_string_fuel cc n s = format_string_fuel cc m s.
Proof. exact Proofs.C03_fuel_proof. Qed.
Print Assumptions C03_fuel.

(* 6. the known finding, as a refutation of the unrestricted statement (witness "{:.}") *)
Theorem C03_empty_dot_refuted : exists s l, std_parse ascii_cc s = Some l /\ ~ no_empty_dot l /\
  placeholders ascii_cc s <> map std_placeholder l.
Proof. exact Proofs.empty_dot_refuted. Qed.
Print Assumptions C03_empty_dot_refuted.

(* 7. totality ingredients (used by property C18): every parser returns a suffix of its input *)
Definition is_suffix (rest input : str) : Prop := exists pre, input = pre ++ rest.

Theorem C18_format_suffix : forall cc i r f,
  format_p cc i = Some (r, f) -> is_suffix r i /\ (length r < length i)%nat.
Proof. exact Proofs.C18_format_suffix_proof. Qed.
Print Assumptions C18_format_suffix.

Theorem C18_identifier_suffix : forall cc i r x,
  identifier cc i = Some (r, x) -> is_suffix r i /\ i = x ++ r.
Proof. exact Proofs.C18_identifier_suffix_proof. Qed.
Print Assumptions C18_identifier_suffix.

Theorem C18_integer_suffix : forall i r n, integer i = Some (r, n) -> is_suffix r i /\ n <= usize_max.
Proof. exact Proofs.C18_integer_suffix_proof. Qed.
Print Assumptions C18_integer_suffix.

Theorem C18_text_suffix : forall i r x, text i = Some (r, x) -> i = x ++ r /\ (length r < length i)%nat.
Proof. exact Proofs.C18_text_suffix_proof. Qed.
Print Assumptions C18_text_suffix.

(* the ASCII table used in 6 and in the examples is a valid table *)
Theorem C03_ascii_cc_ok : CC_ok ascii_cc.
Proof. exact Proofs.ascii_cc_ok. Qed.
Print Assumptions C03_ascii_cc_ok.

(* the table regenerated on every run from the crate the macro links (unicode-xid) and char::is_whitespace
   is a valid table, so 1, 2 and 4 hold of it with no hypothesis left *)
From Verif Require Gen.XidTable C03.UnicodeOk.
Theorem C03_unicode_cc_ok : CC_ok Gen.XidTable.unicode_cc.
Proof. exact UnicodeOk.unicode_cc_ok. Qed.
Print Assumptions C03_unicode_cc_ok.

Theorem C03_placeholders_unicode : forall s l,
  std_parse Gen.XidTable.unicode_cc s = Some l -> no_empty_dot l ->
  placeholders Gen.XidTable.unicode_cc s = map std_placeholder l.
Proof. exact (C03_placeholders _ UnicodeOk.unicode_cc_ok). Qed.
Print Assumptions C03_placeholders_unicode.

(* ------------------------------------------------------------------------------------------------
   Coverage-growth round: one full-strength statement per clause of the property.
   New model files: Render.v (the std::fmt grammar as a generator, the closed form of the implicit counter),
   Transparent.v (literal side of FmtAttribute::transparent_call), Utf8.v (byte-level slicing),
   DmGeneric.v (the looping combinators in general form).
   ------------------------------------------------------------------------------------------------ *)
From Verif Require Import C03.Render C03.Transparent C03.Utf8 C03.DmGeneric.
From Verif Require C03.Proofs5 C03.Proofs6 C03.Proofs7 C03.Proofs8 C03.FmtBridge.

(* ---- A. sub-parser by sub-parser, for an arbitrary remaining input (not only whole literals) ---- *)

(* A1. argument forms: none / index / identifier (ASCII, leading underscore, Unicode) *)
Theorem C03_argument_forms : forall cc, CC_ok cc -> forall i oa r,
  std_position cc i = Some (oa, r) -> optional_result (argument cc) i = (r, oa).
Proof. exact Proofs2.position_argument. Qed.
Print Assumptions C03_argument_forms.

(* A2. identifiers are exactly rustc's words (same XID tables, same lone-underscore rule) *)
Theorem C03_identifier_is_std_word : forall cc, CC_ok cc -> forall i,
  identifier cc i = match std_word cc i with Some (c :: w, r) => Some (r, c :: w) | _ => None end.
Proof. exact Proofs2.identifier_word. Qed.
Print Assumptions C03_identifier_is_std_word.

(* A3. raw identifiers are no arguments for either parser *)
Theorem C03_raw_identifier_rejected : forall cc, CC_ok cc -> forall x r,
  id_start cc x = true ->
  std_position cc (c_r :: c_hash :: x :: r) = None /\
  format_p cc (c_lbrace :: c_r :: c_hash :: x :: r) = None.
Proof. exact Proofs8.raw_identifier_rejected. Qed.
Print Assumptions C03_raw_identifier_rejected.

(* A4. width and precision counts: literal / n$ / name$ / nothing *)
Theorem C03_count_forms : forall cc, CC_ok cc -> forall i oc r,
  std_count cc i = Some (oc, r) -> optional_result (count cc) i = (r, oc).
Proof. exact Proofs2.count_agree. Qed.
Print Assumptions C03_count_forms.

(* A5. every type letter, x? and X? included; Display only in front of the closing brace *)
Theorem C03_type_letters : forall cc, CC_ok cc -> forall i ty r,
  std_type cc i = Some (ty, r) -> (exists r', ws cc r = c_rbrace :: r') -> type_ cc i = Some (r, ty).
Proof. exact Proofs3.type_agree. Qed.
Print Assumptions C03_type_letters.

(* A6. the whole [':' format_spec]: any fill character, alignment, sign, #, 0 (and the 0$ look-ahead), width,
       precision (with .* advancing the counter), type *)
Theorem C03_spec_agree : forall cc, CC_ok cc -> forall curarg i sp curarg' r,
  std_format cc curarg i = Some (sp, false, curarg', r) -> (exists r', ws cc r = c_rbrace :: r') ->
  exists osp,
    map_or_else (p_char c_colon) (fun i => Some (i, None))
                (map_p (format_spec cc) (fun '(i, s) => (i, Some s))) i = Some (r, osp) /\
    sp = match osp with Some s => s | None => default_spec end /\
    curarg' = match sp_prec sp with Some PStar => curarg + 1 | _ => curarg end.
Proof. exact Proofs3.format_agree. Qed.
Print Assumptions C03_spec_agree.

(* A7. one placeholder at any place of a literal, whatever follows it: std's resolved argument is the closed form
       computed from derive_more's [format] (position, spec, the argument a .* reads, the counter afterwards) *)
Theorem C03_placeholder_agree : forall cc, CC_ok cc -> forall curarg i a curarg' r,
  std_argument cc curarg i = Some (a, curarg', r) -> sa_empty_dot a = false ->
  exists f, format_p cc (c_lbrace :: i) = Some (r, f) /\
            a = {| sa_pos := position_at curarg [] f; sa_spec := spec_of f; sa_star := star_at curarg [] f;
                   sa_empty_dot := false |} /\
            curarg' = curarg + advance f.
Proof. exact Proofs8.placeholder_agree. Qed.
Print Assumptions C03_placeholder_agree.

(* ---- B. the implicit positional counter ---- *)

(* B1. closed form of Placeholder::parse_fmt_string: the k-th placeholder depends on the ones before it only through
       their number of implicit arguments and of .* precisions *)
Theorem C03_counter_closed_form : forall fs n k f,
  nth_error fs k = Some f ->
  nth_error (placeholders_from n fs) k =
  Some {| ph_arg := position_at n (firstn k fs) f; ph_mods := has_modifiers f;
          ph_trait := trait_name (sp_ty (spec_of f)) |}.
Proof. exact Proofs6.placeholders_from_nth. Qed.
Print Assumptions C03_counter_closed_form.

(* B2. the rules of the statement: explicit arguments do not advance the counter, an implicit one advances it once,
       .* advances it once more (and comes first) *)
Theorem C03_counter_rules : forall n pre f,
  (forall a, f_arg f = Some a -> position_at n pre f = param_of_arg a) /\
  (f_arg f = None -> is_star f = false -> position_at n pre f = Positional (counter_after n pre)) /\
  (f_arg f = None -> is_star f = true -> position_at n pre f = Positional (counter_after n pre + 1)) /\
  (forall a, f_arg f = Some a -> is_star f = false -> counter_after n (pre ++ [f]) = counter_after n pre) /\
  (forall a, f_arg f = Some a -> is_star f = true -> counter_after n (pre ++ [f]) = counter_after n pre + 1) /\
  (f_arg f = None -> is_star f = false -> counter_after n (pre ++ [f]) = counter_after n pre + 1) /\
  (f_arg f = None -> is_star f = true -> counter_after n (pre ++ [f]) = counter_after n pre + 2).
Proof. exact Proofs6.counter_rules. Qed.
Print Assumptions C03_counter_rules.

(* B3. std's complete output is a function of derive_more's format list (subsumes 1 and 2, adds what .* reads) *)
Theorem C03_std_is_expected : forall cc, CC_ok cc -> forall s l,
  std_parse cc s = Some l -> no_empty_dot l ->
  exists fs, format_string cc s = Some fs /\ l = expected_args 0 [] fs.
Proof. exact Proofs6.std_is_expected. Qed.
Print Assumptions C03_std_is_expected.

(* B4. the two numberings agree placeholder by placeholder, for arbitrary sequences with .* and explicit indices/names *)
Theorem C03_numbering_agrees : forall cc, CC_ok cc -> forall s l,
  std_parse cc s = Some l -> no_empty_dot l ->
  exists fs, format_string cc s = Some fs /\ length fs = length l /\
    forall k f a, nth_error fs k = Some f -> nth_error l k = Some a ->
      sa_pos a = position_at 0 (firstn k fs) f /\
      nth_error (placeholders cc s) k =
        Some {| ph_arg := position_at 0 (firstn k fs) f; ph_mods := has_modifiers f;
                ph_trait := trait_name (sp_ty (spec_of f)) |} /\
      sa_star a = star_at 0 (firstn k fs) f.
Proof. exact Proofs6.numbering_agrees. Qed.
Print Assumptions C03_numbering_agrees.

(* ---- C. every derivation of the std::fmt grammar (unbounded) ---- *)

(* C1. std reads every well-formed abstract format string back as intended: any argument form, ANY fill character
       (braces included), sign, #, 0, every width / precision form (numerals with leading zeros, n$, name$, star), every
       type, white space in both places, escapes, any sequence *)
Theorem C03_grammar_std : forall cc, CC_ok cc -> forall its,
  wf_items cc its = true ->
  std_parse cc (render_items its) = Some (expected_args 0 [] (formats_of its)).
Proof. exact Proofs7.grammar_std. Qed.
Print Assumptions C03_grammar_std.

(* C2. ... and so does derive_more: the placeholders *)
Theorem C03_grammar_placeholders : forall cc, CC_ok cc -> forall its,
  wf_items cc its = true ->
  placeholders cc (render_items its) = placeholders_from 0 (formats_of its).
Proof. exact Proofs7.grammar_dm_placeholders. Qed.
Print Assumptions C03_grammar_placeholders.

(* C3. ... and their fill/align/sign/#/0/width/precision/type *)
Theorem C03_grammar_formats : forall cc, CC_ok cc -> forall its,
  wf_items cc its = true ->
  exists fs, format_string cc (render_items its) = Some fs /\
             map spec_or_default fs = map spec_or_default (formats_of its) /\
             placeholders_from 0 fs = placeholders_from 0 (formats_of its).
Proof. exact Proofs7.grammar_dm_formats. Qed.
Print Assumptions C03_grammar_formats.

(* C3'. exactly: derive_more's parser inverts the renderer (explicit versus implicit argument, presence of the colon,
        every field of the spec) - for one placeholder followed by anything, and for whole literals *)
From Verif Require C03.Proofs10.
Theorem C03_grammar_one_placeholder : forall cc, CC_ok cc -> forall p rest,
  wf_sformat cc p = true -> (blank_colon p = true -> head_not_align rest = true) ->
  format_p cc (render_format p ++ rest) = Some (rest, sem_format p).
Proof. exact Proofs10.format_p_render. Qed.
Print Assumptions C03_grammar_one_placeholder.

Theorem C03_grammar_exact : forall cc, CC_ok cc -> forall its,
  wf_items cc its = true -> format_string cc (render_items its) = Some (formats_of its).
Proof. exact Proofs10.grammar_dm_exact. Qed.
Print Assumptions C03_grammar_exact.

(* C3''. conversely, every literal the std model accepts without an empty precision dot IS a derivation of the grammar,
         so the grammar theorems and the agreement theorems 1-2 quantify over the same literals ... *)
From Verif Require C03.Proofs11.
Theorem C03_grammar_complete : forall cc, CC_ok cc -> forall s,
  (exists l, std_parse cc s = Some l /\ no_empty_dot l) <->
  (exists its, wf_items cc its = true /\ render_items its = s).
Proof. exact Proofs11.std_language. Qed.
Print Assumptions C03_grammar_complete.

(* ... and the known finding is exactly the gap between what rustc's parser accepts and the documented grammar
   (`'.' precision` in the documentation, an optional precision after the dot in the parser) *)
Theorem C03_empty_dot_is_the_gap : forall cc, CC_ok cc -> forall s l,
  std_parse cc s = Some l ->
  (no_empty_dot l <-> exists its, wf_items cc its = true /\ render_items its = s).
Proof. exact Proofs11.empty_dot_is_the_gap. Qed.
Print Assumptions C03_empty_dot_is_the_gap.

(* C4. with the real Unicode tables of this run *)
Theorem C03_grammar_placeholders_unicode : forall its,
  wf_items Gen.XidTable.unicode_cc its = true ->
  placeholders Gen.XidTable.unicode_cc (render_items its) = placeholders_from 0 (formats_of its).
Proof. exact (C03_grammar_placeholders _ UnicodeOk.unicode_cc_ok). Qed.
Print Assumptions C03_grammar_placeholders_unicode.

(* ---- D. never silently accepted: the literal side of FmtAttribute::transparent_call ---- *)

(* D1. whenever the literal is NOT handed to format_args! (a delegation), std accepts it as exactly that one placeholder:
       no modifiers, that trait, and an argument that resolves to what is delegated to.  (Full strength: no restriction on the index.) *)
Theorem C03_transparent_sound : forall cc, CC_ok cc -> forall lit aliases sel tr,
  transparent_lit cc lit aliases = Some (sel, tr) ->
  exists a, std_parse cc lit = Some [a] /\
            spec_has_modifiers (sa_spec a) = false /\
            tr = trait_name (sp_ty (sa_spec a)) /\
            transparent_decision (sa_pos a) aliases = Some sel.
Proof. exact Proofs6.transparent_sound. Qed.
Print Assumptions C03_transparent_sound.

(* D2. and conversely the decision is exactly the one std's reading dictates *)
Theorem C03_transparent_characterised : forall cc, CC_ok cc -> forall body a n' aliases,
  std_argument cc 0 body = Some (a, n', []) -> sa_empty_dot a = false ->
  transparent_lit cc (c_lbrace :: body) aliases =
    if spec_has_modifiers (sa_spec a) then None
    else match transparent_decision (sa_pos a) aliases with
         | Some sel => Some (sel, trait_name (sp_ty (sa_spec a)))
         | None => None
         end.
Proof. exact Proofs6.transparent_characterised. Qed.
Print Assumptions C03_transparent_characterised.

(* D3. the transparent_call of Fmt/Model.v (used by C02/C04/C05/C07) is this function *)
Theorem C03_transparent_call_bridge : forall cc a,
  Fmt.Model.transparent_call cc a =
  match transparent_lit cc (Fmt.Model.lit a) (map Fmt.Model.alias (Fmt.Model.args a)) with
  | Some (sel, tr) => Some (FmtBridge.sel_expr a sel, tr)
  | None => None
  end.
Proof. exact FmtBridge.transparent_call_bridge. Qed.
Print Assumptions C03_transparent_call_bridge.

(* ---- E. parser robustness (ingredients of C18) ---- *)

(* E1. every sub-parser returns a suffix of its input *)
Theorem C18_subparsers_suffix : forall cc i r,
  (forall a, align_p i = Some (r, a) -> is_suffix r i) /\
  (forall s, sign_p i = Some (r, s) -> is_suffix r i) /\
  (forall x, identifier cc i = Some (r, x) -> is_suffix r i) /\
  (forall n, integer i = Some (r, n) -> is_suffix r i) /\
  (forall a, argument cc i = Some (r, a) -> is_suffix r i) /\
  (forall a, parameter cc i = Some (r, a) -> is_suffix r i) /\
  (forall c, count cc i = Some (r, c) -> is_suffix r i) /\
  (forall p, precision cc i = Some (r, p) -> is_suffix r i) /\
  (forall t, type_ cc i = Some (r, t) -> is_suffix r i) /\
  (forall s, format_spec cc i = Some (r, s) -> is_suffix r i) /\
  (forall f, format_p cc i = Some (r, f) -> is_suffix r i) /\
  (forall o, maybe_format cc i = Some (r, o) -> is_suffix r i) /\
  (forall x, text i = Some (r, x) -> is_suffix r i) /\
  (forall o, alt [ maybe_format cc; map_p text (fun '(i, _) => (i, None)) ] i = Some (r, o) -> is_suffix r i).
Proof. exact Proofs8.subparsers_suffix. Qed.
Print Assumptions C18_subparsers_suffix.

(* E2. for a suffix, the byte arithmetic [&input[..input.len() - rest.len()]] does not underflow, lands on a char boundary
       (non-ASCII included) and cuts exactly what the list model cuts *)
Theorem C18_slice_never_panics : forall i r, is_suffix r i ->
  consumed_bytes i r = Some (consumed i r) /\ (blen r <= blen i)%nat /\
  is_char_boundary i (blen i - blen r) = true.
Proof. exact Proofs5.consumed_bytes_suf. Qed.
Print Assumptions C18_slice_never_panics.

(* E3. the other two slicing idioms: [&input[c.len_utf8()..]] after the first char, [&input[s.len()..]] after a prefix *)
Theorem C18_char_slices : (forall c r, slice_from (c :: r) (len_utf8 c) = Some r) /\
                          (forall s r, slice_from (s ++ r) (blen s) = Some r).
Proof. exact (conj Proofs5.slice_after_char Proofs5.slice_after_str). Qed.
Print Assumptions C18_char_slices.

(* E4. the top-level loop stops because a step fails or the input is used up, never because the fuel ran out *)
Theorem C18_scan_terminates : forall cc n i acc, (length i < n)%nat ->
  let rest := fst (scan cc n i acc) in
  is_suffix rest i /\
  (rest = [] \/ alt [ maybe_format cc; map_p text (fun '(i, _) => (i, None)) ] rest = None).
Proof. exact Proofs5.scan_stops. Qed.
Print Assumptions C18_scan_terminates.

(* E5. the looping combinators in their general form (fuelled) coincide with the spans of DmParse.v *)
Theorem C18_generic_combinators : forall cc fuel i, (length i <= fuel)%nat ->
  identifier_g cc fuel i = identifier cc i /\ integer_g fuel i = integer i /\ text_g fuel i = text i /\
  (forall f, take_while0_g (check_char f) fuel i = take_while0 f i) /\
  (forall f, take_while1_g (check_char f) fuel i = take_while1 f i).
Proof.
  exact (fun cc fuel i H =>
    conj (Proofs5.identifier_g_eq cc fuel i H) (conj (Proofs5.integer_g_eq fuel i H) (conj (Proofs5.text_g_eq fuel i H)
    (conj (fun f => Proofs5.take_while0_g_eq f fuel i H) (fun f => Proofs5.take_while1_g_eq f fuel i H))))).
Qed.
Print Assumptions C18_generic_combinators.

(* E6. numerals: read as their value whatever their length, rejected (not wrapped) beyond usize *)
Theorem C18_integer_range : forall ds r,
  ds <> [] -> forallb is_digit ds = true ->
  match r with c :: _ => is_digit c = false | [] => True end ->
  (digits_value ds <= usize_max -> integer (ds ++ r) = Some (r, digits_value ds)) /\
  (usize_max < digits_value ds -> integer (ds ++ r) = None).
Proof.
  exact (fun ds r H1 H2 H3 => conj (Proofs5.integer_value ds r H1 H2 H3) (Proofs5.integer_overflow ds r H1 H2 H3)).
Qed.
Print Assumptions C18_integer_range.

(* E7. the std model is fuel-independent as well: the fuel S (length s) of std_parse never causes a rejection *)
From Verif Require C03.Proofs9.
Theorem C03_std_fuel : forall cc s n, (length s < n)%nat -> std_pieces cc n 0 s = std_parse cc s.
Proof. exact Proofs9.std_parse_fuel. Qed.
Print Assumptions C03_std_fuel.

(* ---- F. the second known finding (`unused-enum-level-literal`): outside transparent_call there is one more way for a
        literal never to reach format_args!.  SharedLit.v mirrors Expansion::shared_attr_info and the literal flow of
        Expansion::generate_body (fmt/display.rs): an enum-level format without `_variant` is dropped next to a variant that
        has a format of its own - in particular every literal derive_more's own parser cannot read. ---- *)
From Verif Require Import C03.SharedLit.
From Verif Require C03.Proofs12.
Theorem C03_unparsable_enum_level_literal_dropped : forall cc a tr,
  format_string cc (sl_lit a) = None -> shared_literal_reaches cc (Some a) tr true = false.
Proof. exact Proofs12.unparsable_shared_dropped. Qed.
Print Assumptions C03_unparsable_enum_level_literal_dropped.

(* witness `#[display("{")] enum E { #[display("a")] A }` (the real macro compiles it; replayed by the check on every run):
   std rejects the literal, the arm of a variant with its own format does not contain it, the arm of one without does *)
Theorem C03_unused_enum_level_literal_refuted :
  exists a tr, std_parse ascii_cc (sl_lit a) = None /\ shared_literal_reaches ascii_cc (Some a) tr true = false
               /\ shared_literal_reaches ascii_cc (Some a) tr false = true.
Proof. exact Proofs12.unused_shared_literal_refuted. Qed.
Print Assumptions C03_unused_enum_level_literal_refuted.
