(** C03 (and the parser-totality ingredients of C18): the pinned statements.
    Every theorem here is proved by [exact] of a lemma from [Proofs*.v]. *)
From Verif Require Import C03.Syntax C03.DmParse C03.StdParse.
From Verif Require C03.Proofs.

Definition no_empty_dot (l : list std_arg) : Prop := forallb (fun a => negb (sa_empty_dot a)) l = true.
Definition spec_or_default (f : format) : spec := match f_spec f with Some s => s | None => default_spec end.

(* 1. every literal std accepts (without the known-finding class "precision dot followed by nothing")
      yields exactly std's placeholders in derive_more *)
Theorem C03_placeholders : forall cc, CC_ok cc -> forall s l,
  std_parse cc s = Some l -> no_empty_dot l ->
  placeholders cc s = map std_placeholder l.
Proof. exact Proofs.C03_placeholders_proof. Qed.
Print Assumptions C03_placeholders.

(* 2. ... and the same fill/align/sign/#/0/width/precision/type per placeholder *)
Theorem C03_formats : forall cc, CC_ok cc -> forall s l,
  std_parse cc s = Some l -> no_empty_dot l ->
  exists fs, format_string cc s = Some fs /\ map spec_or_default fs = map sa_spec l.
Proof. exact Proofs.C03_formats_proof. Qed.
Print Assumptions C03_formats.

(* 3. text and escapes yield no placeholders *)
Theorem C03_text_only : forall cc s, (forall c, In c s -> is_brace c = false) -> placeholders cc s = [].
Proof. exact Proofs.C03_text_only_proof. Qed.
Print Assumptions C03_text_only.

(* 3'. ... also for any concatenation of brace-free text, "{{" and "}}" pieces *)
Definition esc_piece (p : str) : Prop :=
  (forall c, In c p -> is_brace c = false) \/ p = [c_lbrace; c_lbrace] \/ p = [c_rbrace; c_rbrace].
Theorem C03_text_pieces : forall cc ps, Forall esc_piece ps -> placeholders cc (concat ps) = [].
Proof. exact Proofs.C03_text_pieces_proof. Qed.
Print Assumptions C03_text_pieces.

(* 4. never silently accepted: a literal that derive_more would treat as a bare transparent placeholder
      is accepted by std with that very placeholder *)
Theorem C03_no_silent_accept : forall cc, CC_ok cc -> forall s f,
  format_p cc s = Some ([], f) -> has_modifiers f = false ->
  (match f_arg f with Some (AInt n) => n = 0 | _ => True end) ->
  exists a, std_parse cc s = Some [a] /\
            sa_spec a = spec_or_default f /\
            sa_pos a = (match f_arg f with Some x => param_of_arg x | None => Positional 0 end).
Proof. exact Proofs.C03_no_silent_accept_proof. Qed.
Print Assumptions C03_no_silent_accept.

(* 5. the fuel of the top-level loop is irrelevant once it exceeds the length *)
Theorem C03_fuel : forall cc s n m, (length s < n)%nat -> (length s < m)%nat ->
  format_string_fuel cc n s = format_string_fuel cc m s.
Proof. exact Proofs.C03_fuel_proof. Qed.
Print Assumptions C03_fuel.

(* 6. the known finding, as a refutation of the unrestricted statement (witness "{:.}") *)
Theorem C03_empty_dot_refuted : exists s l, std_parse ascii_cc s = Some l /\ ~ no_empty_dot l /\
  placeholders ascii_cc s <> map std_placeholder l.
Proof. exact Proofs.empty_dot_refuted. Qed.
Print Assumptions C03_empty_dot_refuted.

(* 7. totality ingredients (used by property C18): every parser returns a suffix of its input *)
Definition is_suffix (rest input : str) : Prop := exists pre, input = pre ++ rest.

Theorem C18_format_suffix : forall cc i r f,
  format_p cc i = Some (r, f) -> is_suffix r i /\ (length r < length i)%nat.
Proof. exact Proofs.C18_format_suffix_proof. Qed.
Print Assumptions C18_format_suffix.

Theorem C18_identifier_suffix : forall cc i r x,
  identifier cc i = Some (r, x) -> is_suffix r i /\ i = x ++ r.
Proof. exact Proofs.C18_identifier_suffix_proof. Qed.
Print Assumptions C18_identifier_suffix.

Theorem C18_integer_suffix : forall i r n, integer i = Some (r, n) -> is_suffix r i /\ n <= usize_max.
Proof. exact Proofs.C18_integer_suffix_proof. Qed.
Print Assumptions C18_integer_suffix.

Theorem C18_text_suffix : forall i r x, text i = Some (r, x) -> i = x ++ r /\ (length r < length i)%nat.
Proof. exact Proofs.C18_text_suffix_proof. Qed.
Print Assumptions C18_text_suffix.

(* the ASCII table used in 6 and in the examples is a valid table *)
Theorem C03_ascii_cc_ok : CC_ok ascii_cc.
Proof. exact Proofs.ascii_cc_ok. Qed.
Print Assumptions C03_ascii_cc_ok.

(* the table regenerated on every run from the crate the macro links (unicode-xid) and char::is_whitespace
   is a valid table, so 1, 2 and 4 hold of it with no hypothesis left *)
From Verif Require Gen.XidTable C03.UnicodeOk.
Theorem C03_unicode_cc_ok : CC_ok Gen.XidTable.unicode_cc.
Proof. exact UnicodeOk.unicode_cc_ok. Qed.
Print Assumptions C03_unicode_cc_ok.

Theorem C03_placeholders_unicode : forall s l,
  std_parse Gen.XidTable.unicode_cc s = Some l -> no_empty_dot l ->
  placeholders Gen.XidTable.unicode_cc s = map std_placeholder l.
Proof. exact (C03_placeholders _ UnicodeOk.unicode_cc_ok). Qed.
Print Assumptions C03_placeholders_unicode.
