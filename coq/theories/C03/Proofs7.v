(** C03 proofs, part 7: every derivation of the std::fmt grammar is read back by the std model as
    intended ([Render.v]: any argument form, any fill character, every flag, every width/precision
    form, every type, white space, escapes, any sequence), hence - by the agreement theorems - by
    derive_more's parser too. *)
From Verif Require Import C03.Syntax C03.DmParse C03.StdParse.
From Verif Require Import C03.Proofs1 C03.Proofs2 C03.Proofs3 C03.Proofs4 C03.Proofs6 C03.Render.
From Coq Require Import Arith.

(** "the string is not empty and its first character satisfies [P]" *)
Definition hd_is (P : N -> Prop) (s : str) : Prop := match s with h :: _ => P h | [] => False end.

Lemma hd_is_app_l P a b : hd_is P a -> hd_is P (a ++ b).
Proof. destruct a; [contradiction|exact (fun H => H)]. Qed.

Lemma hd_is_impl (P Q : N -> Prop) s : (forall h, P h -> Q h) -> hd_is P s -> hd_is Q s.
Proof. destruct s; [contradiction|]. intros H. apply H. Qed.

Lemma is_align_special h : is_align h = true -> is_special h = true.
Proof.
  unfold is_align. intros H. apply orb_true_iff in H as [H|H]; [apply orb_true_iff in H as [H|H]|];
    apply N.eqb_eq in H; subst; reflexivity.
Qed.

Lemma not_special_not_align h : is_special h = false -> is_align h = false.
Proof. intros H. destruct (is_align h) eqn:E; [|reflexivity]. apply is_align_special in E. congruence. Qed.

Lemma align_of_char a : align_of (align_char a) = a.
Proof. destruct a; reflexivity. Qed.

Lemma is_align_char a : is_align (align_char a) = true.
Proof. destruct a; reflexivity. Qed.

Section Gram.
Variable cc : CharClass.
Hypothesis Hok : CC_ok cc.

Let endc := endc cc.
Let stopc := stopc cc.

(** ** character classes of the heads of the successive remainders *)
Definition is_tyletter (h : N) : Prop := In h [c_quest; c_x; c_X; c_o; c_p; c_b; c_e; c_E].
Definition tyc (h : N) : Prop := is_tyletter h \/ endc h.
Definition dotc (h : N) : Prop := h = c_dot \/ tyc h.
Definition widc (h : N) : Prop := is_digit h = true \/ id_start cc h = true \/ dotc h.
Definition c1 (h : N) : Prop := h = c_plus \/ h = c_minus \/ h = c_hash \/ widc h.

Lemma tyletter_cases h : is_tyletter h -> h = c_quest \/ is_ascii_letter h = true.
Proof. unfold is_tyletter. cbn [In]. intros [<-|[<-|[<-|[<-|[<-|[<-|[<-|[<-|[]]]]]]]]]; auto. Qed.

(** a character of class [widc] is none of the special characters other than [.], [?], [:], [}] *)
Lemma widc_not_special h d :
  widc h -> is_special d = true -> d <> c_dot -> d <> c_quest -> d <> c_colon -> d <> c_rbrace -> h <> d.
Proof.
  intros [H|[H|[H|[H|H]]]] Hd H1 H2 H3 H4 E; subst.
  - apply (special_not_digit cc Hok) in Hd. congruence.
  - apply (special_not_idstart cc Hok) in Hd. congruence.
  - congruence.
  - apply tyletter_cases in H as [H|H]; [congruence|].
    apply (letter_idstart cc Hok) in H. apply (special_not_idstart cc Hok) in Hd. congruence.
  - eapply (stopc_not_special_char cc Hok); [apply endc_stopc; exact H|exact Hd|exact H3|exact H4|reflexivity].
Qed.

Lemma widc_not_align h : widc h -> is_align h = false.
Proof.
  intros H. destruct (is_align h) eqn:E; [|reflexivity]. exfalso.
  unfold is_align in E. apply orb_true_iff in E as [E|E]; [apply orb_true_iff in E as [E|E]|];
    apply N.eqb_eq in E; revert E; apply widc_not_special; try exact H; try reflexivity; discriminate.
Qed.

Lemma c1_not_align h : c1 h -> is_align h = false.
Proof. intros [->|[->|[->|H]]]; try reflexivity. now apply widc_not_align. Qed.

Lemma dotc_widc h : dotc h -> widc h.
Proof. unfold widc. auto. Qed.
Lemma tyc_dotc h : tyc h -> dotc h.
Proof. unfold dotc. auto. Qed.
Lemma endc_tyc h : endc h -> tyc h.
Proof. unfold tyc. auto. Qed.

Lemma dotc_not_digit h : dotc h -> is_digit h = false.
Proof.
  intros [->|[H|H]]; [reflexivity| |].
  - apply tyletter_cases in H as [->|H]; [reflexivity|].
    apply (idstart_not_digit cc Hok), (letter_idstart cc Hok), H.
  - apply (stopc_not_digit cc Hok), endc_stopc, H.
Qed.

Lemma dotc_not_dollar h : dotc h -> h <> c_dollar.
Proof. intros H. apply widc_not_special; [now apply dotc_widc|reflexivity|discriminate..]. Qed.

Lemma endc_not_continue h : endc h -> xid_continue cc h = false.
Proof. intros H. apply (stopc_not_continue cc Hok), endc_stopc, H. Qed.

(** ** numerals and identifiers *)
Lemma wf_num_inv ds : wf_num ds = true ->
  exists d ds', ds = d :: ds' /\ is_digit d = true /\ forallb is_digit ds = true /\ digits_value ds <= u16_max.
Proof.
  unfold wf_num. destruct ds as [|d ds']; [discriminate|]. intros H.
  apply andb_true_iff in H as [H1 H2]. apply N.leb_le in H2.
  exists d, ds'. repeat split; trivial. cbn [forallb] in H1. now apply andb_true_iff in H1 as [H1 _].
Qed.

Lemma std_integer_num ds r :
  wf_num ds = true -> match r with h :: _ => is_digit h = false | [] => True end ->
  std_integer (ds ++ r) = Some (Some (digits_value ds), r).
Proof.
  intros H Hr. apply wf_num_inv in H as [d [ds' [-> [Hd [Hall Hv]]]]].
  unfold std_integer. cbn [app]. rewrite Hd. cbv zeta.
  change (d :: ds' ++ r) with ((d :: ds') ++ r).
  assert (Hs : skip_while is_digit ((d :: ds') ++ r) = r).
  { rewrite skip_while_app by exact Hall. destruct r as [|c r]; [reflexivity|]. now apply skip_while_stop. }
  rewrite Hs, consumed_app. apply N.leb_le in Hv. now rewrite Hv.
Qed.

Lemma wf_ident_inv s : wf_ident cc s = true ->
  exists c w, s = c :: w /\ id_start cc c = true /\ forallb (xid_continue cc) w = true /\ s <> [c_underscore].
Proof.
  unfold wf_ident. destruct s as [|c w]; [discriminate|]. intros H.
  apply andb_true_iff in H as [H H3]. apply andb_true_iff in H as [H1 H2].
  exists c, w. repeat split; trivial. intros E. rewrite E in H3. discriminate.
Qed.

Lemma std_word_ident s r :
  wf_ident cc s = true -> match r with h :: _ => xid_continue cc h = false | [] => True end ->
  std_word cc (s ++ r) = Some (s, r).
Proof.
  intros H Hr. apply wf_ident_inv in H as [c [w [-> [Hc [Hw Hne]]]]].
  cbn [app]. rewrite (std_word_start cc _ _ Hc). cbv zeta.
  assert (Hs : skip_while (xid_continue cc) (w ++ r) = r).
  { rewrite skip_while_app by exact Hw. destruct r as [|h r]; [reflexivity|]. now apply skip_while_stop. }
  rewrite Hs, consumed_app. now rewrite (str_eqb_false _ _ Hne).
Qed.

Lemma ident_head s : wf_ident cc s = true -> hd_is (fun h => id_start cc h = true) s.
Proof. intros H. apply wf_ident_inv in H as [c [w [-> [Hc _]]]]. exact Hc. Qed.

Lemma num_head ds : wf_num ds = true -> hd_is (fun h => is_digit h = true) ds.
Proof. intros H. apply wf_num_inv in H as [d [ds' [-> [Hd _]]]]. exact Hd. Qed.

(** ** the argument position *)
Lemma std_position_render oa r :
  opt_all (wf_sarg cc) oa = true -> hd_is stopc r ->
  std_position cc (opt_str render_arg oa ++ r) = Some (option_map sem_arg oa, r).
Proof.
  intros Hwf Hr. destruct r as [|h t]; [contradiction|]. cbn [hd_is] in Hr.
  destruct oa as [[ds|s]|]; cbn [opt_all wf_sarg opt_str render_arg option_map sem_arg] in *.
  - unfold std_position. rewrite std_integer_num; [reflexivity|exact Hwf|].
    apply (stopc_not_digit cc Hok), Hr.
  - pose proof (wf_ident_inv _ Hwf) as [c [w [-> [Hc _]]]].
    unfold std_position. cbn [app].
    rewrite std_integer_nodigit by now apply (idstart_not_digit cc Hok).
    rewrite Hc. change (c :: w ++ h :: t) with ((c :: w) ++ h :: t).
    rewrite std_word_ident; [|exact Hwf|apply (stopc_not_continue cc Hok), Hr].
    assert (Hh : N.eqb h c_hash = false).
    { apply N.eqb_neq. apply (stopc_not_special_char cc Hok); [exact Hr|reflexivity|discriminate|discriminate]. }
    destruct t as [|c2 t]; [now rewrite andb_false_r|]. rewrite Hh. cbn [andb]. now rewrite andb_false_r.
  - cbn [app]. unfold std_position. rewrite std_integer_nodigit by apply (stopc_not_digit cc Hok), Hr.
    now rewrite (stopc_not_idstart cc Hok _ Hr).
Qed.

(** ** white space *)
Lemma std_ws_skip w r : forallb (is_ws cc) w = true -> std_ws cc (w ++ r) = std_ws cc r.
Proof. intros H. unfold std_ws. now apply skip_while_app. Qed.

Lemma std_ws_stop h r : is_ws cc h = false -> std_ws cc (h :: r) = h :: r.
Proof. intros H. unfold std_ws. now apply skip_while_stop. Qed.

(** ** counts *)
Lemma std_count_render c r :
  wf_scnt cc c = true -> hd_is dotc r ->
  std_count cc (render_cnt c ++ r) = Some (Some (sem_cnt c), r).
Proof.
  intros Hwf Hr. destruct r as [|h t]; [contradiction|]. cbn [hd_is] in Hr.
  pose proof (dotc_not_digit _ Hr) as Hd. pose proof (dotc_not_dollar _ Hr) as Hdl.
  apply N.eqb_neq in Hdl.
  destruct c as [ds|[ds|s]]; cbn [wf_scnt wf_sarg render_cnt render_arg sem_cnt sem_arg] in *.
  - unfold std_count. rewrite std_integer_num; [|exact Hwf|exact Hd]. now rewrite Hdl.
  - unfold std_count. rewrite <- app_assoc. cbn [app].
    rewrite std_integer_num; [|exact Hwf|reflexivity]. now rewrite N.eqb_refl.
  - pose proof (wf_ident_inv _ Hwf) as [c [w [-> [Hc _]]]].
    unfold std_count. rewrite <- app_assoc. cbn [app].
    rewrite std_integer_nodigit by now apply (idstart_not_digit cc Hok).
    change (c :: w ++ c_dollar :: h :: t) with ((c :: w) ++ c_dollar :: h :: t).
    rewrite std_word_ident; [|exact Hwf|apply (special_not_continue cc Hok); reflexivity].
    now rewrite N.eqb_refl.
Qed.

Lemma render_cnt_head c : wf_scnt cc c = true ->
  hd_is (fun h => is_digit h = true \/ id_start cc h = true) (render_cnt c).
Proof.
  destruct c as [ds|[ds|s]]; cbn [wf_scnt wf_sarg render_cnt render_arg]; intros H.
  - eapply hd_is_impl; [|apply num_head, H]. auto.
  - apply hd_is_app_l. eapply hd_is_impl; [|apply num_head, H]. auto.
  - apply hd_is_app_l. eapply hd_is_impl; [|apply ident_head, H]. auto.
Qed.

(** no width: the count parser reads nothing in front of a precision dot, a type or the end *)
Lemma std_count_absent t r :
  hd_is endc r -> std_count cc (render_ty t ++ r) = Some (None, render_ty t ++ r).
Proof.
  intros Hr. destruct r as [|h r0]; [contradiction|]. cbn [hd_is] in Hr.
  pose proof (endc_not_continue _ Hr) as Hc. pose proof (endc_not_dollar cc Hok _ Hr) as Hdl.
  assert (Hq : xid_continue cc c_quest = false) by (apply (special_not_continue cc Hok); reflexivity).
  assert (HL : forall L, is_ascii_letter L = true -> L <> c_underscore ->
                         std_count cc (L :: h :: r0) = Some (None, L :: h :: r0)).
  { intros L H1 H2. apply (std_count_single cc Hok); auto. now apply (letter_idstart cc Hok). }
  destruct t; cbn [render_ty app]; try (apply HL; [reflexivity|discriminate]).
  - apply (std_count_nothing cc); [apply (stopc_not_digit cc Hok)|apply (stopc_not_idstart cc Hok)];
      apply endc_stopc, Hr.
  - apply (std_count_nothing cc); [reflexivity|apply (special_not_idstart cc Hok); reflexivity].
  - apply (std_count_single cc Hok); [apply (letter_idstart cc Hok); reflexivity|discriminate|exact Hq|discriminate].
  - apply (std_count_single cc Hok); [apply (letter_idstart cc Hok); reflexivity|discriminate|exact Hq|discriminate].
Qed.

(** ** the type *)
Lemma std_type_render t r : hd_is endc r -> std_type cc (render_ty t ++ r) = Some (t, r).
Proof.
  intros Hr. destruct r as [|h r0]; [contradiction|]. cbn [hd_is] in Hr.
  pose proof (endc_not_continue _ Hr) as Hc.
  assert (Hsp : forall d, is_special d = true -> d <> c_colon -> d <> c_rbrace -> N.eqb h d = false).
  { intros d H1 H2 H3. now apply (endc_neq_special cc Hok). }
  assert (Hlt : forall d, is_ascii_letter d = true -> N.eqb h d = false).
  { intros d H1. now apply (endc_neq_letter cc Hok). }
  assert (HL : forall L, is_ascii_letter L = true -> L <> c_underscore ->
                         std_word cc (L :: h :: r0) = Some ([L], h :: r0)).
  { intros L H1 H2. apply (std_word_single cc); auto. now apply (letter_idstart cc Hok). }
  destruct t; cbn [render_ty app]; unfold std_type.
  - (* Display *)
    rewrite (Hlt c_x), (Hlt c_X), (Hsp c_quest) by (try reflexivity; discriminate).
    rewrite (std_word_nostart cc); [reflexivity|]. apply (stopc_not_idstart cc Hok), endc_stopc, Hr.
  - (* ? *)
    change (N.eqb c_quest c_x) with false. change (N.eqb c_quest c_X) with false.
    change (N.eqb c_quest c_quest) with true. cbv iota.
    rewrite (Hsp c_hash), (Hlt c_x), (Hlt c_X) by (try reflexivity; discriminate). reflexivity.
  - reflexivity.
  - reflexivity.
  - change (N.eqb c_o c_x) with false. change (N.eqb c_o c_X) with false. change (N.eqb c_o c_quest) with false.
    cbv iota. rewrite HL by (try reflexivity; discriminate). reflexivity.
  - change (N.eqb c_x c_x) with true. cbv iota. rewrite (Hsp c_quest) by (try reflexivity; discriminate). reflexivity.
  - change (N.eqb c_X c_x) with false. change (N.eqb c_X c_X) with true. cbv iota.
    rewrite (Hsp c_quest) by (try reflexivity; discriminate). reflexivity.
  - change (N.eqb c_p c_x) with false. change (N.eqb c_p c_X) with false. change (N.eqb c_p c_quest) with false.
    cbv iota. rewrite HL by (try reflexivity; discriminate). reflexivity.
  - change (N.eqb c_b c_x) with false. change (N.eqb c_b c_X) with false. change (N.eqb c_b c_quest) with false.
    cbv iota. rewrite HL by (try reflexivity; discriminate). reflexivity.
  - change (N.eqb c_e c_x) with false. change (N.eqb c_e c_X) with false. change (N.eqb c_e c_quest) with false.
    cbv iota. rewrite HL by (try reflexivity; discriminate). reflexivity.
  - change (N.eqb c_E c_x) with false. change (N.eqb c_E c_X) with false. change (N.eqb c_E c_quest) with false.
    cbv iota. rewrite HL by (try reflexivity; discriminate). reflexivity.
Qed.

Lemma render_ty_head t r : hd_is endc r -> hd_is tyc (render_ty t ++ r).
Proof.
  intros Hr. destruct t; cbn [render_ty app hd_is]; try (left; unfold is_tyletter; cbn [In]; tauto).
  eapply hd_is_impl; [|exact Hr]. apply endc_tyc.
Qed.


(** ** small facts about [consume] and heads *)
Lemma consume_hit d r : consume d (d :: r) = Some r.
Proof. unfold consume. now rewrite N.eqb_refl. Qed.

Lemma consume_miss d i : hd_is (fun h => h <> d) i -> consume d i = None.
Proof. destruct i as [|h t]; [contradiction|]. cbn [hd_is]. intros H. unfold consume. apply N.eqb_neq in H. now rewrite H. Qed.

Lemma hd_R7 ws2 rest : forallb (is_ws cc) ws2 = true -> hd_is endc (ws2 ++ c_rbrace :: rest).
Proof.
  destruct ws2 as [|c w]; cbn [app hd_is forallb]; intros H; [right; reflexivity|].
  apply andb_true_iff in H as [H _]. now left.
Qed.

Lemma tyc_not_dot h : tyc h -> h <> c_dot.
Proof.
  intros [H|H].
  - unfold is_tyletter in H. cbn [In] in H. intros ->.
    repeat (destruct H as [H|H]; [discriminate|]). contradiction.
  - apply N.eqb_neq. apply (endc_neq_special cc Hok); [exact H|reflexivity|discriminate|discriminate].
Qed.

Lemma digit_or_start_widc h : is_digit h = true \/ id_start cc h = true -> widc h.
Proof. unfold widc. tauto. Qed.

Lemma widc_neq h d :
  widc h -> is_special d = true -> d <> c_dot -> d <> c_quest -> d <> c_colon -> d <> c_rbrace -> h <> d.
Proof. apply widc_not_special. Qed.

(** ** precision *)
Lemma std_prec_render op n r :
  opt_all (wf_sprec cc) op = true -> hd_is tyc r ->
  std_prec cc n (opt_str render_prec op ++ r) =
    Some (option_map sem_prec op, false, match op with Some SPStar => n + 1 | _ => n end, r).
Proof.
  intros Hwf Hr. unfold std_prec. destruct op as [[c|]|]; cbn [opt_str render_prec option_map sem_prec app].
  - rewrite consume_hit. cbn [opt_all wf_sprec] in Hwf.
    rewrite consume_miss.
    + rewrite std_count_render; [reflexivity|exact Hwf|]. eapply hd_is_impl; [|exact Hr]. apply tyc_dotc.
    + apply hd_is_app_l. eapply hd_is_impl; [|apply render_cnt_head, Hwf].
      intros h Hh. apply widc_neq; [now apply digit_or_start_widc|reflexivity|discriminate..].
  - rewrite consume_hit, consume_hit. reflexivity.
  - rewrite consume_miss; [reflexivity|]. eapply hd_is_impl; [|exact Hr]. apply tyc_not_dot.
Qed.

Lemma render_prec_head op r : hd_is tyc r -> hd_is dotc (opt_str render_prec op ++ r).
Proof.
  intros Hr. destruct op as [p|]; cbn [opt_str render_prec app hd_is]; [now left|].
  eapply hd_is_impl; [|exact Hr]. apply tyc_dotc.
Qed.

(** ** zero flag and width *)
Lemma wf_width_scnt zero w : wf_width cc zero w = true -> wf_scnt cc w = true.
Proof.
  destruct w as [ds|[ds|s]]; cbn [wf_width wf_scnt wf_sarg]; intros H; try exact H;
    now apply andb_true_iff in H as [H _].
Qed.

Lemma std_count_absent2 op t r7 :
  hd_is endc r7 ->
  std_count cc (opt_str render_prec op ++ render_ty t ++ r7) =
  Some (None, opt_str render_prec op ++ render_ty t ++ r7).
Proof.
  intros Hr. destruct op as [p|]; cbn [opt_str app]; [|now apply std_count_absent].
  unfold render_prec. cbn [app]. apply (std_count_nothing cc); [reflexivity|].
  apply (special_not_idstart cc Hok). reflexivity.
Qed.

Lemma not_digit_not_zero h : is_digit h = false -> h <> c_zero.
Proof. intros H ->. discriminate. Qed.

Lemma std_zero_width_render zero ow r :
  opt_all (wf_width cc zero) ow = true -> hd_is dotc r -> std_count cc r = Some (None, r) ->
  exists w0 i1,
    std_zero ((if zero then [c_zero] else []) ++ opt_str render_cnt ow ++ r) = (zero, w0, i1) /\
    std_width cc w0 i1 = Some (option_map sem_cnt ow, r).
Proof.
  intros Hwf Hr Habs.
  assert (Hcnt : forall c, wf_scnt cc c = true ->
            std_width cc None (render_cnt c ++ r) = Some (Some (sem_cnt c), r)).
  { intros c Hc. unfold std_width. now apply std_count_render. }
  assert (Hw : hd_is widc (opt_str render_cnt ow ++ r)).
  { destruct ow as [c|]; cbn [opt_str app].
    - apply hd_is_app_l. eapply hd_is_impl; [|apply render_cnt_head, (wf_width_scnt zero), Hwf].
      apply digit_or_start_widc.
    - eapply hd_is_impl; [|exact Hr]. apply dotc_widc. }
  destruct zero; cbn [app].
  - exists None, (opt_str render_cnt ow ++ r). split.
    + unfold std_zero. rewrite consume_hit. rewrite consume_miss; [reflexivity|].
      eapply hd_is_impl; [|exact Hw]. intros h Hh.
      apply widc_neq; [exact Hh|reflexivity|discriminate..].
    + destruct ow as [c|]; cbn [opt_str option_map app]; [|exact Habs].
      apply Hcnt, (wf_width_scnt true), Hwf.
  - assert (Hmiss : hd_is (fun h => h <> c_zero) (opt_str render_cnt ow ++ r) ->
              std_zero (opt_str render_cnt ow ++ r) = (false, None, opt_str render_cnt ow ++ r)).
    { intros H. unfold std_zero. now rewrite consume_miss. }
    destruct ow as [[ds|[ds|s]]|]; cbn [opt_all wf_width opt_str option_map render_cnt render_arg orb] in *.
    + apply andb_true_iff in Hwf as [Hn Hz]. exists None, (ds ++ r). split.
      * apply Hmiss. apply hd_is_app_l. pose proof (wf_num_inv _ Hn) as [d [ds' [-> _]]].
        cbn [hd_is starts_with_zero] in *. apply negb_true_iff, N.eqb_neq in Hz. exact Hz.
      * now apply (Hcnt (SCInt ds)).
    + apply andb_true_iff in Hwf as [Hn Hz]. apply orb_true_iff in Hz as [Hz|Hz].
      * exists None, ((ds ++ [c_dollar]) ++ r). split.
        -- apply Hmiss. apply hd_is_app_l, hd_is_app_l. pose proof (wf_num_inv _ Hn) as [d [ds' [-> _]]].
           cbn [hd_is starts_with_zero] in *. apply negb_true_iff, N.eqb_neq in Hz. exact Hz.
        -- now apply (Hcnt (SCParam (SInt ds))).
      * apply str_eqb_eq in Hz. subst ds. exists (Some (CParam (AInt 0))), r. split; reflexivity.
    + exists None, ((s ++ [c_dollar]) ++ r). split.
      * apply Hmiss. apply hd_is_app_l, hd_is_app_l. eapply hd_is_impl; [|apply ident_head, Hwf].
        intros h Hh. apply not_digit_not_zero, (idstart_not_digit cc Hok), Hh.
      * now apply (Hcnt (SCParam (SIdent s))).
    + exists None, r. split; [|exact Habs]. apply Hmiss.
      eapply hd_is_impl; [|exact Hr]. intros h Hh. apply not_digit_not_zero, dotc_not_digit, Hh.
Qed.

(** ** [#], sign, fill and alignment *)
Lemma std_hash_render (b : bool) r :
  hd_is (fun h => h <> c_hash) r -> std_hash ((if b then [c_hash] else []) ++ r) = (b, r).
Proof.
  intros Hr. unfold std_hash. destruct b; cbn [app]; [now rewrite consume_hit|now rewrite consume_miss].
Qed.

Lemma std_sign_render sg r :
  hd_is (fun h => h <> c_plus /\ h <> c_minus) r -> std_sign (render_sign sg ++ r) = (sg, r).
Proof.
  intros Hr. destruct sg as [[|]|]; cbn [render_sign app]; try reflexivity.
  destruct r as [|h t]; [contradiction|]. cbn [hd_is] in Hr. destruct Hr as [H1 H2].
  unfold std_sign. apply N.eqb_neq in H1, H2. now rewrite H1, H2.
Qed.

Lemma std_fill_align_some fill a r :
  hd_is (fun h => is_align h = false) r ->
  std_fill_align (render_align (Some (fill, a)) ++ r) = (Some (fill, a), r).
Proof.
  intros Hr. destruct r as [|h t]; [contradiction|]. cbn [hd_is] in Hr.
  unfold std_fill_align. destruct fill as [c|]; cbn [render_align app].
  - rewrite is_align_char. rewrite is_align_char. now rewrite align_of_char.
  - rewrite Hr. rewrite is_align_char. now rewrite align_of_char.
Qed.

Definition na (h : N) : bool := negb (is_align h).

Lemma std_fill_align_none region rest :
  forallb na region = true -> (region = [] -> head_not_align rest = true) ->
  std_fill_align (region ++ c_rbrace :: rest) = (None, region ++ c_rbrace :: rest).
Proof.
  intros Hreg Hrest. unfold std_fill_align, na in *.
  destruct region as [|a [|b reg]]; cbn [app forallb] in *.
  - specialize (Hrest eq_refl). destruct rest as [|h t]; [reflexivity|].
    cbn [head_not_align] in Hrest. apply negb_true_iff in Hrest. now rewrite Hrest.
  - apply andb_true_iff in Hreg as [Ha _]. apply negb_true_iff in Ha.
    change (is_align c_rbrace) with false. cbv iota. now rewrite Ha.
  - apply andb_true_iff in Hreg as [Ha Hreg]. apply andb_true_iff in Hreg as [Hb _].
    apply negb_true_iff in Ha, Hb. now rewrite Hb, Ha.
Qed.

Lemma forallb_impl {A} (f g : A -> bool) l :
  (forall x, f x = true -> g x = true) -> forallb f l = true -> forallb g l = true.
Proof.
  intros H. induction l as [|x l IH]; [reflexivity|]. cbn [forallb]. intros E.
  apply andb_true_iff in E as [E1 E2]. now rewrite (H _ E1), IH.
Qed.

Lemma continue_na h : xid_continue cc h = true -> na h = true.
Proof.
  intros H. unfold na. apply negb_true_iff, not_special_not_align.
  destruct (is_special h) eqn:E; [|reflexivity]. apply (special_not_continue cc Hok) in E. congruence.
Qed.

Lemma digit_na h : is_digit h = true -> na h = true.
Proof. intros H. apply continue_na, (ok_digit_continue cc Hok), H. Qed.

Lemma ws_na h : is_ws cc h = true -> na h = true.
Proof. intros H. unfold na. apply negb_true_iff, not_special_not_align, (ok_ws_not_special cc Hok), H. Qed.

Lemma num_na ds : wf_num ds = true -> forallb na ds = true.
Proof. intros H. apply wf_num_inv in H as [d [ds' [_ [_ [H _]]]]]. revert H. apply forallb_impl, digit_na. Qed.

Lemma ident_na s : wf_ident cc s = true -> forallb na s = true.
Proof.
  intros H. apply wf_ident_inv in H as [c [w [-> [Hc [Hw _]]]]]. cbn [forallb].
  rewrite (continue_na c) by now apply (idstart_continue cc Hok). revert Hw. apply forallb_impl, continue_na.
Qed.

Lemma cnt_na c : wf_scnt cc c = true -> forallb na (render_cnt c) = true.
Proof.
  destruct c as [ds|[ds|s]]; cbn [wf_scnt wf_sarg render_cnt render_arg]; intros H.
  - now apply num_na.
  - rewrite forallb_app, (num_na _ H). reflexivity.
  - rewrite forallb_app, (ident_na _ H). reflexivity.
Qed.

Lemma tail_na s ws2 :
  wf_sspec cc s = true -> forallb (is_ws cc) ws2 = true ->
  forallb na (render_spec_tail s ++ ws2) = true.
Proof.
  intros Hwf Hws. unfold wf_sspec in Hwf. apply andb_true_iff in Hwf as [Hw Hp].
  unfold render_spec_tail. rewrite !forallb_app.
  assert (H1 : forallb na (render_sign (ss_sign s)) = true) by (destruct (ss_sign s) as [[|]|]; reflexivity).
  assert (H2 : forallb na (if ss_alt s then [c_hash] else []) = true) by (destruct (ss_alt s); reflexivity).
  assert (H3 : forallb na (if ss_zero s then [c_zero] else []) = true) by (destruct (ss_zero s); reflexivity).
  assert (H4 : forallb na (opt_str render_cnt (ss_width s)) = true).
  { destruct (ss_width s) as [c|]; [|reflexivity]. apply cnt_na, (wf_width_scnt (ss_zero s)), Hw. }
  assert (H5 : forallb na (opt_str render_prec (ss_prec s)) = true).
  { destruct (ss_prec s) as [[c|]|]; try reflexivity. cbn [opt_str render_prec forallb].
    rewrite (cnt_na c) by exact Hp. reflexivity. }
  assert (H6 : forallb na (render_ty (ss_ty s)) = true) by (destruct (ss_ty s); reflexivity).
  assert (H7 : forallb na ws2 = true) by (revert Hws; apply forallb_impl, ws_na).
  now rewrite H1, H2, H3, H4, H5, H6, H7.
Qed.

(** ** the whole format_spec *)
Definition s_star (s : sspec) : bool := match ss_prec s with Some SPStar => true | _ => false end.

Lemma std_format_render s ws2 rest n :
  wf_sspec cc s = true -> forallb (is_ws cc) ws2 = true ->
  (render_spec s ++ ws2 = [] -> head_not_align rest = true) ->
  std_format cc n (c_colon :: render_spec s ++ ws2 ++ c_rbrace :: rest) =
  Some (sem_spec s, false, (if s_star s then n + 1 else n), ws2 ++ c_rbrace :: rest).
Proof.
  intros Hwf Hws Hblank. pose proof (tail_na _ _ Hwf Hws) as Hna.
  unfold wf_sspec in Hwf. apply andb_true_iff in Hwf as [Hw Hp].
  rewrite (std_format_unfold cc). rewrite consume_hit.
  set (R7 := ws2 ++ c_rbrace :: rest).
  set (R6 := render_ty (ss_ty s) ++ R7).
  set (R5 := opt_str render_prec (ss_prec s) ++ R6).
  set (R4 := opt_str render_cnt (ss_width s) ++ R5).
  set (R3 := (if ss_zero s then [c_zero] else []) ++ R4).
  set (R2 := (if ss_alt s then [c_hash] else []) ++ R3).
  set (R1 := render_sign (ss_sign s) ++ R2).
  assert (E0 : render_spec s ++ R7 = render_align (ss_align s) ++ R1).
  { unfold render_spec, render_spec_tail, R1, R2, R3, R4, R5, R6. now rewrite <- !app_assoc. }
  rewrite E0.
  assert (H7 : hd_is endc R7) by now apply hd_R7.
  assert (H6 : hd_is tyc R6) by now apply render_ty_head.
  assert (H5 : hd_is dotc R5) by now apply render_prec_head.
  assert (H4 : hd_is widc R4).
  { unfold R4. destruct (ss_width s) as [c|]; cbn [opt_str app].
    - apply hd_is_app_l. eapply hd_is_impl; [|apply render_cnt_head, (wf_width_scnt (ss_zero s)), Hw].
      apply digit_or_start_widc.
    - eapply hd_is_impl; [|exact H5]. apply dotc_widc. }
  assert (H3 : hd_is widc R3).
  { unfold R3. destruct (ss_zero s); cbn [app hd_is]; [left; reflexivity|exact H4]. }
  assert (H2 : hd_is (fun h => h = c_hash \/ widc h) R2).
  { unfold R2. destruct (ss_alt s); cbn [app hd_is]; [left; reflexivity|].
    eapply hd_is_impl; [|exact H3]. tauto. }
  assert (H1 : hd_is c1 R1).
  { unfold R1. destruct (ss_sign s) as [[|]|]; cbn [render_sign app hd_is]; [left; reflexivity|right; left; reflexivity|].
    eapply hd_is_impl; [|exact H2]. unfold c1. tauto. }
  (* fill / align *)
  assert (Eal : std_fill_align (render_align (ss_align s) ++ R1) = (ss_align s, R1)).
  { destruct (ss_align s) as [[fill a]|] eqn:Eal.
    - apply std_fill_align_some. eapply hd_is_impl; [|exact H1]. apply c1_not_align.
    - cbn [render_align app].
      assert (E1 : R1 = (render_spec_tail s ++ ws2) ++ c_rbrace :: rest).
      { unfold R1, R2, R3, R4, R5, R6, R7, render_spec_tail. now rewrite <- !app_assoc. }
      rewrite E1. apply std_fill_align_none; [exact Hna|].
      intros E. apply Hblank. unfold render_spec. rewrite Eal. exact E. }
  rewrite Eal.
  (* sign *)
  assert (Esg : std_sign R1 = (ss_sign s, R2)).
  { apply std_sign_render. eapply hd_is_impl; [|exact H2].
    intros h [->|H]; [split; discriminate|].
    split; apply widc_neq; try exact H; try reflexivity; discriminate. }
  rewrite Esg.
  (* # *)
  assert (Eh : std_hash R2 = (ss_alt s, R3)).
  { apply std_hash_render. eapply hd_is_impl; [|exact H3].
    intros h H. apply widc_neq; try exact H; try reflexivity; discriminate. }
  rewrite Eh.
  (* 0 and width *)
  assert (Habs : std_count cc R5 = Some (None, R5)) by now apply std_count_absent2.
  destruct (std_zero_width_render (ss_zero s) (ss_width s) R5 Hw H5 Habs) as [w0 [i1 [Ez Ew]]].
  fold R4 in Ez. fold R3 in Ez. rewrite Ez, Ew.
  (* precision *)
  unfold R5 at 1. rewrite std_prec_render by assumption.
  (* type *)
  unfold R6 at 1. rewrite std_type_render by assumption.
  unfold sem_spec, s_star. destruct (ss_prec s) as [[c|]|]; reflexivity.
Qed.


(** ** one placeholder *)
Definition arg_at (n : N) (pre : list format) (f : format) : std_arg :=
  {| sa_pos := position_at n pre f; sa_spec := spec_of f; sa_star := star_at n pre f; sa_empty_dot := false |}.

Lemma blank_colon_intro p s :
  sf_spec p = Some s -> render_spec s ++ sf_ws2 p = [] -> blank_colon p = true.
Proof. intros E1 E2. unfold blank_colon. now rewrite E1, E2. Qed.

Lemma if_add (b : bool) n : (if b then n + 1 else n) = n + (if b then 1 else 0).
Proof. destruct b; [reflexivity|now rewrite N.add_0_r]. Qed.

Lemma std_argument_render p n rest :
  wf_sformat cc p = true -> (blank_colon p = true -> head_not_align rest = true) ->
  std_argument cc n (render_body p ++ c_rbrace :: rest) =
  Some (arg_at n [] (sem_format p), n + advance (sem_format p), rest).
Proof.
  intros Hwf Hblank. unfold wf_sformat in Hwf.
  apply andb_true_iff in Hwf as [Hwf Hws2]. apply andb_true_iff in Hwf as [Hwf Hsp].
  apply andb_true_iff in Hwf as [Harg Hws1].
  set (R7 := sf_ws2 p ++ c_rbrace :: rest).
  set (Y := opt_str (fun s => c_colon :: render_spec s) (sf_spec p) ++ R7).
  assert (E : render_body p ++ c_rbrace :: rest = opt_str render_arg (sf_arg p) ++ sf_ws1 p ++ Y).
  { unfold render_body, Y, R7. now rewrite <- !app_assoc. }
  rewrite E. clear E.
  assert (H7 : hd_is endc R7) by now apply hd_R7.
  assert (HY : hd_is stopc Y).
  { unfold Y. destruct (sf_spec p) as [s|]; cbn [opt_str app hd_is]; [right; left; reflexivity|].
    eapply hd_is_impl; [|exact H7]. apply endc_stopc. }
  assert (HX : hd_is stopc (sf_ws1 p ++ Y)).
  { destruct (sf_ws1 p) as [|c w]; [exact HY|]. cbn [app hd_is forallb] in *.
    apply andb_true_iff in Hws1 as [H _]. now left. }
  unfold std_argument. rewrite (std_position_render _ _ Harg HX).
  rewrite (std_ws_skip _ _ Hws1).
  assert (Hend : std_ws cc R7 = c_rbrace :: rest).
  { unfold R7. rewrite (std_ws_skip _ _ Hws2). apply std_ws_stop, (ws_rbrace_false cc Hok). }
  unfold Y. destruct (sf_spec p) as [s|] eqn:Es; cbn [opt_str app opt_all] in *.
  - rewrite std_ws_stop by apply (ws_colon_false cc Hok).
    unfold R7 at 1. rewrite (std_format_render s (sf_ws2 p) rest n Hsp Hws2).
    2:{ intros E0. apply Hblank. now apply (blank_colon_intro p s). }
    fold R7. rewrite Hend, consume_hit.
    unfold arg_at, sem_format, position_at, star_at, advance, implicit, is_star, spec_of. rewrite Es.
    cbn [f_arg f_spec option_map sem_spec sp_prec counter_after fold_left].
    unfold s_star.
    destruct (sf_arg p) as [[ds|s0]|]; destruct (ss_prec s) as [[c|]|];
      cbn [option_map sem_arg sem_prec is_some negb param_of_arg];
      rewrite ?N.add_0_r, ?N.add_0_l, ?N.add_assoc; reflexivity.
  - rewrite Hend. unfold std_format. change (consume c_colon (c_rbrace :: rest)) with (@None str). cbv iota.
    rewrite std_ws_stop by apply (ws_rbrace_false cc Hok). rewrite consume_hit.
    unfold arg_at, sem_format, position_at, star_at, advance, implicit, is_star, spec_of. rewrite Es.
    cbn [f_arg f_spec option_map sp_prec default_spec counter_after fold_left].
    destruct (sf_arg p) as [[ds|s0]|]; cbn [option_map sem_arg is_some negb param_of_arg];
      rewrite ?N.add_0_r, ?N.add_0_l; reflexivity.
Qed.

Lemma body_head p rest :
  wf_sformat cc p = true -> hd_is (fun h => h <> c_lbrace) (render_body p ++ c_rbrace :: rest).
Proof.
  intros Hwf. unfold wf_sformat in Hwf.
  apply andb_true_iff in Hwf as [Hwf Hws2]. apply andb_true_iff in Hwf as [Hwf Hsp].
  apply andb_true_iff in Hwf as [Harg Hws1].
  assert (Hst : forall h, stopc h -> h <> c_lbrace).
  { intros h H. apply (stopc_not_special_char cc Hok); [exact H|reflexivity|discriminate|discriminate]. }
  unfold render_body. rewrite <- !app_assoc.
  destruct (sf_arg p) as [[ds|s0]|]; cbn [opt_str render_arg opt_all wf_sarg] in *.
  - apply hd_is_app_l. eapply hd_is_impl; [|apply num_head, Harg].
    intros h H E. subst. discriminate.
  - apply hd_is_app_l. eapply hd_is_impl; [|apply ident_head, Harg].
    intros h H E. subst. rewrite (special_not_idstart cc Hok) in H; [discriminate|reflexivity].
  - cbn [app]. destruct (sf_ws1 p) as [|c w]; cbn [app hd_is forallb] in *.
    + destruct (sf_spec p) as [s|]; cbn [opt_str app hd_is]; [discriminate|].
      eapply hd_is_impl; [|apply (hd_R7 _ rest Hws2)]. intros h H. apply Hst, endc_stopc, H.
    + apply andb_true_iff in Hws1 as [H _]. apply Hst. now left.
Qed.

(** ** any sequence of text, escapes and placeholders *)
Lemma std_pieces_render : forall its fuel n0 pre,
  wf_items cc its = true -> (length (render_items its) < fuel)%nat ->
  std_pieces cc fuel (counter_after n0 pre) (render_items its) = Some (expected_args n0 pre (formats_of its)).
Proof.
  induction its as [|it its IH]; intros fuel n0 pre Hwf Hlen.
  - destruct fuel; reflexivity.
  - destruct fuel as [|fuel]; [lia|].
    destruct it as [c| | |p]; cbn [wf_items render_items render_item formats_of app] in *.
    + apply andb_true_iff in Hwf as [Hc Hwf]. apply negb_true_iff in Hc.
      rewrite std_pieces_unfold. destruct (nonbrace_neq _ Hc) as [H1 H2]. rewrite H1, H2.
      apply IH; [exact Hwf|cbn [length] in Hlen; lia].
    + rewrite std_pieces_unfold. change (N.eqb c_lbrace c_lbrace) with true. cbv iota.
      apply IH; [exact Hwf|cbn [length] in Hlen; lia].
    + rewrite std_pieces_unfold. change (N.eqb c_rbrace c_lbrace) with false.
      change (N.eqb c_rbrace c_rbrace) with true. cbv iota.
      apply IH; [exact Hwf|cbn [length] in Hlen; lia].
    + apply andb_true_iff in Hwf as [Hwf Hr]. apply andb_true_iff in Hwf as [Hp Hb].
      unfold render_format in *. cbn [app] in *. rewrite <- app_assoc in *. cbn [app] in *.
      assert (Hblank : blank_colon p = true -> head_not_align (render_items its) = true).
      { intros E. rewrite E in Hb. exact Hb. }
      pose proof (std_argument_render p (counter_after n0 pre) (render_items its) Hp Hblank) as Ea.
      pose proof (body_head p (render_items its) Hp) as Hh.
      rewrite std_pieces_unfold. change (N.eqb c_lbrace c_lbrace) with true. cbv iota.
      assert (Hl : (length (render_items its) < fuel)%nat).
      { cbn [length] in Hlen. rewrite app_length in Hlen. cbn [length] in Hlen. lia. }
      destruct (render_body p ++ c_rbrace :: render_items its) as [|c2 r2]; [contradiction|].
      cbn [hd_is] in Hh. apply N.eqb_neq in Hh. rewrite Hh, Ea.
      rewrite <- counter_after_snoc. rewrite (IH fuel n0 (pre ++ [sem_format p]) Hr Hl).
      reflexivity.
Qed.

Theorem grammar_std its :
  wf_items cc its = true ->
  std_parse cc (render_items its) = Some (expected_args 0 [] (formats_of its)).
Proof. intros H. unfold std_parse. apply (std_pieces_render its _ 0 [] H). lia. Qed.

Lemma expected_no_empty_dot : forall fs n pre, no_empty_dot (expected_args n pre fs).
Proof. unfold no_empty_dot. induction fs as [|f fs IH]; intros n pre; [reflexivity|]. cbn. apply IH. Qed.

Lemma expected_placeholders : forall fs n pre,
  map std_placeholder (expected_args n pre fs) = placeholders_from (counter_after n pre) fs.
Proof.
  induction fs as [|f fs IH]; intros n pre; [reflexivity|].
  cbn [expected_args map]. rewrite placeholders_from_cons, IH, counter_after_snoc. f_equal.
  unfold std_placeholder, ph_at. cbn [sa_pos sa_spec]. rewrite has_modifiers_spec. reflexivity.
Qed.

Lemma expected_specs : forall fs n pre, map sa_spec (expected_args n pre fs) = map spec_of fs.
Proof. induction fs as [|f fs IH]; intros n pre; [reflexivity|]. cbn [expected_args map sa_spec]. now rewrite IH. Qed.

(** derive_more recovers the placeholders of every derivation ... *)
Theorem grammar_dm_placeholders its :
  wf_items cc its = true -> placeholders cc (render_items its) = placeholders_from 0 (formats_of its).
Proof.
  intros H. rewrite (placeholders_agree cc Hok _ _ (grammar_std its H) (expected_no_empty_dot _ _ _)).
  apply (expected_placeholders _ 0 []).
Qed.

(** ... and their specs *)
Theorem grammar_dm_formats its :
  wf_items cc its = true ->
  exists fs, format_string cc (render_items its) = Some fs /\
             map spec_or_default fs = map spec_or_default (formats_of its) /\
             placeholders_from 0 fs = placeholders_from 0 (formats_of its).
Proof.
  intros H. pose proof (grammar_std its H) as Hs.
  destruct (std_is_expected cc Hok _ _ Hs (expected_no_empty_dot _ _ _)) as [fs [Hf He]].
  exists fs. split; [exact Hf|]. split.
  - change (map spec_of fs = map spec_of (formats_of its)). rewrite <- (expected_specs fs 0 []), <- He.
    apply expected_specs.
  - pose proof (expected_placeholders fs 0 []) as E1.
    pose proof (expected_placeholders (formats_of its) 0 []) as E2.
    cbn [counter_after fold_left] in E1, E2. now rewrite <- E1, <- E2, He.
Qed.

End Gram.
