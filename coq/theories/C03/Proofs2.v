(** C03 proofs, part 2: character-class facts and component-wise agreement of the
    derive_more parser with rustc's parser. *)
From Verif Require Import C03.Syntax C03.DmParse C03.StdParse C03.Proofs1.
From Coq Require Import Arith.

Lemma consume_p_char c i : consume c i = p_char c i.
Proof. reflexivity. Qed.

Lemma str_eqb_false a b : a <> b -> str_eqb a b = false.
Proof.
  intros H. destruct (str_eqb a b) eqn:E; [|reflexivity]. apply str_eqb_eq in E. contradiction.
Qed.

Lemma str_eqb_refl a : str_eqb a a = true.
Proof. now apply str_eqb_eq. Qed.

Section CCFacts.
Variable cc : CharClass.
Hypothesis Hok : CC_ok cc.

Lemma not_continue_not_idstart c : xid_continue cc c = false -> id_start cc c = false.
Proof.
  intros H. unfold id_start. apply orb_false_iff. split.
  - apply N.eqb_neq. intros ->. rewrite (ok_underscore_continue cc Hok) in H. discriminate.
  - destruct (xid_start cc c) eqn:E; [|reflexivity].
    apply (ok_start_continue cc Hok) in E. congruence.
Qed.

Lemma idstart_continue c : id_start cc c = true -> xid_continue cc c = true.
Proof.
  intros H. destruct (xid_continue cc c) eqn:E; [reflexivity|].
  apply not_continue_not_idstart in E. congruence.
Qed.

Lemma digit_not_idstart c : is_digit c = true -> id_start cc c = false.
Proof.
  intros H. unfold id_start. apply orb_false_iff. split.
  - apply N.eqb_neq. intros ->. discriminate.
  - now apply (ok_digit_not_start cc Hok).
Qed.

Lemma idstart_not_digit c : id_start cc c = true -> is_digit c = false.
Proof.
  intros H. destruct (is_digit c) eqn:E; [|reflexivity]. apply digit_not_idstart in E. congruence.
Qed.

Lemma special_not_continue c : is_special c = true -> xid_continue cc c = false.
Proof. apply (ok_special_not_continue cc Hok). Qed.

Lemma special_not_idstart c : is_special c = true -> id_start cc c = false.
Proof. intros H. now apply not_continue_not_idstart, special_not_continue. Qed.

Lemma ws_not_continue c : is_ws cc c = true -> xid_continue cc c = false.
Proof. apply (ok_ws_not_continue cc Hok). Qed.

Lemma ws_not_idstart c : is_ws cc c = true -> id_start cc c = false.
Proof. intros H. now apply not_continue_not_idstart, ws_not_continue. Qed.

Lemma ws_not_digit c : is_ws cc c = true -> is_digit c = false.
Proof.
  intros H. destruct (is_digit c) eqn:E; [|reflexivity].
  apply (ok_digit_continue cc Hok) in E. apply ws_not_continue in H. congruence.
Qed.

Lemma letter_idstart c : is_ascii_letter c = true -> id_start cc c = true.
Proof. intros H. unfold id_start. rewrite (ok_letter_start cc Hok c H). apply orb_true_r. Qed.

Lemma special_not_digit c : is_special c = true -> is_digit c = false.
Proof.
  intros H. destruct (is_digit c) eqn:E; [|reflexivity].
  apply (ok_digit_continue cc Hok) in E. apply special_not_continue in H. congruence.
Qed.

(** * std_word *)
Lemma std_word_nostart c r : id_start cc c = false -> std_word cc (c :: r) = Some ([], c :: r).
Proof. intros H. unfold std_word. now rewrite H. Qed.

Lemma std_word_start c r : id_start cc c = true ->
  std_word cc (c :: r) =
    let rest := skip_while (xid_continue cc) r in
    let w := c :: consumed r rest in
    if str_eqb w [c_underscore] then None else Some (w, rest).
Proof.
  intros H. unfold std_word. rewrite H. cbv zeta. unfold id_continue.
  rewrite consumed_cons by apply skip_while_suf. reflexivity.
Qed.

Lemma std_word_inv i w r :
  std_word cc i = Some (w, r) ->
  i = w ++ r /\
  ((w = [] /\ r = i /\ match i with c :: _ => id_start cc c = false | [] => True end) \/
   (exists c i', i = c :: i' /\ id_start cc c = true /\ r = skip_while (xid_continue cc) i' /\
                 w = c :: consumed i' r /\ w <> [c_underscore])).
Proof.
  destruct i as [|c i'].
  - cbn. intros H; inversion H; subst. split; [reflexivity|]. left. auto.
  - destruct (id_start cc c) eqn:Hc.
    + rewrite (std_word_start _ _ Hc). cbv zeta.
      destruct (str_eqb _ _) eqn:E; [discriminate|]. intros H; inversion H; subst. split.
      * cbn [app]. f_equal. apply consumed_skip.
      * right. exists c, i'. split; [reflexivity|]. split; [exact Hc|]. split; [reflexivity|].
        split; [reflexivity|]. intros Hw. rewrite Hw in E. discriminate.
    + rewrite (std_word_nostart _ _ Hc). intros H; inversion H; subst. split; [reflexivity|]. left. auto.
Qed.

(** * identifier = std_word (with a non-empty word) *)
Lemma identifier_word i :
  identifier cc i = match std_word cc i with
                    | Some (c :: w, r) => Some (r, c :: w)
                    | _ => None
                    end.
Proof.
  destruct i as [|c i']; [reflexivity|].
  unfold identifier, map_p, alt, and_then. cbn [find_map check_char].
  destruct (xid_start cc c) eqn:Hs.
  - assert (Hi : id_start cc c = true) by (unfold id_start; rewrite Hs; apply orb_true_r).
    rewrite (std_word_start _ _ Hi). cbv zeta. unfold take_while0.
    rewrite str_eqb_false.
    + rewrite consumed_cons by apply skip_while_suf. reflexivity.
    + intros E. inversion E; subst. rewrite (ok_underscore_not_start cc Hok) in Hs. discriminate.
  - unfold p_char. destruct (N.eqb_spec c c_underscore) as [->|Hne].
    + assert (Hi : id_start cc c_underscore = true) by reflexivity.
      rewrite (std_word_start _ _ Hi). cbv zeta. unfold take_while1.
      destruct i' as [|d i'']; [reflexivity|]. cbn [check_char].
      destruct (xid_continue cc d) eqn:Hd.
      * rewrite (skip_while_go _ _ _ Hd).
        rewrite (consumed_cons d) by apply skip_while_suf.
        rewrite str_eqb_false by discriminate.
        rewrite (consumed_cons c_underscore) by apply suf_cons, skip_while_suf.
        rewrite (consumed_cons d) by apply skip_while_suf. reflexivity.
      * rewrite (skip_while_stop _ _ _ Hd). rewrite consumed_self. reflexivity.
    + assert (Hi : id_start cc c = false).
      { unfold id_start. rewrite Hs. apply N.eqb_neq in Hne. now rewrite Hne. }
      now rewrite (std_word_nostart _ _ Hi).
Qed.

(** * integers *)
Lemma u16_le_usize n : n <= u16_max -> n <= usize_max.
Proof. unfold u16_max, usize_max. lia. Qed.

Lemma std_integer_some i n r :
  std_integer i = Some (Some n, r) ->
  integer i = Some (r, n) /\ n <= u16_max /\ exists x i', i = x :: i' /\ is_digit x = true.
Proof.
  unfold std_integer. rewrite integer_eq. unfold integer_spec.
  destruct i as [|x i']; [discriminate|]. destruct (is_digit x) eqn:Hx; [|discriminate].
  cbv zeta. set (rest := skip_while is_digit (x :: i')). set (v := digits_value (consumed (x :: i') rest)).
  destruct (N.leb_spec v u16_max) as [Hle|]; [|discriminate].
  intros H; inversion H; subst. apply u16_le_usize in Hle as Hle'. apply N.leb_le in Hle'.
  rewrite Hle'. split; [reflexivity|]. split; [exact Hle|]. now exists x, i'.
Qed.

Lemma std_integer_none i r :
  std_integer i = Some (None, r) ->
  r = i /\ integer i = None /\ match i with x :: _ => is_digit x = false | [] => True end.
Proof.
  unfold std_integer. rewrite integer_eq. unfold integer_spec.
  destruct i as [|x i']. { intros H; inversion H; auto. }
  destruct (is_digit x) eqn:Hx.
  - cbv zeta. destruct (_ <=? u16_max); discriminate.
  - intros H; inversion H; auto.
Qed.

Lemma std_integer_nodigit i :
  match i with x :: _ => is_digit x = false | [] => True end -> std_integer i = Some (None, i).
Proof. destruct i as [|x i']; [reflexivity|]. unfold std_integer. now intros ->. Qed.

Lemma identifier_digit x i' : is_digit x = true -> identifier cc (x :: i') = None.
Proof.
  intros H. rewrite identifier_word, std_word_nostart; [reflexivity|]. now apply digit_not_idstart.
Qed.

Lemma identifier_nostart c i' : id_start cc c = false -> identifier cc (c :: i') = None.
Proof. intros H. rewrite identifier_word, std_word_nostart; [reflexivity|exact H]. Qed.

(** * position / argument *)
Lemma position_argument i oa r :
  std_position cc i = Some (oa, r) -> optional_result (argument cc) i = (r, oa).
Proof.
  unfold std_position. destruct (std_integer i) as [[[n|] r1]|] eqn:E; [| |discriminate].
  - intros H; inversion H; subst. apply std_integer_some in E as [E1 [_ [x [i' [-> Hx]]]]].
    apply optional_result_some. unfold argument, alt, map_p. cbn [find_map].
    rewrite (identifier_digit _ _ Hx), E1. reflexivity.
  - apply std_integer_none in E as [-> [E1 E2]]. destruct i as [|c i'].
    + intros H; inversion H; subst. reflexivity.
    + destruct (id_start cc c) eqn:Hc.
      * destruct (std_word cc (c :: i')) as [[w r2]|] eqn:Ew; [|discriminate].
        destruct (_ && _); [discriminate|]. intros H; inversion H; subst.
        apply optional_result_some. unfold argument, alt, map_p. cbn [find_map].
        rewrite identifier_word, Ew.
        apply std_word_inv in Ew as [_ [[-> [_ Hc']]|[c0 [i0 [_ [_ [_ [-> _]]]]]]]]; [congruence|].
        reflexivity.
      * intros H; inversion H; subst. apply optional_result_none.
        unfold argument, alt, map_p. cbn [find_map].
        now rewrite (identifier_nostart _ _ Hc), E1.
Qed.

(** * count *)
Lemma argument_int i r n : integer i = Some (r, n) -> argument cc i = Some (r, AInt n).
Proof.
  intros H. pose proof (integer_inv _ _ _ H) as [x [i' [-> [Hx _]]]].
  unfold argument, alt, map_p. cbn [find_map]. now rewrite (identifier_digit _ _ Hx), H.
Qed.

Lemma parameter_of_argument i r a :
  argument cc i = Some (r, a) ->
  parameter cc i = match p_char c_dollar r with Some r' => Some (r', a) | None => None end.
Proof. intros H. unfold parameter, and_then, map_p. now rewrite H. Qed.

Lemma parameter_none i : argument cc i = None -> parameter cc i = None.
Proof. intros H. unfold parameter, and_then. now rewrite H. Qed.

Lemma count_agree i oc r :
  std_count cc i = Some (oc, r) -> optional_result (count cc) i = (r, oc).
Proof.
  unfold std_count. destruct (std_integer i) as [[[n|] r1]|] eqn:E; [| |discriminate].
  - apply std_integer_some in E as [E1 _]. pose proof (argument_int _ _ _ E1) as Ea.
    pose proof (parameter_of_argument _ _ _ Ea) as Ep.
    destruct r1 as [|d r']. 
    + intros H; inversion H; subst. apply optional_result_some.
      unfold count, alt, map_p. cbn [find_map]. rewrite Ep, E1. reflexivity.
    + destruct (N.eqb_spec d c_dollar) as [->|Hd]; intros H; inversion H; subst;
        apply optional_result_some; unfold count, alt, map_p; cbn [find_map]; rewrite Ep.
      * now rewrite p_char_eq.
      * rewrite (p_char_neq _ _ _ Hd), E1. reflexivity.
  - apply std_integer_none in E as [-> [E1 E2]].
    destruct (std_word cc i) as [[w r2]|] eqn:Ew; [|discriminate].
    assert (Hnone : forall A (x : A), identifier cc i = None -> 
              optional_result (count cc) i = (i, None)).
    { intros _ _ Hid. apply optional_result_none. unfold count, alt, map_p. cbn [find_map].
      rewrite parameter_none, E1; [reflexivity|].
      unfold argument, alt, map_p. cbn [find_map]. now rewrite Hid, E1. }
    pose proof (identifier_word i) as Hid. rewrite Ew in Hid.
    destruct w as [|c w].
    + intros H; inversion H; subst. now apply (Hnone _ tt).
    + assert (Ea : argument cc i = Some (r2, AIdent (c :: w))).
      { unfold argument, alt, map_p. cbn [find_map]. now rewrite Hid. }
      pose proof (parameter_of_argument _ _ _ Ea) as Ep.
      assert (Hfail : p_char c_dollar r2 = None -> optional_result (count cc) i = (i, None)).
      { intros Hp. apply optional_result_none. unfold count, alt, map_p. cbn [find_map].
        now rewrite Ep, Hp, E1. }
      destruct r2 as [|d r'].
      * intros H; inversion H; subst. now apply Hfail.
      * destruct (N.eqb_spec d c_dollar) as [->|Hd]; intros H; inversion H; subst.
        -- apply optional_result_some. unfold count, alt, map_p. cbn [find_map].
           now rewrite Ep, p_char_eq.
        -- apply Hfail. now apply p_char_neq.
Qed.

End CCFacts.

(** * std_format cut into stages *)
Definition std_fill_align (i : str) : option (option N * align) * str :=
  let '(fill, i) :=
    match i with
    | c :: a :: r => if is_align a then (Some c, a :: r) else (None, i)
    | _ => (None, i)
    end in
  match i with
  | a :: r => if is_align a then (Some (fill, align_of a), r) else (None, i)
  | [] => (None, i)
  end.

Definition std_sign (i : str) : option sign * str :=
  match i with
  | c :: r => if N.eqb c c_plus then (Some SPlus, r)
              else if N.eqb c c_minus then (Some SMinus, r) else (None, i)
  | [] => (None, i)
  end.

Definition std_hash (i : str) : bool * str :=
  match consume c_hash i with Some r => (true, r) | None => (false, i) end.

Definition std_zero (i : str) : bool * option cnt * str :=
  match consume c_zero i with
  | Some r => match consume c_dollar r with
              | Some r' => (false, Some (CParam (AInt 0)), r')
              | None => (true, None, r)
              end
  | None => (false, None, i)
  end.

Section Stages.
Variable cc : CharClass.

Definition std_width (w0 : option cnt) (i : str) : option (option cnt * str) :=
  match w0 with Some w => Some (Some w, i) | None => std_count cc i end.

Definition std_prec (curarg : N) (i : str) : option (option prec * bool * N * str) :=
  match consume c_dot i with
  | None => Some (None, false, curarg, i)
  | Some r =>
    match consume c_star r with
    | Some r' => Some (Some PStar, false, curarg + 1, r')
    | None => match std_count cc r with
              | None => None
              | Some (None, r') => Some (None, true, curarg, r')
              | Some (Some c, r') => Some (Some (PCount c), false, curarg, r')
              end
    end
  end.

Lemma std_format_unfold curarg i :
  std_format cc curarg i =
    match consume c_colon i with
    | None => Some (default_spec, false, curarg, i)
    | Some i =>
      let '(al, i) := std_fill_align i in
      let '(sg, i) := std_sign i in
      let '(alt_, i) := std_hash i in
      let '(zero, w0, i) := std_zero i in
      match std_width w0 i with
      | None => None
      | Some (width, i) =>
        match std_prec curarg i with
        | None => None
        | Some (pr, edot, curarg, i) =>
          match std_type cc i with
          | None => None
          | Some (ty, i) =>
            Some ({| sp_align := al; sp_sign := sg; sp_alt := alt_; sp_zero := zero;
                     sp_width := width; sp_prec := pr; sp_ty := ty |}, edot, curarg, i)
          end
        end
      end
    end.
Proof.
  unfold std_format. destruct (consume c_colon i) as [i0|]; [|reflexivity].
  unfold std_fill_align.
  destruct i0 as [|c [|a r]]; [reflexivity| |].
  - destruct (is_align c); reflexivity.
  - destruct (is_align a); [reflexivity|]. destruct (is_align c); reflexivity.
Qed.

(** stage agreement: fill/align, sign, hash are equations *)
Lemma fill_align_agree i :
  optional_result fill_align_p i = (snd (std_fill_align i), fst (std_fill_align i)).
Proof.
  unfold optional_result, fill_align_p, alt, and_then, map_p, take_any_char, std_fill_align.
  cbn [find_map]. destruct i as [|c [|a r]]; [reflexivity| |].
  - rewrite align_p_nil. destruct (is_align c) eqn:Hc.
    + rewrite (align_p_eq _ _ Hc). cbv beta iota zeta. now rewrite ?Hc.
    + rewrite (align_p_none _ _ Hc). cbv beta iota zeta. now rewrite ?Hc.
  - destruct (is_align a) eqn:Ha.
    + rewrite (align_p_eq _ _ Ha). cbv beta iota zeta. now rewrite ?Ha.
    + rewrite (align_p_none _ _ Ha). destruct (is_align c) eqn:Hc.
      * rewrite (align_p_eq _ _ Hc). cbv beta iota zeta. now rewrite ?Hc.
      * rewrite (align_p_none _ _ Hc). cbv beta iota zeta. now rewrite ?Hc.
Qed.

Lemma sign_agree i : optional_result sign_p i = (snd (std_sign i), fst (std_sign i)).
Proof.
  unfold optional_result, sign_p, alt, map_p, std_sign, p_char. cbn [find_map].
  destruct i as [|c r]; [reflexivity|].
  destruct (N.eqb c c_plus); [reflexivity|]. destruct (N.eqb c c_minus); reflexivity.
Qed.

Lemma hash_agree i :
  optional_result hash_p i = (snd (std_hash i), if fst (std_hash i) then Some tt else None).
Proof.
  unfold optional_result, hash_p, map_p, std_hash. change consume with p_char.
  destruct (p_char c_hash i); reflexivity.
Qed.

End Stages.

Section Stages2.
Variable cc : CharClass.
Hypothesis Hok : CC_ok cc.

Lemma zero_p_fire d r : d <> c_dollar -> zero_p (c_zero :: d :: r) = Some (d :: r, tt).
Proof.
  intros H. unfold zero_p, map_p, lookahead. cbn [try_seq]. rewrite p_char_eq. cbn [check_char].
  apply N.eqb_neq in H. now rewrite H.
Qed.

Lemma std_count_zero_dollar r :
  std_count cc (c_zero :: c_dollar :: r) = Some (Some (CParam (AInt 0)), r).
Proof.
  unfold std_count, std_integer. change (is_digit c_zero) with true. cbv iota zeta.
  rewrite (skip_while_go is_digit c_zero) by reflexivity.
  rewrite (skip_while_stop is_digit c_dollar) by reflexivity.
  change (c_zero :: c_dollar :: r) with ([c_zero] ++ c_dollar :: r). rewrite consumed_app.
  reflexivity.
Qed.

(** zero flag + width; the only divergence is a lone [0] at the very end of the input *)
Lemma zero_width_agree i zero w0 i1 width i2 :
  std_zero i = (zero, w0, i1) -> std_width cc w0 i1 = Some (width, i2) -> i2 <> [] ->
  exists iz oz, optional_result zero_p i = (iz, oz) /\ is_some oz = zero /\
                optional_result (count cc) iz = (i2, width).
Proof.
  unfold std_zero. change consume with p_char.
  destruct (p_char c_zero i) as [r|] eqn:E0.
  - apply p_char_inv in E0 as ->. change consume with p_char.
    destruct (p_char c_dollar r) as [r'|] eqn:E1.
    + apply p_char_inv in E1 as ->. intros H; inversion H; subst. cbn [std_width].
      intros H2; inversion H2; subst. intros _.
      exists (c_zero :: c_dollar :: i2), None. split; [|split; [reflexivity|]].
      * apply optional_result_none. unfold zero_p, map_p, lookahead. cbn [try_seq].
        rewrite p_char_eq. reflexivity.
      * apply (count_agree cc Hok). apply std_count_zero_dollar.
    + intros H; inversion H; subst. cbn [std_width]. intros H2 Hne.
      destruct i1 as [|d r'].
      * cbn in H2. inversion H2; subst. contradiction.
      * assert (Hd : d <> c_dollar) by (intros ->; rewrite p_char_eq in E1; discriminate).
        exists (d :: r'), (Some tt). split; [|split; [reflexivity|]].
        -- apply optional_result_some. now apply zero_p_fire.
        -- now apply (count_agree cc Hok).
  - intros H; inversion H; subst. cbn [std_width]. intros H2 _.
    exists i1, None. split; [|split; [reflexivity|]].
    + apply optional_result_none. unfold zero_p, map_p. cbn [try_seq]. now rewrite E0.
    + now apply (count_agree cc Hok).
Qed.

(** precision *)
Lemma count_star r : count cc (c_star :: r) = None.
Proof.
  assert (Hs : id_start cc c_star = false) by (apply (special_not_idstart cc Hok); reflexivity).
  assert (Hi : integer (c_star :: r) = None) by (rewrite integer_eq; reflexivity).
  unfold count, alt, map_p. cbn [find_map]. rewrite parameter_none, Hi; [reflexivity|].
  unfold argument, alt, map_p. cbn [find_map]. now rewrite (identifier_nostart cc Hok _ _ Hs), Hi.
Qed.

Lemma prec_agree curarg i pr curarg' r :
  std_prec cc curarg i = Some (pr, false, curarg', r) ->
  dot_prec_p cc i = Some (r, pr) /\
  curarg' = match pr with Some PStar => curarg + 1 | _ => curarg end.
Proof.
  unfold std_prec, dot_prec_p, map_or_else, map_p. change consume with p_char.
  destruct (p_char c_dot i) as [r1|] eqn:E0.
  - change consume with p_char. destruct (p_char c_star r1) as [r2|] eqn:E1.
    + apply p_char_inv in E1 as ->. intros H; inversion H; subst.
      unfold precision, alt, map_p. cbn [find_map]. rewrite count_star, p_char_eq. auto.
    + destruct (std_count cc r1) as [[[c|] r2]|] eqn:E2; [| |discriminate].
      * intros H; inversion H; subst. apply (count_agree cc Hok) in E2.
        unfold optional_result in E2. unfold precision, alt, map_p. cbn [find_map].
        destruct (count cc r1) as [[r3 c3]|]; inversion E2; subst. auto.
      * intros H; inversion H.
  - intros H; inversion H; subst. auto.
Qed.

(** type *)
Definition closes (r : str) : Prop := exists r', ws cc r = c_rbrace :: r'.

Lemma closes_head r : closes r ->
  exists c r0, r = c :: r0 /\ (is_ws cc c = true \/ c = c_rbrace).
Proof.
  intros [r' H]. destruct r as [|c r0]; [discriminate|]. exists c, r0. split; [reflexivity|].
  unfold ws in H. cbn [skip_while] in H. destruct (is_ws cc c); [now left|].
  inversion H; subst. now right.
Qed.

Lemma type_x_quest r : type_ cc (c_x :: c_quest :: r) = Some (r, TLowerDebug).
Proof. reflexivity. Qed.
Lemma type_X_quest r : type_ cc (c_X :: c_quest :: r) = Some (r, TUpperDebug).
Proof. reflexivity. Qed.
Lemma type_quest r : type_ cc (c_quest :: r) = Some (r, TDebug).
Proof. reflexivity. Qed.
Lemma type_o r : type_ cc (c_o :: r) = Some (r, TOctal).
Proof. reflexivity. Qed.
Lemma type_p r : type_ cc (c_p :: r) = Some (r, TPointer).
Proof. reflexivity. Qed.
Lemma type_b r : type_ cc (c_b :: r) = Some (r, TBinary).
Proof. reflexivity. Qed.
Lemma type_e r : type_ cc (c_e :: r) = Some (r, TLowerExp).
Proof. reflexivity. Qed.
Lemma type_E r : type_ cc (c_E :: r) = Some (r, TUpperExp).
Proof. reflexivity. Qed.
Lemma type_x r : match r with q :: _ => q <> c_quest | [] => True end ->
  type_ cc (c_x :: r) = Some (r, TLowerHex).
Proof.
  destruct r as [|q r]; [reflexivity|]. intros H. apply N.eqb_neq in H.
  unfold type_, alt, map_p. cbn [find_map p_str]. change (N.eqb c_x c_x) with true.
  change (N.eqb c_x c_X) with false. cbv iota. rewrite H. reflexivity.
Qed.
Lemma type_X r : match r with q :: _ => q <> c_quest | [] => True end ->
  type_ cc (c_X :: r) = Some (r, TUpperHex).
Proof.
  destruct r as [|q r]; [reflexivity|]. intros H. apply N.eqb_neq in H.
  unfold type_, alt, map_p. cbn [find_map p_str]. change (N.eqb c_X c_X) with true.
  change (N.eqb c_X c_x) with false. cbv iota. rewrite H. reflexivity.
Qed.

Lemma type_display i : closes i ->
  match i with c :: _ => ~ In c [c_x; c_X; c_quest; c_o; c_p; c_b; c_e; c_E] | [] => True end ->
  type_ cc i = Some (i, TDisplay).
Proof.
  intros [r' Hc] Hn. destruct i as [|c i']; [discriminate|].
  assert (Hne : forall d, In d [c_x; c_X; c_quest; c_o; c_p; c_b; c_e; c_E] -> N.eqb c d = false).
  { intros d Hd. apply N.eqb_neq. intros ->. contradiction. }
  unfold type_, alt, map_p, lookahead. cbn [find_map p_str p_char].
  rewrite !Hne by (cbn [In]; tauto). cbv iota.
  change (match ws cc (c :: i') with [] => None | x :: r => if N.eqb x c_rbrace then Some r else None end)
    with (p_char c_rbrace (ws cc (c :: i'))).
  rewrite Hc, p_char_eq. reflexivity.
Qed.

End Stages2.
