(** C03 proofs, final part: the ASCII table is a valid [CharClass], the known finding
    ([{:.}]) as a refutation, non-vacuity examples, and the lemmas quoted by [Props.v]. *)
From Verif Require Import C03.Syntax C03.DmParse C03.StdParse.
From Verif Require Export C03.Proofs1 C03.Proofs2 C03.Proofs3 C03.Proofs4.
From Verif Require C03.Proofs5 C03.Proofs6 C03.Proofs7 C03.Proofs8 C03.Proofs9 C03.Proofs10 C03.Proofs11 C03.Proofs12 C03.FmtBridge.   (* quoted by Props.v by their own names *)
From Coq Require Import Arith.

(** * [ascii_cc] satisfies [CC_ok] *)
Lemma existsb_eqb_forall (P : N -> Prop) (l : list N) :
  Forall P l -> forall c, existsb (N.eqb c) l = true -> P c.
Proof.
  intros HF c H. apply existsb_exists in H as [x [Hin Hx]]. apply N.eqb_eq in Hx. subst x.
  rewrite Forall_forall in HF. now apply HF.
Qed.

Ltac leb_cases :=
  repeat match goal with
         | |- context [N.leb ?a ?b] => destruct (N.leb_spec a b)
         | H : context [N.leb ?a ?b] |- _ => destruct (N.leb_spec a b)
         end.

Lemma ascii_digit_not_letter c : is_digit c = true -> is_ascii_letter c = false.
Proof.
  unfold is_digit, is_ascii_letter, c_zero, c_nine. intros H.
  leb_cases; cbn in *; try reflexivity; try discriminate; lia.
Qed.

Lemma ascii_cc_ok : CC_ok ascii_cc.
Proof.
  constructor; cbn [xid_start xid_continue is_ws ascii_cc].
  - auto.
  - intros c H. now rewrite H.
  - intros c H. rewrite H. now rewrite orb_true_r.
  - apply ascii_digit_not_letter.
  - reflexivity.
  - reflexivity.
  - unfold is_special.
    apply (existsb_eqb_forall (fun c => is_ascii_letter c || is_digit c || (c =? c_underscore) = false)).
    repeat constructor.
  - apply (existsb_eqb_forall (fun c => is_ascii_letter c || is_digit c || (c =? c_underscore) = false)).
    repeat constructor.
  - apply (existsb_eqb_forall (fun c => is_special c = false)). repeat constructor.
Qed.

(** * the known finding: a precision dot followed by nothing *)
Definition lit_empty_dot : str := [123; 58; 46; 125].   (* "{:.}" *)

Theorem empty_dot_refuted : exists s l, std_parse ascii_cc s = Some l /\ ~ no_empty_dot l /\
  placeholders ascii_cc s <> map std_placeholder l.
Proof.
  exists lit_empty_dot. eexists. split; [vm_compute; reflexivity|]. split.
  - unfold no_empty_dot. vm_compute. discriminate.
  - vm_compute. discriminate.
Qed.

(** * non-vacuity: concrete literals meeting the hypotheses of the agreement theorems *)
Definition accepted_nonempty (s : str) : Prop :=
  exists l, std_parse ascii_cc s = Some l /\ no_empty_dot l /\ l <> [].

Ltac accepted := eexists; split; [vm_compute; reflexivity|]; split; [vm_compute; reflexivity|discriminate].

(* "{:>8.3$e}" *)
Example ex_align_width_prec : accepted_nonempty [123; 58; 62; 56; 46; 51; 36; 101; 125].
Proof. accepted. Qed.
(* "{0:.*}" *)
Example ex_star : accepted_nonempty [123; 48; 58; 46; 42; 125].
Proof. accepted. Qed.
(* "{x :?} {}" *)
Example ex_ws_debug : accepted_nonempty [123; 120; 32; 58; 63; 125; 32; 123; 125].
Proof. accepted. Qed.
(* "{_a1:x}" *)
Example ex_underscore_ident : accepted_nonempty [123; 95; 97; 49; 58; 120; 125].
Proof. accepted. Qed.
(* "{:#06x?}" *)
Example ex_alt_zero_width : accepted_nonempty [123; 58; 35; 48; 54; 120; 63; 125].
Proof. accepted. Qed.
(* "a{b}c{{d}}{:*^+#010.5?}" *)
Example ex_everything : accepted_nonempty
  [97; 123; 98; 125; 99; 123; 123; 100; 125; 125; 123; 58; 42; 94; 43; 35; 48; 49; 48; 46; 53; 63; 125].
Proof. accepted. Qed.
(* "{0:1$.2$X}" *)
Example ex_params : accepted_nonempty [123; 48; 58; 49; 36; 46; 50; 36; 88; 125].
Proof. accepted. Qed.
(* "{:w$.p$}" *)
Example ex_named_params : accepted_nonempty [123; 58; 119; 36; 46; 112; 36; 125].
Proof. accepted. Qed.
(* "{{}}": accepted, no placeholders *)
Example ex_escapes : std_parse ascii_cc [123; 123; 125; 125] = Some [] /\ no_empty_dot [].
Proof. split; vm_compute; reflexivity. Qed.

(* the conclusions, evaluated: "{0:.*} {}" has the star consuming implicit argument 0 *)
Example ex_star_counts :
  placeholders ascii_cc [123; 48; 58; 46; 42; 125; 32; 123; 125] =
  [ {| ph_arg := Positional 0; ph_mods := true; ph_trait := TrDisplay |};
    {| ph_arg := Positional 1; ph_mods := false; ph_trait := TrDisplay |} ].
Proof. vm_compute. reflexivity. Qed.

(** hypotheses of [no_silent_accept] *)
Definition bare (s : str) : Prop :=
  exists f, format_p ascii_cc s = Some ([], f) /\ has_modifiers f = false /\
            match f_arg f with Some (AInt n) => n = 0 | _ => True end.

Ltac bare := eexists; split; [vm_compute; reflexivity|]; split; [vm_compute; reflexivity|]; vm_compute; auto.

(* "{}" *)      Example ex_bare_empty : bare [123; 125].                       Proof. bare. Qed.
(* "{0}" *)     Example ex_bare_zero : bare [123; 48; 125].                    Proof. bare. Qed.
(* "{x :?}" *)  Example ex_bare_ident_debug : bare [123; 120; 32; 58; 63; 125]. Proof. bare. Qed.
(* "{ }" *)     Example ex_bare_ws : bare [123; 32; 125].                      Proof. bare. Qed.
(* "{_a1:x}" *) Example ex_bare_hex : bare [123; 95; 97; 49; 58; 120; 125].    Proof. bare. Qed.

(** * the statements quoted by [Props.v] *)
Definition is_suffix (rest input : str) : Prop := exists pre, input = pre ++ rest.

Lemma C03_placeholders_proof : forall cc, CC_ok cc -> forall s l,
  std_parse cc s = Some l -> no_empty_dot l ->
  placeholders cc s = map std_placeholder l.
Proof. intros cc Hok s l. now apply placeholders_agree. Qed.

Lemma C03_formats_proof : forall cc, CC_ok cc -> forall s l,
  std_parse cc s = Some l -> no_empty_dot l ->
  exists fs, format_string cc s = Some fs /\ map spec_or_default fs = map sa_spec l.
Proof. intros cc Hok s l. now apply formats_agree. Qed.

Lemma C03_text_only_proof : forall cc s,
  (forall c, In c s -> is_brace c = false) -> placeholders cc s = [].
Proof. intros cc s. apply placeholders_text_only. Qed.

Lemma C03_text_pieces_proof : forall cc ps, Forall esc_piece ps -> placeholders cc (concat ps) = [].
Proof. intros cc ps. apply placeholders_text_pieces. Qed.

Lemma C03_no_silent_accept_proof : forall cc, CC_ok cc -> forall s f,
  format_p cc s = Some ([], f) -> has_modifiers f = false ->
  (match f_arg f with Some (AInt n) => n = 0 | _ => True end) ->
  exists a, std_parse cc s = Some [a] /\
            sa_spec a = spec_or_default f /\
            sa_pos a = (match f_arg f with Some x => param_of_arg x | None => Positional 0 end).
Proof. intros cc Hok s f. now apply no_silent_accept. Qed.

Lemma C03_fuel_proof : forall cc s n m, (length s < n)%nat -> (length s < m)%nat ->
  format_string_fuel cc n s = format_string_fuel cc m s.
Proof. intros cc s n m. apply format_string_fuel_irrelevant. Qed.

Lemma C18_format_suffix_proof : forall cc i r f,
  format_p cc i = Some (r, f) -> is_suffix r i /\ (length r < length i)%nat.
Proof. intros cc i r f H. now apply format_p_suf in H. Qed.

Lemma C18_identifier_suffix_proof : forall cc i r x,
  identifier cc i = Some (r, x) -> is_suffix r i /\ i = x ++ r.
Proof. intros cc i r x H. apply identifier_suf in H as [H1 [H2 _]]. split; assumption. Qed.

Lemma C18_integer_suffix_proof : forall i r n,
  integer i = Some (r, n) -> is_suffix r i /\ n <= usize_max.
Proof. intros i r n H. apply integer_suf in H as [H1 [_ H2]]. split; assumption. Qed.

Lemma C18_text_suffix_proof : forall i r x,
  text i = Some (r, x) -> i = x ++ r /\ (length r < length i)%nat.
Proof. intros i r x. apply text_suf. Qed.
