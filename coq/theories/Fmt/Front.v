(** Front end of the formatting derives, on top of [Fmt/Model.v]: which attributes a derive looks at
    ([trait_name_to_attribute_name]), how one attribute is read ([ContainerAttributes::parse] of [fmt/mod.rs] and of
    [fmt/display.rs], legacy [fmt = ...] / [bound = "..."] detection, [RenameAllAttribute::parse], Debug's
    [FieldAttribute = Either<Skip, FmtAttribute>]), how several attributes on one item are merged
    ([ParseMultiple::parse_attrs_with] + the [merge_attrs] impls), [rename_all] inheritance of variants, and the
    whole-item entry points [display::expand] / [debug::expand] (struct / enum / union).
    No proofs in this file. *)
From Verif Require Export Fmt.Model.

Module Lits.
  Import Coq.Strings.String Coq.Strings.Ascii.
  Definition s2l (s : string) : str := List.map N_of_ascii (list_ascii_of_string s).
  Definition n_binary := s2l "binary".        Definition n_debug := s2l "debug".
  Definition n_display := s2l "display".      Definition n_lower_exp := s2l "lower_exp".
  Definition n_lower_hex := s2l "lower_hex".  Definition n_octal := s2l "octal".
  Definition n_pointer := s2l "pointer".      Definition n_upper_exp := s2l "upper_exp".
  Definition n_upper_hex := s2l "upper_hex".
  Definition l_binary := s2l "{:b}".    Definition l_debug := s2l "{:?}".     Definition l_display := s2l "{}".
  Definition l_lower_exp := s2l "{:e}". Definition l_lower_hex := s2l "{:x}". Definition l_octal := s2l "{:o}".
  Definition l_pointer := s2l "{:p}".   Definition l_upper_exp := s2l "{:E}". Definition l_upper_hex := s2l "{:X}".
  Definition c_lowercase := s2l "lowercase".        Definition c_uppercase := s2l "uppercase".
  Definition c_pascalcase := s2l "pascalcase".      Definition c_camelcase := s2l "camelcase".
  Definition c_snakecase := s2l "snakecase".        Definition c_screamingsnakecase := s2l "screamingsnakecase".
  Definition c_kebabcase := s2l "kebabcase".        Definition c_screamingkebabcase := s2l "screamingkebabcase".
End Lits.

(** [trait_name_to_attribute_name] ([fmt/mod.rs:593-609]) *)
Definition attr_name_of (t : trait) : str :=
  match t with
  | TrBinary => Lits.n_binary | TrDebug => Lits.n_debug | TrDisplay => Lits.n_display
  | TrLowerExp => Lits.n_lower_exp | TrLowerHex => Lits.n_lower_hex | TrOctal => Lits.n_octal
  | TrPointer => Lits.n_pointer | TrUpperExp => Lits.n_upper_exp | TrUpperHex => Lits.n_upper_hex
  end.

(** [trait_name_to_default_placeholder_literal] ([fmt/display.rs:646-659]): the literal of the
    [&format_args!(<lit>, field)] that stands for a single-field variant inside an enum-level format *)
Definition default_placeholder_literal (t : trait) : str :=
  match t with
  | TrBinary => Lits.l_binary | TrDebug => Lits.l_debug | TrDisplay => Lits.l_display
  | TrLowerExp => Lits.l_lower_exp | TrLowerHex => Lits.l_lower_hex | TrOctal => Lits.l_octal
  | TrPointer => Lits.l_pointer | TrUpperExp => Lits.l_upper_exp | TrUpperHex => Lits.l_upper_hex
  end.

(** the attribute [VFieldFormatArgs tr f] stands for *)
Definition field_format_args_attr (tr : trait) (f : ident) : fmt_attr :=
  {| lit := default_placeholder_literal tr; args := [ {| alias := None; aexpr := EIdent f |} ] |}.

(** ** [RenameAllAttribute] ([fmt/display.rs:198-255]) *)
Inductive casing := CLower | CUpper | CPascal | CCamel | CSnake | CScreamingSnake | CKebab | CScreamingKebab.

(** [value.replace(['-', '_'], "").to_lowercase()] - lower-casing is modelled for ASCII letters (the eight accepted
    spellings are ASCII; a non-ASCII character that lower-cases into one of them is outside the model) *)
Definition ascii_lower (c : N) : N := if (65 <=? c) && (c <=? 90) then c + 32 else c.
Definition normalize_casing (s : str) : str :=
  map ascii_lower (filter (fun c => negb (N.eqb c c_minus || N.eqb c c_underscore)) s).

Definition parse_casing (value : str) : option casing :=
  let v := normalize_casing value in
  if str_eqb v Lits.c_lowercase then Some CLower
  else if str_eqb v Lits.c_uppercase then Some CUpper
  else if str_eqb v Lits.c_pascalcase then Some CPascal
  else if str_eqb v Lits.c_camelcase then Some CCamel
  else if str_eqb v Lits.c_snakecase then Some CSnake
  else if str_eqb v Lits.c_screamingsnakecase then Some CScreamingSnake
  else if str_eqb v Lits.c_kebabcase then Some CKebab
  else if str_eqb v Lits.c_screamingkebabcase then Some CScreamingKebab
  else None.

(** ** One attribute [#[name(content)]], by the class of its content (decided syntactically) *)
Inductive raw_content :=
| RCFmt (a : fmt_attr)            (* "literal", args..                                   *)
| RCBound (preds : list N)        (* bound(p, ..) / bounds(p, ..): opaque predicate ids  *)
| RCRenameAll (value : str)       (* rename_all = "value"                                *)
| RCSkip                          (* skip / ignore                                       *)
| RCLegacyFmt                     (* fmt = "literal", (ident | literal), ..   (legacy)   *)
| RCLegacyBound                   (* bound = "predicates"                     (legacy)   *)
| RCOther.                        (* anything else: `where(..)`, another word, nothing   *)

Record raw_attr := { ra_name : str; ra_content : raw_content }.

(** diagnostics of the front end *)
Definition E_legacy_fmt : N := 8.
Definition E_legacy_bound : N := 9.
Definition E_multi_fmt : N := 10.
Definition E_multi_rename_all : N := 11.
Definition E_bad_casing : N := 12.
Definition E_attr_syntax : N := 13.
Definition E_multi_skip : N := 14.
Definition E_single_attr : N := 15.
Definition E_single_kind : N := 16.

(** [filter(|attr| attr.path().is_ident(name))] of [parse_attrs_with] ([utils.rs:1628-1648]) *)
Definition attrs_named (name : str) (l : list raw_attr) : list raw_content :=
  map ra_content (filter (fun a => str_eqb (ra_name a) name) l).

(** [try_fold(None, |merged, attr| { parsed = parse(attr)?; merge(merged, parsed) })] *)
Fixpoint parse_attrs_from {A} (parse : raw_content -> result A) (merge : A -> A -> result A)
         (acc : option A) (l : list raw_content) : result (option A) :=
  match l with
  | [] => ROk acc
  | c :: l' =>
    match parse c with
    | RErr e => RErr e
    | ROk new =>
      match acc with
      | None => parse_attrs_from parse merge (Some new) l'
      | Some prev => match merge prev new with
                     | RErr e => RErr e
                     | ROk m => parse_attrs_from parse merge (Some m) l'
                     end
      end
    end
  end.

Definition parse_attrs {A} (parse : raw_content -> result A) (merge : A -> A -> result A)
           (name : str) (l : list raw_attr) : result (option A) :=
  parse_attrs_from parse merge None (attrs_named name l).

(** ** [fmt::ContainerAttributes] ([fmt/mod.rs:538-590]; what Debug uses) *)
Record cattrs := { ca_fmt : option fmt_attr; ca_bounds : list N }.
Definition cattrs_default : cattrs := {| ca_fmt := None; ca_bounds := [] |}.

(** [check_legacy_fmt] first; then [Either<FmtAttribute, BoundsAttribute>]: the right side's error is reported *)
Definition c_parse_one (c : raw_content) : result cattrs :=
  match c with
  | RCLegacyFmt => RErr E_legacy_fmt
  | RCFmt a => ROk {| ca_fmt := Some a; ca_bounds := [] |}
  | RCBound ps => ROk {| ca_fmt := None; ca_bounds := ps |}
  | RCLegacyBound => RErr E_legacy_bound            (* BoundsAttribute::check_legacy_fmt *)
  | RCRenameAll _ | RCSkip | RCOther => RErr E_attr_syntax
  end.

(** [if new.fmt.and_then(|n| prev.fmt.replace(n)).is_some() { Err } ; prev.bounds.extend(new.bounds)] *)
Definition c_merge (prev new : cattrs) : result cattrs :=
  match ca_fmt new, ca_fmt prev with
  | Some _, Some _ => RErr E_multi_fmt
  | _, _ =>
    ROk {| ca_fmt := match ca_fmt new with Some n => Some n | None => ca_fmt prev end;
           ca_bounds := ca_bounds prev ++ ca_bounds new |}
  end.

(** ** [display::ContainerAttributes] ([fmt/display.rs:96-181]) *)
Record dattrs := { da_rename : option casing; da_common : cattrs }.
Definition dattrs_default : dattrs := {| da_rename := None; da_common := cattrs_default |}.

(** [check_legacy_fmt]; [lookahead1]: a string literal / [bound] / [bounds] / [where] goes to the common parser,
    [rename_all] to [RenameAllAttribute::parse], anything else is the look-ahead's error *)
Definition d_parse_one (c : raw_content) : result dattrs :=
  match c with
  | RCLegacyFmt => RErr E_legacy_fmt
  | RCFmt _ | RCBound _ | RCLegacyBound =>
    match c_parse_one c with
    | RErr e => RErr e
    | ROk ca => ROk {| da_rename := None; da_common := ca |}
    end
  | RCRenameAll v => match parse_casing v with
                     | Some k => ROk {| da_rename := Some k; da_common := cattrs_default |}
                     | None => RErr E_bad_casing
                     end
  | RCSkip | RCOther => RErr E_attr_syntax
  end.

(** the [rename_all] duplicate is checked before the common part is merged *)
Definition d_merge (prev new : dattrs) : result dattrs :=
  match da_rename new, da_rename prev with
  | Some _, Some _ => RErr E_multi_rename_all
  | _, _ =>
    match c_merge (da_common prev) (da_common new) with
    | RErr e => RErr e
    | ROk ca => ROk {| da_rename := match da_rename new with Some n => Some n | None => da_rename prev end;
                       da_common := ca |}
    end
  end.

Definition d_parse_attrs (name : str) (l : list raw_attr) : result dattrs :=
  match parse_attrs d_parse_one d_merge name l with
  | RErr e => RErr e
  | ROk o => ROk (match o with Some a => a | None => dattrs_default end)      (* unwrap_or_default *)
  end.

Definition c_parse_attrs (name : str) (l : list raw_attr) : result cattrs :=
  match parse_attrs c_parse_one c_merge name l with
  | RErr e => RErr e
  | ROk o => ROk (match o with Some a => a | None => cattrs_default end)
  end.

(** ** Raw items *)
Record rfield := { rf_name : option ident; rf_ty : ty; rf_tid : N; rf_attrs : list raw_attr }.
Record rfields := { rfk : fkind; rfl : list rfield }.
Record rvariant := { rv_attrs : list raw_attr; rv_ident : ident; rv_fields : rfields }.
Inductive rdata := RStruct (fs : rfields) | REnum (vs : list rvariant) | RUnion (fs : rfields).
(** [ri_where]: the predicates of the type's OWN where clause (opaque ids, like the [bound(...)] predicates) *)
Record ritem := { ri_attrs : list raw_attr; ri_ident : ident; ri_params : list ident; ri_where : list N;
                  ri_data : rdata }.

(** the Display-like derives never look at field attributes *)
Definition plain_field (f : rfield) : field :=
  {| fname := rf_name f; fty := rf_ty f; ftid := rf_tid f; fattr := FNone |}.
Definition plain_fields (fs : rfields) : fields := {| fk := rfk fs; fl := map plain_field (rfl fs) |}.

Section WithCase.
Variable cc : CharClass.
(** [convert_case::Casing::to_case] composed with the [Case] table of [RenameAllAttribute::convert_case];
    external, never inspected by the model *)
Variable to_case : casing -> str -> str.

(** [ident.unraw().to_string()], then [rename_all.convert_case] when there is one ([display.rs:502-505]) *)
Definition unit_name (ra : option casing) (id : ident) : str :=
  match ra with Some k => to_case k (unraw id) | None => unraw id end.

(** the per-variant part of [display::expand_enum] ([display.rs:340-372]): the variant's own attributes, the
    unit/non-Display restriction, [rename_all] inherited from the enum unless the variant has its own *)
Definition d_variant_expansion (container : dattrs) (params : list ident) (tr : trait) (v : rvariant)
  : result dexpansion :=
  match d_parse_attrs (attr_name_of tr) (rv_attrs v) with
  | RErr e => RErr e
  | ROk a =>
    let ra := match da_rename a with Some k => Some k | None => da_rename container end in
    ROk {| d_shared := ca_fmt (da_common container);
           d_fmt := ca_fmt (da_common a);
           d_user_bounds := ca_bounds (da_common a);
           d_name := unit_name ra (rv_ident v);
           d_fields := plain_fields (rv_fields v);
           d_params := params;
           d_trait := tr |}
  end.

Definition d_variant_result (container : dattrs) (params : list ident) (tr : trait) (v : rvariant)
  : result (body * list bound) :=
  match d_variant_expansion container params tr v with
  | RErr e => RErr e
  | ROk d => d_expand_variant cc d
  end.

(** what [display::expand] produces: one (body, bounds) per struct / union / variant, and the predicates added to
    the where-clause of the impl *)
Definition d_expand_item (tr : trait) (it : ritem) : result (list (body * list bound) * list bound) :=
  match d_parse_attrs (attr_name_of tr) (ri_attrs it) with
  | RErr e => RErr e
  | ROk a =>
    match ri_data it with
    | RStruct fs =>
      match d_expand_struct cc {| d_shared := None;
                                  d_fmt := ca_fmt (da_common a);
                                  d_user_bounds := ca_bounds (da_common a);
                                  d_name := unit_name (da_rename a) (ri_ident it);
                                  d_fields := plain_fields fs;
                                  d_params := ri_params it;
                                  d_trait := tr |} with
      | RErr e => RErr e
      | ROk (b, bs) => ROk ([(b, bs)], bs)
      end
    | REnum vs =>
      if negb (variant_spec_ok cc (ca_fmt (da_common a))) then RErr E_variant_spec
      else match collect_results (map (d_variant_result a (ri_params it) tr) vs) with
           | RErr e => RErr e
           | ROk arms => ROk (arms, d_enum_bounds (ca_bounds (da_common a)) arms)
           end
    | RUnion _ =>
      match d_expand_union (ca_fmt (da_common a)) (ca_bounds (da_common a)) with
      | RErr e => RErr e
      | ROk (b, bs) => ROk ([(b, bs)], bs)
      end
    end
  end.

(** ** Debug ([fmt/debug.rs]) *)

(** [FieldAttribute = Either<attr::Skip, FmtAttribute>]: [Skip::parse], else [FmtAttribute::parse] (whose error is
    the one reported; it starts with [check_legacy_fmt]) *)
Definition f_parse_one (c : raw_content) : result field_attr :=
  match c with
  | RCSkip => ROk FSkip
  | RCFmt a => ROk (FFmt a)
  | RCLegacyFmt => RErr E_legacy_fmt
  | RCBound _ | RCRenameAll _ | RCLegacyBound | RCOther => RErr E_attr_syntax
  end.

(** [Either::merge_attrs]: two [skip]s, two formats, or one of each - always a diagnostic *)
Definition f_merge (prev new : field_attr) : result field_attr :=
  match prev, new with
  | FSkip, FSkip => RErr E_multi_skip
  | FFmt _, FFmt _ => RErr E_single_attr
  | _, _ => RErr E_single_kind
  end.

Definition f_parse_attrs (l : list raw_attr) : result field_attr :=
  match parse_attrs f_parse_one f_merge Lits.n_debug l with
  | RErr e => RErr e
  | ROk o => ROk (match o with Some a => a | None => FNone end)
  end.

(** the fields are visited in order by [validate_attrs] (only under a struct-/variant-level format, where a
    field-level format is refused), then by [generate_bounds] / [generate_body]: the first diagnostic wins *)
Fixpoint g_fields_parse (has_fmt : bool) (l : list rfield) : result (list field) :=
  match l with
  | [] => ROk []
  | f :: l' =>
    match f_parse_attrs (rf_attrs f) with
    | RErr e => RErr e
    | ROk fa =>
      if has_fmt && (match fa with FFmt _ => true | _ => false end)
      then RErr E_debug_field_fmt_with_container_fmt
      else match g_fields_parse has_fmt l' with
           | RErr e => RErr e
           | ROk r => ROk ({| fname := rf_name f; fty := rf_ty f; ftid := rf_tid f; fattr := fa |} :: r)
           end
    end
  end.

Definition g_expansion (fmt : option fmt_attr) (user_bounds : list N) (id : ident) (fs : rfields)
           (params : list ident) : result gexpansion :=
  match g_fields_parse (match fmt with Some _ => true | None => false end) (rfl fs) with
  | RErr e => RErr e
  | ROk l => ROk {| g_fmt := fmt; g_user_bounds := user_bounds; g_name := unraw id;
                    g_fields := {| fk := rfk fs; fl := l |}; g_params := params |}
  end.

(** a variant's [#[debug(...)]] attributes are read as [FmtAttribute]s only ([debug.rs:139-154]) *)
Definition v_parse_one (c : raw_content) : result fmt_attr :=
  match c with
  | RCFmt a => ROk a
  | RCLegacyFmt => RErr E_legacy_fmt
  | RCBound _ | RCRenameAll _ | RCSkip | RCLegacyBound | RCOther => RErr E_attr_syntax
  end.
Definition v_merge (prev new : fmt_attr) : result fmt_attr := RErr E_multi_fmt.

Definition g_variant_result (container : cattrs) (params : list ident) (v : rvariant)
  : result (gbody * list bound) :=
  match parse_attrs v_parse_one v_merge Lits.n_debug (rv_attrs v) with
  | RErr e => RErr e
  | ROk fmt =>
    match g_expansion fmt (ca_bounds container) (rv_ident v) (rv_fields v) params with
    | RErr e => RErr e
    | ROk g => g_expand_one cc g
    end
  end.

(** [debug::expand] *)
Definition g_expand_item (it : ritem) : result (list (gbody * list bound)) :=
  match c_parse_attrs Lits.n_debug (ri_attrs it) with
  | RErr e => RErr e
  | ROk a =>
    match ri_data it with
    | RStruct fs =>
      match g_expansion (ca_fmt a) (ca_bounds a) (ri_ident it) fs (ri_params it) with
      | RErr e => RErr e
      | ROk g => match g_expand_one cc g with RErr e => RErr e | ROk r => ROk [r] end
      end
    | REnum vs =>
      match ca_fmt a with
      | Some _ => RErr E_debug_enum_fmt
      | None => collect_results (map (g_variant_result a (ri_params it)) vs)
      end
    | RUnion _ => RErr E_debug_union
    end
  end.

End WithCase.

(** the symbolic instance of [to_case] used when the model is run next to the real expander: the casing is kept as
    a private-use marker character in front of the unconverted name, and the comparison applies an independent
    implementation of the eight casings to it *)
Definition casing_code (k : casing) : N :=
  match k with CLower => 0 | CUpper => 1 | CPascal => 2 | CCamel => 3 | CSnake => 4 | CScreamingSnake => 5
             | CKebab => 6 | CScreamingKebab => 7 end.
Definition to_case_marker (k : casing) (s : str) : str := (57344 + casing_code k) :: s.

(** ** How the fields become bindings ([display.rs:289-303, 374-386]; [debug.rs:98-110, 167-179]) *)

(** [syn::Member]: a named field or a tuple index *)
Inductive member := MNamed (i : ident) | MUnnamed (k : N).

(** [let #var = &self.#member;] for every field of a struct, in order *)
Fixpoint struct_lets_from (i : N) (l : list field) : list (ident * member) :=
  match l with
  | [] => []
  | f :: l' =>
    (match fname f with
     | Some n => (n, MNamed n)
     | None => (positional_ident i, MUnnamed i)
     end) :: struct_lets_from (i + 1) l'
  end.
Definition struct_lets (fs : fields) : list (ident * member) := struct_lets_from 0 (fl fs).

(** the pattern of one match arm: [Self::V { a, b }] / [Self::V(_0, _1)] / [Self::V]; the scrutinee is [self]
    (a reference), so every binding is a reference to the field *)
Inductive matcher :=
| PNamed (v : ident) (binders : list ident)
| PUnnamed (v : ident) (binders : list ident)
| PUnit (v : ident).

Definition variant_matcher (v : ident) (fs : fields) : matcher :=
  match fk fs with
  | Named => PNamed v (fmt_args_idents fs)
  | Unnamed => PUnnamed v (fmt_args_idents fs)
  | Unit => PUnit v
  end.

(** the frame around the bodies: the lets of a struct; [match self { arms }] for an enum with variants and
    [match *self {}] for one without; nothing for a union *)
Inductive frame :=
| FrStruct (lets : list (ident * member))
| FrEnum (arms : list matcher)
| FrEmptyEnum
| FrUnion.

Definition item_frame (it : ritem) : frame :=
  match ri_data it with
  | RStruct fs => FrStruct (struct_lets (plain_fields fs))
  | REnum [] => FrEmptyEnum
  | REnum vs => FrEnum (map (fun v => variant_matcher (rv_ident v) (plain_fields (rv_fields v))) vs)
  | RUnion _ => FrUnion
  end.

(** ** The where clause of the generated impl ([display.rs:62-69], [debug.rs:53-60]):
    [where_clause.cloned().unwrap_or_else(|| parse_quote! { where })] extended by the bounds - the type's own
    predicates first (an empty clause when it has none), then every inferred bound and [bound(...)] predicate *)
Definition impl_where (own : list N) (bounds : list bound) : list bound := map BUser own ++ bounds.

Definition d_where_of (it : ritem) (r : result (list (body * list bound) * list bound)) : list bound :=
  match r with
  | ROk (_, bs) => impl_where (ri_where it) bs
  | RErr _ => []
  end.

(** Debug: the bounds of the struct, or of every variant in order *)
Definition g_where_of (it : ritem) (r : result (list (gbody * list bound))) : list bound :=
  match r with
  | ROk arms => impl_where (ri_where it) (flat_map snd arms)
  | RErr _ => []
  end.

Definition d_item_where (cc : CharClass) (to_case : casing -> str -> str) (tr : trait) (it : ritem)
  : result (list bound) :=
  match d_expand_item cc to_case tr it with
  | ROk (arms, bs) => ROk (impl_where (ri_where it) bs)
  | RErr e => RErr e
  end.

Definition g_item_where (cc : CharClass) (it : ritem) : result (list bound) :=
  match g_expand_item cc it with
  | ROk arms => ROk (impl_where (ri_where it) (flat_map snd arms))
  | RErr e => RErr e
  end.
