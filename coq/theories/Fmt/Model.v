(** Executable model of the decision logic shared by the formatting derives
    ([impl/src/fmt/mod.rs], [fmt/display.rs], [fmt/debug.rs]): which body shape is emitted,
    which arguments are re-bound, which trait bounds are inferred, how an enum-level (shared)
    format interacts with the variants'.  Built on the literal-parser model of C03.
    No proofs in this file. *)
From Verif Require Export C03.Syntax C03.DmParse.

(** Identifiers are their [to_string()] (an [r#] prefix included); [unraw] strips the prefix. *)
Definition ident := str.
Definition unraw (s : ident) : ident :=
  match s with 114 :: 35 :: r => r | _ => s end.
Definition ident_eqb := str_eqb.

(** ** Types, as far as [ContainsGenericsExt] looks into them ([fmt/mod.rs:585-703]) *)
Inductive ty :=
| TyPath (qself : option ty) (segs : list seg)          (* syn::Type::Path *)
| TyElem (t : ty)                 (* Array | Group | Paren | Ptr | Reference | Slice *)
| TyBareFn (inputs : list ty) (out : option ty)
| TyTuple (ts : list ty)
| TyTraitObject (bounds : list (option (list seg)))     (* Some path = trait bound; None = lifetime/verbatim *)
| TyOpaque                         (* ImplTrait | Infer | Macro | Never | Verbatim *)
with seg := Seg (name : ident) (args : pargs)
with pargs :=
| PNone
| PAngle (gs : list (option ty))   (* Some = Type / AssocType argument; None = lifetime, const, constraint *)
| PParen (inputs : list ty) (out : option ty).

Definition mem_ident (x : ident) (l : list ident) : bool := existsb (ident_eqb x) l.

Definition opt_any {A} (f : A -> bool) (o : option A) : bool :=
  match o with Some x => f x | None => false end.

(** iteration over the segments of a path; [first] = "this is segment 0" *)
Definition segs_any (f : seg -> bool -> bool) : list seg -> bool -> bool :=
  fix go (l : list seg) (first : bool) : bool :=
    match l with
    | [] => false
    | s :: r => f s first || go r false
    end.

Fixpoint ty_contains (ps : list ident) (t : ty) {struct t} : bool :=
  match t with
  | TyPath qself segs =>
    opt_any (ty_contains ps) qself
    || match segs with
       | [Seg name PNone] => mem_ident name ps                      (* path.get_ident() *)
       | _ => segs_any (seg_contains ps) segs true
       end
  | TyElem t' => ty_contains ps t'
  | TyBareFn inputs out => existsb (ty_contains ps) inputs || opt_any (ty_contains ps) out
  | TyTuple ts => existsb (ty_contains ps) ts
  | TyTraitObject bounds =>
    existsb (fun b => match b with
                      | Some segs => segs_any (seg_contains ps) segs true
                      | None => false end) bounds
  | TyOpaque => false
  end
(** one segment of [impl ContainsGenericsExt for syn::Path] *)
with seg_contains (ps : list ident) (s : seg) (first : bool) {struct s} : bool :=
  match s with
  | Seg name args =>
    match args with
    | PNone => first && mem_ident name ps                          (* `T::Assoc` *)
    | PAngle gs => existsb (opt_any (ty_contains ps)) gs
    | PParen inputs out => existsb (ty_contains ps) inputs || opt_any (ty_contains ps) out
    end
  end.

(** [contains_generics]: both impls start with [if type_params.is_empty() { return false }] *)
Definition contains_generics (ps : list ident) (t : ty) : bool :=
  match ps with [] => false | _ => ty_contains ps t end.

(** ** Attributes *)

(** [parsing::Expr]: a single identifier, or any other token sequence (opaque id) *)
Inductive expr := EIdent (i : ident) | EOther (id : N).

Record fmt_arg := { alias : option ident; aexpr : expr }.
Record fmt_attr := { lit : str; args : list fmt_arg }.

Definition expr_ident (e : expr) : option ident :=
  match e with EIdent i => Some i | EOther _ => None end.

(** field-level attribute of [Debug]: [Either<Skip, FmtAttribute>] *)
Inductive field_attr := FNone | FSkip | FFmt (a : fmt_attr).

Record field := { fname : option ident; fty : ty; ftid : N; fattr : field_attr }.

Inductive fkind := Named | Unnamed | Unit.
Record fields := { fk : fkind; fl : list field }.

(** [FieldsExt::fmt_args_idents]: the field's own identifier, or [_i] *)
Fixpoint decimal_digits (fuel : nat) (n : N) (acc : str) : str :=
  match fuel with
  | O => acc
  | S f => let d := (48 + n mod 10) in
           if n <? 10 then d :: acc else decimal_digits f (n / 10) (d :: acc)
  end.
Definition decimal (n : N) : str := decimal_digits 40 n [].

Definition positional_ident (i : N) : ident := c_underscore :: decimal i.

Fixpoint fmt_args_idents_from (i : N) (fs : list field) : list ident :=
  match fs with
  | [] => []
  | f :: fs' => (match fname f with Some n => n | None => positional_ident i end)
                  :: fmt_args_idents_from (i + 1) fs'
  end.
Definition fmt_args_idents (fs : fields) : list ident := fmt_args_idents_from 0 (fl fs).

Inductive result (A : Type) := ROk (a : A) | RErr (code : N).
Arguments ROk {A} a.
Arguments RErr {A} code.

(** error codes (diagnostics) *)
Definition E_multi_field_no_attr : N := 1.
Definition E_unit_variant_non_display : N := 2.
Definition E_variant_spec : N := 3.
Definition E_debug_enum_fmt : N := 4.
Definition E_debug_field_fmt_with_container_fmt : N := 5.
Definition E_union_no_attr : N := 6.
Definition E_debug_union : N := 7.

Definition trait_eqb (a b : trait) : bool :=
  match a, b with
  | TrDisplay, TrDisplay | TrDebug, TrDebug | TrOctal, TrOctal | TrLowerHex, TrLowerHex
  | TrUpperHex, TrUpperHex | TrPointer, TrPointer | TrBinary, TrBinary
  | TrLowerExp, TrLowerExp | TrUpperExp, TrUpperExp => true
  | _, _ => false
  end.

Section WithCC.
Variable cc : CharClass.

(** ** [FmtAttribute::transparent_call] ([fmt/mod.rs:149-205]) *)
Definition transparent_call (a : fmt_attr) : option (expr * trait) :=
  match format_p cc (lit a) with
  | Some ([], param) =>
    if has_modifiers param then None
    else
      let e :=
        match f_arg param with
        | Some (AInt 0) | None =>
          match args a with [x] => Some (aexpr x) | _ => None end
        | Some (AInt _) => None
        | Some (AIdent name) =>
          match args a with
          | [] => Some (EIdent name)
          | [x] => match alias x with
                   | Some al => if ident_eqb al name then Some (aexpr x) else None
                   | None => None
                   end
          | _ => None
          end
        end in
      match e with
      | None => None
      | Some e =>
        let tr := trait_name (match f_spec param with Some s => sp_ty s | None => TDisplay end) in
        Some (e, tr)
      end
  | _ => None
  end.

(** the expression handed to [Trait::fmt]: a field binding as is, anything else as [&(expr)] *)
Inductive texpr := TField (i : ident) | TRef (e : expr).

(** [transparent_call_on_fields]: [expr == *field || expr == field.unraw()] *)
Definition transparent_call_on_fields (a : fmt_attr) (fs : fields) : option (texpr * trait) :=
  match transparent_call a with
  | None => None
  | Some (e, tr) =>
    let hit := find (fun f => match e with
                               | EIdent i => ident_eqb i f || ident_eqb i (unraw f)
                               | EOther _ => false end) (fmt_args_idents fs) in
    (* an explicit argument is a reference to the field: observable for Pointer only *)
    let hit := match args a with
               | [] => hit
               | _ => if trait_eqb tr TrPointer then None else hit
               end in
    Some (match hit with Some f => TField f | None => TRef e end, tr)
  end.

(** ** Which field a placeholder denotes ([bounded_types], [placeholders_by_arg]) *)

(** the name a placeholder resolves to, if it resolves to a bare identifier; [norm] is applied to an
    identifier taken from an argument expression ([bounded_types] unraws it, [placeholders_by_arg] does not) *)
Definition placeholder_name_with (norm : ident -> ident) (named_by_position : bool)
           (a : fmt_attr) (p : placeholder) : option ident :=
  match ph_arg p with
  | Syntax.Named name =>
    match find (fun x => match alias x with Some al => ident_eqb al name | None => false end) (args a) with
    | Some x => option_map norm (expr_ident (aexpr x))
    | None => Some name
    end
  | Positional i =>
    match nth_error (args a) (N.to_nat i) with
    | Some x => match alias x with
                | None => option_map norm (expr_ident (aexpr x))
                | Some _ => if named_by_position then option_map norm (expr_ident (aexpr x)) else None
                end
    | None => None
    end
  end.

Definition placeholder_name := placeholder_name_with unraw true.
Definition placeholder_name_raw := placeholder_name_with (fun i => i) false.

(** [name.strip_prefix('_').and_then(|s| s.parse().ok())]: digits only, no sign
    (usize::from_str also accepts a leading '+'; modelled) *)
Definition parse_usize (s : str) : option N :=
  let s' := match s with 43 :: r => r | _ => s end in
  match s' with
  | [] => None
  | _ => if forallb is_digit s' then
           let v := digits_value s' in if v <=? usize_max then Some v else None
         else None
  end.

Definition unnamed_index (name : ident) : option N :=
  match name with
  | c :: r => if N.eqb c c_underscore then parse_usize r else None
  | [] => None
  end.

(** the field a resolved name denotes *)
Definition field_by_name (fs : fields) (name : ident) : option field :=
  match fk fs, unnamed_index name with
  | Unnamed, Some i => nth_error (fl fs) (N.to_nat i)
  | Named, _ => find (fun f => match fname f with
                                  | Some n => ident_eqb (unraw n) name
                                  | None => false end) (fl fs)
  | _, _ => None
  end.

Definition trait_of_name (t : trait) := t.

(** [bounded_types]: (field, trait) per placeholder that refers to a field *)
Definition bounded_types (a : fmt_attr) (fs : fields) : list (field * trait) :=
  flat_map (fun p => match placeholder_name a p with
                     | Some name => match field_by_name fs name with
                                    | Some f => [(f, ph_trait p)]
                                    | None => []
                                    end
                     | None => []
                     end)
           (placeholders cc (lit a)).

(** [placeholders_by_arg name] / [contains_arg] *)
Definition placeholders_by_arg (a : fmt_attr) (name : ident) : list placeholder :=
  filter (fun p => match placeholder_name_raw a p with
                   | Some n => ident_eqb n name
                   | None => false end)
         (placeholders cc (lit a)).
Definition contains_arg (a : fmt_attr) (name : ident) : bool :=
  match placeholders_by_arg a name with [] => false | _ => true end.

(** [additional_deref_args]: fields named by a [Pointer] placeholder and not aliased by an argument *)
Definition additional_deref_args (a : fmt_attr) (fs : fields) : list ident :=
  let used := flat_map (fun p => match ph_arg p with
                                 | Syntax.Named n => if trait_eqb (ph_trait p) TrPointer then [n] else []
                                 | _ => [] end)
                       (placeholders cc (lit a)) in
  filter (fun fname_ =>
            existsb (fun u => ident_eqb (unraw fname_) u) used
            && negb (existsb (fun x => match alias x with
                                       | Some n => ident_eqb n fname_
                                       | None => false end) (args a)))
         (fmt_args_idents fs).

(** ** Bodies *)

(** the value matched as [_variant] when an enum-level format wraps *)
Inductive vexpr :=
| VFormatArgs (a : fmt_attr) (deref : list ident)    (* &format_args!(#fmt, deref..) *)
| VName (s : str)                                     (* "Name" *)
| VFieldFormatArgs (tr : trait) (f : ident).          (* &format_args!("{..}", field) *)

Inductive body :=
| BDelegate (tr : trait) (e : texpr)                 (* Trait::fmt(expr, f) *)
| BWrite (a : fmt_attr) (deref : list ident)         (* write!(f, #fmt, deref..) *)
| BWriteStr (s : str)                                (* f.write_str("Name") *)
| BMatchVariant (v : vexpr) (outer : body)           (* match v { _variant => outer } *)
| BEmpty.

(** [Display]-like: one struct or one enum variant *)
Record dexpansion := {
  d_shared : option fmt_attr;          (* enum-level format; None for a struct *)
  d_fmt : option fmt_attr;             (* the struct's / variant's own format *)
  d_user_bounds : list N;              (* opaque ids of `bound(...)` predicates *)
  d_name : str;                        (* what the unit case prints: unraw'd ident after rename_all *)
  d_fields : fields;
  d_params : list ident;               (* type parameters of the item *)
  d_trait : trait                      (* the derived trait *)
}.

Definition variant_ident : ident := [95; 118; 97; 114; 105; 97; 110; 116].   (* "_variant" *)

(** [Expansion::shared_attr_info] ([display.rs:441-458]) *)
Definition shared_attr_info (d : dexpansion) : bool * bool :=
  let contains_variant :=
    match d_shared d with Some a => contains_arg a variant_ident | None => true end in
  let has_shared :=
    match d_shared d with
    | None => false
    | Some a => match transparent_call a with
                | None => true
                | Some (_, called) => negb (trait_eqb called (d_trait d)) || negb contains_variant
                end
    end in
  (has_shared, has_shared && contains_variant).

(** [Expansion::generate_body] ([display.rs:467-559]) *)
Definition d_generate_body (d : dexpansion) : result body :=
  let '(has_shared, wrapping) := shared_attr_info d in
  let shared_body (sa : fmt_attr) : body :=
    match transparent_call_on_fields sa (d_fields d) with
    | Some (e, tr) => BDelegate tr e
    | None => BWrite sa (additional_deref_args sa (d_fields d))
    end in
  match d_fmt d with
  | Some fmt =>
    if wrapping then
      match d_shared d with
      | Some sa => ROk (BMatchVariant (VFormatArgs fmt (additional_deref_args fmt (d_fields d)))
                                      (shared_body sa))
      | None => ROk BEmpty (* unreachable: wrapping implies a shared attribute *)
      end
    else
      match transparent_call_on_fields fmt (d_fields d) with
      | Some (e, tr) => ROk (BDelegate tr e)
      | None => ROk (BWrite fmt (additional_deref_args fmt (d_fields d)))
      end
  | None =>
    let inner : result (option (body * vexpr)) :=
      if wrapping || negb has_shared then
        match fl (d_fields d) with
        | [] => ROk (Some (BWriteStr (d_name d), VName (d_name d)))
        | [f] => let i := match fname f with Some n => n | None => positional_ident 0 end in
                 ROk (Some (BDelegate (d_trait d) (TField i), VFieldFormatArgs (d_trait d) i))
        | _ => RErr E_multi_field_no_attr
        end
      else ROk None in
    match inner with
    | RErr c => RErr c
    | ROk inner =>
      if has_shared then
        match d_shared d, inner with
        | Some sa, None => ROk (shared_body sa)
        | Some sa, Some (_, v) => ROk (BMatchVariant v (shared_body sa))
        | None, _ => ROk BEmpty
        end
      else match inner with Some (b, _) => ROk b | None => ROk BEmpty end
    end
  end.

(** a bound of the generated impl: inferred (type id, trait) or one of the user's predicates *)
Inductive bound := BTy (tid : N) (tr : trait) | BUser (id : N).

Definition inferred (ps : list ident) (l : list (field * trait)) : list bound :=
  flat_map (fun '(f, tr) => if contains_generics ps (fty f) then [BTy (ftid f) tr] else []) l.

(** [Expansion::generate_bounds] ([display.rs:562-615]) *)
Definition d_generate_bounds (d : dexpansion) : list bound :=
  let '(has_shared, wrapping) := shared_attr_info d in
  let '(own, mix) :=
    match d_fmt d with
    | Some a => (inferred (d_params d) (bounded_types a (d_fields d)) ++ map BUser (d_user_bounds d),
                 wrapping)
    | None =>
      ((if wrapping || negb has_shared then
          match fl (d_fields d) with
          | f :: _ => if contains_generics (d_params d) (fty f) then [BTy (ftid f) (d_trait d)] else []
          | [] => []
          end
        else []) ++ map BUser (d_user_bounds d),        (* explicit bounds apply without a literal too *)
       has_shared)
    end in
  own ++ (if mix then
            match d_shared d with
            | Some sa => inferred (d_params d) (bounded_types sa (d_fields d))
            | None => []
            end
          else []).

(** the [_variant] check of [expand_enum] ([display.rs:313-326]) *)
Definition variant_spec_ok (shared : option fmt_attr) : bool :=
  match shared with
  | None => true
  | Some sa => negb (existsb (fun p => ph_mods p || negb (trait_eqb (ph_trait p) TrDisplay))
                             (placeholders_by_arg sa variant_ident))
  end.

(** one variant of [expand_enum] ([display.rs:340-390]): body and bounds, or a diagnostic.
    The unit/non-Display refusal applies only when no enum-level format covers the variant: there is none, or it
    wraps via [_variant] ([map_or(true, |fmt| fmt.contains_arg("_variant"))], fix 3d5b8b4) *)
Definition d_expand_variant (d : dexpansion) : result (body * list bound) :=
  if negb (variant_spec_ok (d_shared d)) then RErr E_variant_spec
  else if (match d_fmt d with None => true | Some _ => false end)
          && (match fl (d_fields d) with [] => true | _ => false end)
          && negb (trait_eqb (d_trait d) TrDisplay)
          && (match d_shared d with None => true | Some sa => contains_arg sa variant_ident end)
  then RErr E_unit_variant_non_display
  else match d_generate_body d with
       | RErr c => RErr c
       | ROk b => ROk (b, d_generate_bounds d)
       end.

(** [expand_enum]: the [_variant] check first (even for an enum without variants), then the variants in order;
    the first diagnostic wins *)
Fixpoint collect_results {A} (l : list (result A)) : result (list A) :=
  match l with
  | [] => ROk []
  | RErr c :: _ => RErr c
  | ROk a :: l' => match collect_results l' with RErr c => RErr c | ROk r => ROk (a :: r) end
  end.

Definition d_expand_enum (shared : option fmt_attr) (vs : list dexpansion) : result (list (body * list bound)) :=
  if negb (variant_spec_ok shared) then RErr E_variant_spec
  else collect_results (map d_expand_variant vs).

(** the where-clause additions of the whole enum impl: the enum-level [bound(...)] predicates first,
    then each variant's bounds in order *)
Definition d_enum_bounds (enum_user_bounds : list N) (arms : list (body * list bound)) : list bound :=
  map BUser enum_user_bounds ++ flat_map snd arms.

(** [expand_struct]: no shared attribute, no unit/non-Display restriction *)
Definition d_expand_struct (d : dexpansion) : result (body * list bound) :=
  match d_generate_body d with
  | RErr c => RErr c
  | ROk b => ROk (b, d_generate_bounds d)
  end.

(** [expand_union] ([display.rs:392-407]): a union must carry a format; it is handed to [write!] as is (no field
    bindings, no delegation, no inference); only the user's predicates become bounds *)
Definition d_expand_union (fmt : option fmt_attr) (user_bounds : list N) : result (body * list bound) :=
  match fmt with
  | None => RErr E_union_no_attr
  | Some a => ROk (BWrite a [], map BUser user_bounds)
  end.

(** ** [Debug] ([fmt/debug.rs]) *)
Record gexpansion := {
  g_fmt : option fmt_attr;             (* struct- or variant-level format *)
  g_user_bounds : list N;
  g_name : str;                        (* ident.unraw().to_string() *)
  g_fields : fields;
  g_params : list ident
}.

Inductive gfield :=                    (* what one field contributes to the builder chain *)
| GValue (name : option str) (f : ident)                          (* .field("name", &f) *)
| GFormat (name : option str) (a : fmt_attr) (deref : list ident). (* .field("name", &format_args!(..)) *)

Inductive gbody :=
| GDelegate (tr : trait) (e : texpr)
| GWrite (a : fmt_attr) (deref : list ident)
| GUnit (name : str)                                  (* Formatter::write_str(f, "Name") *)
| GTuple (name : str) (fs : list gfield) (exhaustive : bool)     (* derive_more's own debug_tuple *)
| GStruct (name : str) (fs : list gfield) (exhaustive : bool).   (* core's debug_struct *)

Definition has_field_fmt (fs : fields) : bool :=
  existsb (fun f => match fattr f with FFmt _ => true | _ => false end) (fl fs).

Fixpoint g_fields_from (fs : fields) (i : N) (l : list field) : list gfield * bool :=
  match l with
  | [] => ([], true)
  | f :: l' =>
    let '(rest, ex) := g_fields_from fs (i + 1) l' in
    let id := match fname f with Some n => n | None => positional_ident i end in
    let nm := match fname f with Some n => Some (unraw n) | None => None end in
    match fattr f with
    | FSkip => (rest, false)
    | FFmt a => (GFormat nm a (additional_deref_args a fs) :: rest, ex)
    | FNone => (GValue nm id :: rest, ex)
    end
  end.

(** [validate_attrs] + [generate_body] ([debug.rs:222-372]) *)
Definition g_generate_body (g : gexpansion) : result gbody :=
  match g_fmt g with
  | Some a =>
    if has_field_fmt (g_fields g) then RErr E_debug_field_fmt_with_container_fmt
    else match transparent_call_on_fields a (g_fields g) with
         | Some (e, tr) => ROk (GDelegate tr e)
         | None => ROk (GWrite a (additional_deref_args a (g_fields g)))
         end
  | None =>
    match fk (g_fields g) with
    | Unit => ROk (GUnit (g_name g))
    | Unnamed => let '(l, ex) := g_fields_from (g_fields g) 0 (fl (g_fields g)) in
                 ROk (GTuple (g_name g) l ex)
    | Named => let '(l, ex) := g_fields_from (g_fields g) 0 (fl (g_fields g)) in
               ROk (GStruct (g_name g) l ex)
    end
  end.

(** [generate_bounds] ([debug.rs:376-418]) *)
Definition g_generate_bounds (g : gexpansion) : list bound :=
  map BUser (g_user_bounds g) ++
  match g_fmt g with
  | Some a => inferred (g_params g) (bounded_types a (g_fields g))
  | None =>
    flat_map (fun f =>
                match fattr f with
                | FFmt a => inferred (g_params g) (bounded_types a (g_fields g))
                | FSkip => []
                | FNone => if contains_generics (g_params g) (fty f) then [BTy (ftid f) TrDebug] else []
                end)
             (fl (g_fields g))
  end.

(** [Debug] cannot be derived for unions ([debug.rs:44-49]) *)
Definition g_expand_union : result (gbody * list bound) := RErr E_debug_union.

Definition g_expand_one (g : gexpansion) : result (gbody * list bound) :=
  match g_generate_body g with
  | RErr c => RErr c
  | ROk b => ROk (b, g_generate_bounds g)
  end.

(** [expand_enum] of [debug.rs]: an enum-level format is rejected; then the variants in order *)
Definition g_expand_enum (enum_fmt : bool) (vs : list gexpansion) : result (list (gbody * list bound)) :=
  if enum_fmt then RErr E_debug_enum_fmt else collect_results (map g_expand_one vs).

End WithCC.
