(* C14 - delegating derives expose the selected field itself: the property theorems.
   Model: Verif.C14.Model (mirrors utils.rs State/get_meta_info, deref.rs, deref_mut.rs, index.rs, index_mut.rs,
   into_iterator.rs, as/mod.rs, src/as.rs).  Spec predicates (designated, blocked, as_selected, identity_cond,
   expected) are defined in Verif.C14.Proofs. *)

From Coq Require Import List NArith Bool Arith.
Import ListNotations.
Require Import Verif.C14.Model Verif.C14.Proofs.

(* Whenever a field is selected (whatever the struct-level attribute), it is the one the attributes
   designate: the only positively marked field, or - none being marked - the only field not ignored. *)
Theorem C14_selection_sound : forall (se : option bool) (ms : list (option bool)) (i : nat),
  select_idx se ms = Some i -> designated ms i.
Proof. exact Proofs.selection_sound. Qed.
Print Assumptions C14_selection_sound.

(* The converse holds exactly outside one shape: the first attributed field is an `ignore`, another field
   is marked positively and a third carries no attribute.  On that shape the macro rejects the struct. *)
Theorem C14_selection_partial : forall (ms : list (option bool)) (i : nat),
  select_idx None ms = Some i <-> designated ms i /\ ~ blocked ms.
Proof. exact Proofs.selection_iff. Qed.
Print Assumptions C14_selection_partial.

(* ... so the unrestricted `<->` is false of the faithful model: `(#[x(ignore)] A, #[x] A, A)`.
   The witness is a REJECTION: [select_idx] answers None, i.e. the macro emits its one-field diagnostic
   (C14_diagnostic) and no impl at all; it never selects a wrong field (C14_selection_sound). *)
Theorem C14_selection_refuted : exists (ms : list (option bool)) (i : nat),
  designated ms i /\ select_idx None ms = None.
Proof. exact Proofs.selection_complete_refuted. Qed.
Print Assumptions C14_selection_refuted.

(* A struct-level attribute re-enables unattributed fields: `#[x(forward)] struct S(#[x] A, A)`.
   Again a rejection (diagnostic, no impl emitted), not a wrong selection. *)
Theorem C14_selection_struct_attr_refuted : exists (ms : list (option bool)) (i : nat),
  designated ms i /\ select_idx None ms = Some i /\ select_idx (Some true) ms = None.
Proof. exact Proofs.selection_struct_attr_refuted. Qed.
Print Assumptions C14_selection_struct_attr_refuted.

(* What the code does, restated: exactly one field is enabled under the computed default. *)
Theorem C14_selection_exactly_one : forall (se : option bool) (ms : list (option bool)) (i : nat),
  select_idx se ms = Some i <->
  enabled_at (marks_default se ms) ms i /\ forall j, enabled_at (marks_default se ms) ms j -> j = i.
Proof. exact Proofs.select_idx_exactly_one. Qed.
Print Assumptions C14_selection_exactly_one.

(* The marks are read off the attribute syntax: no attribute / `ignore` in the list / anything else. *)
Theorem C14_mark_of_attribute : forall (allowed : list akind) (attrs : list attr) (mi : meta_info),
  get_meta_info allowed attrs = inr mi ->
  mi_enabled mi = match attrs with
                  | [] => None
                  | [AList ps] => if existsb is_ignore ps then Some false else Some true
                  | _ => Some true
                  end.
Proof. exact Proofs.get_meta_info_mark. Qed.
Print Assumptions C14_mark_of_attribute.

(* [select] on attribute syntax is [select_idx] on the marks; otherwise the one-field diagnostic. *)
Theorem C14_select_spec : forall (allowed : list akind) (sattrs : list attr) (fattrs : list (list attr))
                                 (sm : meta_info) (metas : list meta_info),
  get_meta_info allowed sattrs = inr sm ->
  collect_metas allowed fattrs = inr metas ->
  match select_idx (mi_enabled sm) (marks metas) with
  | Some i => exists info, select allowed sattrs fattrs = inr (i, info)
                           /\ nth_error (full_infos sm metas) i = Some info
  | None => select allowed sattrs fattrs = inl DOneField
  end.
Proof. exact Proofs.select_spec. Qed.
Print Assumptions C14_select_spec.

Theorem C14_diagnostic : forall (d : dkind) (sattrs : list attr) (fields : list (ty * list attr))
                                (sm : meta_info) (metas : list meta_info),
  get_meta_info (allowed_of d) sattrs = inr sm ->
  collect_metas (allowed_of d) (map snd fields) = inr metas ->
  select_idx (mi_enabled sm) (marks metas) = None ->
  derive_state d sattrs fields = inl DOneField.
Proof. exact Proofs.derive_state_diag. Qed.
Print Assumptions C14_diagnostic.

(* Without `forward`: `&self.i` / `&mut self.i`, the address of the selected field's own storage. *)
Theorem C14_direct : forall (A : Type) (field_impl : trait -> refkind -> ty -> arg -> bool -> A) (norm : ty -> ty)
                            (m : bool) (info : full_info) (i : nat) (fty : ty),
  fi_forward info = false ->
  im_field (deref_impl m info i fty) = i
  /\ im_body (deref_impl m info i fty) = addr m (EField i)
  /\ eval A field_impl norm (im_body (deref_impl m info i fty)) = Some (RArg (AAddr m i))
  /\ (m = false -> im_assoc (deref_impl m info i fty) = [AsTy fty]).
Proof. exact Proofs.deref_direct. Qed.
Print Assumptions C14_direct.

(* ... and a write through the mutable form lands in that field and in no other. *)
Theorem C14_direct_writes_through : forall (A : Type) (field_impl : trait -> refkind -> ty -> arg -> bool -> A)
                                           (norm : ty -> ty) (V : Type)
                                           (info : full_info) (i : nat) (fty : ty) (st : list V) (v : V),
  fi_forward info = false -> i < length st ->
  exists st', write A V st (eval A field_impl norm (im_body (deref_impl true info i fty))) v = Some st'
              /\ nth_error st' i = Some v
              /\ (forall j, j <> i -> nth_error st' j = nth_error st j)
              /\ read A V st' (eval A field_impl norm (im_body (deref_impl false info i fty))) = Some v.
Proof. exact Proofs.deref_mut_writes_through. Qed.
Print Assumptions C14_direct_writes_through.

(* With `forward`: precisely the field type's own impl applied to the field's address. *)
Theorem C14_forward : forall (A : Type) (field_impl : trait -> refkind -> ty -> arg -> bool -> A) (norm : ty -> ty)
                             (m : bool) (info : full_info) (i : nat) (fty : ty),
  fi_forward info = true ->
  im_field (deref_impl m info i fty) = i
  /\ eval A field_impl norm (im_body (deref_impl m info i fty))
     = Some (RImpl (field_impl (if m then TrDerefMut else TrDeref) RNo fty (AAddr m i) false)).
Proof. exact Proofs.deref_forward. Qed.
Print Assumptions C14_forward.

Theorem C14_index : forall (A : Type) (field_impl : trait -> refkind -> ty -> arg -> bool -> A) (norm : ty -> ty)
                           (m : bool) (i : nat) (fty : ty),
  im_field (index_impl m i fty) = i
  /\ eval A field_impl norm (im_body (index_impl m i fty))
     = Some (RImpl (field_impl (if m then TrIndexMut else TrIndex) RNo fty (AAddr m i) true)).
Proof. exact Proofs.index_forward. Qed.
Print Assumptions C14_index.

(* End to end for Deref, DerefMut, Index, IndexMut, IntoIterator: every emitted impl delegates to the
   designated field, and evaluates to that field's address or to the field type's own impl on it. *)
Theorem C14_delegates_to_selected : forall (A : Type) (field_impl : trait -> refkind -> ty -> arg -> bool -> A)
                                           (norm : ty -> ty) (d : dkind) (sattrs : list attr)
                                           (fields : list (ty * list attr)) (ims : list impl),
  derive_state d sattrs fields = inr ims ->
  exists sm metas i info,
    get_meta_info (allowed_of d) sattrs = inr sm
    /\ collect_metas (allowed_of d) (map snd fields) = inr metas
    /\ designated (marks metas) i
    /\ nth_error (full_infos sm metas) i = Some info
    /\ forall im, In im ims ->
         im_field im = i
         /\ eval A field_impl norm (im_body im) = Some (expected A field_impl d info (field_ty fields i) i im).
Proof. exact Proofs.derive_state_delegates. Qed.
Print Assumptions C14_delegates_to_selected.

(* IntoIterator: one impl per requested reference kind, each calling the field type's own `into_iter`
   on `f`, `&f`, `&mut f` of the same field. *)
Theorem C14_iter_impl_set : forall (sattrs : list attr) (fields : list (ty * list attr)) (ims : list impl),
  derive_state DIntoIter sattrs fields = inr ims ->
  exists i info, select allowed_iter sattrs (map snd fields) = inr (i, info)
    /\ map im_self ims = ref_types info
    /\ forall im, In im ims -> im = iter_impl (im_self im) i (field_ty fields i).
Proof. exact Proofs.iter_impl_set. Qed.
Print Assumptions C14_iter_impl_set.

Theorem C14_iter_forms : forall (A : Type) (field_impl : trait -> refkind -> ty -> arg -> bool -> A) (norm : ty -> ty)
                                (rk : refkind) (i : nat) (fty : ty),
  im_field (iter_impl rk i fty) = i /\ im_self (iter_impl rk i fty) = rk
  /\ eval A field_impl norm (im_body (iter_impl rk i fty))
     = Some (RImpl (field_impl TrIntoIter rk fty (arg_of rk i) false)).
Proof. exact Proofs.iter_forward. Qed.
Print Assumptions C14_iter_forms.

Theorem C14_iter_same_elements : forall (A : Type) (field_impl : trait -> refkind -> ty -> arg -> bool -> A)
                                        (norm : ty -> ty) (E : Type) (elems : A -> list E) (i : nat) (fty : ty),
  (forall rk, elems (field_impl TrIntoIter rk fty (arg_of rk i) false)
              = elems (field_impl TrIntoIter RNo fty (APlace i) false)) ->
  forall rk1 rk2 x1 x2,
    eval A field_impl norm (im_body (iter_impl rk1 i fty)) = Some (RImpl x1) ->
    eval A field_impl norm (im_body (iter_impl rk2 i fty)) = Some (RImpl x2) ->
    elems x1 = elems x2.
Proof. exact Proofs.iter_same_elements. Qed.
Print Assumptions C14_iter_same_elements.

(* AsRef / AsMut to a listed type that IS the field's type (equal after alias resolution; generics not
   involved, or spelled identically): the field itself, not a forwarded call. *)
Theorem C14_asref_identity : forall (A : Type) (field_impl : trait -> refkind -> ty -> arg -> bool -> A)
                                    (norm : ty -> ty) (g : generics) (m : bool) (i : nat) (fty rty : ty),
  ty_eqb (norm fty) (norm rty) = true ->
  (ty_eqb fty rty = true \/ (any_in g fty = false /\ any_in g rty = false)) ->
  eval A field_impl norm (im_body (as_impl g m i fty (TgTy rty))) = Some (RArg (AAddr m i)).
Proof. exact Proofs.as_identity. Qed.
Print Assumptions C14_asref_identity.

Theorem C14_asref_default_identity : forall (A : Type) (field_impl : trait -> refkind -> ty -> arg -> bool -> A)
                                            (norm : ty -> ty) (g : generics) (m : bool) (i : nat) (fty : ty) (t : target),
  In t (as_targets None fty) ->
  eval A field_impl norm (im_body (as_impl g m i fty t)) = Some (RArg (AAddr m i)).
Proof. exact Proofs.as_default_identity. Qed.
Print Assumptions C14_asref_default_identity.

(* `forward` and every listed type that is another type: precisely the field's own impl on `&[mut] self.i`. *)
Theorem C14_asref_forward : forall (A : Type) (field_impl : trait -> refkind -> ty -> arg -> bool -> A)
                                   (norm : ty -> ty) (g : generics) (m : bool) (i : nat) (fty : ty) (t : target),
  identity_cond norm g fty t = false ->
  eval A field_impl norm (im_body (as_impl g m i fty t))
  = Some (RImpl (field_impl (TrAs m t) RNo fty (AAddr m i) false)).
Proof. exact Proofs.as_forward. Qed.
Print Assumptions C14_asref_forward.

(* The impl set of AsRef / AsMut. *)
Theorem C14_asref_impl_set : forall (g : generics) (m : bool) (sattrs : list sattr_as)
                                    (fields : list (ty * list fattr_as)) (ims : list impl),
  derive_as g m sattrs fields = inr ims ->
  forall im, In im ims <->
    exists i fty c t, as_selected sattrs fields i fty c /\ In t (as_targets c fty) /\ im = as_impl g m i fty t.
Proof. exact Proofs.derive_as_impl_set. Qed.
Print Assumptions C14_asref_impl_set.

(* Every AsRef / AsMut impl exposes its own field: the field itself or the field's own impl, never a neighbour. *)
Theorem C14_asref_delegates : forall (A : Type) (field_impl : trait -> refkind -> ty -> arg -> bool -> A)
                                     (norm : ty -> ty) (g : generics) (m : bool) (sattrs : list sattr_as)
                                     (fields : list (ty * list fattr_as)) (ims : list impl),
  derive_as g m sattrs fields = inr ims ->
  forall im, In im ims ->
    exists i fty c t, as_selected sattrs fields i fty c /\ In t (as_targets c fty)
      /\ im_field im = i /\ im_trait im = TrAs m t
      /\ eval A field_impl norm (im_body im)
         = Some (if identity_cond norm g fty t then RArg (AAddr m i)
                 else RImpl (field_impl (TrAs m t) RNo fty (AAddr m i) false)).
Proof. exact Proofs.derive_as_delegates. Qed.
Print Assumptions C14_asref_delegates.

(* Token equality of types is equality (so it implies equality after alias resolution). *)
Theorem C14_token_equality : forall (a b : ty), ty_eqb a b = true <-> a = b.
Proof. exact Proofs.ty_eqb_spec. Qed.
Print Assumptions C14_token_equality.
